/-
Depth skeleton of marsh.c along the abstract-hook path.  Core Lean only (linked into the driver).

`marshal_one` starts with MARSH_STACKCHECK (`(flags & 0xFFFF) > JANET_RECURSION_GUARD` panics "stack overflow"); an array visits
its items with `flags + 1`; an abstract value goes
    marshal_one(flags) -> marshal_one_abstract(st, x, flags + call)          [no stack check of its own]
      -> marshal_one(st, type-name symbol, flags' + name)
      -> JanetMarshalContext context = {st, NULL, flags' + ctx, NULL, at}; at->marshal(abstract, &context)
           -> janet_marshal_janet(ctx, item) = marshal_one(st, item, ctx->flags + item)
so an item that a hook hands back to the marshaller (PEG constants, queued channel items) is visited `call + ctx + item` levels
below the abstract.  `unmarshal_one` / `unmarshal_one_abstract` / `janet_unmarshal_janet` have the same four edges with their own
increments.  The four increments of each side are regenerated from the current marsh.c (`Gen.MarshCode.mAbs…` / `uAbs…`), and
`…CtxLocal` says whether the context initialiser derives its depth from the local `flags` at all.

As in Graph.lean / Code.lean `fuel` is the remaining depth budget (`recursionGuard + 1 - depth`): `fuel = 0` is the stack
check failing, a callee that gets `flags + k` gets `fuel - k`.  Values are reduced to what matters for depth: leaves, arrays,
abstracts with the list of values their hook passes to `janet_marshal_janet`; the wire is reduced to tokens (lead + count).
An increment total of 0 (unbounded C recursion) is modelled as 1.
-/
import JanetModel.Gen.Marsh
import JanetModel.Gen.MarshCode

namespace JanetModel.Marsh.AbsDepth

/-- the increments of one side (marshal or unmarshal) -/
structure Incs where
  call : Nat
  name : Nat
  ctx : Nat
  item : Nat
  deriving Repr, DecidableEq

/-- depth of the type-name symbol below the abstract -/
def Incs.nameTotal (p : Incs) : Nat := p.call + p.name
/-- depth of a hook item below the abstract, minus one -/
def Incs.itemExtra (p : Incs) : Nat := p.call + p.ctx + p.item - 1

mutual
inductive DV where
  | leaf
  | arr (xs : DVs)
  | abs (xs : DVs)      -- an abstract whose marshal hook calls janet_marshal_janet on xs (compiled PEG: constants; channel: queue)
inductive DVs where
  | nil
  | cons (x : DV) (xs : DVs)
end

deriving instance DecidableEq for DV, DVs

def DVs.length : DVs → Nat
  | .nil => 0
  | .cons _ xs => xs.length + 1

inductive Tok where
  | nil
  | sym                  -- the type name written by marshal_one_abstract
  | arr (n : Nat)
  | abs (n : Nat)        -- LB_ABSTRACT …; the hook writes its item count
  deriving DecidableEq, Repr

mutual
/-- `marshal_one` at depth budget `fuel` -/
def marshalD (p : Incs) : Nat → DV → Option (List Tok)
  | 0, _ => none                                                      -- MARSH_STACKCHECK
  | _ + 1, .leaf => some [.nil]
  | fuel + 1, .arr xs => (marshalDs p fuel xs).map (Tok.arr xs.length :: ·)
  | fuel + 1, .abs xs =>
    if fuel + 1 ≤ p.nameTotal then none                               -- marshal_one(type name) fails its stack check
    else (marshalDs p (fuel - p.itemExtra) xs).map fun r => Tok.abs xs.length :: Tok.sym :: r
/-- the items one after the other, all at the same depth -/
def marshalDs (p : Incs) : Nat → DVs → Option (List Tok)
  | _, .nil => some []
  | f, .cons x xs =>
    match marshalD p f x with
    | none => none
    | some a =>
      match marshalDs p f xs with
      | none => none
      | some b => some (a ++ b)
end

/-- `n` values read with `g` -/
def readN (g : List Tok → Option (DV × List Tok)) : Nat → List Tok → Option (DVs × List Tok)
  | 0, ts => some (.nil, ts)
  | n + 1, ts =>
    match g ts with
    | none => none
    | some (x, r) =>
      match readN g n r with
      | none => none
      | some (xs, r') => some (.cons x xs, r')

/-- `unmarshal_one` at depth budget `fuel` -/
def unmarshalD (p : Incs) : Nat → List Tok → Option (DV × List Tok)
  | 0, _ => none                                                      -- MARSH_STACKCHECK
  | _ + 1, [] => none
  | _ + 1, .nil :: r => some (.leaf, r)
  | _ + 1, .sym :: _ => none
  | fuel + 1, .arr n :: r =>
    match readN (fun ts => unmarshalD p fuel ts) n r with
    | none => none
    | some (xs, r') => some (.arr xs, r')
  | fuel + 1, .abs n :: r =>
    if fuel + 1 ≤ p.nameTotal then none                               -- unmarshal_one(type name) fails its stack check
    else
      match r with
      | .sym :: r2 =>
        match readN (fun ts => unmarshalD p (fuel - p.itemExtra) ts) n r2 with
        | none => none
        | some (xs, r') => some (.abs xs, r')
      | _ => none
termination_by fuel _ => fuel
decreasing_by all_goals omega

-- the wire of a value, without any depth check
mutual
def enc : DV → List Tok
  | .leaf => [.nil]
  | .arr xs => Tok.arr xs.length :: encs xs
  | .abs xs => Tok.abs xs.length :: Tok.sym :: encs xs
def encs : DVs → List Tok
  | .nil => []
  | .cons x xs => enc x ++ encs xs
end

def wrap : Nat → DV → DV
  | 0, v => v
  | a + 1, v => .arr (.cons (wrap a v) .nil)

/-- `k` abstracts, each holding the next one inside `i` arrays as its only item, a leaf at the bottom: the shape
`(peg/compile ~(constant ,p))` / `(ev/give (ev/chan 1) c)` builds with `i = 0`, `~(constant [,p])` with `i = 1` -/
def chainW (i : Nat) : Nat → DV
  | 0 => .leaf
  | k + 1 => .abs (.cons (wrap i (chainW i k)) .nil)

/-- the increments of the current marsh.c (regenerated) -/
def mIncs : Incs := ⟨Gen.MarshCode.mAbsCall, Gen.MarshCode.mAbsName, Gen.MarshCode.mAbsCtx, Gen.MarshCode.mAbsItem⟩
def uIncs : Incs := ⟨Gen.MarshCode.uAbsCall, Gen.MarshCode.uAbsName, Gen.MarshCode.uAbsCtx, Gen.MarshCode.uAbsItem⟩

/-- depth budget of `janet_marshal` / `janet_unmarshal` (depth 0) -/
def topFuel : Nat := Gen.Marsh.recursionGuard + 1

end JanetModel.Marsh.AbsDepth
