/-
Lemmas about the size codec `push64` / `read64`.
-/
import JanetModel.Marsh.Size

namespace JanetModel.Marsh
open JanetModel.Gen.Marsh

theorem leDigits_length_le (fuel x : Nat) : (leDigits fuel x).length ≤ fuel := by
  induction fuel generalizing x with
  | zero => simp [leDigits]
  | succ f ih =>
    unfold leDigits
    by_cases h : x = 0
    · simp [h]
    · simp [h]; exact ih (x / 256)

theorem leDigits_pos (fuel x : Nat) (hx : x ≠ 0) : 1 ≤ (leDigits (fuel + 1) x).length := by
  unfold leDigits; simp [hx]

theorem leValue_leDigits (fuel x : Nat) (h : x < 256 ^ fuel) : leValue (leDigits fuel x) = x := by
  induction fuel generalizing x with
  | zero => simp at h; subst h; simp [leDigits, leValue]
  | succ f ih =>
    unfold leDigits
    by_cases h0 : x = 0
    · simp [h0, leValue]
    · simp only [h0, if_false, leValue]
      have : x / 256 < 256 ^ f := by
        rw [Nat.pow_succ] at h
        exact Nat.div_lt_of_lt_mul (by rw [Nat.mul_comm]; exact h)
      rw [ih (x / 256) this]
      omega

theorem read64_push64' (x : Nat) (tl : List Nat) (h : x < 18446744073709551616) :
    read64 (push64 x ++ tl) = some (x, tl) := by
  unfold push64
  simp only [push64Small]
  by_cases c : x ≤ 240
  · simp [c, read64, push64Small]
  · simp only [c, if_false, List.cons_append, read64, push64Small]
    have hl := leDigits_length_le 8 x
    have hp : 1 ≤ (leDigits 8 x).length := leDigits_pos 7 x (by omega)
    have c1 : ¬ (240 + (leDigits 8 x).length ≤ 240) := by omega
    have e : 240 + (leDigits 8 x).length - 240 = (leDigits 8 x).length := by omega
    simp only [c1, if_false, e, List.length_append]
    have c3 : ¬ ((leDigits 8 x).length + tl.length < (leDigits 8 x).length) := by omega
    simp only [c3, if_false, List.take_left', List.drop_left']
    rw [leValue_leDigits 8 x (by simpa using h)]
    have c4 : ¬ ((leDigits 8 x).length > 8) := by omega
    simp [c4]

end JanetModel.Marsh
