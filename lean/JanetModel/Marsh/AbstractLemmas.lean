/-
Round trip of the abstract-type hook protocol (Marsh/Abstract.lean): whatever a marshal hook writes through its context is
read back, call by call, by any unmarshal hook that is `WellPaired` with it; the boxed-integer and the channel hooks are.
-/
import JanetModel.Marsh.Abstract
import JanetModel.Marsh.CodeRoundtrip

namespace JanetModel.Marsh
open JanetModel.Gen.Marsh

/-- what the C types of the context calls guarantee -/
def ItemWF : AItem → Prop
  | .int i => Int32 i
  | .i64 u => u < 18446744073709551616
  | .byte _ => True
  | .bytes _ => True
  | .janet v => ValWF v

theorem Reads.i64 (u : Nat) (h : u < 18446744073709551616) : Reads R.i64 (push64 u) u := by
  intro c tl
  simp [R.i64, read64_push64' u tl h]

theorem Reads.byte (b : Nat) : Reads R.byte [b] b := by
  intro c tl
  simp [R.byte]

section
variable (T : Heap) (g : Val → W) (rg : R Val) (hg : ∀ v, ValWF v → Paired T (g v) rg v)
include hg

theorem post_paired : ∀ (post : List AItem) (prog : Prog), acceptsPost prog post = true → (∀ it ∈ post, ItemWF it) →
    Paired T (W.list (W.item g) post) (readPost rg prog) post := by
  intro post
  induction post with
  | nil =>
    intro prog h _
    cases prog <;> simp [acceptsPost] at h
    exact Paired.of_reads (Reads.pure [])
  | cons it rest ih =>
    intro prog h hwf
    have hit := hwf it (by simp)
    have hrest : ∀ x ∈ rest, ItemWF x := fun x hx => hwf x (by simp [hx])
    cases it with
    | int i =>
      cases prog <;> simp [acceptsPost] at h
      rename_i k
      simp only [W.list, W.item, readPost]
      exact Paired.prefix (Reads.int i hit) (Paired.map _ (ih (k i) h hrest))
    | i64 u =>
      cases prog <;> simp [acceptsPost] at h
      rename_i k
      simp only [W.list, W.item, readPost]
      exact Paired.prefix (Reads.i64 u hit) (Paired.map _ (ih (k u) h hrest))
    | byte b =>
      cases prog <;> simp [acceptsPost] at h
      rename_i k
      simp only [W.list, W.item, readPost]
      exact Paired.prefix (Reads.byte b) (Paired.map _ (ih (k b) h hrest))
    | bytes bs =>
      cases prog <;> simp [acceptsPost] at h
      rename_i n k
      obtain ⟨rfl, h2⟩ := h
      simp only [W.list, W.item, readPost]
      exact Paired.prefix (Reads.take bs) (Paired.map _ (ih (k bs) h2 hrest))
    | janet v =>
      cases prog <;> simp [acceptsPost] at h
      rename_i k
      simp only [W.list, W.item, readPost]
      exact Paired.seq_bind (hg v hit) (Paired.map _ (ih (k v) h hrest))

theorem pre_paired : ∀ (pre : List AItem) (prog k : Prog), acceptsPre prog pre = some k → (∀ it ∈ pre, ItemWF it) →
    Paired T (W.list (W.item g) pre) (readPre rg prog) (pre, k) := by
  intro pre
  induction pre with
  | nil =>
    intro prog k h _
    cases prog <;> simp [acceptsPre] at h
    subst h
    exact Paired.of_reads (Reads.pure _)
  | cons it rest ih =>
    intro prog k0 h hwf
    have hit := hwf it (by simp)
    have hrest : ∀ x ∈ rest, ItemWF x := fun x hx => hwf x (by simp [hx])
    cases it with
    | int i =>
      cases prog <;> simp [acceptsPre] at h
      rename_i k
      simp only [W.list, W.item, readPre]
      exact Paired.prefix (Reads.int i hit) (Paired.map (fun p => (AItem.int i :: p.1, p.2)) (ih (k i) k0 h hrest))
    | i64 u =>
      cases prog <;> simp [acceptsPre] at h
      rename_i k
      simp only [W.list, W.item, readPre]
      exact Paired.prefix (Reads.i64 u hit) (Paired.map (fun p => (AItem.i64 u :: p.1, p.2)) (ih (k u) k0 h hrest))
    | byte b =>
      cases prog <;> simp [acceptsPre] at h
      rename_i k
      simp only [W.list, W.item, readPre]
      exact Paired.prefix (Reads.byte b) (Paired.map (fun p => (AItem.byte b :: p.1, p.2)) (ih (k b) k0 h hrest))
    | bytes bs =>
      cases prog <;> simp [acceptsPre] at h
      rename_i n k
      obtain ⟨rfl, h2⟩ := h
      simp only [W.list, W.item, readPre]
      exact Paired.prefix (Reads.take bs) (Paired.map (fun p => (AItem.bytes bs :: p.1, p.2)) (ih (k bs) k0 h2 hrest))
    | janet v =>
      cases prog <;> simp [acceptsPre] at h
      rename_i k
      simp only [W.list, W.item, readPre]
      exact Paired.seq_bind (hg v hit) (Paired.map (fun p => (AItem.janet v :: p.1, p.2)) (ih (k v) k0 h hrest))

end

theorem Paired.midObj {α β : Type} {T : Heap} {w1 w2 : W} {r1 : R α} {r2 : α → R β} {a : α} {b : β}
    {mk : α → β → CObj} {id : Nat} (ho : T.objs[id]? = some (mk a b)) (h1 : Paired T w1 r1 a) (h2 : Paired T w2 (r2 a) b) :
    Paired T (W.seq w1 (W.seq (W.markObj id) w2)) (R.midObj r1 r2 mk) (.ref id) := by
  intro c bs c' tl hc hw
  obtain ⟨b1, c1, b23, ha, hb, rfl⟩ := W.seq_some hw
  obtain ⟨b2, c2, b3, hm, hw2, rfl⟩ := W.seq_some hb
  obtain ⟨rfl, rfl, rfl⟩ := W.markObj_some hm
  obtain ⟨k1, k2, k3⟩ := h1 c b1 c1 (b3 ++ tl) hc ha
  have hlt := getElem?_lt _ _ _ ho
  have hc2 : ({ c1 with n := c1.n + 1 } : Ct) ≤ T.size := ⟨hlt, k2.2.1, k2.2.2⟩
  obtain ⟨m1, m2, m3⟩ := h2 _ b3 c' tl hc2 hw2
  refine ⟨⟨by have := k1.1; have := m1.1; simp at this; omega, Nat.le_trans k1.2.1 m1.2.1, Nat.le_trans k1.2.2 m1.2.2⟩, m2, ?_⟩
  have e1 : b1 ++ ([] ++ b3) ++ tl = b1 ++ (b3 ++ tl) := by simp
  simp only [R.midObj, e1, k3]
  rw [Ct.add_slice T c c1 k1 k2]
  simp only [m3, Heap.slice]
  have hn : c1.n + 1 ≤ c'.n := by have := m1.1; simpa using this
  have s1 := slc_cons T.objs c1.n c'.n (mk a b) ho hn
  have s2 := slc_append T.objs c.n c1.n c'.n k1.1 (by omega)
  have s3 := slc_append T.defs c.d c1.d c'.d k1.2.1 m1.2.1
  have s4 := slc_append T.envs c.e c1.e c'.e k1.2.2 m1.2.2
  simp [s1, s2, s3, s4]

/-- **Hook protocol round trip.**  Whatever `pre`, MARK_SEEN, `post` a marshal hook emits, an unmarshal hook that is
`WellPaired` with it reads back exactly `pre` and `post`, pushes the abstract on the lookup table at the same reference
number, and leaves the buffer where the marshaller stopped; values passed through `janet_marshal_janet` come back with their
sharing (they go through `g` / `rg`, for which `roundtrip_code` provides the hypothesis `hg`). -/
theorem hook_paired (T : Heap) (g : Val → W) (rg : R Val) (hg : ∀ v, ValWF v → Paired T (g v) rg v)
    (prog : Prog) (pre post : List AItem) (hwp : WellPaired prog pre post)
    (hpre : ∀ it ∈ pre, ItemWF it) (hpost : ∀ it ∈ post, ItemWF it)
    (mk : List AItem → List AItem → CObj) (id : Nat) (ho : T.objs[id]? = some (mk pre post)) :
    Paired T (marshalHook g id pre post) (unmarshalHook rg prog mk) (.ref id) := by
  obtain ⟨k, hk1, hk2⟩ := hwp
  unfold marshalHook unmarshalHook
  exact Paired.midObj (mk := fun p post => mk p.1 post) (a := (pre, k)) (b := post) ho
    (pre_paired T g rg hg pre prog k hk1 hpre) (post_paired T g rg hg post k hk2 hpost)

/-! ### the two hooks of the core -/

theorem int64_wellPaired (u : Nat) : WellPaired int64Prog (int64Items u).1 (int64Items u).2 :=
  ⟨_, rfl, by simp [int64Items, acceptsPost]⟩

theorem acceptsPost_janetN (items : List Val) : acceptsPost (janetN items.length .done) (items.map .janet) = true := by
  induction items with
  | nil => simp [janetN, acceptsPost]
  | cons v vs ih => simp [janetN, acceptsPost, ih]

theorem acceptsPost_append_janets (items : List Val) (h : items.length < 2147483648) (closed : Nat) (limit : Int) :
    acceptsPost (.byte fun _ => .int fun _ => .int fun count => if count < 0 then .fail else janetN count.toNat .done)
      ([.byte closed, .int limit, .int items.length] ++ items.map .janet) = true := by
  have hc : ¬ ((items.length : Int) < 0) := by omega
  simp [acceptsPost, hc, acceptsPost_janetN]

theorem chan_wellPaired (threaded closed : Nat) (limit : Int) (items : List Val) (h : items.length < 2147483648) :
    WellPaired chanProg (chanItems threaded closed limit items).1 (chanItems threaded closed limit items).2 :=
  ⟨.byte fun _ => .int fun _ => .int fun count => if count < 0 then .fail else janetN count.toNat .done,
    by simp [chanProg, chanItems, acceptsPre], by simpa [chanItems] using acceptsPost_append_janets items h closed limit⟩

theorem acceptsPost_intN (is : List Int) (rest : List AItem) (k : Prog) (h : acceptsPost k rest = true) :
    acceptsPost (intN is.length k) (is.map .int ++ rest) = true := by
  induction is with
  | nil => simpa [intN] using h
  | cons i is ih => simpa [intN, acceptsPost] using ih

theorem peg_wellPaired (bytecode : List Int) (constants : List Val) (hb : bytecode.length ≤ 2147483647)
    (hc : constants.length < 2147483648) :
    WellPaired pegProg (pegItems bytecode constants).1 (pegItems bytecode constants).2 := by
  have h1 : ¬ (bytecode.length > 2147483647 ∨ (constants.length : Int) < 0) := by omega
  refine ⟨intN bytecode.length (janetN constants.length .done), ?_, ?_⟩
  · simp [pegProg, pegItems, acceptsPre, h1]
  · have := acceptsPost_intN bytecode (constants.map .janet) (janetN constants.length .done) (acceptsPost_janetN constants)
    simpa [pegItems] using this

end JanetModel.Marsh
