/-
Model of the early-detach path of `marshal_one_env` (marsh.c): the environment of a closure is still on the stack of
a fiber that cannot itself be marshalled; the frame's slots are written out one by one, a slot that the function's
`closure_bitset` does not mark as captured is written as nil.  Core Lean only.
The indexing expression `1 & (bitset[i >> envWordShift] >> (i & envBitMask))` is generated from the current source.
-/
import JanetModel.Gen.Marsh

namespace JanetModel.Marsh
open JanetModel.Gen.Marsh

/-- `1 & (bitset[i >> 5] >> (i & 0x1F))` -/
def slotCaptured (bitset : List Nat) (i : Nat) : Bool :=
  decide ((bitset.getD (i / 2 ^ envWordShift) 0) / 2 ^ (i % (envBitMask + 1)) % 2 = 1)

/-- `for (i = 0; i < env->length; i++) if (captured i) marshal_one(values[i]) else pushbyte(LB_NIL)`: the values written -/
def envWalkFrom {α : Type} (bitset : List Nat) (nil : α) : Nat → List α → List α
  | _, [] => []
  | i, v :: vs => (if slotCaptured bitset i then v else nil) :: envWalkFrom bitset nil (i + 1) vs

def envWalk {α : Type} (bitset : List Nat) (nil : α) (values : List α) : List α := envWalkFrom bitset nil 0 values

/-- the bitset read as one number: 32-bit words, least significant word first (`closure_bitset[slot >> 5] |= 1 << (slot & 31)`) -/
def bitsetValue : List Nat → Nat
  | [] => 0
  | w :: ws => 4294967296 * bitsetValue ws + w

end JanetModel.Marsh
