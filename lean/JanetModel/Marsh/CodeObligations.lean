/-
Per-run obligations that tie Marsh/Code.lean to the current marsh.c (regenerated Gen/MarshCode.lean).  Kept in a side
module so that the generic theorems of Props/C09 still check on a tree where one of these fails.
-/
import JanetModel.Gen.MarshCode
import JanetModel.Gen.Marsh
import JanetModel.Marsh.Abstract
import JanetModel.Marsh.AbsDepthLemmas

namespace JanetModel.Marsh.CodeObligations
open JanetModel.Gen.MarshCode JanetModel.Gen.Marsh JanetModel.Marsh

/-- The recursion-depth discipline written into `marshalC` / `marshalDef` / `marshalEnv` and `unmarshalC` / `unmarshalDef` /
`unmarshalEnvWith` (who gets `fuel` and who gets `fuel - 1`) is the one of the current marsh.c. -/
theorem code_depths_match_model :
    mIncFuncDef = 1 ∧ mIncFuncEnv = 1 ∧ mIncDefName = 1 ∧ mIncDefSource = 1 ∧ mIncDefConst = 1 ∧ mIncDefSym = 1 ∧
    mIncDefSub = 1 ∧ mIncEnvVal = 1 ∧
    uIncFuncDef = 1 ∧ uIncFuncEnv = 1 ∧ uIncDefName = 1 ∧ uIncDefSource = 1 ∧ uIncDefConst = 1 ∧ uIncDefSym = 1 ∧
    uIncDefSub = 1 ∧ uIncEnvVal = 0 := by decide

/-- **No reader is given less depth budget than its writer**: along every call edge the unmarshaller's depth increment is at
most the marshaller's.  This is the hypothesis under which "whatever can be marshalled can be unmarshalled" holds at the
recursion limit (`roundtrip_code` is stated for every unmarshal budget ≥ the marshal budget); on the tree before fix a382df0
`uIncFuncDef = 1 > mIncFuncDef = 0` and a function nested 1022 arrays deep marshalled into bytes that unmarshal rejected. -/
theorem unmarshal_never_deeper :
    uIncFuncDef ≤ mIncFuncDef ∧ uIncFuncEnv ≤ mIncFuncEnv ∧ uIncDefName ≤ mIncDefName ∧ uIncDefSource ≤ mIncDefSource ∧
    uIncDefConst ≤ mIncDefConst ∧ uIncDefSym ≤ mIncDefSym ∧ uIncDefSub ≤ mIncDefSub ∧
    uIncFuncEnv + uIncEnvVal ≤ mIncFuncEnv + mIncEnvVal := by decide

/-- `marshal_one_def` writes and `unmarshal_one_def` reads the fields of a funcdef in the same order, and it is the order
of `marshalDef` / `unmarshalDef` in Code.lean. -/
theorem def_field_order :
    defOrderMarshal.drop 1 = defOrderUnmarshal.dropLast.drop 1 ∧
    defOrderMarshal = ["seen-loop", "push-seen", "flags", "slotcount", "arity", "min_arity", "max_arity", "constants_length",
      "bytecode_length", "?HASENVS:environments_length", "?HASDEFS:defs_length", "?HASSYMBOLMAP:symbolmap_length",
      "?HASNAME:name", "?HASSOURCE:source", "constants", "symbolmap", "bytecode", "environments", "defs",
      "?HASSOURCEMAP:sourcemap", "?HASCLOBITSET:closure_bitset"] ∧
    defOrderUnmarshal.getLast? = some "verify" := by decide

/-- the optional-part flags are distinct single bits (so `hasFlag` reads exactly `flags & bit`) and do not collide with the
lead bytes that `unmarshal_one_def` / `unmarshal_one_env` test for before reading an integer -/
theorem flag_bits :
    ([fdHasSymbolMap, fdHasName, fdHasSource, fdHasDefs, fdHasEnvs, fdHasSourceMap, fdHasCloBitset].all
      fun b => (List.range 31).any fun k => b = 2 ^ k) = true ∧
    [fdHasSymbolMap, fdHasName, fdHasSource, fdHasDefs, fdHasEnvs, fdHasSourceMap, fdHasCloBitset].Nodup ∧
    lb_real ≤ lb_funcdef_ref ∧ lb_real ≤ lb_funcenv_ref ∧ lb_funcdef_ref ≠ lb_integer ∧ lb_funcenv_ref ≠ lb_integer := by decide

/-- The hook programs of Abstract.lean make the context calls that the current `int64_marshal` / `int64_unmarshal`
(inttypes.c), `janet_chanat_marshal` / `janet_chanat_unmarshal` (ev.c) and `peg_marshal` / `peg_unmarshal` (peg.c) make, in the same order (a loop counts once; the
channel's `janet_unmarshal_abstract` / `_threaded` are the two arms of one branch). -/
theorem hook_calls_match_model :
    hookCalls (int64Items 0) = int64MarshalCalls ∧ progCalls int64Prog = int64UnmarshalCalls ∧
    hookCalls (chanItems 0 0 0 [.nil]) = squeeze chanMarshalCalls ∧
    progCalls chanProg = chanUnmarshalCalls.filter (· ≠ "abstract_threaded") ∧
    hookCalls (pegItems [0] [.nil]) = pegMarshalCalls.map (fun s => if s = "size" then "int64" else s) ∧
    progCalls pegProg = pegUnmarshalCalls.map (fun s => if s = "size" then "int64" else s) := by decide

/-- **No image-only pseudo flag survives in the in-memory fiber** (tie): the bits that the current `unmarshal_one_fiber` clears
between the flags it reads and `fiber->flags = …` are exactly `JANET_FIBER_FLAG_HASENV` and `JANET_FIBER_FLAG_HASCHILD`, the
two bits `fiberMemFlags` of Code.lean clears (`Props.C09.fiber_flags_no_wire_bits`).  A fiber that keeps one of them is
marshalled with a promise ("a child follows") that `marshal_one_fiber` does not keep once `fiber->child` is NULL again. -/
theorem fiber_wire_bits_stripped : (fiberMemStripMask : Int) = fiberHasEnv + fiberHasChild := by decide

/-- **Marshalling does not change the fiber**: `JANET_STACKFRAME_HASENV` is computed for the image, not stored in the live
stack frame (a tail call clears `frame->env` and keeps `frame->flags`; the next image of the same fiber then announced an
environment that was not written).  On a tree without patches/fix-C09-fiber-frame-hasenv-stale.diff this is false. -/
theorem marshal_leaves_frames_unchanged : marshalStoresFrameHasEnv = 0 := by decide

/-- **The abstract-hook path keeps counting depth** (tie for Marsh/AbsDepth.lean and for the `g` of `marshalHook` /
`unmarshalHook`): both `JanetMarshalContext` initialisers of the current marsh.c take their `flags` field from the local depth
counter (`flags + k`; `…CtxLocal = 1`), and the four increments of each side are the ones the boundary tests and the
documentation of the model assume (abstract → type name: 1, abstract → hook item: 2).  With seed C19-8
(`{st, NULL, st->flags, NULL, at}`) `mAbsCtxLocal = 0`: every value marshalled through an abstract restarts at depth 1. -/
theorem abstract_depths_match_model :
    mAbsCtxLocal = 1 ∧ uAbsCtxLocal = 1 ∧
    mAbsCall = 0 ∧ mAbsName = 1 ∧ mAbsCtx = 1 ∧ mAbsItem = 1 ∧
    uAbsCall = 0 ∧ uAbsName = 1 ∧ uAbsCtx = 1 ∧ uAbsItem = 1 := by decide

/-- **marshal / unmarshal depth symmetry for the abstract path**: the two sides have the same increments, so
(`Props.C09.abstract_depth_symmetric`) `marshal` accepts a value nested through abstract payloads at depth `d` iff `unmarshal`
accepts its bytes at depth `d`. -/
theorem abstract_depth_increments_equal : AbsDepth.mIncs = AbsDepth.uIncs ∧ mAbsCtxLocal = uAbsCtxLocal := by decide

/-- … and in particular no reader edge is deeper than its writer edge: **every value nested through abstract payloads that the
current `marshal` writes at any depth, the current `unmarshal` reads back** (instance of `Props.C09.abstract_depth_roundtrip`
at the regenerated increments). -/
theorem abstract_nesting_roundtrips (v : AbsDepth.DV) (fm fu : Nat) (h : fm ≤ fu) (bs tl : List AbsDepth.Tok)
    (hm : AbsDepth.marshalD AbsDepth.mIncs fm v = some bs) :
    AbsDepth.unmarshalD AbsDepth.uIncs fu (bs ++ tl) = some (v, tl) :=
  AbsDepth.roundtripD AbsDepth.mIncs AbsDepth.uIncs (by decide) (by decide) v fm fu h bs tl hm

end JanetModel.Marsh.CodeObligations
