/-
Model of the abstract-type hook protocol of marsh.c: what a `JanetAbstractType.marshal` hook can do through its
`JanetMarshalContext` (`janet_marshal_int`, `_int64` / `_size`, `_byte`, `_bytes`, `_janet`, and exactly one
`janet_marshal_abstract` = MARK_SEEN), and what the matching `unmarshal` hook can do (`janet_unmarshal_int`, `_int64` /
`_size`, `_byte`, `_bytes`, `_janet`, exactly one `janet_unmarshal_abstract` = push on `st->lookup`).  Core Lean only.

  * the marshal hook is described by the items it emits before and after `janet_marshal_abstract` (`pre`, `post`);
  * the unmarshal hook is a *program* `Prog`: a tree whose nodes are the context calls and whose branches are the values
    read (so a hook may decide what to read next from what it has read: a count followed by that many values, …);
  * `readPre` / `readPost` interpret a program on the wire with the same readers as Code.lean; `janet_unmarshal_abstract`
    not called, or called twice, is a panic, as in `unmarshal_one_abstract` / `janet_unmarshal_abstract_reuse`.
The two hooks shipped with the core that the property names are given as instances: boxed 64-bit integers
(`janet_int64_marshal` / `janet_int64_unmarshal`, inttypes.c) and channels (`janet_chanat_marshal` / `_unmarshal`, ev.c).
Not modelled: the dispatch on the type name (`janet_get_abstract_type`), threaded abstracts in unsafe mode.
-/
import JanetModel.Marsh.Code

namespace JanetModel.Marsh

/-- the bytes one call appends; `g` = `marshal_one(st, x, ctx->flags + 1)` -/
def W.item (g : Val → W) : AItem → W
  | .int i => W.int i
  | .i64 u => W.ret (push64 u)
  | .byte b => W.ret [b]
  | .bytes bs => W.ret bs
  | .janet v => g v

/-- a marshal hook: calls before `janet_marshal_abstract`, MARK_SEEN, calls after -/
def marshalHook (g : Val → W) (id : Nat) (pre post : List AItem) : W :=
  W.seq (W.list (W.item g) pre) (W.seq (W.markObj id) (W.list (W.item g) post))

/-- an unmarshal hook as a program over the context calls -/
inductive Prog where
  | done                                        -- return the abstract
  | fail                                        -- janet_panic inside the hook
  | alloc (k : Prog)                            -- janet_unmarshal_abstract
  | int (k : Int → Prog)                        -- janet_unmarshal_int
  | i64 (k : Nat → Prog)                        -- janet_unmarshal_int64 / _size
  | byte (k : Nat → Prog)                       -- janet_unmarshal_byte
  | bytes (n : Nat) (k : List Nat → Prog)       -- janet_unmarshal_bytes(ctx, dest, n)
  | janet (k : Val → Prog)                      -- janet_unmarshal_janet

/-- `read64` -/
def R.i64 : R Nat := fun _ data =>
  match read64 data with
  | none => none
  | some (u, rest) => some (u, rest, Out.empty)

/-- `janet_unmarshal_byte` -/
def R.byte : R Nat := fun _ data =>
  match data with
  | [] => none
  | b :: rest => some (b, rest, Out.empty)

/-- the hook after `janet_unmarshal_abstract`: the items it reads until it returns -/
def readPost (g : R Val) : Prog → R (List AItem)
  | .done => R.pure []
  | .fail => R.fail
  | .alloc _ => R.fail                          -- "janet_unmarshal_abstract called more than once"
  | .int k => R.bind R.int fun i => R.map (readPost g (k i)) fun r => AItem.int i :: r
  | .i64 k => R.bind R.i64 fun u => R.map (readPost g (k u)) fun r => AItem.i64 u :: r
  | .byte k => R.bind R.byte fun b => R.map (readPost g (k b)) fun r => AItem.byte b :: r
  | .bytes n k => R.bind (R.take n) fun bs => R.map (readPost g (k bs)) fun r => AItem.bytes bs :: r
  | .janet k => R.bind g fun v => R.map (readPost g (k v)) fun r => AItem.janet v :: r

/-- the hook up to `janet_unmarshal_abstract`: the items read so far and the rest of the program -/
def readPre (g : R Val) : Prog → R (List AItem × Prog)
  | .done => R.fail                             -- "janet_unmarshal_abstract not called"
  | .fail => R.fail
  | .alloc k => R.pure ([], k)
  | .int k => R.bind R.int fun i => R.map (readPre g (k i)) fun p => (AItem.int i :: p.1, p.2)
  | .i64 k => R.bind R.i64 fun u => R.map (readPre g (k u)) fun p => (AItem.i64 u :: p.1, p.2)
  | .byte k => R.bind R.byte fun b => R.map (readPre g (k b)) fun p => (AItem.byte b :: p.1, p.2)
  | .bytes n k => R.bind (R.take n) fun bs => R.map (readPre g (k bs)) fun p => (AItem.bytes bs :: p.1, p.2)
  | .janet k => R.bind g fun v => R.map (readPre g (k v)) fun p => (AItem.janet v :: p.1, p.2)

/-- the new abstract is pushed on `st->lookup` between the two phases: objects created by `pre` get smaller reference
numbers, objects created by `post` larger ones -/
def R.midObj {α β : Type} (r1 : R α) (r2 : α → R β) (mk : α → β → CObj) : R Val := fun c data =>
  match r1 c data with
  | none => none
  | some (a, rest, o1) =>
    let c1 := c.add o1
    match r2 a { c1 with n := c1.n + 1 } rest with
    | none => none
    | some (b, rest', o2) =>
      some (.ref c1.n, rest', ⟨o1.objs ++ mk a b :: o2.objs, o1.defs ++ o2.defs, o1.envs ++ o2.envs⟩)

/-- running an unmarshal hook; `mk` is how the description records an abstract (`pre` and `post` items) -/
def unmarshalHook (g : R Val) (prog : Prog) (mk : List AItem → List AItem → CObj) : R Val :=
  R.midObj (readPre g prog) (fun p => readPost g p.2) (fun p post => mk p.1 post)

/-! ### does the program read exactly these items?  (pure: no wire involved) -/

/-- the program, fed the items one by one, asks for exactly their kinds (byte strings of the right length) and then returns -/
def acceptsPost : Prog → List AItem → Bool
  | .done, [] => true
  | .int k, .int i :: rest => acceptsPost (k i) rest
  | .i64 k, .i64 u :: rest => acceptsPost (k u) rest
  | .byte k, .byte b :: rest => acceptsPost (k b) rest
  | .bytes n k, .bytes bs :: rest => n == bs.length && acceptsPost (k bs) rest
  | .janet k, .janet v :: rest => acceptsPost (k v) rest
  | _, _ => false

/-- … up to `janet_unmarshal_abstract`, leaving the rest of the program -/
def acceptsPre : Prog → List AItem → Option Prog
  | .alloc k, [] => some k
  | .int k, .int i :: rest => acceptsPre (k i) rest
  | .i64 k, .i64 u :: rest => acceptsPre (k u) rest
  | .byte k, .byte b :: rest => acceptsPre (k b) rest
  | .bytes n k, .bytes bs :: rest => if n = bs.length then acceptsPre (k bs) rest else none
  | .janet k, .janet v :: rest => acceptsPre (k v) rest
  | _, _ => none

/-- a marshal hook (its items) and an unmarshal hook (its program) fit together -/
def WellPaired (prog : Prog) (pre post : List AItem) : Prop :=
  ∃ k, acceptsPre prog pre = some k ∧ acceptsPost k post = true

/-! ### the hooks of the core named by the property -/

/-- `janet_int64_marshal`: `janet_marshal_abstract(ctx, p); janet_marshal_int64(ctx, *(int64_t *)p)` -/
def int64Items (u : Nat) : List AItem × List AItem := ([], [.i64 u])

/-- `janet_int64_unmarshal` / `janet_uint64_unmarshal`: `p = janet_unmarshal_abstract(ctx, 8); *p = janet_unmarshal_int64(ctx)` -/
def int64Prog : Prog := .alloc (.i64 fun _ => .done)

/-- `count` calls of `janet_unmarshal_janet` -/
def janetN : Nat → Prog → Prog
  | 0, k => k
  | n + 1, k => .janet fun _ => janetN n k

/-- `janet_chanat_marshal`: byte is_threaded; janet_marshal_abstract; byte closed; int limit; int count; the queued items from
head to tail -/
def chanItems (threaded closed : Nat) (limit : Int) (items : List Val) : List AItem × List AItem :=
  ([.byte threaded], [.byte closed, .int limit, .int items.length] ++ items.map .janet)

/-- `janet_chanat_unmarshal`: byte is_threaded; janet_unmarshal_abstract(_threaded); byte closed; int limit; int count
(negative panics); `count` items pushed on the queue -/
def chanProg : Prog :=
  .byte fun _ => .alloc (.byte fun _ => .int fun _ => .int fun count =>
    if count < 0 then .fail else janetN count.toNat .done)

/-- `n` calls of `janet_unmarshal_int` -/
def intN : Nat → Prog → Prog
  | 0, k => k
  | n + 1, k => .int fun _ => intN n k

/-- `peg_marshal` (peg.c): size bytecode_len; int num_constants; janet_marshal_abstract; every bytecode word as an int (its
int32 view); every constant -/
def pegItems (bytecode : List Int) (constants : List Val) : List AItem × List AItem :=
  ([.i64 bytecode.length, .int constants.length], bytecode.map .int ++ constants.map .janet)

/-- the reading part of `peg_unmarshal`: size, int (as uint32: a negative count is "invalid peg size", as is a length above
INT32_MAX), janet_unmarshal_abstract, `bytecode_len` ints, `num_constants` values.  The `janet_unmarshal_ensure` pre-check and
the verification of the bytecode that follows the reads are not part of the protocol model (C10 / C12). -/
def pegProg : Prog :=
  .i64 fun len => .int fun k =>
    if len > 2147483647 ∨ k < 0 then .fail else .alloc (intN len (janetN k.toNat .done))

/-! ### shape of a hook, for comparison with the call sequence extracted from the C source -/

def itemKind : AItem → String
  | .int _ => "int"
  | .i64 _ => "int64"
  | .byte _ => "byte"
  | .bytes _ => "bytes"
  | .janet _ => "janet"

/-- the context calls of a marshal hook, in order -/
def hookCalls (p : List AItem × List AItem) : List String := p.1.map itemKind ++ ["abstract"] ++ p.2.map itemKind

/-- the context calls of an unmarshal hook when every integer read returns 1, every byte 0, every value nil -/
def progCalls : Prog → List String
  | .done => []
  | .fail => ["panic"]
  | .alloc k => "abstract" :: progCalls k
  | .int k => "int" :: progCalls (k 1)
  | .i64 k => "int64" :: progCalls (k 1)
  | .byte k => "byte" :: progCalls (k 0)
  | .bytes _ k => "bytes" :: progCalls (k [])
  | .janet k => "janet" :: progCalls (k .nil)

/-- the `janet_marshal_janet` call sites of one loop nest count once -/
def squeeze : List String → List String
  | a :: b :: rest => if a = "janet" ∧ b = "janet" then squeeze (b :: rest) else a :: squeeze (b :: rest)
  | l => l

end JanetModel.Marsh
