/-
Model of the marshal size codec: `push64` (marsh.c:169) and `read64` (marsh.c:761), used by abstract types
(int/s64, int/u64, channels, PEGs ...) through `janet_marshal_int64/size`.  Core Lean only.
`x` is a C `uint64_t` as a `Nat` (range carried as a hypothesis in the theorems).
-/
import JanetModel.Gen.Marsh

namespace JanetModel.Marsh
open JanetModel.Gen.Marsh

/-- `while (x) { bytes[++nbytes] = x & 0xFF; x >>= 8; }` : little-endian digits, no leading zero.
Fuel = maximal number of iterations (8 for a `uint64_t`). -/
def leDigits : Nat → Nat → List Nat
  | 0, _ => []
  | fuel + 1, x => if x = 0 then [] else (x % 256) :: leDigits fuel (x / 256)

/-- `push64`: one byte up to `push64Small` (0xF0), otherwise `0xF0 + nbytes` followed by `nbytes` little-endian bytes. -/
def push64 (x : Nat) : List Nat :=
  if x ≤ push64Small then [x]
  else
    let ds := leDigits 8 x
    (push64Small + ds.length) :: ds

/-- `for (i = nbytes; i > 0; i--) ret = (ret << 8) + data[i];` -/
def leValue : List Nat → Nat
  | [] => 0
  | d :: ds => d + 256 * leValue ds

/-- `read64`: `none` = `MARSH_EOS` panic or "invalid 64 bit integer". -/
def read64 : List Nat → Option (Nat × List Nat)
  | [] => none
  | b :: rest =>
    if b ≤ push64Small then some (b, rest)
    else
      let nbytes := b - push64Small
      if nbytes > 8 then none
      else if rest.length < nbytes then none
      else some (leValue (rest.take nbytes), rest.drop nbytes)

end JanetModel.Marsh
