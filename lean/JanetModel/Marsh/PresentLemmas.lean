/-
Existence of the reference-order presentation: whatever `marshal_one` with an explicit seen table (`presentOne`, heap in
arbitrary address order) writes, the description it computes on the way is accepted by `marshalOne` (Graph.lean, heap in
reference-number order) and gives the same bytes and the same counter.
-/
import JanetModel.Marsh.Present
import JanetModel.Marsh.GraphLemmas

namespace JanetModel.Marsh
open JanetModel.Gen.Marsh

/-- every number in `st->seen` is below `st->nextid` -/
def SeenBelow (s : Seen) (n : Nat) : Prop := ∀ p ∈ s, p.2 < n

theorem SeenBelow.mono {s : Seen} {n m : Nat} (h : SeenBelow s n) (hm : n ≤ m) : SeenBelow s m :=
  fun p hp => Nat.lt_of_lt_of_le (h p hp) hm

theorem SeenBelow.cons {s : Seen} {n : Nat} (a id : Nat) (h : SeenBelow s n) (hid : id < n) : SeenBelow ((a, id) :: s) n := by
  intro p hp
  rcases List.mem_cons.1 hp with rfl | hp
  · exact hid
  · exact h p hp

theorem Seen.find_lt {s : Seen} {n a id : Nat} (h : SeenBelow s n) (hf : s.find a = some id) : id < n := by
  unfold Seen.find at hf
  cases hq : s.find? (fun p => p.1 == a) with
  | none => simp [hq] at hf
  | some p =>
    simp only [hq, Option.map_some, Option.some.injEq] at hf
    subst hf
    exact h p (List.mem_of_find?_eq_some hq)

/-- what a call of `presentOne` / of the children loop guarantees about its result -/
def SoundOne (fuel : Nat) (r : List Nat × Val × List Obj × Seen) (s : Seen) (n : Nat) : Prop :=
  SeenBelow r.2.2.2 (n + r.2.2.1.length) ∧
  ∀ P Q : List Obj, P.length = n → marshalOne fuel (P ++ r.2.2.1 ++ Q) n r.2.1 = some (r.1, n + r.2.2.1.length)

def SoundList (fuel : Nat) (r : List Nat × List Val × List Obj × Seen) (n len : Nat) : Prop :=
  SeenBelow r.2.2.2 (n + r.2.2.1.length) ∧ r.2.1.length = len ∧
  ∀ P Q : List Obj, P.length = n →
    marshalList (fun a b => marshalOne fuel (P ++ r.2.2.1 ++ Q) a b) n r.2.1 = some (r.1, n + r.2.2.1.length)

theorem presentList_sound (fuel : Nat) (g : Seen → Nat → Val → PResult Val)
    (hg : ∀ s n x r, g s n x = some r → SeenBelow s n → SoundOne fuel r s n) :
    ∀ (vs : List Val) (s : Seen) (n : Nat) r, presentList g s n vs = some r → SeenBelow s n → SoundList fuel r n vs.length := by
  intro vs
  induction vs with
  | nil =>
    intro s n r h hs
    simp only [presentList, Option.some.injEq] at h
    subst h
    exact ⟨by simpa using hs, rfl, fun P Q _ => by simp [marshalList]⟩
  | cons v vs ih =>
    intro s n r h hs
    simp only [presentList] at h
    cases h1 : g s n v with
    | none => simp [h1] at h
    | some r1 =>
      obtain ⟨b1, v', o1, s1⟩ := r1
      simp only [h1] at h
      cases h2 : presentList g s1 (n + o1.length) vs with
      | none => simp [h2] at h
      | some r2 =>
        obtain ⟨b2, vs', o2, s2⟩ := r2
        simp only [h2, Option.some.injEq] at h
        subst h
        obtain ⟨k1, k2⟩ := hg s n v _ h1 hs
        obtain ⟨j1, j2, j3⟩ := ih s1 (n + o1.length) _ h2 k1
        simp only at k1 k2 j1 j2 j3 ⊢
        refine ⟨by simpa [List.length_append, Nat.add_assoc] using j1, by simp [j2], ?_⟩
        intro P Q hP
        have e1 : P ++ (o1 ++ o2) ++ Q = P ++ o1 ++ (o2 ++ Q) := by simp [List.append_assoc]
        have e2 : P ++ (o1 ++ o2) ++ Q = (P ++ o1) ++ o2 ++ Q := by simp [List.append_assoc]
        have m1 := k2 P (o2 ++ Q) hP
        have m2 := j3 (P ++ o1) Q (by simp [hP])
        rw [← e1] at m1
        rw [← e2] at m2
        simp only [marshalList, m1, m2, List.length_append, Nat.add_assoc]

theorem getElem_mid (P Q : List Obj) (o : Obj) : (P ++ o :: Q)[P.length]? = some o := by simp

/-- a container: `wrapMark` on the description succeeds with the bytes and counter of `presentBox` -/
theorem presentBox_sound (fuel : Nat) (pre : Bool) (a : Nat) (s : Seen) (n len : Nat)
    (children : Seen → Nat → PResult (List Val)) (mk : List Val → Obj)
    (hch : ∀ s0 m r, children s0 m = some r → SeenBelow s0 m → SoundList fuel r m len)
    (r : List Nat × Val × List Obj × Seen) (h : presentBox pre a s n children mk = some r) (hs : SeenBelow s n) :
    SeenBelow r.2.2.2 (n + r.2.2.1.length) ∧
    ∃ id vs, r.2.1 = .ref id ∧ ¬ id < n ∧ vs.length = len ∧
      ∀ P Q : List Obj, P.length = n → (P ++ r.2.2.1 ++ Q)[id]? = some (mk vs) ∧
        wrapMark pre n id (fun m => marshalList (fun a b => marshalOne fuel (P ++ r.2.2.1 ++ Q) a b) m vs) = some (r.1, n + r.2.2.1.length) := by
  unfold presentBox at h
  cases pre with
  | true =>
    simp only [if_true] at h
    cases hc : children ((a, n) :: s) (n + 1) with
    | none => simp [hc] at h
    | some rc =>
      obtain ⟨bs, vs, objs, s'⟩ := rc
      simp only [hc, Option.some.injEq] at h
      subst h
      obtain ⟨k1, k2, k3⟩ := hch _ _ _ hc (SeenBelow.cons a n (hs.mono (Nat.le_succ n)) (Nat.lt_succ_self n))
      simp only at k1 k2 k3 ⊢
      refine ⟨by simpa [Nat.add_assoc, Nat.add_comm 1] using k1, n, vs, rfl, Nat.lt_irrefl n, k2, ?_⟩
      intro P Q hP
      have e : P ++ mk vs :: objs ++ Q = (P ++ [mk vs]) ++ objs ++ Q := by simp [List.append_assoc]
      refine ⟨by rw [← hP]; simp, ?_⟩
      have m := k3 (P ++ [mk vs]) Q (by simp [hP])
      rw [← e] at m
      simp only [wrapMark, markSeen, if_true, m, List.length_cons, Nat.add_assoc, Nat.add_comm 1]
  | false =>
    simp only [Bool.false_eq_true, if_false] at h
    cases hc : children s n with
    | none => simp [hc] at h
    | some rc =>
      obtain ⟨bs, vs, objs, s'⟩ := rc
      simp only [hc, Option.some.injEq] at h
      subst h
      obtain ⟨k1, k2, k3⟩ := hch _ _ _ hc hs
      simp only at k1 k2 k3 ⊢
      refine ⟨?_, n + objs.length, vs, rfl, by omega, k2, ?_⟩
      · simp only [List.length_append, List.length_cons, List.length_nil]
        exact SeenBelow.cons a _ (k1.mono (by omega)) (by omega)
      · intro P Q hP
        have e : P ++ (objs ++ [mk vs]) ++ Q = P ++ objs ++ (mk vs :: Q) := by simp [List.append_assoc]
        refine ⟨?_, ?_⟩
        · rw [e]
          have : (P ++ objs).length = n + objs.length := by simp [hP]
          rw [← this]
          exact getElem_mid (P ++ objs) Q (mk vs)
        · have m := k3 P (mk vs :: Q) hP
          rw [← e] at m
          simp only [wrapMark, Bool.false_eq_true, if_false, m, markSeen, if_true, List.length_append, List.length_cons,
            List.length_nil, Nat.add_assoc]

theorem flatKV_pairUp : ∀ (n : Nat) (l : List Val), l.length = 2 * n → flatKV (pairUp l) = l
  | 0, l, h => by
    have : l = [] := List.eq_nil_of_length_eq_zero (by omega)
    subst this; rfl
  | n + 1, l, h => by
    match l, h with
    | k :: v :: rest, h =>
      simp only [pairUp, flatKV]
      rw [flatKV_pairUp n rest (by simp at h; omega)]

theorem pairUp_length : ∀ (n : Nat) (l : List Val), l.length = 2 * n → (pairUp l).length = n
  | 0, l, h => by
    have : l = [] := List.eq_nil_of_length_eq_zero (by omega)
    subst this; rfl
  | n + 1, l, h => by
    match l, h with
    | k :: v :: rest, h =>
      simp only [pairUp, List.length_cons]
      rw [pairUp_length n rest (by simp at h; omega)]

/-- a table / struct rebuilt from as many renamed children as the original has: same prototype flag, same number of pairs,
children = the renamed list -/
theorem rebuild_kv (hasProto : Bool) (k : Nat) (vs : List Val) (h : vs.length = (if hasProto then 1 else 0) + 2 * k) :
    (splitProto hasProto vs).1.isSome = hasProto ∧ (pairUp (splitProto hasProto vs).2).length = k ∧
    kvChildren (splitProto hasProto vs).1 (pairUp (splitProto hasProto vs).2) = vs := by
  cases hasProto with
  | false =>
    simp only [Bool.false_eq_true, if_false, Nat.zero_add] at h
    simp [splitProto, kvChildren, pairUp_length k vs h, flatKV_pairUp k vs h]
  | true =>
    simp only [if_true] at h
    match vs, h with
    | [], h => simp at h; omega
    | p :: rest, h =>
      have h' : rest.length = 2 * k := by simp at h; omega
      simp [splitProto, kvChildren, pairUp_length k rest h', flatKV_pairUp k rest h']

theorem withHeader_some {hd : List Nat} {r : PResult Val} {q : List Nat × Val × List Obj × Seen} (h : withHeader hd r = some q) :
    ∃ p, r = some p ∧ q = (hd ++ p.1, p.2) := by
  unfold withHeader at h
  cases r with
  | none => simp at h
  | some p => exact ⟨p, rfl, by simpa using h.symm⟩

/-- **Existence of the reference-order presentation.**  For a heap in any order, any seen table whose numbers are below
`nextid`, any depth budget: when `marshal_one` (with the seen table) writes `bs` for `x`, the description `(x', objs)` it
computes is accepted by `marshalOne` wherever `objs` sits at offset `n` of a heap, with the same bytes and the same counter. -/
theorem presentOne_sound (G : List Obj) : ∀ (fuel : Nat) (s : Seen) (n : Nat) (x : Val) r,
    presentOne fuel G s n x = some r → SeenBelow s n → SoundOne fuel r s n := by
  intro fuel
  induction fuel with
  | zero => intro s n x r h; simp [presentOne] at h
  | succ f ih =>
    intro s n x r h hs
    have hch : ∀ (l : List Val) s0 m rr, presentList (fun s m v => presentOne f G s m v) s0 m l = some rr → SeenBelow s0 m →
        SoundList f rr m l.length := fun l s0 m rr hh hb => presentList_sound f _ (fun s n x r h hs => ih s n x r h hs) l s0 m rr hh hb
    cases x with
    | nil =>
      simp only [presentOne, Option.some.injEq] at h; subst h
      exact ⟨by simpa using hs, fun P Q _ => by simp [marshalOne]⟩
    | bool b =>
      simp only [presentOne, Option.some.injEq] at h; subst h
      exact ⟨by simpa using hs, fun P Q _ => by simp [marshalOne]⟩
    | int i =>
      simp only [presentOne, Option.some.injEq] at h; subst h
      exact ⟨by simpa using hs, fun P Q _ => by simp [marshalOne]⟩
    | ref a =>
      simp only [presentOne] at h
      cases hf : s.find a with
      | some id =>
        simp only [hf, Option.some.injEq] at h; subst h
        have hlt := Seen.find_lt hs hf
        exact ⟨by simpa using hs, fun P Q _ => by simp [marshalOne, hlt]⟩
      | none =>
        simp only [hf] at h
        cases hg : G[a]? with
        | none => simp [hg] at h
        | some o =>
          simp only [hg] at h
          have leaf : ∀ (o' : Obj) (bs : List Nat), r = (bs, .ref n, [o'], (a, n) :: s) →
              (∀ H : List Obj, H[n]? = some o' → marshalOne (f + 1) H n (.ref n) = some (bs, n + 1)) → SoundOne (f + 1) r s n := by
            intro o' bs hr hm
            subst hr
            refine ⟨SeenBelow.cons a n (hs.mono (Nat.le_succ n)) (Nat.lt_succ_self n), ?_⟩
            intro P Q hP
            exact hm _ (by rw [← hP]; simp)
          cases o with
          | reg name =>
            simp only [Option.some.injEq] at h
            exact leaf _ _ h.symm (fun H hH => by simp [marshalOne, hH, markSeen])
          | real bs =>
            simp only [Option.some.injEq] at h
            exact leaf _ _ h.symm (fun H hH => by cases hp : markPreNumber <;> simp [marshalOne, hH, wrapMark, markSeen, hp])
          | str k bs =>
            simp only [Option.some.injEq] at h
            exact leaf _ _ h.symm (fun H hH => by cases hp : markPreString <;> simp [marshalOne, hH, wrapMark, markSeen, hp])
          | buffer bs =>
            simp only [Option.some.injEq] at h
            exact leaf _ _ h.symm (fun H hH => by cases hp : markPreBuffer <;> simp [marshalOne, hH, wrapMark, markSeen, hp])
          | array weak items =>
            obtain ⟨p, hp, rfl⟩ := withHeader_some h
            obtain ⟨k1, id, vs, hx, hid, hlen, k2⟩ := presentBox_sound f markPreArray a s n items.length _ _ (hch items) p hp hs
            refine ⟨k1, ?_⟩
            intro P Q hP
            obtain ⟨m1, m2⟩ := k2 P Q hP
            simp only at hx m1 m2 ⊢
            rw [hx]
            simp only [marshalOne, hid, if_false, m1, m2, hlen]
            simp
          | tuple flag items =>
            obtain ⟨p, hp, rfl⟩ := withHeader_some h
            obtain ⟨k1, id, vs, hx, hid, hlen, k2⟩ := presentBox_sound f markPreTuple a s n items.length _ _ (hch items) p hp hs
            refine ⟨k1, ?_⟩
            intro P Q hP
            obtain ⟨m1, m2⟩ := k2 P Q hP
            simp only at hx m1 m2 ⊢
            rw [hx]
            simp only [marshalOne, hid, if_false, m1, m2, hlen]
            simp
          | table weak proto kvs =>
            obtain ⟨p, hp, rfl⟩ := withHeader_some h
            obtain ⟨k1, id, vs, hx, hid, hlen, k2⟩ := presentBox_sound f markPreTable a s n (kvChildren proto kvs).length _ _
              (hch (kvChildren proto kvs)) p hp hs
            rw [kvChildren_length] at hlen
            obtain ⟨q1, q2, q3⟩ := rebuild_kv proto.isSome kvs.length vs hlen
            refine ⟨k1, ?_⟩
            intro P Q hP
            obtain ⟨m1, m2⟩ := k2 P Q hP
            simp only at hx m1 m2 ⊢
            rw [hx]
            simp only [marshalOne, hid, if_false, m1, mkTable, q1, q2, q3, m2]
            simp
          | struct proto kvs =>
            obtain ⟨p, hp, rfl⟩ := withHeader_some h
            obtain ⟨k1, id, vs, hx, hid, hlen, k2⟩ := presentBox_sound f markPreStruct a s n (kvChildren proto kvs).length _ _
              (hch (kvChildren proto kvs)) p hp hs
            rw [kvChildren_length] at hlen
            obtain ⟨q1, q2, q3⟩ := rebuild_kv proto.isSome kvs.length vs hlen
            refine ⟨k1, ?_⟩
            intro P Q hP
            obtain ⟨m1, m2⟩ := k2 P Q hP
            simp only at hx m1 m2 ⊢
            rw [hx]
            simp only [marshalOne, hid, if_false, m1, mkStruct, q1, q2, q3, m2]
            simp

/-- entry point: the presentation of `(G, x)` is accepted by `janet_marshal`'s model from a fresh state, every object of it is
numbered (`H.length`), and the bytes are the bytes the seen-table marshaller wrote -/
theorem present_sound (G : List Obj) (x : Val) (bs : List Nat) (x' : Val) (H : List Obj)
    (h : present G x = some (bs, x', H)) : marshalOne topFuel H 0 x' = some (bs, H.length) := by
  unfold present at h
  cases hp : presentOne topFuel G [] 0 x with
  | none => simp [hp] at h
  | some r =>
    simp only [hp, Option.map_some, Option.some.injEq, Prod.mk.injEq] at h
    obtain ⟨rfl, rfl, rfl⟩ := h
    have := (presentOne_sound G topFuel [] 0 x r hp (by intro p hp; cases hp)).2 [] [] rfl
    simpa using this

end JanetModel.Marsh
