/-
The round trip on value graphs with code objects: `unmarshalC` / `unmarshalDef` / `unmarshalEnvWith` invert
`marshalC` / `marshalDef` / `marshalEnv`, with sharing of objects, funcdefs and environments preserved, for every
unmarshal depth budget that is at least the marshal budget.
-/
import JanetModel.Marsh.CodeLemmas

namespace JanetModel.Marsh
open JanetModel.Gen.Marsh JanetModel.Gen.MarshCode

/-! ### well-formedness (what the C types and `janet_def_addflags` guarantee) -/

def SymWF (s : SymEntry) : Prop := Int32 s.birth ∧ Int32 s.death ∧ Int32 s.slot ∧ ValWF s.sym

/-- every line delta and column of the source map fits `pushint` -/
def SmWF : Int → List (Int × Int) → Prop
  | _, [] => True
  | cur, (line, col) :: rest => Int32 (line - cur) ∧ Int32 col ∧ SmWF line rest

def OptWF (flags : Int) (bit : Int) (v : Option Val) : Prop :=
  if hasFlag flags bit then ∃ x, v = some x ∧ ValWF x else v = none

structure DefWF (vf : Def → Bool) (df : Def) : Prop where
  flags : Int32 df.flags
  slotcount : df.slotcount ≤ maxSlotcount
  arity : df.arity < 2147483648
  minArity : df.minArity < 2147483648
  maxArity : df.maxArity < 2147483648
  nconst : df.constants.length < 2147483648
  nbytecode : df.bytecode.length < 2147483648
  nenvs : df.environments.length < 2147483648
  ndefs : df.defs.length < 2147483648
  nsyms : df.symbolmap.length < 2147483648
  name : OptWF df.flags fdHasName df.name
  source : OptWF df.flags fdHasSource df.source
  constants : ∀ v ∈ df.constants, ValWF v
  symbolmap : ∀ s ∈ df.symbolmap, SymWF s
  symflag : hasFlag df.flags fdHasSymbolMap = false → df.symbolmap = []
  bytecode : ∀ w ∈ df.bytecode, w < 4294967296
  environments : ∀ i ∈ df.environments, Int32 i ∧ -1 ≤ i
  envflag : hasFlag df.flags fdHasEnvs = false → df.environments = []
  defflag : hasFlag df.flags fdHasDefs = false → df.defs = []
  sourcemap : if hasFlag df.flags fdHasSourceMap then df.sourcemap.length = df.bytecode.length ∧ SmWF 0 df.sourcemap
              else df.sourcemap = []
  bitset : if hasFlag df.flags fdHasCloBitset then df.bitset.length = (df.slotcount + 31) / 32 ∧ ∀ w ∈ df.bitset, w < 4294967296
           else df.bitset = []
  verify : vf df = true

/-- the frame chain of a fiber: frame at `stack` with its slots up to `stacktop`, then the previous frame -/
def FramesWF : Nat → Nat → List Frame → Prop
  | stack, _, [] => stack = 0
  | stack, stacktop, fr :: rest =>
    0 < stack ∧ stack < 2147483648 ∧ 0 ≤ fr.flags ∧ fr.flags < 2147483648 ∧ fr.prevframe + frameSize ≤ stack ∧
    fr.pcdiff < 2147483648 ∧ ValWF fr.func ∧ fr.slots.length = stacktop - stack ∧ (∀ v ∈ fr.slots, ValWF v) ∧
    FramesWF fr.prevframe (stack - frameSize) rest

structure FiberWF (flags : Int) (frame stackstart stacktop maxstack : Nat) (frames : List Frame)
    (env child : Option Val) (last : Val) : Prop where
  hflags : 0 ≤ flags ∧ flags < 2147483648
  noEnvBit : hasFlag flags fiberHasEnv = false
  noChildBit : hasFlag flags fiberHasChild = false
  setup : frame + frameSize ≤ stackstart ∧ stackstart ≤ stacktop ∧ stacktop ≤ maxstack ∧ maxstack < 2147483648
  hframes : FramesWF frame (stackstart - frameSize) frames
  henv : ∀ v, env = some v → ValWF v
  hchild : ∀ v, child = some v → ValWF v
  hlast : ValWF last

def CObjWF : CObj → Prop
  | .data o => ObjWF o
  | .func _ envs => envs.length ≤ maxFuncEnvs
  | .abs _ _ _ => True
  | .fiber flags frame stackstart stacktop maxstack frames env child last =>
    FiberWF flags frame stackstart stacktop maxstack frames env child last

def EnvWF : Env → Prop
  | .detached values => 0 < values.length ∧ values.length < 2147483648 ∧ ∀ v ∈ values, ValWF v
  | .onstack offset length fiber => 0 < offset ∧ offset < 2147483648 ∧ length < 2147483648 ∧ ValWF fiber

structure HeapCWF (vf : Def → Bool) (T : Heap) : Prop where
  nobjs : T.objs.length < 2147483648
  ndefs : T.defs.length < 2147483648
  nenvs : T.envs.length < 2147483648
  objs : ∀ o ∈ T.objs, CObjWF o
  defs : ∀ d ∈ T.defs, DefWF vf d
  envs : ∀ e ∈ T.envs, EnvWF e

theorem mem_of_getElem? {α : Type} (l : List α) (a : Nat) (o : α) (h : l[a]? = some o) : o ∈ l := by
  have hlt := getElem?_lt l a o h
  rw [List.getElem?_eq_getElem hlt] at h
  have := List.getElem_mem hlt
  rw [Option.some.inj h] at this; exact this

/-! ### pure readers -/

theorem readU32s_u32s (ws : List Nat) (h : ∀ w ∈ ws, w < 4294967296) (tl : List Nat) :
    readU32s ws.length (u32s ws ++ tl) = some (ws, tl) := by
  induction ws with
  | nil => simp [readU32s, u32s]
  | cons w ws ih =>
    have hw : w < 4294967296 := h w (by simp)
    have := ih (fun x hx => h x (by simp [hx]))
    simp only [u32s, u32le, List.length_cons, List.cons_append, List.nil_append, readU32s, this]
    have e : w % 256 + w / 256 % 256 * 256 + w / 65536 % 256 * 65536 + w / 16777216 % 256 * 16777216 = w := by omega
    rw [e]

theorem Reads.u32s (ws : List Nat) (h : ∀ w ∈ ws, w < 4294967296) : Reads (R.u32s ws.length) (u32s ws) ws := by
  intro c tl
  simp [R.u32s, readU32s_u32s ws h tl]

theorem Reads.optNat (flags bit : Int) (len : Nat) (h1 : len < 2147483648) (h2 : hasFlag flags bit = false → len = 0) :
    Reads (R.optNat flags bit) (optLen flags bit len) len := by
  unfold R.optNat optLen
  cases hf : hasFlag flags bit
  · simp only [Bool.false_eq_true, if_false]
    rw [h2 hf]; exact Reads.pure 0
  · simp only [if_true]; exact Reads.nat len h1

theorem Reads.envInt (i : Int) (h : Int32 i ∧ -1 ≤ i) :
    Reads (R.bind R.int fun inh => R.bind (R.guard (decide (-1 ≤ inh))) fun _ => R.pure inh) (pushint i) i := by
  intro c tl
  have hd : decide (-1 ≤ i) = true := by simp [h.2]
  simp [R.bind, R.int, readint_pushint i tl h.1.1 h.1.2, R.guard, hd, R.pure, Out.append, Out.empty]

theorem Reads.envInts (is : List Int) (h : ∀ i ∈ is, Int32 i ∧ -1 ≤ i) :
    Reads (R.listN (R.bind R.int fun inh => R.bind (R.guard (decide (-1 ≤ inh))) fun _ => R.pure inh) is.length) (intsBytes is) is := by
  induction is with
  | nil => exact Reads.pure []
  | cons i is ih =>
    simp only [List.length_cons, R.listN, intsBytes]
    exact Reads.bind (Reads.envInt i (h i (by simp))) (Reads.map _ (ih fun j hj => h j (by simp [hj])))

theorem Reads.sourcemap : ∀ (sm : List (Int × Int)) (cur : Int), SmWF cur sm → Reads (R.sourcemap sm.length cur) (smBytes cur sm) sm := by
  intro sm
  induction sm with
  | nil => intro cur _; exact Reads.pure []
  | cons p rest ih =>
    intro cur h
    obtain ⟨line, col⟩ := p
    obtain ⟨h1, h2, h3⟩ := h
    simp only [List.length_cons, R.sourcemap, smBytes]
    refine Reads.bind (Reads.int _ h1) (Reads.bind (Reads.int _ h2) ?_)
    have e : cur + (line - cur) = line := by omega
    rw [e]
    exact Reads.map _ (ih line h3)

/-! ### every value is at least one byte (the DOS check of containers never fires on honest input) -/

theorem W.lead_pos {lead : Nat} {w : W} {c : Ct} {bs : List Nat} {c' : Ct} (h : W.lead lead w c = some (bs, c')) :
    1 ≤ bs.length := by
  unfold W.lead at h
  cases hw : w c with
  | none => simp [hw] at h
  | some p =>
    obtain ⟨b, c2⟩ := p
    simp only [hw, Option.some.injEq, Prod.mk.injEq] at h
    rw [← h.1]; simp

theorem marshalC_pos (fuel : Nat) (T : Heap) (x : Val) (c : Ct) (bs : List Nat) (c' : Ct)
    (h : marshalC fuel T x c = some (bs, c')) : 1 ≤ bs.length := by
  cases fuel with
  | zero => simp [marshalC, W.fail] at h
  | succ f =>
    cases x with
    | nil => simp [marshalC, W.ret] at h; rw [← h.1]; simp
    | bool b => simp [marshalC, W.ret] at h; rw [← h.1]; simp
    | int i => simp [marshalC, W.int, W.ret] at h; rw [← h.1]; exact pushint_ne_nil i
    | ref id =>
      simp only [marshalC] at h
      by_cases hlt : id < c.n
      · simp only [hlt, if_true, Option.some.injEq, Prod.mk.injEq] at h
        rw [← h.1]; simp
      · simp only [hlt, if_false] at h
        cases ho : T.objs[id]? with
        | none => simp [ho] at h
        | some o =>
          simp only [ho] at h
          cases o with
          | data d => cases d <;> exact W.lead_pos h
          | func di envs => exact W.lead_pos h
          | abs _ _ _ => simp [W.fail] at h
          | fiber _ _ _ _ _ _ _ _ _ =>
            obtain ⟨b1, c1, b2, _, hb, rfl⟩ := W.seq_some h
            have := W.lead_pos hb
            simp; omega

/-! ### the induction -/

def OneOKC (T : Heap) (vf : Def → Bool) (fm : Nat) : Prop :=
  ∀ fu, fm ≤ fu → ∀ x, ValWF x → Paired T (fun c => marshalC fm T x c) (fun c d => unmarshalC fu vf c d) x

def DefOKC (T : Heap) (vf : Def → Bool) (fm : Nat) : Prop :=
  ∀ fu, fm ≤ fu → ∀ di, Paired T (fun c => marshalDef fm T di c) (fun c d => unmarshalDef fu vf c d) di

def EnvOKC (T : Heap) (vf : Def → Bool) (fm : Nat) : Prop :=
  ∀ fu, fm ≤ fu → ∀ ei, Paired T (fun c => marshalEnv fm T ei c) (unmarshalEnvWith (fun c d => unmarshalC fu vf c d)) ei

theorem list_pos (f : Nat) (T : Heap) (xs : List Val) (c : Ct) (bs : List Nat) (c' : Ct)
    (h : W.list (fun v c => marshalC f T v c) xs c = some (bs, c')) : xs.length ≤ bs.length :=
  W.list_length _ (fun x c bs c' hx => marshalC_pos f T x c bs c' hx) xs c bs c' h

theorem wrapMark_len {pre : Bool} {id : Nat} {w : W} {len : Nat} (hl : ∀ c bs c', w c = some (bs, c') → len ≤ bs.length) :
    ∀ c bs c', W.wrapMark pre id w c = some (bs, c') → len ≤ bs.length := by
  intro c bs c' h
  cases pre
  · simp only [W.wrapMark, Bool.false_eq_true, if_false] at h
    obtain ⟨b1, c1, b2, ha, hb, rfl⟩ := W.seq_some h
    obtain ⟨_, rfl, _⟩ := W.markObj_some hb
    simpa using hl c b1 c1 ha
  · simp only [W.wrapMark, if_true] at h
    obtain ⟨b1, c1, b2, ha, hb, rfl⟩ := W.seq_some h
    obtain ⟨_, rfl, _⟩ := W.markObj_some ha
    simpa using hl c1 b2 c' hb

attribute [local simp] lb_real lb_nil lb_false lb_true lb_integer lb_string lb_symbol lb_keyword lb_array lb_tuple lb_table
  lb_table_proto lb_struct lb_buffer lb_registry lb_reference lb_struct_proto lb_table_weakk lb_table_weakv lb_table_weakkv
  lb_table_weakk_proto lb_table_weakv_proto lb_table_weakkv_proto lb_array_weak lb_function lb_funcdef_ref lb_funcenv_ref lb_fiber

section
variable (T : Heap) (vf : Def → Bool)

theorem children_paired (fm fu : Nat) (ih : OneOKC T vf fm) (hfu : fm ≤ fu) (xs : List Val) (hx : ∀ v ∈ xs, ValWF v) :
    Paired T (W.list (fun v c => marshalC fm T v c) xs) (R.listN (fun c d => unmarshalC fu vf c d) xs.length) xs :=
  Paired.list xs fun v hv => ih fu hfu v (hx v hv)

/-- strings, symbols, keywords, buffers -/
theorem leaf_paired (fu id : Nat) (lead : Nat) (pre1 : Bool) (bs : List Nat) (mk : List Nat → CObj) (hlen : bs.length < 2147483648)
    (ho : T.objs[id]? = some (mk bs))
    (e : ∀ c rest, unmarshalC (fu + 1) vf c (lead :: rest) =
      R.preObj (R.bind R.nat fun len => R.take len) mk c rest)
    (hpre : pre1 = true) :
    Paired T (W.lead lead (W.wrapMark pre1 id (W.ret (pushint bs.length ++ bs)))) (fun c d => unmarshalC (fu + 1) vf c d) (.ref id) := by
  subst hpre
  refine Paired.lead lead e ?_
  simp only [W.wrapMark, if_true]
  exact Paired.preObj (mk := mk) (a := bs) ho (Paired.of_reads (Reads.bind (Reads.nat _ hlen) (Reads.take bs)))


/-! ### funcdef body -/

theorem defHeader_seq (df : Def) (w : W) :
    W.seq (W.ret (defHeader df)) w =
      W.seq (W.ret (pushint df.flags)) (W.seq (W.ret (pushint df.slotcount)) (W.seq (W.ret (pushint df.arity))
      (W.seq (W.ret (pushint df.minArity)) (W.seq (W.ret (pushint df.maxArity)) (W.seq (W.ret (pushint df.constants.length))
      (W.seq (W.ret (pushint df.bytecode.length)) (W.seq (W.ret (optLen df.flags fdHasEnvs df.environments.length))
      (W.seq (W.ret (optLen df.flags fdHasDefs df.defs.length)) (W.seq (W.ret (optLen df.flags fdHasSymbolMap df.symbolmap.length)) w))))))))) := by
  simp only [defHeader, W.ret_append_seq]

theorem opt_paired (g : Val → W) (rg : R Val) (hg : ∀ v, ValWF v → Paired T (g v) rg v) (flags bit : Int) (v : Option Val)
    (h : OptWF flags bit v) :
    Paired T (if hasFlag flags bit then W.optVal g v else W.ret [])
      (if hasFlag flags bit then R.map rg some else R.pure none) v := by
  unfold OptWF at h
  cases hf : hasFlag flags bit
  · simp only [hf, Bool.false_eq_true, if_false] at h ⊢
    rw [h]; exact Paired.of_reads (Reads.pure none)
  · simp only [hf, if_true] at h ⊢
    obtain ⟨x, rfl, hx⟩ := h
    simp only [W.optVal]
    exact Paired.map some (hg x hx)

theorem sym_paired (g : Val → W) (rg : R Val) (hg : ∀ v, ValWF v → Paired T (g v) rg v) (s : SymEntry) (h : SymWF s) :
    Paired T (W.seq (W.ret (pushint s.birth ++ (pushint s.death ++ pushint s.slot))) (g s.sym))
      (R.bind R.int fun b => R.bind R.int fun dth => R.bind R.int fun sl => R.map rg fun sym => SymEntry.mk b dth sl sym) s := by
  rw [W.ret_append_seq, W.ret_append_seq]
  refine Paired.prefix (Reads.int _ h.1) ?_
  refine Paired.prefix (Reads.int _ h.2.1) ?_
  refine Paired.prefix (Reads.int _ h.2.2.1) ?_
  exact Paired.map (fun sym => SymEntry.mk s.birth s.death s.slot sym) (hg s.sym h.2.2.2)

theorem defBody_paired (g : Val → W) (gd : Nat → W) (rg : R Val) (rgd : R Nat) (df : Def)
    (hg : ∀ v, ValWF v → Paired T (g v) rg v) (hgd : ∀ di, Paired T (gd di) rgd di) (h : DefWF vf df) :
    Paired T (marshalDefBody g gd df) (unmarshalDefBody rg rgd vf) df := by
  unfold marshalDefBody unmarshalDefBody
  rw [defHeader_seq]
  have hsc : df.slotcount < 2147483648 := by have := h.slotcount; simp only [maxSlotcount] at this; omega
  refine Paired.prefix (Reads.int _ h.flags) ?_
  refine Paired.prefix (Reads.nat _ hsc) ?_
  refine Paired.skip (Reads.guard _ (by simpa using h.slotcount)) ?_
  refine Paired.prefix (Reads.nat _ h.arity) ?_
  refine Paired.prefix (Reads.nat _ h.minArity) ?_
  refine Paired.prefix (Reads.nat _ h.maxArity) ?_
  refine Paired.prefix (Reads.nat _ h.nconst) ?_
  refine Paired.prefix (Reads.nat _ h.nbytecode) ?_
  refine Paired.prefix (Reads.optNat _ _ _ h.nenvs (fun hf => by rw [h.envflag hf]; rfl)) ?_
  refine Paired.prefix (Reads.optNat _ _ _ h.ndefs (fun hf => by rw [h.defflag hf]; rfl)) ?_
  refine Paired.prefix (Reads.optNat _ _ _ h.nsyms (fun hf => by rw [h.symflag hf]; rfl)) ?_
  refine Paired.seq_bind (opt_paired T g rg hg _ _ _ h.name) ?_
  refine Paired.seq_bind (opt_paired T g rg hg _ _ _ h.source) ?_
  refine Paired.seq_bind (Paired.list df.constants fun v hv => hg v (h.constants v hv)) ?_
  refine Paired.seq_bind (a := df.symbolmap) ?_ ?_
  · cases hf : hasFlag df.flags fdHasSymbolMap
    · simp only [Bool.false_eq_true, if_false]
      rw [h.symflag hf]; exact Paired.of_reads (Reads.pure [])
    · simp only [if_true]
      exact Paired.list df.symbolmap fun s hs => sym_paired T g rg hg s (h.symbolmap s hs)
  refine Paired.prefix (Reads.u32s _ h.bytecode) ?_
  refine Paired.prefix (a := df.environments) ?_ ?_
  · cases hf : hasFlag df.flags fdHasEnvs
    · simp only [Bool.false_eq_true, if_false]
      rw [h.envflag hf]; exact Reads.pure []
    · simp only [if_true]
      exact Reads.envInts _ h.environments
  refine Paired.seq_bind (a := df.defs) ?_ ?_
  · cases hf : hasFlag df.flags fdHasDefs
    · simp only [Bool.false_eq_true, if_false]
      rw [h.defflag hf]; exact Paired.of_reads (Reads.pure [])
    · simp only [if_true]
      exact Paired.list df.defs fun di _ => hgd di
  refine Paired.prefix (a := df.sourcemap) ?_ ?_
  · have hs := h.sourcemap
    cases hf : hasFlag df.flags fdHasSourceMap
    · simp only [hf, Bool.false_eq_true, if_false] at hs ⊢
      rw [hs]; exact Reads.pure []
    · simp only [hf, if_true] at hs ⊢
      rw [← hs.1]; exact Reads.sourcemap _ 0 hs.2
  refine Paired.bind_tail (a := df.bitset) (Paired.of_reads ?_) ?_
  · have hs := h.bitset
    cases hf : hasFlag df.flags fdHasCloBitset
    · simp only [hf, Bool.false_eq_true, if_false] at hs ⊢
      rw [hs]; exact Reads.pure []
    · simp only [hf, if_true] at hs ⊢
      rw [← hs.1]; exact Reads.u32s _ hs.2
  · intro c tl
    have hv := h.verify
    simp [R.bind, R.guard, hv, R.pure, Out.append, Out.empty]


/-! ### containers -/

theorem seq_len {w1 w2 : W} {len : Nat} (hl : ∀ c bs c', w2 c = some (bs, c') → len ≤ bs.length) :
    ∀ c bs c', W.seq w1 w2 c = some (bs, c') → len ≤ bs.length := by
  intro c bs c' h
  obtain ⟨b1, c1, b2, _, hb, rfl⟩ := W.seq_some h
  have := hl c1 b2 c' hb
  simp; omega

/-- arrays (and, with `kvChildren`, tables and structs): length, DOS check, numbering point, children -/
theorem seq_container_paired (fm fu id : Nat) (ih : OneOKC T vf fm) (hfu : fm ≤ fu) (lead : Nat) (pre1 pre2 : Bool)
    (hpre : pre1 = pre2) (len : Nat) (count : Nat → Nat) (xs : List Val) (hlen : len < 2147483648) (hle : len ≤ xs.length)
    (hcount : count len = xs.length) (hx : ∀ v ∈ xs, ValWF v) (mk : List Val → CObj) (ho : T.objs[id]? = some (mk xs))
    (e : ∀ c rest, unmarshalC (fu + 1) vf c (lead :: rest) =
      (R.bind R.nat fun n => R.bind (R.dos n) fun _ =>
        R.wrapObj pre2 (R.listN (fun c d => unmarshalC fu vf c d) (count n)) mk) c rest) :
    Paired T (W.lead lead (W.seq (W.int len) (W.wrapMark pre1 id (W.list (fun v c => marshalC fm T v c) xs))))
      (fun c d => unmarshalC (fu + 1) vf c d) (.ref id) := by
  refine Paired.lead lead e ?_
  refine Paired.prefix (Reads.nat _ hlen) ?_
  refine Paired.dos _ (wrapMark_len fun c bs c' h => Nat.le_trans hle (list_pos fm T xs c bs c' h)) ?_
  simp only [hcount]
  exact Paired.wrapObj pre1 pre2 hpre ho (children_paired T vf fm fu ih hfu xs hx)

theorem tuple_paired (fm fu id : Nat) (ih : OneOKC T vf fm) (hfu : fm ≤ fu) (flag : Int) (items : List Val)
    (hf : Int32 flag) (hlen : items.length < 2147483648) (hx : ∀ v ∈ items, ValWF v)
    (ho : T.objs[id]? = some (.data (.tuple flag items))) :
    Paired T (W.lead lb_tuple (W.seq (W.int items.length) (W.seq (W.int flag)
        (W.wrapMark markPreTuple id (W.list (fun v c => marshalC fm T v c) items)))))
      (fun c d => unmarshalC (fu + 1) vf c d) (.ref id) := by
  have e : ∀ c rest, unmarshalC (fu + 1) vf c (lb_tuple :: rest) =
      (R.bind R.nat fun len => R.bind (R.dos len) fun _ => R.bind R.int fun flag =>
        R.wrapObj pushPreTuple (R.listN (fun c d => unmarshalC fu vf c d) len) (fun items => .data (.tuple flag items))) c rest := by
    intro c rest; simp [unmarshalC]
  refine Paired.lead _ e ?_
  refine Paired.prefix (Reads.nat _ hlen) ?_
  refine Paired.dos _ (seq_len (wrapMark_len (list_pos fm T items))) ?_
  refine Paired.prefix (Reads.int _ hf) ?_
  exact Paired.wrapObj markPreTuple pushPreTuple rfl (mk := fun items => .data (.tuple flag items)) ho
    (children_paired T vf fm fu ih hfu items hx)

theorem func_paired (fm fu id di : Nat) (envs : List Nat) (ihd : DefOKC T vf fm) (ihe : EnvOKC T vf fm) (hfu : fm ≤ fu)
    (hl : envs.length ≤ maxFuncEnvs) (ho : T.objs[id]? = some (.func di envs)) :
    Paired T (W.lead lb_function (W.seq (W.int envs.length) (W.seq (W.markObj id)
        (W.seq (fun c => marshalDef fm T di c) (W.list (fun ei c => marshalEnv fm T ei c) envs)))))
      (fun c d => unmarshalC (fu + 1) vf c d) (.ref id) := by
  have e : ∀ c rest, unmarshalC (fu + 1) vf c (lb_function :: rest) =
      (R.bind R.nat fun len => R.bind (R.guard (len ≤ maxFuncEnvs)) fun _ =>
        R.preObj (R.bind (fun c d => unmarshalDef fu vf c d) fun di =>
                  R.map (R.listN (unmarshalEnvWith (fun c d => unmarshalC fu vf c d)) len) fun envs => (di, envs))
          (fun p => .func p.1 p.2)) c rest := by
    intro c rest; simp [unmarshalC]
  refine Paired.lead _ e ?_
  have hl' : envs.length < 2147483648 := by simp only [maxFuncEnvs] at hl; omega
  refine Paired.prefix (Reads.nat _ hl') ?_
  refine Paired.skip (Reads.guard _ (by simpa using hl)) ?_
  exact Paired.preObj (mk := fun p => CObj.func p.1 p.2) (a := (di, envs)) ho
    (Paired.seq_bind (ihd fu hfu di) (Paired.map _ (Paired.list envs fun ei _ => ihe fu hfu ei)))

/-! ### environments and funcdefs -/

theorem env_nonref (g : R Val) (c : Ct) (lead : Nat) (rest : List Nat) (h : lead ≠ lb_funcenv_ref) :
    unmarshalEnvWith g c (lead :: rest) =
      R.preEnv (R.bind R.nat fun offset => R.bind R.nat fun length =>
        if offset > 0 then R.map g fun fiber => Env.onstack offset length fiber
        else R.bind (R.guard (length ≠ 0)) fun _ => R.map (R.listN g length) fun vs => Env.detached vs) c (lead :: rest) := by
  simp [unmarshalEnvWith, h]

theorem pushint_head_cons (i : Int) (hi : Int32 i) (more : List Nat) :
    ∃ lead rest, pushint i ++ more = lead :: rest ∧ lead ≠ lb_funcenv_ref ∧ lead ≠ lb_funcdef_ref := by
  obtain ⟨lead, rest, he, hl⟩ := pushint_head i hi
  refine ⟨lead, rest ++ more, by rw [he]; rfl, ?_, ?_⟩ <;> rcases hl with hl | hl <;> simp at hl ⊢ <;> omega

theorem env_paired (fm fu : Nat) (hT : HeapCWF vf T) (ih : OneOKC T vf fm) (hfu : fm + 1 ≤ fu) (ei : Nat) :
    Paired T (fun c => marshalEnv (fm + 1) T ei c) (unmarshalEnvWith (fun c d => unmarshalC fu vf c d)) ei := by
  intro c bs c' tl hc hw
  simp only [marshalEnv] at hw
  by_cases hlt : ei < c.e
  · simp only [hlt, if_true, Option.some.injEq, Prod.mk.injEq] at hw
    obtain ⟨rfl, rfl⟩ := hw
    refine ⟨Ct.le_refl _, hc, ?_⟩
    have hi : Int32 (ei : Int) := by have := hT.nenvs; have := hc.2.2; simp only [Heap.size] at this; constructor <;> omega
    simp [unmarshalEnvWith, readint_pushint (ei : Int) tl hi.1 hi.2, hlt, Heap.slice_self]
  · simp only [hlt, if_false] at hw
    cases ho : T.envs[ei]? with
    | none => simp [ho] at hw
    | some ev =>
      have hwf := hT.envs ev (mem_of_getElem? _ _ _ ho)
      simp only [ho] at hw
      cases ev with
      | detached values =>
        simp only [] at hw
        obtain ⟨h0, h1, h2⟩ := hwf
        have P : Paired T (W.seq (W.markEnv ei) (W.seq (W.ret (pushint 0 ++ pushint values.length))
              (W.list (fun v c => marshalC fm T v c) values)))
            (R.preEnv (R.bind R.nat fun offset => R.bind R.nat fun length =>
              if offset > 0 then R.map (fun c d => unmarshalC fu vf c d) fun fiber => Env.onstack offset length fiber
              else R.bind (R.guard (length ≠ 0)) fun _ => R.map (R.listN (fun c d => unmarshalC fu vf c d) length) fun vs => Env.detached vs)) ei := by
          refine Paired.preEnv ho ?_
          rw [W.ret_append_seq]
          refine Paired.prefix (Reads.nat 0 (by omega)) ?_
          refine Paired.prefix (Reads.nat _ h1) ?_
          simp only [Nat.lt_irrefl, gt_iff_lt, if_false]
          refine Paired.skip (Reads.guard _ (by have hne : values.length ≠ 0 := by omega
                                                simpa using hne)) ?_
          exact Paired.map _ (children_paired T vf fm fu ih (by omega) values h2)
        obtain ⟨k1, k2, k3⟩ := P c bs c' tl hc hw
        refine ⟨k1, k2, ?_⟩
        obtain ⟨b1, c1, b2, ha, hb, rfl⟩ := W.seq_some hw
        obtain ⟨_, rfl, _⟩ := W.markEnv_some ha
        obtain ⟨b3, c3, b4, ha', _, rfl⟩ := W.seq_some hb
        simp only [W.ret, Option.some.injEq, Prod.mk.injEq] at ha'
        obtain ⟨rfl, _⟩ := ha'
        obtain ⟨lead, rest, he, hne, _⟩ := pushint_head_cons 0 (by constructor <;> omega) (pushint values.length ++ b4 ++ tl)
        have e2 : [] ++ (pushint 0 ++ pushint (values.length : Int) ++ b4) ++ tl = lead :: rest := by
          rw [← he]; simp
        rw [e2, env_nonref _ c lead rest hne, ← e2]; exact k3
      | onstack offset length fiber =>
        simp only [] at hw
        obtain ⟨h0, h1, h2, h3⟩ := hwf
        have P : Paired T (W.seq (W.markEnv ei) (W.seq (W.ret (pushint offset ++ pushint length)) (fun c => marshalC fm T fiber c)))
            (R.preEnv (R.bind R.nat fun offset => R.bind R.nat fun length =>
              if offset > 0 then R.map (fun c d => unmarshalC fu vf c d) fun fiber => Env.onstack offset length fiber
              else R.bind (R.guard (length ≠ 0)) fun _ => R.map (R.listN (fun c d => unmarshalC fu vf c d) length) fun vs => Env.detached vs)) ei := by
          refine Paired.preEnv ho ?_
          rw [W.ret_append_seq]
          refine Paired.prefix (Reads.nat _ h1) ?_
          refine Paired.prefix (Reads.nat _ h2) ?_
          simp only [gt_iff_lt, h0, if_true]
          exact Paired.map _ (ih fu (by omega) fiber h3)
        obtain ⟨k1, k2, k3⟩ := P c bs c' tl hc hw
        refine ⟨k1, k2, ?_⟩
        obtain ⟨b1, c1, b2, ha, hb, rfl⟩ := W.seq_some hw
        obtain ⟨_, rfl, _⟩ := W.markEnv_some ha
        obtain ⟨b3, c3, b4, ha', _, rfl⟩ := W.seq_some hb
        simp only [W.ret, Option.some.injEq, Prod.mk.injEq] at ha'
        obtain ⟨rfl, _⟩ := ha'
        obtain ⟨lead, rest, he, hne, _⟩ := pushint_head_cons offset (by constructor <;> omega) (pushint length ++ b4 ++ tl)
        have e2 : [] ++ (pushint (offset : Int) ++ pushint (length : Int) ++ b4) ++ tl = lead :: rest := by
          rw [← he]; simp
        rw [e2, env_nonref _ c lead rest hne, ← e2]; exact k3

theorem def_nonref (fu : Nat) (c : Ct) (lead : Nat) (rest : List Nat) (h : lead ≠ lb_funcdef_ref) :
    unmarshalDef (fu + 1) vf c (lead :: rest) =
      R.preDef (unmarshalDefBody (fun c d => unmarshalC fu vf c d) (fun c d => unmarshalDef fu vf c d) vf) c (lead :: rest) := by
  simp [unmarshalDef, h]

theorem def_paired (fm fu : Nat) (hT : HeapCWF vf T) (ih : OneOKC T vf fm) (ihd : DefOKC T vf fm) (hfu : fm ≤ fu) (di : Nat) :
    Paired T (fun c => marshalDef (fm + 1) T di c) (fun c d => unmarshalDef (fu + 1) vf c d) di := by
  intro c bs c' tl hc hw
  simp only [marshalDef] at hw
  by_cases hlt : di < c.d
  · simp only [hlt, if_true, Option.some.injEq, Prod.mk.injEq] at hw
    obtain ⟨rfl, rfl⟩ := hw
    refine ⟨Ct.le_refl _, hc, ?_⟩
    have hi : Int32 (di : Int) := by have := hT.ndefs; have := hc.2.1; simp only [Heap.size] at this; constructor <;> omega
    simp [unmarshalDef, readint_pushint (di : Int) tl hi.1 hi.2, hlt, Heap.slice_self]
  · simp only [hlt, if_false] at hw
    cases ho : T.defs[di]? with
    | none => simp [ho] at hw
    | some df =>
      have hwf := hT.defs df (mem_of_getElem? _ _ _ ho)
      simp only [ho] at hw
      have P := Paired.preDef ho (defBody_paired T vf (fun v c => marshalC fm T v c) (fun sd c => marshalDef fm T sd c)
        (fun c d => unmarshalC fu vf c d) (fun c d => unmarshalDef fu vf c d) df (fun v hv => ih fu hfu v hv) (fun sd => ihd fu hfu sd) hwf)
      obtain ⟨k1, k2, k3⟩ := P c bs c' tl hc hw
      refine ⟨k1, k2, ?_⟩
      obtain ⟨b1, c1, b2, ha, hb, rfl⟩ := W.seq_some hw
      obtain ⟨_, rfl, _⟩ := W.markDef_some ha
      unfold marshalDefBody at hb
      obtain ⟨b3, c3, b4, ha', _, rfl⟩ := W.seq_some hb
      simp only [W.ret, Option.some.injEq, Prod.mk.injEq] at ha'
      obtain ⟨rfl, _⟩ := ha'
      obtain ⟨lead, rest, he, _, hne⟩ := pushint_head_cons df.flags hwf.flags
        ((pushint df.slotcount ++ (pushint df.arity ++ (pushint df.minArity ++ (pushint df.maxArity ++
          (pushint df.constants.length ++ (pushint df.bytecode.length ++
            (optLen df.flags fdHasEnvs df.environments.length ++ (optLen df.flags fdHasDefs df.defs.length ++
              optLen df.flags fdHasSymbolMap df.symbolmap.length)))))))) ++ b4 ++ tl)
      have e2 : [] ++ (defHeader df ++ b4) ++ tl = lead :: rest := by
        rw [← he]; simp [defHeader]
      show unmarshalDef (fu + 1) vf c ([] ++ (defHeader df ++ b4) ++ tl) = _
      rw [e2, def_nonref vf fu c lead rest hne, ← e2]; exact k3


/-! ### fibers -/

theorem frames_paired (g : Val → W) (ge : Nat → W) (rg : R Val) (rge : R Nat)
    (hg : ∀ v, ValWF v → Paired T (g v) rg v) (hge : ∀ ei, Paired T (ge ei) rge ei) :
    ∀ (frames : List Frame) (lf stack stacktop : Nat), stack < lf → FramesWF stack stacktop frames →
      Paired T (W.list (marshalFrame g ge) frames) (readFrames rg rge lf stack stacktop) frames := by
  intro frames
  induction frames with
  | nil =>
    intro lf stack stacktop hlf h
    have h0 : stack = 0 := h
    subst h0
    obtain ⟨lf', rfl⟩ : ∃ k, lf = k + 1 := ⟨lf - 1, by omega⟩
    simp only [readFrames, if_true, W.list]
    exact Paired.of_reads (Reads.pure [])
  | cons fr rest ih =>
    intro lf stack stacktop hlf h
    obtain ⟨h1, h2, h3, h4, h5, h6, h7, h8, h9, h10⟩ := h
    obtain ⟨lf', rfl⟩ : ∃ k, lf = k + 1 := ⟨lf - 1, by omega⟩
    have hs : ¬ stack = 0 := by omega
    simp only [readFrames, hs, if_false, W.list, marshalFrame]
    rw [W.seq_assoc, W.seq_assoc, W.seq_assoc, W.ret_append_seq, W.ret_append_seq]
    have hfl : Int32 (frameWireFlags fr) := by
      unfold frameWireFlags; cases fr.env <;> simp [Int32] <;> omega
    simp only [frameSize] at h5
    refine Paired.prefix (Reads.int _ hfl) ?_
    refine Paired.prefix (Reads.nat _ (by omega)) ?_
    refine Paired.prefix (Reads.nat _ h6) ?_
    refine Paired.seq_bind (hg fr.func h7) ?_
    refine Paired.seq_bind (a := fr.env) ?_ ?_
    · unfold frameWireFlags
      cases he : fr.env with
      | none =>
        have : ¬ fr.flags < 0 := by omega
        simp only [Option.isSome_none, Bool.false_eq_true, if_false, this]
        exact Paired.of_reads (Reads.pure none)
      | some ei =>
        have : fr.flags - 2147483648 < 0 := by omega
        simp only [Option.isSome_some, if_true, this]
        exact Paired.map some (hge ei)
    refine Paired.skip (Reads.guard _ (by simp [frameSize]; omega)) ?_
    refine Paired.seq_bind (a := fr.slots) ?_ ?_
    · rw [← h8]; exact Paired.list fr.slots fun v hv => hg v (h9 v hv)
    refine Paired.value_eq (Paired.map _ (ih lf' fr.prevframe (stack - frameSize) (by omega) h10)) ?_
    congr 1
    cases fr with
    | mk fl pf pc fn ev sl =>
      simp only [frameWireFlags, Frame.mk.injEq, and_true]
      simp only at h3 h4
      cases ev <;> simp <;> omega

theorem hasFlag_wire (flags : Int) (env child : Option Val) (h0 : 0 ≤ flags ∧ flags < 2147483648)
    (h1 : hasFlag flags fiberHasEnv = false) (h2 : hasFlag flags fiberHasChild = false) :
    hasFlag (fiberWireFlags flags env child) fiberHasEnv = env.isSome ∧
    hasFlag (fiberWireFlags flags env child) fiberHasChild = child.isSome ∧
    Int32 (fiberWireFlags flags env child) ∧
    fiberWireFlags flags env child - (if env.isSome then fiberHasEnv else 0) - (if child.isSome then fiberHasChild else 0) = flags := by
  simp only [hasFlag, fiberHasEnv, fiberHasChild, decide_eq_false_iff_not] at h1 h2
  cases env <;> cases child <;>
    simp only [fiberWireFlags, hasFlag, fiberHasEnv, fiberHasChild, Option.isSome_none, Option.isSome_some, Bool.false_eq_true,
      if_false, if_true, decide_eq_true_eq, decide_eq_false_iff_not, Int32] <;>
    refine ⟨?_, ?_, ?_, ?_⟩ <;> omega

theorem fiberBody_paired (g : Val → W) (ge : Nat → W) (rg : R Val) (rge : R Nat)
    (hg : ∀ v, ValWF v → Paired T (g v) rg v) (hge : ∀ ei, Paired T (ge ei) rge ei)
    (flags : Int) (frame stackstart stacktop maxstack : Nat) (frames : List Frame) (env child : Option Val) (last : Val)
    (h : FiberWF flags frame stackstart stacktop maxstack frames env child last) :
    Paired T (marshalFiberBody g ge flags frame stackstart stacktop maxstack frames env child last)
      (unmarshalFiberBody rg rge) (.fiber flags frame stackstart stacktop maxstack frames env child last) := by
  obtain ⟨w1, w2, w3, w4⟩ := hasFlag_wire flags env child h.hflags h.noEnvBit h.noChildBit
  obtain ⟨s1, s2, s3, s4⟩ := h.setup
  simp only [frameSize] at s1
  unfold marshalFiberBody unmarshalFiberBody
  rw [W.ret_append_seq, W.ret_append_seq, W.ret_append_seq, W.ret_append_seq]
  refine Paired.prefix (Reads.int _ w3) ?_
  refine Paired.prefix (Reads.nat _ (by omega)) ?_
  refine Paired.prefix (Reads.nat _ (by omega)) ?_
  refine Paired.prefix (Reads.nat _ (by omega)) ?_
  refine Paired.prefix (Reads.nat _ s4) ?_
  refine Paired.skip (Reads.guard _ (by simp [frameSize]; omega)) ?_
  refine Paired.seq_bind (frames_paired T g ge rg rge hg hge frames (frame + 1) frame (stackstart - frameSize) (by omega) h.hframes) ?_
  refine Paired.seq_bind (a := env) ?_ ?_
  · rw [w1]
    cases env with
    | none => simp only [Option.isSome_none, Bool.false_eq_true, if_false]; exact Paired.of_reads (Reads.pure none)
    | some v => simp only [Option.isSome_some, if_true]; exact Paired.map some (hg v (h.henv v rfl))
  refine Paired.seq_bind (a := child) ?_ ?_
  · rw [w2]
    cases child with
    | none => simp only [Option.isSome_none, Bool.false_eq_true, if_false]; exact Paired.of_reads (Reads.pure none)
    | some v => simp only [Option.isSome_some, if_true]; exact Paired.map some (hg v (h.hchild v rfl))
  refine Paired.value_eq (Paired.map _ (hg last h.hlast)) ?_
  unfold fiberMemFlags
  rw [w1, w2, w4]

/-! ### one value -/

theorem one_paired (fm fu : Nat) (hT : HeapCWF vf T) (ih : OneOKC T vf fm) (ihd : DefOKC T vf fm) (ihe : EnvOKC T vf fm)
    (ihp : ∀ k, k < fm → OneOKC T vf k ∧ EnvOKC T vf k)
    (hfu : fm ≤ fu) (x : Val) (hx : ValWF x) :
    Paired T (fun c => marshalC (fm + 1) T x c) (fun c d => unmarshalC (fu + 1) vf c d) x := by
  intro c bs c' tl hc hw
  cases x with
  | nil =>
    simp [marshalC, W.ret] at hw
    obtain ⟨rfl, rfl⟩ := hw
    exact ⟨Ct.le_refl _, hc, by simp [unmarshalC, Heap.slice_self]⟩
  | bool b =>
    simp [marshalC, W.ret] at hw
    obtain ⟨rfl, rfl⟩ := hw
    refine ⟨Ct.le_refl _, hc, ?_⟩
    cases b <;> simp [unmarshalC, Heap.slice_self]
  | int i =>
    simp [marshalC, W.int, W.ret] at hw
    obtain ⟨rfl, rfl⟩ := hw
    obtain ⟨lead, rest, he, hl⟩ := pushint_head i hx
    have hr := readint_pushint i tl hx.1 hx.2
    refine ⟨Ct.le_refl _, hc, ?_⟩
    rw [he] at hr ⊢
    simp only [List.cons_append] at hr ⊢
    simp [unmarshalC, hl, R.map, R.int, hr, Heap.slice_self]
  | ref id =>
    simp only [marshalC] at hw
    by_cases hlt : id < c.n
    · simp only [hlt, if_true, Option.some.injEq, Prod.mk.injEq] at hw
      obtain ⟨rfl, rfl⟩ := hw
      refine ⟨Ct.le_refl _, hc, ?_⟩
      have hid : id < 2147483648 := by have := hT.nobjs; have := hc.1; simp only [Heap.size] at this; omega
      simp [unmarshalC, readnat_pushint id tl hid, hlt, Heap.slice_self]
    · simp only [hlt, if_false] at hw
      cases ho : T.objs[id]? with
      | none => simp [ho] at hw
      | some o =>
        have hwf := hT.objs o (mem_of_getElem? _ _ _ ho)
        simp only [ho] at hw
        cases o with
        | func di envs =>
          exact func_paired T vf fm fu id di envs ihd ihe hfu hwf ho c bs c' tl hc hw
        | abs _ _ _ => simp [W.fail] at hw
        | fiber flags frame stackstart stacktop maxstack frames env child last =>
          have hwf' : FiberWF flags frame stackstart stacktop maxstack frames env child last := hwf
          cases fm with
          | zero =>
            obtain ⟨b1, c1, b2, _, hb, _⟩ := W.seq_some hw
            simp [W.lead, W.fail] at hb
          | succ f =>
            obtain ⟨fu', rfl⟩ : ∃ k, fu = k + 1 := ⟨fu - 1, by omega⟩
            obtain ⟨ih1, ih3⟩ := ihp f (by omega)
            have e : ∀ c rest, unmarshalC (fu' + 1 + 1) vf c (lb_fiber :: rest) =
                R.preObj (unmarshalFiberBody (fun c d => unmarshalC fu' vf c d) (unmarshalEnvWith (fun c d => unmarshalC fu' vf c d))) _root_.id c rest := by
              intro c rest; simp [unmarshalC]
            have P : Paired T (W.seq (W.markObj id) (W.lead lb_fiber (marshalFiberBody (fun v c => marshalC f T v c) (fun ei c => marshalEnv f T ei c)
                  flags frame stackstart stacktop maxstack frames env child last)))
                (fun c d => unmarshalC (fu' + 1 + 1) vf c d) (.ref id) := by
              rw [W.markObj_lead_comm]
              refine Paired.lead _ e ?_
              exact Paired.preObj (mk := _root_.id) ho
                (fiberBody_paired T _ _ _ _ (fun v hv => ih1 fu' (by omega) v hv) (fun ei => ih3 fu' (by omega) ei)
                  flags frame stackstart stacktop maxstack frames env child last hwf')
            exact P c bs c' tl hc hw
        | data d =>
          cases d with
          | real rb =>
            have h8 : rb.length = 8 := hwf
            have e : ∀ c rest, unmarshalC (fu + 1) vf c (lb_real :: rest) =
                R.preObj (R.take 8) (fun bs => .data (.real bs)) c rest := by
              intro c rest; simp [unmarshalC]
            have P : Paired T (W.lead lb_real (W.wrapMark markPreNumber id (W.ret rb))) (fun c d => unmarshalC (fu + 1) vf c d) (.ref id) := by
              refine Paired.lead _ e ?_
              simp only [W.wrapMark, markPreNumber, if_true]
              have hr := Reads.take rb
              rw [h8] at hr
              exact Paired.preObj (mk := fun bs => CObj.data (.real bs)) (a := rb) ho (Paired.of_reads hr)
            exact P c bs c' tl hc hw
          | str k sb =>
            have hl : sb.length < 2147483648 := hwf
            cases k with
            | string =>
              exact leaf_paired T vf fu id lb_string markPreString sb (fun bs => .data (.str .string bs)) hl ho
                (by intro c rest; simp [unmarshalC]) rfl c bs c' tl hc hw
            | symbol =>
              exact leaf_paired T vf fu id lb_symbol markPreString sb (fun bs => .data (.str .symbol bs)) hl ho
                (by intro c rest; simp [unmarshalC]) rfl c bs c' tl hc hw
            | keyword =>
              exact leaf_paired T vf fu id lb_keyword markPreString sb (fun bs => .data (.str .keyword bs)) hl ho
                (by intro c rest; simp [unmarshalC]) rfl c bs c' tl hc hw
          | reg name =>
            have hl : name.length < 2147483648 := hwf
            exact leaf_paired T vf fu id lb_registry true name (fun bs => .data (.reg bs)) hl ho
              (by intro c rest; simp [unmarshalC]) rfl c bs c' tl hc hw
          | buffer bb =>
            have hl : bb.length < 2147483648 := hwf
            exact leaf_paired T vf fu id lb_buffer markPreBuffer bb (fun bs => .data (.buffer bs)) hl ho
              (by intro c rest; simp [unmarshalC]) rfl c bs c' tl hc hw
          | array weak items =>
            have hwf' : items.length < 2147483648 ∧ ∀ v ∈ items, ValWF v := hwf
            cases weak with
            | false =>
              exact seq_container_paired T vf fm fu id ih hfu lb_array markPreArray pushPreArray rfl items.length (fun n => n) items
                hwf'.1 (Nat.le_refl _) rfl hwf'.2 (fun items => .data (.array false items)) ho
                (by intro c rest; simp [unmarshalC]) c bs c' tl hc hw
            | true =>
              exact seq_container_paired T vf fm fu id ih hfu lb_array_weak markPreArray pushPreArray rfl items.length (fun n => n) items
                hwf'.1 (Nat.le_refl _) rfl hwf'.2 (fun items => .data (.array true items)) ho
                (by intro c rest; simp [unmarshalC]) c bs c' tl hc hw
          | tuple flag items =>
            have hwf' : Int32 flag ∧ items.length < 2147483648 ∧ ∀ v ∈ items, ValWF v := hwf
            exact tuple_paired T vf fm fu id ih hfu flag items hwf'.1 hwf'.2.1 hwf'.2.2 ho c bs c' tl hc hw
          | table weak proto kvs =>
            have hwf' : weak ≤ 3 ∧ ProtoWF proto ∧ kvs.length < 2147483648 ∧ KVsWF kvs := hwf
            obtain ⟨hw3, hp, hlen, hkv⟩ := hwf'
            have hcw := kvChildren_wf proto kvs hp hkv
            have hcl := kvChildren_length proto kvs
            have hput := putAll_tablePut kvs hkv
            have hwk : weak = 0 ∨ weak = 1 ∨ weak = 2 ∨ weak = 3 := by omega
            cases proto with
            | none =>
              have ho' : T.objs[id]? = some ((fun vs => let pk := splitProto false vs
                  CObj.data (.table weak pk.1 (putAll tablePut (pairUp pk.2)))) (kvChildren none kvs)) := by
                simp [ho, splitProto, kvChildren, pairUp_flatKV, hput]
              exact seq_container_paired T vf fm fu id ih hfu (tableLead weak false) markPreTable pushPreTable rfl kvs.length (fun n => 0 + 2 * n)
                (kvChildren none kvs) hlen (by rw [hcl]; simp; omega) (by rw [hcl]; simp) hcw
                (fun vs => let pk := splitProto false vs
                  CObj.data (.table weak pk.1 (putAll tablePut (pairUp pk.2)))) ho'
                (by intro c rest; rcases hwk with rfl | rfl | rfl | rfl <;> simp [unmarshalC, tableLead, tableOfLead]) c bs c' tl hc hw
            | some p =>
              have ho' : T.objs[id]? = some ((fun vs => let pk := splitProto true vs
                  CObj.data (.table weak pk.1 (putAll tablePut (pairUp pk.2)))) (kvChildren (some p) kvs)) := by
                simp [ho, splitProto, kvChildren, pairUp_flatKV, hput]
              exact seq_container_paired T vf fm fu id ih hfu (tableLead weak true) markPreTable pushPreTable rfl kvs.length (fun n => 1 + 2 * n)
                (kvChildren (some p) kvs) hlen (by rw [hcl]; simp; omega) (by rw [hcl]; simp) hcw
                (fun vs => let pk := splitProto true vs
                  CObj.data (.table weak pk.1 (putAll tablePut (pairUp pk.2)))) ho'
                (by intro c rest; rcases hwk with rfl | rfl | rfl | rfl <;> simp [unmarshalC, tableLead, tableOfLead]) c bs c' tl hc hw
          | struct proto kvs =>
            have hwf' : ProtoWF proto ∧ kvs.length < 2147483648 ∧ KVsWF kvs := hwf
            obtain ⟨hp, hlen, hkv⟩ := hwf'
            have hcw := kvChildren_wf proto kvs hp hkv
            have hcl := kvChildren_length proto kvs
            have hput := putAll_structPut kvs hkv
            cases proto with
            | none =>
              have ho' : T.objs[id]? = some ((fun vs => let pk := splitProto false vs
                  CObj.data (.struct pk.1 (putAll structPut (pairUp pk.2)))) (kvChildren none kvs)) := by
                simp [ho, splitProto, kvChildren, pairUp_flatKV, hput]
              exact seq_container_paired T vf fm fu id ih hfu lb_struct markPreStruct pushPreStruct rfl kvs.length (fun n => 0 + 2 * n)
                (kvChildren none kvs) hlen (by rw [hcl]; simp; omega) (by rw [hcl]; simp) hcw
                (fun vs => let pk := splitProto false vs
                  CObj.data (.struct pk.1 (putAll structPut (pairUp pk.2)))) ho'
                (by intro c rest; simp [unmarshalC]) c bs c' tl hc hw
            | some p =>
              have ho' : T.objs[id]? = some ((fun vs => let pk := splitProto true vs
                  CObj.data (.struct pk.1 (putAll structPut (pairUp pk.2)))) (kvChildren (some p) kvs)) := by
                simp [ho, splitProto, kvChildren, pairUp_flatKV, hput]
              exact seq_container_paired T vf fm fu id ih hfu lb_struct_proto markPreStruct pushPreStruct rfl kvs.length (fun n => 1 + 2 * n)
                (kvChildren (some p) kvs) hlen (by rw [hcl]; simp; omega) (by rw [hcl]; simp) hcw
                (fun vs => let pk := splitProto true vs
                  CObj.data (.struct pk.1 (putAll structPut (pairUp pk.2)))) ho'
                (by intro c rest; simp [unmarshalC]) c bs c' tl hc hw

/-- **all three functions, every depth budget** -/
theorem all_roundtrip_le (hT : HeapCWF vf T) : ∀ fm k, k ≤ fm → OneOKC T vf k ∧ DefOKC T vf k ∧ EnvOKC T vf k := by
  intro fm
  induction fm with
  | zero =>
    intro k hk
    obtain rfl : k = 0 := by omega
    refine ⟨?_, ?_, ?_⟩
    · intro fu _ x _ c bs c' tl _ hw; simp [marshalC, W.fail] at hw
    · intro fu _ di c bs c' tl _ hw; simp [marshalDef, W.fail] at hw
    · intro fu _ ei c bs c' tl _ hw; simp [marshalEnv, W.fail] at hw
  | succ f ih =>
    intro k hk
    by_cases hle : k ≤ f
    · exact ih k hle
    · obtain rfl : k = f + 1 := by omega
      obtain ⟨ih1, ih2, ih3⟩ := ih f (Nat.le_refl _)
      refine ⟨?_, ?_, ?_⟩
      · intro fu hfu x hx
        obtain ⟨fu', rfl⟩ : ∃ k, fu = k + 1 := ⟨fu - 1, by omega⟩
        exact one_paired T vf f fu' hT ih1 ih2 ih3 (fun j hj => ⟨(ih j (by omega)).1, (ih j (by omega)).2.2⟩) (by omega) x hx
      · intro fu hfu di
        obtain ⟨fu', rfl⟩ : ∃ k, fu = k + 1 := ⟨fu - 1, by omega⟩
        exact def_paired T vf f fu' hT ih1 ih2 (by omega) di
      · intro fu hfu ei
        exact env_paired T vf f fu hT ih1 hfu ei

theorem all_roundtrip (hT : HeapCWF vf T) (fm : Nat) : OneOKC T vf fm ∧ DefOKC T vf fm ∧ EnvOKC T vf fm :=
  all_roundtrip_le T vf hT fm fm (Nat.le_refl _)

end

end JanetModel.Marsh
