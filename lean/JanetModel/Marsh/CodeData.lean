/-
Conservativity: on a heap without code objects, `marshalC` (Code.lean) is `marshalOne` (Graph.lean).  So the theorems and the
correspondence evidence about either model of the data part apply to the other.
-/
import JanetModel.Marsh.CodeLemmas

namespace JanetModel.Marsh
open JanetModel.Gen.Marsh

/-- a data heap seen as tables without funcdefs / environments -/
def dataHeap (H : List Obj) : Heap := ⟨H.map CObj.data, [], []⟩

def liftRes (r : Option (List Nat × Nat)) : Option (List Nat × Ct) := r.map fun p => (p.1, ⟨p.2, 0, 0⟩)

theorem wrapMark_data (pre : Bool) (id n : Nat) (w : W) (children : Nat → Option (List Nat × Nat))
    (h : ∀ m, w ⟨m, 0, 0⟩ = liftRes (children m)) :
    W.wrapMark pre id w ⟨n, 0, 0⟩ = liftRes (wrapMark pre n id children) := by
  cases pre
  · simp only [W.wrapMark, wrapMark, Bool.false_eq_true, if_false, W.seq, h n]
    cases hc : children n with
    | none => simp [liftRes]
    | some p =>
      obtain ⟨bs, n1⟩ := p
      simp only [liftRes, Option.map_some, W.markObj, markSeen]
      by_cases e : id = n1 <;> simp [e]
  · simp only [W.wrapMark, wrapMark, if_true, W.seq, W.markObj, markSeen]
    by_cases e : id = n
    · simp only [e, if_true, h (n + 1)]
      cases hc : children (n + 1) with
      | none => simp [liftRes]
      | some p => obtain ⟨bs, n1⟩ := p; simp [liftRes]
    · simp [e, liftRes]

theorem list_data (T : Heap) (f : Nat) (H : List Obj)
    (ih : ∀ x n, marshalC f T x ⟨n, 0, 0⟩ = liftRes (marshalOne f H n x)) :
    ∀ items n, W.list (fun v c => marshalC f T v c) items ⟨n, 0, 0⟩ =
      liftRes (marshalList (fun a b => marshalOne f H a b) n items) := by
  intro items
  induction items with
  | nil => intro n; simp [W.list, W.ret, marshalList, liftRes]
  | cons x xs ihl =>
    intro n
    simp only [W.list, W.seq, marshalList, ih x n]
    cases hx : marshalOne f H n x with
    | none => simp [liftRes]
    | some p =>
      obtain ⟨b1, n1⟩ := p
      simp only [liftRes, Option.map_some, ihl n1]
      cases hl : marshalList (fun a b => marshalOne f H a b) n1 xs with
      | none => simp
      | some q => obtain ⟨b2, n2⟩ := q; simp

theorem leaf_data (lead : Nat) (pre : Bool) (id n : Nat) (bs : List Nat) :
    W.lead lead (W.wrapMark pre id (W.ret bs)) ⟨n, 0, 0⟩ = liftRes (wrapMark pre n id fun m => some (lead :: bs, m)) := by
  cases pre <;> simp only [W.lead, W.wrapMark, wrapMark, W.seq, W.ret, W.markObj, markSeen, Bool.false_eq_true, if_false, if_true] <;>
    by_cases e : id = n <;> simp [e, liftRes]

theorem lead_int_lift (lead : Nat) (i : Int) (w : W) (c : Ct) (r : Option (List Nat × Nat)) :
    w c = liftRes r → W.lead lead (W.seq (W.int i) w) c =
      liftRes (match r with | none => none | some (bs, n') => some (lead :: (pushint i ++ bs), n')) := by
  intro h
  simp only [W.lead, W.seq, W.int, W.ret, h]
  cases r with
  | none => rfl
  | some p => obtain ⟨bs, n'⟩ := p; rfl

theorem lead_int_int_lift (lead : Nat) (i j : Int) (w : W) (c : Ct) (r : Option (List Nat × Nat)) :
    w c = liftRes r → W.lead lead (W.seq (W.int i) (W.seq (W.int j) w)) c =
      liftRes (match r with | none => none | some (bs, n') => some (lead :: (pushint i ++ (pushint j ++ bs)), n')) := by
  intro h
  simp only [W.lead, W.seq, W.int, W.ret, h]
  cases r with
  | none => rfl
  | some p => obtain ⟨bs, n'⟩ := p; rfl

/-- **the two models agree on data**: for every data heap, value, counter and depth budget -/
theorem marshalC_data (H : List Obj) : ∀ (fuel : Nat) (x : Val) (n : Nat),
    marshalC fuel (dataHeap H) x ⟨n, 0, 0⟩ = liftRes (marshalOne fuel H n x) := by
  intro fuel
  induction fuel with
  | zero => intro x n; simp [marshalC, marshalOne, W.fail, liftRes]
  | succ f ih =>
    intro x n
    cases x with
    | nil => simp [marshalC, marshalOne, W.ret, liftRes]
    | bool b => simp [marshalC, marshalOne, W.ret, liftRes]
    | int i => simp [marshalC, marshalOne, W.int, W.ret, liftRes]
    | ref id =>
      simp only [marshalC, marshalOne]
      by_cases hlt : id < n
      · simp [hlt, liftRes]
      · simp only [hlt, if_false, dataHeap, List.getElem?_map]
        cases ho : H[id]? with
        | none => simp [liftRes]
        | some o =>
          simp only [Option.map_some]
          have hl := list_data (dataHeap H) f H ih
          cases o with
          | reg name =>
            simp only [W.lead, W.seq, W.markObj, W.ret, markSeen]
            by_cases e : id = n <;> simp [e, liftRes]
          | real bs => exact leaf_data lb_real markPreNumber id n bs
          | str k bs => exact leaf_data (strLead k) markPreString id n _
          | buffer bs => exact leaf_data lb_buffer markPreBuffer id n _
          | array weak items =>
            exact lead_int_lift _ _ _ _ _ (wrapMark_data markPreArray id n _ _ (fun m => hl items m))
          | tuple flag items =>
            exact lead_int_int_lift _ _ _ _ _ _ (wrapMark_data markPreTuple id n _ _ (fun m => hl items m))
          | table weak proto kvs =>
            exact lead_int_lift _ _ _ _ _ (wrapMark_data markPreTable id n _ _ (fun m => hl (kvChildren proto kvs) m))
          | struct proto kvs =>
            exact lead_int_lift _ _ _ _ _ (wrapMark_data markPreStruct id n _ _ (fun m => hl (kvChildren proto kvs) m))

end JanetModel.Marsh
