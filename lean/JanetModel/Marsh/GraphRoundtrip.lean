/-
The data-graph round trip: `unmarshalOne` inverts `marshalOne` (sharing and cycles included).
-/
import JanetModel.Marsh.GraphLemmas

namespace JanetModel.Marsh
open JanetModel.Gen.Marsh

theorem markSeen_some (n id n1 : Nat) (h : markSeen n id = some n1) : id = n ∧ n1 = n + 1 := by
  unfold markSeen at h
  by_cases c : id = n
  · simp [c] at h; exact ⟨c, h.symm⟩
  · simp [c] at h

attribute [local simp] lb_real lb_nil lb_false lb_true lb_integer lb_string lb_symbol lb_keyword lb_array lb_tuple lb_table
  lb_table_proto lb_struct lb_buffer lb_registry lb_reference lb_struct_proto lb_table_weakk lb_table_weakv lb_table_weakkv
  lb_table_weakk_proto lb_table_weakv_proto lb_table_weakkv_proto lb_array_weak

theorem one_roundtrip (H : List Obj) (hH : HeapWF H) :
    ∀ fuel, OneOK H (marshalOne fuel H) (unmarshalOne fuel) := by
  intro fuel
  induction fuel with
  | zero =>
    intro n x bs n' tl _ _ hm
    simp [marshalOne] at hm
  | succ f ih =>
    intro n x bs n' tl hn hx hm
    cases x with
    | nil =>
      simp [marshalOne] at hm
      obtain ⟨rfl, rfl⟩ := hm
      refine ⟨Nat.le_refl _, hn, by simp, ?_⟩
      simp [unmarshalOne, slice_self, lb_nil, lb_real, lb_integer]
    | bool b =>
      simp [marshalOne] at hm
      obtain ⟨rfl, rfl⟩ := hm
      refine ⟨Nat.le_refl _, hn, by simp, ?_⟩
      cases b <;> simp [unmarshalOne, slice_self, lb_nil, lb_real, lb_integer, lb_true, lb_false]
    | int i =>
      simp [marshalOne] at hm
      obtain ⟨rfl, rfl⟩ := hm
      refine ⟨Nat.le_refl _, hn, pushint_ne_nil i, ?_⟩
      obtain ⟨lead, rest, he, hl⟩ := pushint_head i hx
      have hr := readint_pushint i tl hx.1 hx.2
      rw [he] at hr ⊢
      simp only [List.cons_append] at hr ⊢
      simp [unmarshalOne, hl, hr, slice_self]
    | ref id =>
      simp only [marshalOne] at hm
      by_cases hlt : id < n
      · simp only [hlt, if_true, Option.some.injEq, Prod.mk.injEq] at hm
        obtain ⟨rfl, rfl⟩ := hm
        refine ⟨Nat.le_refl _, hn, by simp, ?_⟩
        have hid : id < 2147483648 := by have := hH.1; omega
        have hr := readnat_pushint id tl hid
        simp [unmarshalOne, hr, hlt, slice_self]
      · simp only [hlt, if_false] at hm
        cases ho : H[id]? with
        | none => simp [ho] at hm
        | some o =>
          have hlen := lt_length_of_getElem? H id o ho
          have hwf := objWF_of_getElem? H hH id o ho
          simp only [ho] at hm
          cases o with
          | reg name =>
            simp only [] at hm
            cases hms : markSeen n id with
            | none => simp [hms] at hm
            | some n1 =>
              obtain ⟨rfl, rfl⟩ := markSeen_some n id n1 hms
              simp only [hms, Option.map_some, Option.some.injEq, Prod.mk.injEq] at hm
              obtain ⟨rfl, rfl⟩ := hm
              refine ⟨by omega, by omega, by simp, ?_⟩
              have hr := readnat_pushint name.length (name ++ tl) hwf
              simp [unmarshalOne, hr, slice_one H id _ ho]
          | real rb =>
            simp only [wrapMark, markPreNumber, if_true] at hm
            cases hms : markSeen n id with
            | none => simp [hms] at hm
            | some n1 =>
              obtain ⟨rfl, rfl⟩ := markSeen_some n id n1 hms
              simp only [hms, Option.some.injEq, Prod.mk.injEq] at hm
              obtain ⟨rfl, rfl⟩ := hm
              refine ⟨by omega, by omega, by simp, ?_⟩
              have h8 : rb.length = 8 := hwf
              simp [unmarshalOne, h8, slice_one H id _ ho]
          | str k sb =>
            simp only [wrapMark, markPreString, if_true] at hm
            cases hms : markSeen n id with
            | none => simp [hms] at hm
            | some n1 =>
              obtain ⟨rfl, rfl⟩ := markSeen_some n id n1 hms
              simp only [hms, Option.some.injEq, Prod.mk.injEq] at hm
              obtain ⟨rfl, rfl⟩ := hm
              refine ⟨by omega, by omega, by simp, ?_⟩
              have hr := readnat_pushint sb.length (sb ++ tl) hwf
              cases k <;> simp [unmarshalOne, strLead, hr, slice_one H id _ ho]
          | buffer bb =>
            simp only [wrapMark, markPreBuffer, if_true] at hm
            cases hms : markSeen n id with
            | none => simp [hms] at hm
            | some n1 =>
              obtain ⟨rfl, rfl⟩ := markSeen_some n id n1 hms
              simp only [hms, Option.some.injEq, Prod.mk.injEq] at hm
              obtain ⟨rfl, rfl⟩ := hm
              refine ⟨by omega, by omega, by simp, ?_⟩
              have hr := readnat_pushint bb.length (bb ++ tl) hwf
              simp [unmarshalOne, hr, slice_one H id _ ho]
          | array weak items =>
            simp only [wrapMark, markPreArray, if_true] at hm
            cases hms : markSeen n id with
            | none => simp [hms] at hm
            | some n1 =>
              obtain ⟨rfl, rfl⟩ := markSeen_some n id n1 hms
              simp only [hms] at hm
              cases hl : marshalList (fun a b => marshalOne f H a b) (id + 1) items with
              | none => simp [hl] at hm
              | some r =>
                obtain ⟨cbs, n2⟩ := r
                simp only [hl, Option.some.injEq, Prod.mk.injEq] at hm
                obtain ⟨rfl, rfl⟩ := hm
                obtain ⟨k1, k2, k3, k4⟩ := list_roundtrip H _ (fun a b => unmarshalOne f a b) ih items (id + 1) cbs n2 tl
                  (by omega) hwf.2 hl
                refine ⟨by omega, k2, by simp, ?_⟩
                have hr := readnat_pushint items.length (cbs ++ tl) hwf.1
                have hdos : ¬ (cbs.length + tl.length < items.length) := by omega
                cases weak <;>
                  simp [unmarshalOne, hr, hdos, childStart, pushPreArray, finishObj, k4, slice_cons H id n2 _ ho k1]
          | tuple flag items =>
            simp only [wrapMark, markPreTuple, Bool.false_eq_true, if_false] at hm
            cases hl : marshalList (fun a b => marshalOne f H a b) n items with
            | none => simp [hl] at hm
            | some r =>
              obtain ⟨cbs, n1⟩ := r
              simp only [hl] at hm
              cases hms : markSeen n1 id with
              | none => simp [hms] at hm
              | some n2 =>
                obtain ⟨rfl, rfl⟩ := markSeen_some n1 id n2 hms
                simp only [hms, Option.some.injEq, Prod.mk.injEq] at hm
                obtain ⟨rfl, rfl⟩ := hm
                obtain ⟨k1, k2, k3, k4⟩ := list_roundtrip H _ (fun a b => unmarshalOne f a b) ih items n cbs id tl
                  hn hwf.2.2 hl
                refine ⟨by omega, by omega, by simp, ?_⟩
                have hr := readnat_pushint items.length (pushint flag ++ (cbs ++ tl)) hwf.2.1
                have hf := readint_pushint flag (cbs ++ tl) hwf.1.1 hwf.1.2
                have hdos : ¬ ((pushint flag).length + (cbs.length + tl.length) < items.length) := by omega
                have hid : n + (id - n) = id := by omega
                simp [unmarshalOne, hr, hf, hdos, childStart, pushPreTuple, finishObj, k4, slice_length H n id k2, hid,
                  slice_snoc H n id _ ho k1]
          | table weak proto kvs =>
            simp only [wrapMark, markPreTable, if_true] at hm
            cases hms : markSeen n id with
            | none => simp [hms] at hm
            | some n1 =>
              obtain ⟨rfl, rfl⟩ := markSeen_some n id n1 hms
              simp only [hms] at hm
              cases hl : marshalList (fun a b => marshalOne f H a b) (id + 1) (kvChildren proto kvs) with
              | none => simp [hl] at hm
              | some r =>
                obtain ⟨cbs, n2⟩ := r
                simp only [hl, Option.some.injEq, Prod.mk.injEq] at hm
                obtain ⟨rfl, rfl⟩ := hm
                obtain ⟨hw, hp, hlen', hkv⟩ := hwf
                obtain ⟨k1, k2, k3, k4⟩ := list_roundtrip H _ (fun a b => unmarshalOne f a b) ih (kvChildren proto kvs)
                  (id + 1) cbs n2 tl (by omega) (kvChildren_wf proto kvs hp hkv) hl
                rw [kvChildren_length] at k3 k4
                refine ⟨by omega, k2, by simp, ?_⟩
                have hr := readnat_pushint kvs.length (cbs ++ tl) hlen'
                have hdos : ¬ (cbs.length + tl.length < kvs.length) := by omega
                have hsp := splitProto_kvChildren proto kvs
                have hwk : weak = 0 ∨ weak = 1 ∨ weak = 2 ∨ weak = 3 := by omega
                rcases hwk with rfl | rfl | rfl | rfl <;> cases hps : proto.isSome <;>
                  simp [hps] at k4 hsp <;>
                  simp [unmarshalOne, tableLead, tableOfLead, hr, hdos, childStart, pushPreTable, finishObj, k4, hsp,
                    pairUp_flatKV, putAll_tablePut kvs hkv, slice_cons H id n2 _ ho k1]
          | struct proto kvs =>
            simp only [wrapMark, markPreStruct, Bool.false_eq_true, if_false] at hm
            cases hl : marshalList (fun a b => marshalOne f H a b) n (kvChildren proto kvs) with
            | none => simp [hl] at hm
            | some r =>
              obtain ⟨cbs, n1⟩ := r
              simp only [hl] at hm
              cases hms : markSeen n1 id with
              | none => simp [hms] at hm
              | some n2 =>
                obtain ⟨rfl, rfl⟩ := markSeen_some n1 id n2 hms
                simp only [hms, Option.some.injEq, Prod.mk.injEq] at hm
                obtain ⟨rfl, rfl⟩ := hm
                obtain ⟨hp, hlen', hkv⟩ := hwf
                obtain ⟨k1, k2, k3, k4⟩ := list_roundtrip H _ (fun a b => unmarshalOne f a b) ih (kvChildren proto kvs)
                  n cbs id tl hn (kvChildren_wf proto kvs hp hkv) hl
                rw [kvChildren_length] at k3 k4
                refine ⟨by omega, by omega, by simp, ?_⟩
                have hr := readnat_pushint kvs.length (cbs ++ tl) hlen'
                have hdos : ¬ (cbs.length + tl.length < kvs.length) := by omega
                have hsp := splitProto_kvChildren proto kvs
                have hid : n + (id - n) = id := by omega
                cases hps : proto.isSome <;>
                  simp [hps] at k4 hsp <;>
                  simp [unmarshalOne, hr, hdos, childStart, pushPreStruct, finishObj, k4, hsp, slice_length H n id k2, hid,
                    pairUp_flatKV, putAll_structPut kvs hkv, slice_snoc H n id _ ho k1]
end JanetModel.Marsh
