/-
`marshal_one` on a heap in **arbitrary** (address) order, with the `st->seen` table explicit — and, as a by-product of the same
traversal, the presentation of the graph in reference-number order (what `harness/C09/graph.janet: describe` computes).
Core Lean only.

  * `G : List Obj` is the heap indexed by *address*: `.ref a` points to `G[a]`; no order is assumed.
  * `Seen` = `st->seen`: pairs (address, number), newest binding first (`janet_table_put` replaces an older binding, so a tuple
    that is numbered a second time — reached again while it is still being written — is found under its newer number).
  * `presentOne` walks exactly like `marshalOne` (Graph.lean) / marsh.c: seen-lookup first, numbering point per type from the
    generated `markPre*`, children with `fuel - 1`; it returns the bytes, the value renamed to reference numbers, the objects
    numbered during this call in numbering order (children renamed), and the new table.
-/
import JanetModel.Marsh.Graph

namespace JanetModel.Marsh
open JanetModel.Gen.Marsh

abbrev Seen := List (Nat × Nat)

/-- `janet_table_get(&st->seen, x)` -/
def Seen.find (s : Seen) (a : Nat) : Option Nat := (s.find? (fun p => p.1 == a)).map (·.2)

abbrev PResult (α : Type) := Option (List Nat × α × List Obj × Seen)

/-- the children loop: state = (seen, nextid) -/
def presentList (g : Seen → Nat → Val → PResult Val) : Seen → Nat → List Val → PResult (List Val)
  | s, _, [] => some ([], [], [], s)
  | s, n, v :: vs =>
    match g s n v with
    | none => none
    | some (b1, v', o1, s1) =>
      match presentList g s1 (n + o1.length) vs with
      | none => none
      | some (b2, vs', o2, s2) => some (b1 ++ b2, v' :: vs', o1 ++ o2, s2)

/-- a container at address `a`: MARK_SEEN before (`pre`) or after the children; `mk` rebuilds the object from the renamed children -/
def presentBox (pre : Bool) (a : Nat) (s : Seen) (n : Nat) (children : Seen → Nat → PResult (List Val)) (mk : List Val → Obj) :
    PResult Val :=
  if pre then
    match children ((a, n) :: s) (n + 1) with
    | none => none
    | some (bs, vs, objs, s') => some (bs, .ref n, mk vs :: objs, s')
  else
    match children s n with
    | none => none
    | some (bs, vs, objs, s') => some (bs, .ref (n + objs.length), objs ++ [mk vs], (a, n + objs.length) :: s')

/-- table / struct rebuilt from its renamed children (prototype first, then key, value, …) -/
def mkTable (weak : Nat) (hasProto : Bool) (vs : List Val) : Obj :=
  .table weak (splitProto hasProto vs).1 (pairUp (splitProto hasProto vs).2)

def mkStruct (hasProto : Bool) (vs : List Val) : Obj :=
  .struct (splitProto hasProto vs).1 (pairUp (splitProto hasProto vs).2)

def withHeader (hd : List Nat) (r : PResult Val) : PResult Val := r.map fun p => (hd ++ p.1, p.2)

/-- `marshal_one` with the seen table; `n` = `st->nextid` -/
def presentOne : Nat → List Obj → Seen → Nat → Val → PResult Val
  | 0, _, _, _, _ => none
  | fuel + 1, G, s, n, x =>
    match x with
    | .nil => some ([lb_nil], .nil, [], s)
    | .bool b => some ([if b then lb_true else lb_false], .bool b, [], s)
    | .int i => some (pushint i, .int i, [], s)
    | .ref a =>
      match s.find a with
      | some id => some (lb_reference :: pushint id, .ref id, [], s)
      | none =>
        match G[a]? with
        | none => none
        | some o =>
          match o with
          | .reg name => some (lb_registry :: (pushint name.length ++ name), .ref n, [.reg name], (a, n) :: s)
          | .real bs => some (lb_real :: bs, .ref n, [.real bs], (a, n) :: s)
          | .str k bs => some (strLead k :: (pushint bs.length ++ bs), .ref n, [.str k bs], (a, n) :: s)
          | .buffer bs => some (lb_buffer :: (pushint bs.length ++ bs), .ref n, [.buffer bs], (a, n) :: s)
          | .array weak items =>
            withHeader ((if weak then lb_array_weak else lb_array) :: pushint items.length)
              (presentBox markPreArray a s n (fun s m => presentList (fun s m v => presentOne fuel G s m v) s m items) (fun vs => .array weak vs))
          | .tuple flag items =>
            withHeader (lb_tuple :: (pushint items.length ++ pushint flag))
              (presentBox markPreTuple a s n (fun s m => presentList (fun s m v => presentOne fuel G s m v) s m items) (fun vs => .tuple flag vs))
          | .table weak proto kvs =>
            withHeader (tableLead weak proto.isSome :: pushint kvs.length)
              (presentBox markPreTable a s n (fun s m => presentList (fun s m v => presentOne fuel G s m v) s m (kvChildren proto kvs))
                (mkTable weak proto.isSome))
          | .struct proto kvs =>
            withHeader ((if proto.isSome then lb_struct_proto else lb_struct) :: pushint kvs.length)
              (presentBox markPreStruct a s n (fun s m => presentList (fun s m v => presentOne fuel G s m v) s m (kvChildren proto kvs))
                (mkStruct proto.isSome))

/-- `janet_marshal` of value `x` in heap `G` (fresh state): bytes, and the graph in reference-number order -/
def present (G : List Obj) (x : Val) : Option (List Nat × Val × List Obj) :=
  (presentOne topFuel G [] 0 x).map fun r => (r.1, r.2.1, r.2.2.1)

end JanetModel.Marsh
