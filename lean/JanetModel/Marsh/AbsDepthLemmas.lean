/-
Depth symmetry along the abstract-hook path (Marsh/AbsDepth.lean): whatever `marshalD` accepts at a depth budget,
`unmarshalD` accepts at every budget that is at least as large, provided no reader edge consumes more depth than its writer
edge; with equal increments, acceptance of a value and of its bytes coincide.
-/
import JanetModel.Marsh.AbsDepth

namespace JanetModel.Marsh.AbsDepth

theorem marshalD_zero (p : Incs) (v : DV) : marshalD p 0 v = none := by
  cases v <;> simp [marshalD]

mutual
theorem roundtripD (pm pu : Incs) (hn : pu.nameTotal ≤ pm.nameTotal) (hi : pu.itemExtra ≤ pm.itemExtra) :
    ∀ (v : DV) (fm fu : Nat), fm ≤ fu → ∀ (bs tl : List Tok), marshalD pm fm v = some bs →
      unmarshalD pu fu (bs ++ tl) = some (v, tl)
  | v, 0, _, _, bs, tl, h => by rw [marshalD_zero] at h; cases h
  | _, _ + 1, 0, hle, _, _, _ => by omega
  | .leaf, fm + 1, fu + 1, _, bs, tl, h => by
    simp only [marshalD, Option.some.injEq] at h
    subst h
    simp [unmarshalD]
  | .arr xs, fm + 1, fu + 1, hle, bs, tl, h => by
    simp only [marshalD, Option.map_eq_some_iff] at h
    obtain ⟨r, hr, rfl⟩ := h
    have := roundtripDs pm pu hn hi xs fm fu (by omega) r tl hr
    simp [unmarshalD, this]
  | .abs xs, fm + 1, fu + 1, hle, bs, tl, h => by
    simp only [marshalD] at h
    by_cases hc : fm + 1 ≤ pm.nameTotal
    · rw [if_pos hc] at h; cases h
    · rw [if_neg hc, Option.map_eq_some_iff] at h
      obtain ⟨r, hr, rfl⟩ := h
      have := roundtripDs pm pu hn hi xs (fm - pm.itemExtra) (fu - pu.itemExtra) (by omega) r tl hr
      have hc' : ¬ fu + 1 ≤ pu.nameTotal := by omega
      simp [unmarshalD, hc', this]
theorem roundtripDs (pm pu : Incs) (hn : pu.nameTotal ≤ pm.nameTotal) (hi : pu.itemExtra ≤ pm.itemExtra) :
    ∀ (xs : DVs) (fm fu : Nat), fm ≤ fu → ∀ (bs tl : List Tok), marshalDs pm fm xs = some bs →
      readN (fun ts => unmarshalD pu fu ts) xs.length (bs ++ tl) = some (xs, tl)
  | .nil, fm, fu, _, bs, tl, h => by
    simp only [marshalDs, Option.some.injEq] at h
    subst h
    simp [readN, DVs.length]
  | .cons x xs, fm, fu, hle, bs, tl, h => by
    simp only [marshalDs] at h
    cases ha : marshalD pm fm x with
    | none => simp [ha] at h
    | some a =>
      cases hb : marshalDs pm fm xs with
      | none => simp [ha, hb] at h
      | some b =>
        simp only [ha, hb, Option.some.injEq] at h
        subst h
        have h1 := roundtripD pm pu hn hi x fm fu hle a (b ++ tl) ha
        have h2 := roundtripDs pm pu hn hi xs fm fu hle b tl hb
        simp [readN, DVs.length, List.append_assoc, h1, h2]
end

/- the converse: bytes of a value that the reader accepts at some budget were (would be) accepted by the writer at every
budget at least as large, when no writer edge consumes more depth than its reader edge -/
mutual
theorem acceptD (pm pu : Incs) (hn : pm.nameTotal ≤ pu.nameTotal) (hi : pm.itemExtra ≤ pu.itemExtra) :
    ∀ (v : DV) (fm fu : Nat), fu ≤ fm → ∀ (tl : List Tok) (r : DV × List Tok), unmarshalD pu fu (enc v ++ tl) = some r →
      marshalD pm fm v = some (enc v) ∧ r = (v, tl)
  | v, _, 0, _, tl, r, h => by simp [unmarshalD] at h
  | _, 0, _ + 1, hle, _, _, _ => by omega
  | .leaf, fm + 1, fu + 1, _, tl, r, h => by
    simp [unmarshalD, enc] at h
    simp [marshalD, enc, h]
  | .arr xs, fm + 1, fu + 1, hle, tl, r, h => by
    simp only [enc, List.cons_append, unmarshalD] at h
    cases hr : readN (fun ts => unmarshalD pu fu ts) xs.length (encs xs ++ tl) with
    | none => simp [hr] at h
    | some q =>
      have := acceptDs pm pu hn hi xs fm fu (by omega) tl q hr
      obtain ⟨h1, rfl⟩ := this
      simp [hr] at h
      simp [marshalD, enc, h1, h]
  | .abs xs, fm + 1, fu + 1, hle, tl, r, h => by
    simp only [enc, List.cons_append, unmarshalD] at h
    by_cases hc : fu + 1 ≤ pu.nameTotal
    · simp [hc] at h
    · rw [if_neg hc] at h
      cases hr : readN (fun ts => unmarshalD pu (fu - pu.itemExtra) ts) xs.length (encs xs ++ tl) with
      | none => simp [hr] at h
      | some q =>
        have := acceptDs pm pu hn hi xs (fm - pm.itemExtra) (fu - pu.itemExtra) (by omega) tl q hr
        obtain ⟨h1, rfl⟩ := this
        simp [hr] at h
        have hc' : ¬ fm + 1 ≤ pm.nameTotal := by omega
        simp [marshalD, enc, h1, h, hc']
theorem acceptDs (pm pu : Incs) (hn : pm.nameTotal ≤ pu.nameTotal) (hi : pm.itemExtra ≤ pu.itemExtra) :
    ∀ (xs : DVs) (fm fu : Nat), fu ≤ fm → ∀ (tl : List Tok) (r : DVs × List Tok),
      readN (fun ts => unmarshalD pu fu ts) xs.length (encs xs ++ tl) = some r →
      marshalDs pm fm xs = some (encs xs) ∧ r = (xs, tl)
  | .nil, fm, fu, _, tl, r, h => by
    simp [readN, DVs.length, encs] at h
    simp [marshalDs, encs, h]
  | .cons x xs, fm, fu, hle, tl, r, h => by
    simp only [readN, DVs.length, encs, List.append_assoc] at h
    cases h1 : unmarshalD pu fu (enc x ++ (encs xs ++ tl)) with
    | none => simp [h1] at h
    | some q =>
      obtain ⟨m1, rfl⟩ := acceptD pm pu hn hi x fm fu hle (encs xs ++ tl) q h1
      simp only [h1] at h
      cases h2 : readN (fun ts => unmarshalD pu fu ts) xs.length (encs xs ++ tl) with
      | none => simp [h2] at h
      | some q2 =>
        obtain ⟨m2, rfl⟩ := acceptDs pm pu hn hi xs fm fu hle tl q2 h2
        simp [h2] at h
        simp [marshalDs, encs, m1, m2, h]
end

/- what the writer produces, when it accepts, is the wire of the value -/
mutual
theorem marshalD_enc (p : Incs) : ∀ (v : DV) (f : Nat) (bs : List Tok), marshalD p f v = some bs → bs = enc v
  | v, 0, bs, h => by rw [marshalD_zero] at h; cases h
  | .leaf, f + 1, bs, h => by simp [marshalD] at h; simp [enc, h]
  | .arr xs, f + 1, bs, h => by
    simp only [marshalD, Option.map_eq_some_iff] at h
    obtain ⟨r, hr, rfl⟩ := h
    simp [enc, marshalDs_enc p xs f r hr]
  | .abs xs, f + 1, bs, h => by
    simp only [marshalD] at h
    by_cases hc : f + 1 ≤ p.nameTotal
    · rw [if_pos hc] at h; cases h
    · rw [if_neg hc, Option.map_eq_some_iff] at h
      obtain ⟨r, hr, rfl⟩ := h
      simp [enc, marshalDs_enc p xs _ r hr]
theorem marshalDs_enc (p : Incs) : ∀ (xs : DVs) (f : Nat) (bs : List Tok), marshalDs p f xs = some bs → bs = encs xs
  | .nil, f, bs, h => by simp [marshalDs] at h; simp [encs, h]
  | .cons x xs, f, bs, h => by
    simp only [marshalDs] at h
    cases ha : marshalD p f x with
    | none => simp [ha] at h
    | some a =>
      cases hb : marshalDs p f xs with
      | none => simp [ha, hb] at h
      | some b =>
        simp only [ha, hb, Option.some.injEq] at h
        subst h
        simp [encs, marshalD_enc p x f a ha, marshalDs_enc p xs f b hb]
end

/-- **Depth symmetry**: with the same increments on both sides, the writer accepts a value at a depth budget iff the reader
accepts the value's bytes at that budget (whatever follows them in the buffer) -/
theorem symmetricD (p : Incs) (v : DV) (f : Nat) (tl : List Tok) :
    (marshalD p f v).isSome = (unmarshalD p f (enc v ++ tl)).isSome := by
  cases hm : marshalD p f v with
  | some bs =>
    have hb := marshalD_enc p v f bs hm
    subst hb
    rw [roundtripD p p (Nat.le_refl _) (Nat.le_refl _) v f f (Nat.le_refl _) _ tl hm]
    rfl
  | none =>
    cases hu : unmarshalD p f (enc v ++ tl) with
    | none => rfl
    | some r =>
      have := (acceptD p p (Nat.le_refl _) (Nat.le_refl _) v f f (Nat.le_refl _) tl r hu).1
      rw [hm] at this; cases this

end JanetModel.Marsh.AbsDepth
