/-
Pairing lemmas for the writer / reader combinators of Marsh/Code.lean: a writer `w` and a reader `r` are `Paired` for
a value `a` when, from any counters `c` inside the tables, everything `w` emits is read back by `r` (whatever follows in the
buffer) as `a`, and `r` appends to the lookup tables exactly the table entries that `w` numbered.
-/
import JanetModel.Marsh.Code
import JanetModel.Marsh.GraphLemmas
import JanetModel.Marsh.SizeLemmas

namespace JanetModel.Marsh
open JanetModel.Gen.Marsh JanetModel.Gen.MarshCode

/-! ### slices of a table -/

def slc {α : Type} (l : List α) (a b : Nat) : List α := (l.drop a).take (b - a)

theorem slc_self {α : Type} (l : List α) (a : Nat) : slc l a a = [] := by simp [slc]

theorem slc_length {α : Type} (l : List α) (a b : Nat) (h : b ≤ l.length) : (slc l a b).length = b - a := by
  simp [slc, List.length_take, List.length_drop]; omega

theorem slc_append {α : Type} (l : List α) (a b c : Nat) (h1 : a ≤ b) (h2 : b ≤ c) :
    slc l a b ++ slc l b c = slc l a c := by
  unfold slc
  have e1 : c - a = (b - a) + (c - b) := by omega
  have e2 : l.drop b = (l.drop a).drop (b - a) := by
    rw [List.drop_drop]; congr 1; omega
  rw [e1, e2, List.take_add]

theorem getElem?_lt {α : Type} (l : List α) (a : Nat) (o : α) (h : l[a]? = some o) : a < l.length := by
  rcases Nat.lt_or_ge a l.length with h' | h'
  · exact h'
  · rw [List.getElem?_eq_none h'] at h; cases h

theorem slc_one {α : Type} (l : List α) (a : Nat) (o : α) (h : l[a]? = some o) : slc l a (a + 1) = [o] := by
  unfold slc
  have : a + 1 - a = 1 := by omega
  rw [this]
  have hlt := getElem?_lt l a o h
  rw [List.getElem?_eq_getElem hlt] at h
  have ho : l[a] = o := Option.some.inj h
  rw [List.drop_eq_getElem_cons hlt, ho]
  simp

theorem slc_cons {α : Type} (l : List α) (a c : Nat) (o : α) (h : l[a]? = some o) (h2 : a + 1 ≤ c) :
    o :: slc l (a + 1) c = slc l a c := by
  rw [← slc_append l a (a + 1) c (by omega) h2, slc_one l a o h]; rfl

theorem slc_snoc {α : Type} (l : List α) (a b : Nat) (o : α) (h : l[b]? = some o) (h1 : a ≤ b) :
    slc l a b ++ [o] = slc l a (b + 1) := by
  rw [← slc_append l a b (b + 1) h1 (by omega), slc_one l b o h]

/-! ### counters -/

def Heap.size (T : Heap) : Ct := ⟨T.objs.length, T.defs.length, T.envs.length⟩

def Ct.le (a b : Ct) : Prop := a.n ≤ b.n ∧ a.d ≤ b.d ∧ a.e ≤ b.e
instance : LE Ct := ⟨Ct.le⟩

theorem Ct.le_def (a b : Ct) : a ≤ b ↔ a.n ≤ b.n ∧ a.d ≤ b.d ∧ a.e ≤ b.e := Iff.rfl
theorem Ct.le_refl (a : Ct) : a ≤ a := ⟨Nat.le_refl _, Nat.le_refl _, Nat.le_refl _⟩
theorem Ct.le_trans {a b c : Ct} (h1 : a ≤ b) (h2 : b ≤ c) : a ≤ c :=
  ⟨Nat.le_trans h1.1 h2.1, Nat.le_trans h1.2.1 h2.2.1, Nat.le_trans h1.2.2 h2.2.2⟩

/-- the table entries numbered between two counter states -/
def Heap.slice (T : Heap) (a b : Ct) : Out := ⟨slc T.objs a.n b.n, slc T.defs a.d b.d, slc T.envs a.e b.e⟩

theorem Heap.slice_self (T : Heap) (c : Ct) : T.slice c c = Out.empty := by
  simp [Heap.slice, slc_self, Out.empty]

theorem Heap.slice_append (T : Heap) (a b c : Ct) (h1 : a ≤ b) (h2 : b ≤ c) :
    (T.slice a b).append (T.slice b c) = T.slice a c := by
  simp only [Heap.slice, Out.append]
  rw [slc_append _ _ _ _ h1.1 h2.1, slc_append _ _ _ _ h1.2.1 h2.2.1, slc_append _ _ _ _ h1.2.2 h2.2.2]

theorem Ct.add_slice (T : Heap) (a b : Ct) (h1 : a ≤ b) (h2 : b ≤ T.size) : a.add (T.slice a b) = b := by
  obtain ⟨h11, h12, h13⟩ := h1
  obtain ⟨h21, h22, h23⟩ := h2
  simp only [Heap.size] at h21 h22 h23
  cases b with
  | mk bn bd be =>
    simp only [Ct.add, Heap.slice] at *
    rw [slc_length _ _ _ h21, slc_length _ _ _ h22, slc_length _ _ _ h23]
    congr 1 <;> omega

theorem Ct.add_empty (c : Ct) : c.add Out.empty = c := by
  cases c; simp [Ct.add, Out.empty]

theorem Out.empty_append (o : Out) : Out.empty.append o = o := by cases o; simp [Out.empty, Out.append]
theorem Out.append_empty (o : Out) : o.append Out.empty = o := by cases o; simp [Out.empty, Out.append]

/-! ### pairing -/

def Paired {α : Type} (T : Heap) (w : W) (r : R α) (a : α) : Prop :=
  ∀ (c : Ct) (bs : List Nat) (c' : Ct) (tl : List Nat), c ≤ T.size → w c = some (bs, c') →
    c ≤ c' ∧ c' ≤ T.size ∧ r c (bs ++ tl) = some (a, tl, T.slice c c')

/-- a reader that consumes exactly `bs`, touches no table, and returns `a` -/
def Reads {α : Type} (r : R α) (bs : List Nat) (a : α) : Prop :=
  ∀ (c : Ct) (tl : List Nat), r c (bs ++ tl) = some (a, tl, Out.empty)

theorem W.seq_some {a b : W} {c : Ct} {bs : List Nat} {c' : Ct} (h : W.seq a b c = some (bs, c')) :
    ∃ b1 c1 b2, a c = some (b1, c1) ∧ b c1 = some (b2, c') ∧ bs = b1 ++ b2 := by
  unfold W.seq at h
  cases ha : a c with
  | none => simp [ha] at h
  | some r1 =>
    obtain ⟨b1, c1⟩ := r1
    simp only [ha] at h
    cases hb : b c1 with
    | none => simp [hb] at h
    | some r2 =>
      obtain ⟨b2, c2⟩ := r2
      simp only [hb, Option.some.injEq, Prod.mk.injEq] at h
      exact ⟨b1, c1, b2, rfl, by rw [← h.2]; exact hb, h.1.symm⟩

theorem Paired.seq_bind {α β : Type} {T : Heap} {w1 w2 : W} {r1 : R α} {f : α → R β} {a : α} {b : β}
    (h1 : Paired T w1 r1 a) (h2 : Paired T w2 (f a) b) : Paired T (W.seq w1 w2) (R.bind r1 f) b := by
  intro c bs c' tl hc hw
  obtain ⟨b1, c1, b2, ha, hb, rfl⟩ := W.seq_some hw
  obtain ⟨k1, k2, k3⟩ := h1 c b1 c1 (b2 ++ tl) hc ha
  obtain ⟨m1, m2, m3⟩ := h2 c1 b2 c' tl k2 hb
  refine ⟨Ct.le_trans k1 m1, m2, ?_⟩
  simp only [R.bind, List.append_assoc, k3, Ct.add_slice T c c1 k1 k2, m3, Heap.slice_append T c c1 c' k1 m1]

theorem Paired.of_reads {α : Type} {T : Heap} {r : R α} {bs : List Nat} {a : α} (h : Reads r bs a) :
    Paired T (W.ret bs) r a := by
  intro c bs' c' tl hc hw
  simp only [W.ret, Option.some.injEq, Prod.mk.injEq] at hw
  obtain ⟨rfl, rfl⟩ := hw
  exact ⟨Ct.le_refl _, hc, by rw [h c tl, Heap.slice_self]⟩

theorem W.ret_append_seq (b1 b2 : List Nat) (w : W) :
    W.seq (W.ret (b1 ++ b2)) w = W.seq (W.ret b1) (W.seq (W.ret b2) w) := by
  funext c
  simp only [W.seq, W.ret]
  cases w c with
  | none => rfl
  | some r => obtain ⟨b, c2⟩ := r; simp

theorem W.ret_nil_seq (w : W) : W.seq (W.ret []) w = w := by
  funext c
  simp only [W.seq, W.ret]
  cases w c with
  | none => rfl
  | some r => obtain ⟨b, c2⟩ := r; simp

theorem W.seq_ret_nil (w : W) : W.seq w (W.ret []) = w := by
  funext c
  simp only [W.seq, W.ret]
  cases w c with
  | none => rfl
  | some r => obtain ⟨b, c2⟩ := r; simp

/-- peel one pure reader off the front -/
theorem Paired.prefix {α β : Type} {T : Heap} {w : W} {r1 : R α} {f : α → R β} {b1 : List Nat} {a : α} {b : β}
    (h1 : Reads r1 b1 a) (h2 : Paired T w (f a) b) : Paired T (W.seq (W.ret b1) w) (R.bind r1 f) b :=
  Paired.seq_bind (Paired.of_reads h1) h2

/-- a reader step that consumes nothing (a guard, a defaulted length) -/
theorem Paired.skip {α β : Type} {T : Heap} {w : W} {r1 : R α} {f : α → R β} {a : α} {b : β}
    (h1 : Reads r1 [] a) (h2 : Paired T w (f a) b) : Paired T w (R.bind r1 f) b := by
  have := Paired.prefix (T := T) h1 h2
  rwa [W.ret_nil_seq] at this

/-- trailing reader steps that consume nothing -/
theorem Paired.bind_tail {α β : Type} {T : Heap} {w : W} {r : R α} {f : α → R β} {a : α} {b : β}
    (h1 : Paired T w r a) (h2 : Reads (f a) [] b) : Paired T w (R.bind r f) b := by
  have := Paired.seq_bind h1 (Paired.of_reads (T := T) h2)
  rwa [W.seq_ret_nil] at this

theorem Paired.map {α β : Type} {T : Heap} {w : W} {r : R α} {a : α} (f : α → β) (h : Paired T w r a) :
    Paired T w (R.map r f) (f a) := by
  intro c bs c' tl hc hw
  obtain ⟨k1, k2, k3⟩ := h c bs c' tl hc hw
  exact ⟨k1, k2, by simp [R.map, k3]⟩

theorem Paired.congr {α : Type} {T : Heap} {w : W} {r r' : R α} {a : α} (h : Paired T w r a) (e : ∀ c d, r' c d = r c d) :
    Paired T w r' a := by
  intro c bs c' tl hc hw
  obtain ⟨k1, k2, k3⟩ := h c bs c' tl hc hw
  exact ⟨k1, k2, by rw [e, k3]⟩

theorem Reads.pure {α : Type} (a : α) : Reads (R.pure a) [] a := by
  intro c tl; simp [R.pure]

theorem Reads.guard (b : Bool) (h : b = true) : Reads (R.guard b) [] () := by
  intro c tl; simp [R.guard, h, R.pure]

theorem Reads.int (i : Int) (h : Int32 i) : Reads R.int (pushint i) i := by
  intro c tl
  simp [R.int, readint_pushint i tl h.1 h.2]

theorem Reads.nat (k : Nat) (h : k < 2147483648) : Reads R.nat (pushint (k : Int)) k := by
  intro c tl
  simp [R.nat, readnat_pushint k tl h]

theorem Reads.take (bs : List Nat) : Reads (R.take bs.length) bs bs := by
  intro c tl
  simp [R.take]

theorem Reads.bind {α β : Type} {r1 : R α} {f : α → R β} {b1 b2 : List Nat} {a : α} {b : β}
    (h1 : Reads r1 b1 a) (h2 : Reads (f a) b2 b) : Reads (R.bind r1 f) (b1 ++ b2) b := by
  intro c tl
  simp only [R.bind, List.append_assoc, h1 c (b2 ++ tl), Ct.add_empty, h2 c tl, Out.empty_append]

theorem Reads.map {α β : Type} {r : R α} {bs : List Nat} {a : α} (f : α → β) (h : Reads r bs a) : Reads (R.map r f) bs (f a) := by
  intro c tl
  simp [R.map, h c tl]

/-! ### loops -/

theorem Paired.list {α : Type} {T : Heap} {g : α → W} {r : R α} :
    ∀ (xs : List α), (∀ x ∈ xs, Paired T (g x) r x) → Paired T (W.list g xs) (R.listN r xs.length) xs := by
  intro xs
  induction xs with
  | nil => intro _; exact Paired.of_reads (Reads.pure [])
  | cons x xs ih =>
    intro h
    simp only [W.list, List.length_cons, R.listN]
    refine Paired.seq_bind (h x (by simp)) ?_
    exact Paired.map (fun as => x :: as) (ih fun y hy => h y (by simp [hy]))

/-- every piece emits at least one byte, so the loop emits at least as many bytes as it has items (DOS check) -/
theorem W.list_length {α : Type} (g : α → W) (hg : ∀ x c bs c', g x c = some (bs, c') → 1 ≤ bs.length) :
    ∀ (xs : List α) c bs c', W.list g xs c = some (bs, c') → xs.length ≤ bs.length := by
  intro xs
  induction xs with
  | nil => intro c bs c' _; simp
  | cons x xs ih =>
    intro c bs c' h
    simp only [W.list] at h
    obtain ⟨b1, c1, b2, ha, hb, rfl⟩ := W.seq_some h
    have := hg x c b1 c1 ha
    have := ih c1 b2 c' hb
    simp; omega

theorem Paired.dos {α : Type} {T : Heap} {w : W} {r : R α} {a : α} (len : Nat)
    (hl : ∀ c bs c', w c = some (bs, c') → len ≤ bs.length) (h : Paired T w r a) :
    Paired T w (R.bind (R.dos len) fun _ => r) a := by
  intro c bs c' tl hc hw
  obtain ⟨k1, k2, k3⟩ := h c bs c' tl hc hw
  have := hl c bs c' hw
  have hd : ¬ ((bs ++ tl).length < len) := by simp; omega
  refine ⟨k1, k2, ?_⟩
  simp only [R.bind, R.dos, hd, if_false, Ct.add_empty, k3, Out.empty_append]

/-! ### numbering points -/

theorem Paired.lead {α : Type} {T : Heap} {w : W} {r rb : R α} {a : α} (lead : Nat)
    (e : ∀ c rest, r c (lead :: rest) = rb c rest) (h : Paired T w rb a) : Paired T (W.lead lead w) r a := by
  intro c bs c' tl hc hw
  unfold W.lead at hw
  cases hw' : w c with
  | none => simp [hw'] at hw
  | some p =>
    obtain ⟨b, c2⟩ := p
    simp only [hw', Option.some.injEq, Prod.mk.injEq] at hw
    obtain ⟨rfl, rfl⟩ := hw
    obtain ⟨k1, k2, k3⟩ := h c b c2 tl hc hw'
    exact ⟨k1, k2, by rw [List.cons_append, e, k3]⟩

theorem W.markObj_some {id : Nat} {c : Ct} {bs : List Nat} {c' : Ct} (h : W.markObj id c = some (bs, c')) :
    id = c.n ∧ bs = [] ∧ c' = { c with n := c.n + 1 } := by
  unfold W.markObj at h
  by_cases e : id = c.n
  · simp only [e, if_true, Option.some.injEq, Prod.mk.injEq] at h
    exact ⟨e, h.1.symm, h.2.symm⟩
  · simp [e] at h

theorem Paired.preObj {α : Type} {T : Heap} {w : W} {r : R α} {a : α} {mk : α → CObj} {id : Nat}
    (ho : T.objs[id]? = some (mk a)) (h : Paired T w r a) :
    Paired T (W.seq (W.markObj id) w) (R.preObj r mk) (.ref id) := by
  intro c bs c' tl hc hw
  obtain ⟨b1, c1, b2, ha, hb, rfl⟩ := W.seq_some hw
  obtain ⟨rfl, rfl, rfl⟩ := W.markObj_some ha
  have hlt := getElem?_lt _ _ _ ho
  have hc1 : ({ c with n := c.n + 1 } : Ct) ≤ T.size := ⟨hlt, hc.2.1, hc.2.2⟩
  obtain ⟨k1, k2, k3⟩ := h _ b2 c' tl hc1 hb
  refine ⟨⟨by have := k1.1; simp at this; omega, k1.2.1, k1.2.2⟩, k2, ?_⟩
  simp only [R.preObj, List.nil_append, k3, Heap.slice]
  have := slc_cons T.objs c.n c'.n (mk a) ho (by have := k1.1; simpa using this)
  simp [this]

theorem Paired.postObj {α : Type} {T : Heap} {w : W} {r : R α} {a : α} {mk : α → CObj} {id : Nat}
    (ho : T.objs[id]? = some (mk a)) (h : Paired T w r a) :
    Paired T (W.seq w (W.markObj id)) (R.postObj r mk) (.ref id) := by
  intro c bs c' tl hc hw
  obtain ⟨b1, c1, b2, ha, hb, rfl⟩ := W.seq_some hw
  obtain ⟨rfl, rfl, rfl⟩ := W.markObj_some hb
  obtain ⟨k1, k2, k3⟩ := h c b1 c1 tl hc ha
  have hlt := getElem?_lt _ _ _ ho
  refine ⟨⟨by have := k1.1; simp; omega, k1.2.1, k1.2.2⟩, ⟨hlt, k2.2.1, k2.2.2⟩, ?_⟩
  simp only [R.postObj, List.append_nil, k3, Heap.slice]
  have hl := slc_length T.objs c.n c1.n k2.1
  have := slc_snoc T.objs c.n c1.n (mk a) ho k1.1
  have e : c.n + (c1.n - c.n) = c1.n := by have := k1.1; omega
  simp [this, hl, e]

theorem Paired.wrapObj {α : Type} {T : Heap} {w : W} {r : R α} {a : α} {mk : α → CObj} {id : Nat} (pre1 pre2 : Bool)
    (hp : pre1 = pre2) (ho : T.objs[id]? = some (mk a)) (h : Paired T w r a) :
    Paired T (W.wrapMark pre1 id w) (R.wrapObj pre2 r mk) (.ref id) := by
  subst hp
  cases pre1
  · simpa [W.wrapMark, R.wrapObj] using Paired.postObj ho h
  · simpa [W.wrapMark, R.wrapObj] using Paired.preObj ho h

theorem W.markDef_some {id : Nat} {c : Ct} {bs : List Nat} {c' : Ct} (h : W.markDef id c = some (bs, c')) :
    id = c.d ∧ bs = [] ∧ c' = { c with d := c.d + 1 } := by
  unfold W.markDef at h
  by_cases e : id = c.d
  · simp only [e, if_true, Option.some.injEq, Prod.mk.injEq] at h
    exact ⟨e, h.1.symm, h.2.symm⟩
  · simp [e] at h

theorem Paired.preDef {T : Heap} {w : W} {r : R Def} {df : Def} {di : Nat}
    (ho : T.defs[di]? = some df) (h : Paired T w r df) :
    Paired T (W.seq (W.markDef di) w) (R.preDef r) di := by
  intro c bs c' tl hc hw
  obtain ⟨b1, c1, b2, ha, hb, rfl⟩ := W.seq_some hw
  obtain ⟨rfl, rfl, rfl⟩ := W.markDef_some ha
  have hlt := getElem?_lt _ _ _ ho
  have hc1 : ({ c with d := c.d + 1 } : Ct) ≤ T.size := ⟨hc.1, hlt, hc.2.2⟩
  obtain ⟨k1, k2, k3⟩ := h _ b2 c' tl hc1 hb
  refine ⟨⟨k1.1, by have := k1.2.1; simp at this; omega, k1.2.2⟩, k2, ?_⟩
  simp only [R.preDef, List.nil_append, k3, Heap.slice]
  have := slc_cons T.defs c.d c'.d df ho (by have := k1.2.1; simpa using this)
  simp [this]

theorem W.markEnv_some {id : Nat} {c : Ct} {bs : List Nat} {c' : Ct} (h : W.markEnv id c = some (bs, c')) :
    id = c.e ∧ bs = [] ∧ c' = { c with e := c.e + 1 } := by
  unfold W.markEnv at h
  by_cases e : id = c.e
  · simp only [e, if_true, Option.some.injEq, Prod.mk.injEq] at h
    exact ⟨e, h.1.symm, h.2.symm⟩
  · simp [e] at h

theorem Paired.preEnv {T : Heap} {w : W} {r : R Env} {ev : Env} {ei : Nat}
    (ho : T.envs[ei]? = some ev) (h : Paired T w r ev) :
    Paired T (W.seq (W.markEnv ei) w) (R.preEnv r) ei := by
  intro c bs c' tl hc hw
  obtain ⟨b1, c1, b2, ha, hb, rfl⟩ := W.seq_some hw
  obtain ⟨rfl, rfl, rfl⟩ := W.markEnv_some ha
  have hlt := getElem?_lt _ _ _ ho
  have hc1 : ({ c with e := c.e + 1 } : Ct) ≤ T.size := ⟨hc.1, hc.2.1, hlt⟩
  obtain ⟨k1, k2, k3⟩ := h _ b2 c' tl hc1 hb
  refine ⟨⟨k1.1, k1.2.1, by have := k1.2.2; simp at this; omega⟩, k2, ?_⟩
  simp only [R.preEnv, List.nil_append, k3, Heap.slice]
  have := slc_cons T.envs c.e c'.e ev ho (by have := k1.2.2; simpa using this)
  simp [this]

theorem W.seq_assoc (a b c : W) : W.seq (W.seq a b) c = W.seq a (W.seq b c) := by
  funext x
  simp only [W.seq]
  cases a x with
  | none => rfl
  | some r1 =>
    obtain ⟨b1, c1⟩ := r1
    simp only []
    cases b c1 with
    | none => rfl
    | some r2 =>
      obtain ⟨b2, c2⟩ := r2
      simp only []
      cases c c2 with
      | none => rfl
      | some r3 => obtain ⟨b3, c3⟩ := r3; simp

theorem W.markObj_lead_comm (id lead : Nat) (w : W) :
    W.seq (W.markObj id) (W.lead lead w) = W.lead lead (W.seq (W.markObj id) w) := by
  funext c
  simp only [W.seq, W.lead, W.markObj]
  by_cases e : id = c.n
  · simp only [e, if_true]
    cases w { c with n := c.n + 1 } with
    | none => rfl
    | some r => obtain ⟨b, c2⟩ := r; simp
  · simp [e]

theorem Paired.value_eq {α : Type} {T : Heap} {w : W} {r : R α} {a b : α} (h : Paired T w r a) (e : a = b) : Paired T w r b := by
  subst e; exact h

end JanetModel.Marsh
