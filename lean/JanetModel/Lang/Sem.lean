/- C02: executable (fuelled) reference big-step semantics of the core language AFTER macro expansion:
   def var set if do while break fn (plain, &opt, &, &keys, &named, destructured parameters, named recursion) quote quasiquote
   unquote splice upscope, destructuring, closures over mutable variables (boxes in a store of their own), calls of core functions
   (`Bytecode/ExecCore.callPrim`), ordered effect trace, errors with the position of the raising form (an unmapped form
   inherits the position of the nearest enclosing mapped form, as `c->current_mapping` does in compile.c).
   Scoping is lexical and sequential: `eval` returns the environment extended by the bindings the form introduced; `do`,
   `while` bodies, `if` branches and function bodies discard it, `upscope` keeps it.  Independent of the compiler and of the
   VM model (shares only values and core functions with them).  Core Lean only. -/
import JanetModel.Bytecode.ExecCore
namespace JanetModel.Lang
open JanetModel.Bytecode.Exec

inductive Expr where
  | lit (v : Value)
  | sym (s : String)
  | form (xs : List Expr) (pos : Pos)     -- ( ... )
  | btup (xs : List Expr)                 -- [ ... ]
  | arr (xs : List Expr)                  -- @[ ... ]
  | tbl (xs : List Expr)                  -- @{ ... } flat
  | stc (xs : List Expr)                  -- { ... } flat
  deriving Inhabited

abbrev Env := List (String × Nat)         -- name ↦ index of its box in `SS.boxes`

structure Lam where
  params : List Expr
  body : List Expr
  env : Env
  name : Option String
  deriving Inhabited

structure SS where
  st : State := {}
  lams : Array Lam := #[]
  boxes : Array Value := #[]              -- the variables' boxes: a store of their own, out of reach of every value
  deriving Inhabited

inductive R (α : Type) where
  | ok (a : α) (s : SS)
  | err (v : Value) (pos : Pos) (s : SS)
  | brk (v : Value) (s : SS)
  | stop (why : String)
  deriving Inhabited

def lookupEnv : Env → String → Option Nat
  | [], _ => none
  | (n, a) :: rest, x => if n == x then some a else lookupEnv rest x

def readBox (s : SS) (a : Nat) : Value := s.boxes.getD a .nil

def writeBox (s : SS) (a : Nat) (v : Value) : SS := { s with boxes := s.boxes.setIfInBounds a v }

def bind (env : Env) (name : String) (v : Value) (s : SS) : Env × SS :=
  ((name, s.boxes.size) :: env, { s with boxes := s.boxes.push v })

def rtErr : Value := .str "<rt>"

/-- lift a primitive result at position `pos` -/
def liftP {α β : Type} (r : PRes α) (pos : Pos) (s : SS) (k : α → R β) : R β :=
  match r with
  | .ok a => k a
  | .rt => .err rtErr pos s
  | .user v => .err v pos s
  | .unsup w => .stop w

def posOf (cur p : Pos) : Pos := if p.line ≥ 0 then p else cur

def symName : Expr → Option String
  | .sym s => some s
  | _ => none

/-- quoted data -/
def quoteVal : Nat → Expr → Option Value
  | 0, _ => none
  | _ + 1, .lit v => some v
  | _ + 1, .sym s => some (.sym s)
  | f + 1, .form xs _ => (xs.mapM (quoteVal f)).map (fun vs => .tuple vs false)
  | f + 1, .btup xs => (xs.mapM (quoteVal f)).map (fun vs => .tuple vs true)
  | f + 1, .stc xs => (xs.mapM (quoteVal f)).map (fun vs => mkStruct #[] vs)
  | _ + 1, _ => none

/-- parameter list classification (specials.c `janetc_fn`) -/
structure Params where
  pos : List Expr := []
  optFrom : Option Nat := none
  rest : Option Expr := none
  extraOk : Bool := false
  keys : Option Expr := none
  named : Option (List String) := none

def classify : List Expr → Params → Params
  | [], p => p
  | .sym "&opt" :: rest, p => classify rest { p with optFrom := some p.pos.length }
  | [.sym "&"], p => { p with extraOk := true }
  | .sym "&" :: r :: rest, p => classify rest { p with rest := some r }
  | .sym "&keys" :: k :: rest, p => classify rest { p with keys := some k }
  | .sym "&named" :: rest, p => { p with named := some (rest.filterMap symName) }
  | x :: rest, p => classify rest { p with pos := p.pos ++ [x] }

def isSplice : Expr → Option Expr
  | .form [.sym "splice", x] _ => some x
  | _ => none

def seqOf (heap : Array HeapObj) : Value → Option (List Value)
  | .tuple xs _ => some xs
  | .arr a => match heap[a]? with | some (.arr xs) => some xs.toList | _ => none
  | _ => none

mutual

/-- destructuring (specials.c `destructure`): symbols bind; indexed patterns use `janet_getindex`, `& rest` collects a tuple,
    dictionary patterns use `janet_in` with literal keys -/
def destructure : Nat → Pos → Env → Expr → Value → SS → R Env
  | 0, _, _, _, _, _ => .stop "fuel"
  | f + 1, cur, env, pat, v, s =>
    match pat with
    | .sym name => let (env', s') := bind env name v s; .ok env' s'
    | .form xs _ | .btup xs | .arr xs => destructIdx f cur env xs 0 v s
    | .stc xs | .tbl xs => destructKV f cur env xs v s
    | .lit _ => .stop "literal in pattern"

def destructIdx : Nat → Pos → Env → List Expr → Nat → Value → SS → R Env
  | 0, _, _, _, _, _, _ => .stop "fuel"
  | _ + 1, _, env, [], _, _, s => .ok env s
  | f + 1, cur, env, .sym "&" :: r :: _, i, v, s =>
    liftP (vlength s.st.heap v) cur s (fun n =>
      let rest := (List.range (n - i)).map (fun j => vget s.st.heap v (.num (Float.ofNat (i + j))))
      destructure f cur env r (.tuple rest false) s)
  | f + 1, cur, env, p :: ps, i, v, s =>
    liftP (vgetindex s.st.heap v i) cur s (fun x =>
      match destructure f cur env p x s with
      | .ok env' s' => destructIdx f cur env' ps (i + 1) v s'
      | r => r)

def destructKV : Nat → Pos → Env → List Expr → Value → SS → R Env
  | 0, _, _, _, _, _ => .stop "fuel"
  | f + 1, cur, env, .lit k :: p :: rest, v, s =>
    liftP (vin s.st.heap v k) cur s (fun x =>
      match destructure f cur env p x s with
      | .ok env' s' => destructKV f cur env' rest v s'
      | r => r)
  | _ + 1, _, env, [], _, s => .ok env s
  | _ + 1, _, _, _, _, _ => .stop "non-literal key in pattern"

end

mutual

/-- evaluate a form; returns the value and the environment extended by bindings the form made in the current scope -/
def eval : Nat → Pos → Env → Expr → SS → R (Value × Env)
  | 0, _, _, _, _ => .stop "fuel"
  | f + 1, cur, env, e, s =>
    match e with
    | .lit v => .ok (v, env) s
    | .sym x =>
      match lookupEnv env x with
      | some a => .ok (readBox s a, env) s
      | none => .ok (.cfun x, env) s
    | .btup xs =>
      match evalArgs f cur env xs s with
      | .ok (vs, env') s' => .ok (.tuple vs false, env') s'   -- a bracket literal evaluates to an ordinary tuple
      | .err v p s' => .err v p s' | .brk v s' => .brk v s' | .stop w => .stop w
    | .arr xs =>
      match evalArgs f cur env xs s with
      | .ok (vs, env') s' => let (v, st') := allocV s'.st (.arr vs.toArray) Value.arr; .ok (v, env') { s' with st := st' }
      | .err v p s' => .err v p s' | .brk v s' => .brk v s' | .stop w => .stop w
    | .tbl xs =>
      match evalArgs f cur env xs s with
      | .ok (vs, env') s' =>
        liftP (mkTablePairs vs) cur s' (fun kvs => let (v, st') := allocV s'.st (.tbl kvs) Value.tbl; .ok (v, env') { s' with st := st' })
      | .err v p s' => .err v p s' | .brk v s' => .brk v s' | .stop w => .stop w
    | .stc xs =>
      match evalArgs f cur env xs s with
      | .ok (vs, env') s' => .ok (mkStruct s'.st.heap vs, env') s'
      | .err v p s' => .err v p s' | .brk v s' => .brk v s' | .stop w => .stop w
    | .form [] _ => .ok (.tuple [] false, env) s
    | .form (hd :: args) p =>
      let cur := posOf cur p
      match hd, args with
      | .sym "do", _ =>
        match evalSeq f cur env args s with
        | .ok (v, _) s' => .ok (v, env) s'
        | r => r
      | .sym "upscope", _ => evalSeq f cur env args s
      | .sym "quote", [x] =>
        match quoteVal f x with
        | some v => .ok (v, env) s
        | none => .stop "quote of mutable literal"
      | .sym "quasiquote", [x] =>
        match qq f cur env x s with
        | .ok v s' => .ok (v, env) s'
        | .err v p s' => .err v p s' | .brk v s' => .brk v s' | .stop w => .stop w
      | .sym "if", c :: rest =>
        match eval f cur env c s with
        | .ok (cv, cenv) s' =>
          let branch := if truthy cv then rest.head? else (rest.drop 1).head?
          match branch with
          | none => .ok (.nil, env) s'
          | some b =>
            match eval f cur cenv b s' with
            | .ok (v, _) s'' => .ok (v, env) s''
            | r => r
        | r => r
      | .sym "while", c :: body =>
        match whileLoop f cur env c body s with
        | .ok _ s' => .ok (.nil, env) s'
        | .err v p s' => .err v p s' | .brk v s' => .brk v s' | .stop w => .stop w
      | .sym "break", [] => .brk .nil s
      | .sym "break", [x] =>
        match eval f cur env x s with
        | .ok (v, _) s' => .brk v s'
        | r => r
      | .sym "def", pat :: rest | .sym "var", pat :: rest =>
        match rest.getLast? with
        | none => .stop "def without value"
        | some ve =>
          match eval f cur env ve s with
          | .ok (v, env1) s' =>
            match destructure f cur env1 pat v s' with
            | .ok env2 s'' => .ok (v, env2) s''
            | .err v p s'' => .err v p s'' | .brk v s'' => .brk v s'' | .stop w => .stop w
          | r => r
      | .sym "set", [.sym x, ve] =>
        -- the target is the binding of `x` visible AT the `set` form (the compiler resolves it before compiling the value):
        -- `(set x (def x 5))` assigns the outer `x`
        match eval f cur env ve s with
        | .ok (v, env1) s' =>
          match lookupEnv env x with
          | some a => .ok (v, env1) (writeBox s' a v)
          | none => .stop ("set of unknown variable " ++ x)
        | r => r
      | .sym "set", [.form [dse, ke] _, ve] =>
        match eval f cur env dse s with
        | .ok (ds, env1) s1 =>
          match eval f cur env1 ke s1 with
          | .ok (k, env2) s2 =>
            match eval f cur env2 ve s2 with
            | .ok (v, env3) s3 =>
              liftP (vput s3.st.heap ds k v) cur s3 (fun h => .ok (v, env3) { s3 with st := { s3.st with heap := h } })
            | r => r
          | r => r
        | r => r
      | .sym "fn", _ =>
        let (name, rest) : Option String × List Expr := match args with
          | .sym n :: r => (some n, r)
          | .lit (.kw _) :: r => (none, r)
          | r => (none, r)
        match rest with
        | .btup ps :: body =>
          let idx := s.lams.size
          let s1 := { s with lams := s.lams.push { params := ps, body := body, env := env, name := name } }
          let (v, st') := allocV s1.st (.lam idx 0) Value.fn
          .ok (v, env) { s1 with st := st' }
        | _ => .stop "fn without parameter tuple"
      | _, _ =>
        match eval f cur env hd s with
        | .ok (fv, env1) s1 =>
          match evalArgs f cur env1 args s1 with
          | .ok (vs, env2) s2 =>
            match applyFn f cur fv vs s2 with
            | .ok v s3 => .ok (v, env2) s3
            | .err v p s3 => .err v p s3 | .brk v s3 => .brk v s3 | .stop w => .stop w
          | .err v p s' => .err v p s' | .brk v s' => .brk v s' | .stop w => .stop w
        | r => r

/-- forms in sequence in one scope -/
def evalSeq : Nat → Pos → Env → List Expr → SS → R (Value × Env)
  | 0, _, _, _, _ => .stop "fuel"
  | _ + 1, _, env, [], s => .ok (.nil, env) s
  | f + 1, cur, env, [e], s => eval f cur env e s
  | f + 1, cur, env, e :: rest, s =>
    match eval f cur env e s with
    | .ok (_, env') s' => evalSeq f cur env' rest s'
    | r => r

/-- arguments left to right, `(splice x)` spreads an indexed value -/
def evalArgs : Nat → Pos → Env → List Expr → SS → R (List Value × Env)
  | 0, _, _, _, _ => .stop "fuel"
  | _ + 1, _, env, [], s => .ok ([], env) s
  | f + 1, cur, env, e :: rest, s =>
    match isSplice e with
    | some x =>
      match eval f cur env x s with
      | .ok (v, env') s' =>
        match seqOf s'.st.heap v with
        | none => .err rtErr cur s'
        | some xs =>
          match evalArgs f cur env' rest s' with
          | .ok (vs, env'') s'' => .ok (xs ++ vs, env'') s''
          | r => r
      | .err v p s' => .err v p s' | .brk v s' => .brk v s' | .stop w => .stop w
    | none =>
      match eval f cur env e s with
      | .ok (v, env') s' =>
        match evalArgs f cur env' rest s' with
        | .ok (vs, env'') s'' => .ok (v :: vs, env'') s''
        | r => r
      | .err v p s' => .err v p s' | .brk v s' => .brk v s' | .stop w => .stop w

def whileLoop : Nat → Pos → Env → Expr → List Expr → SS → R Unit
  | 0, _, _, _, _, _ => .stop "fuel"
  | f + 1, cur, env, c, body, s =>
    match eval f cur env c s with
    | .ok (cv, cenv) s' =>
      if truthy cv then
        match evalSeq f cur cenv body s' with
        | .ok _ s'' => whileLoop f cur env c body s''
        | .brk _ s'' => .ok () s''
        | .err v p s'' => .err v p s''
        | .stop w => .stop w
      else .ok () s'
    | .err v p s' => .err v p s' | .brk v s' => .brk v s' | .stop w => .stop w

/-- quasiquote template -/
def qq : Nat → Pos → Env → Expr → SS → R Value
  | 0, _, _, _, _ => .stop "fuel"
  | f + 1, cur, env, e, s =>
    match e with
    | .form [.sym "unquote", x] _ =>
      match eval f cur env x s with
      | .ok (v, _) s' => .ok v s'
      | .err v p s' => .err v p s' | .brk v s' => .brk v s' | .stop w => .stop w
    | .form xs _ => match qqList f cur env xs s with | .ok vs s' => .ok (.tuple vs false) s' | .err v p s' => .err v p s' | .brk v s' => .brk v s' | .stop w => .stop w
    | .btup xs => match qqList f cur env xs s with | .ok vs s' => .ok (.tuple vs true) s' | .err v p s' => .err v p s' | .brk v s' => .brk v s' | .stop w => .stop w
    | .lit v => .ok v s
    | .sym x => .ok (.sym x) s
    | .arr xs =>
      match qqList f cur env xs s with
      | .ok vs s' => let (v, st') := allocV s'.st (.arr vs.toArray) Value.arr; .ok v { s' with st := st' }
      | .err v p s' => .err v p s' | .brk v s' => .brk v s' | .stop w => .stop w
    | .tbl xs =>
      match qqList f cur env xs s with
      | .ok vs s' => liftP (mkTablePairs vs) cur s' (fun kvs => let (v, st') := allocV s'.st (.tbl kvs) Value.tbl; .ok v { s' with st := st' })
      | .err v p s' => .err v p s' | .brk v s' => .brk v s' | .stop w => .stop w
    | .stc xs =>
      match qqList f cur env xs s with
      | .ok vs s' => .ok (mkStruct s'.st.heap vs) s'
      | .err v p s' => .err v p s' | .brk v s' => .brk v s' | .stop w => .stop w

def qqList : Nat → Pos → Env → List Expr → SS → R (List Value)
  | 0, _, _, _, _ => .stop "fuel"
  | _ + 1, _, _, [], s => .ok [] s
  | f + 1, cur, env, e :: rest, s =>
    match e with
    | .form [.sym "unquote", .form [.sym "splice", x] _] p =>
      match eval f cur env x s with
      | .ok (v, _) s' =>
        match seqOf s'.st.heap v with
        | none => .err rtErr (posOf cur p) s'
        | some xs => match qqList f cur env rest s' with | .ok vs s'' => .ok (xs ++ vs) s'' | r => r
      | .err v p s' => .err v p s' | .brk v s' => .brk v s' | .stop w => .stop w
    | _ =>
      match qq f cur env e s with
      | .ok v s' => match qqList f cur env rest s' with | .ok vs s'' => .ok (v :: vs) s'' | r => r
      | .err v p s' => .err v p s' | .brk v s' => .brk v s' | .stop w => .stop w

/-- function application: closures (arity check, &opt / & / &keys / &named packing, self name), core functions, callable data -/
def applyFn : Nat → Pos → Value → List Value → SS → R Value
  | 0, _, _, _, _ => .stop "fuel"
  | f + 1, cur, fv, args, s =>
    match fv with
    | .cfun "apply" =>
      match args with
      | g :: rest =>
        match rest.getLast? with
        | none => .err rtErr cur s
        | some l =>
          match seqOf s.st.heap l with
          | none => .err rtErr cur s
          | some xs => applyFn f cur g (rest.dropLast ++ xs) s
      | [] => .err rtErr cur s
    | .cfun name => liftP (callPrim name args s.st) cur s (fun (v, st') => .ok v { s with st := st' })
    | .fn addr =>
      match s.st.heap[addr]? with
      | some (.lam idx _) =>
        let lam := s.lams.getD idx default
        let ps := classify lam.params {}
        let n := ps.pos.length
        let minar := ps.optFrom.getD n
        let variadic := ps.rest.isSome || ps.extraOk || ps.keys.isSome || ps.named.isSome
        if args.length < minar || (!variadic && args.length > n) then .err rtErr cur s else
        let extra := args.drop n
        let kst := mkStruct s.st.heap extra
        let binds : List (Expr × Value) :=
          (ps.pos.zipIdx.map (fun (p, i) => (p, args.getD i .nil)))
          ++ (match ps.rest with | some r => [(r, Value.tuple extra false)] | none => [])
          ++ (match ps.keys with | some k => [(k, kst)] | none => [])
        -- symbols first, then destructured patterns (the compiler names plain parameters before destructuring)
        let symBinds := binds.filter (fun b => (symName b.1).isSome)
        let patBinds := binds.filter (fun b => (symName b.1).isNone)
        match bindAll f cur lam.env (symBinds ++ patBinds) s with
        | .ok env1 s1 =>
          let namedBinds : List (Expr × Value) := match ps.named with
            | some ns => ns.map (fun nm => (Expr.sym nm, vget s1.st.heap kst (.kw nm)))
            | none => []
          match bindAll f cur env1 namedBinds s1 with
          | .ok env2 s2 =>
            let shadow := symBinds.any (fun b => symName b.1 == lam.name)
            let (env3, s3) := match lam.name with
              | some nm => if shadow then (env2, s2) else bind env2 nm fv s2
              | none => (env2, s2)
            match evalSeq f cur env3 lam.body s3 with
            | .ok (v, _) s4 => .ok v s4
            | .brk v s4 => .ok v s4
            | .err v p s4 => .err v p s4
            | .stop w => .stop w
          | .err v p s' => .err v p s' | .brk v s' => .brk v s' | .stop w => .stop w
        | .err v p s' => .err v p s' | .brk v s' => .brk v s' | .stop w => .stop w
      | _ => .stop "bad closure"
    | .kw _ => .stop "keyword call"
    | ds =>
      match args with
      | [k] => liftP (vin s.st.heap ds k) cur s (fun v => .ok v s)
      | _ => .err rtErr cur s

def bindAll : Nat → Pos → Env → List (Expr × Value) → SS → R Env
  | 0, _, _, _, _ => .stop "fuel"
  | _ + 1, _, env, [], s => .ok env s
  | f + 1, cur, env, (p, v) :: rest, s =>
    match destructure f cur env p v s with
    | .ok env' s' => bindAll f cur env' rest s'
    | r => r

end

/-- a whole program = top-level forms evaluated in sequence in the global scope -/
def runProgram (fuel : Nat) (forms : List Expr) : R (Value × Env) := evalSeq fuel {} [] forms {}

end JanetModel.Lang
