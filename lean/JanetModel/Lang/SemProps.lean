/- C02: the reference semantics is context independent: evaluating an expression inside one of the embedding contexts of
   the property equals a fixed, context-specific post-processing of evaluating the expression itself (same value, same
   effects, same error and error position).  So any context dependence observed on the implementation is the compiler's. -/
import JanetModel.Lang.Sem
namespace JanetModel.Lang
open JanetModel.Bytecode.Exec

/-- an unmapped (macro- / wrapper-generated) form: inherits the position of its surroundings -/
def wrapForm (xs : List Expr) : Expr := .form xs {}

/-- the embedding contexts -/
def ctxDoUsed (e : Expr) : Expr := wrapForm [.sym "do", e]                               -- value used, new scope
def ctxDropped (e : Expr) : Expr := wrapForm [.sym "do", e, .lit (.kw "dropped")]          -- value dropped
def ctxBranch (e : Expr) : Expr := wrapForm [.sym "if", .lit (.bool true), e, .lit .nil]   -- branch of a conditional
def ctxArg (e : Expr) : Expr := wrapForm [.sym "identity", e]                              -- argument of a call (non-tail, used)
def ctxUpscope (e : Expr) : Expr := wrapForm [.sym "upscope", e]                           -- spliced into the enclosing scope (top level)

/-- what a scope-creating context does to the result: bindings made by `e` do not escape -/
def closeScope {α : Type} (env : Env) : R (α × Env) → R (α × Env)
  | .ok (v, _) s => .ok (v, env) s
  | r => r

def dropValue (env : Env) : R (Value × Env) → R (Value × Env)
  | .ok (_, _) s => .ok (.kw "dropped", env) s
  | r => r

theorem posOf_unmapped (cur : Pos) : posOf cur {} = cur := by
  simp [posOf]

theorem ctx_do_used (n : Nat) (cur : Pos) (env : Env) (e : Expr) (s : SS) :
    eval (n + 2) cur env (ctxDoUsed e) s = closeScope env (eval n cur env e s) := by
  simp only [ctxDoUsed, wrapForm, eval, posOf_unmapped, evalSeq]
  cases eval n cur env e s with
  | ok a s' => cases a; rfl
  | err v p s' => rfl
  | brk v s' => rfl
  | stop w => rfl

theorem ctx_upscope (n : Nat) (cur : Pos) (env : Env) (e : Expr) (s : SS) :
    eval (n + 2) cur env (ctxUpscope e) s = eval n cur env e s := by
  simp only [ctxUpscope, wrapForm, eval, posOf_unmapped, evalSeq]

theorem ctx_dropped (n : Nat) (cur : Pos) (env : Env) (e : Expr) (s : SS) :
    eval (n + 4) cur env (ctxDropped e) s = dropValue env (eval (n + 2) cur env e s) := by
  show eval ((n + 2) + 2) cur env (ctxDropped e) s = dropValue env (eval (n + 2) cur env e s)
  generalize hm : n + 2 = m
  simp only [ctxDropped, wrapForm, eval, posOf_unmapped, evalSeq]
  cases eval m cur env e s with
  | ok a s' =>
    cases a
    subst hm
    simp only [evalSeq, eval, dropValue]
  | err v p s' => rfl
  | brk v s' => rfl
  | stop w => rfl

theorem ctx_branch (n : Nat) (cur : Pos) (env : Env) (e : Expr) (s : SS) :
    eval (n + 3) cur env (ctxBranch e) s = closeScope env (eval (n + 2) cur env e s) := by
  show eval ((n + 2) + 1) cur env (ctxBranch e) s = closeScope env (eval (n + 2) cur env e s)
  generalize hm : n + 2 = m
  have h1 : eval m cur env (.lit (.bool true)) s = .ok (.bool true, env) s := by subst hm; simp only [eval]
  simp only [ctxBranch, wrapForm, eval, posOf_unmapped, h1, truthy, List.head?, if_true]
  cases eval m cur env e s with
  | ok a s' => cases a; rfl
  | err v p s' => rfl
  | brk v s' => rfl
  | stop w => rfl

theorem callPrim_identity (v : Value) (st : State) : callPrim "identity" [v] st = .ok (v, st) := by
  rfl

/-- value used as the argument of a call (non-tail position): the call returns what `e` returned; bindings made inside the
    argument stay in the current scope, exactly as for `e` itself -/
theorem applyFn_identity (f : Nat) (cur : Pos) (v : Value) (s : SS) :
    applyFn (f + 1) cur (.cfun "identity") [v] s = .ok v s := by
  rw [applyFn] <;> try (simp; done)
  simp only [callPrim_identity, liftP]

theorem ctx_arg (n : Nat) (cur : Pos) (env : Env) (e : Expr) (s : SS)
    (hfree : lookupEnv env "identity" = none) (hsp : isSplice e = none) :
    eval (n + 3) cur env (ctxArg e) s = eval (n + 1) cur env e s := by
  show eval (((n + 1) + 1) + 1) cur env (ctxArg e) s = eval (n + 1) cur env e s
  generalize hk : n + 1 = k
  have h1 : eval (k + 1) cur env (.sym "identity") s = .ok (.cfun "identity", env) s := by simp only [eval, hfree]
  have h2 : evalArgs (k + 1) cur env [e] s =
      (match eval k cur env e s with
       | .ok (v, env') s' => .ok ([v], env') s'
       | .err v p s' => .err v p s' | .brk v s' => .brk v s' | .stop w => .stop w) := by
    simp only [evalArgs, hsp]
    cases eval k cur env e s with
    | ok a s' => cases a; subst hk; simp only [evalArgs]
    | err v p s' => rfl
    | brk v s' => rfl
    | stop w => rfl
  rw [ctxArg, wrapForm, eval] <;> try (simp; done)
  simp only [posOf_unmapped, h1, h2]
  cases eval k cur env e s with
  | ok a s' => cases a; simp only [applyFn_identity]
  | err v p s' => rfl
  | brk v s' => rfl
  | stop w => rfl

def ctxFnTail (e : Expr) : Expr := wrapForm [wrapForm [.sym "fn", .btup [], e]]

def withLam (s : SS) (env : Env) (e : Expr) : SS :=
  { s with lams := s.lams.push { params := [], body := [e], env := env, name := none },
           st := (s.st.alloc (.lam s.lams.size 0)).1 }

def fnResult (env : Env) : R (Value × Env) → R (Value × Env)
  | .ok (v, _) s => .ok (v, env) s
  | .brk v s => .ok (v, env) s
  | r => r

theorem eval_fn0 (k : Nat) (cur : Pos) (env : Env) (e : Expr) (s : SS) :
    eval (k + 1) cur env (wrapForm [.sym "fn", .btup [], e]) s = .ok (.fn s.st.heap.size, env) (withLam s env e) := by
  rw [wrapForm, eval] <;> try (simp; done)
  simp [withLam, allocV, State.alloc]

theorem applyFn_lam0 (j : Nat) (cur : Pos) (env : Env) (e : Expr) (s : SS) :
    applyFn (j + 2) cur (.fn s.st.heap.size) [] (withLam s env e) =
      (match evalSeq (j + 1) cur env [e] (withLam s env e) with
       | .ok (v, _) s4 => .ok v s4
       | .brk v s4 => .ok v s4
       | .err v p s4 => .err v p s4
       | .stop w => .stop w) := by
  rw [applyFn]
  simp [withLam, State.alloc, classify, bindAll, symName]
  rfl

/-- function body, tail position: `((fn [] e))`.  The context only adds the closure object to the heap before `e` runs
    (`withLam`); a `break` at the top of `e` becomes the function's return value (`fnResult`). -/
theorem ctx_fn_tail (n : Nat) (cur : Pos) (env : Env) (e : Expr) (s : SS) :
    eval (n + 3) cur env (ctxFnTail e) s = fnResult env (eval n cur env e (withLam s env e)) := by
  rw [ctxFnTail, wrapForm, eval] <;> try (simp [wrapForm]; done)
  have h1 : eval (n + 2) cur env (wrapForm [.sym "fn", .btup [], e]) s = .ok (.fn s.st.heap.size, env) (withLam s env e) :=
    eval_fn0 (n + 1) cur env e s
  have h2 : applyFn (n + 2) cur (.fn s.st.heap.size) [] (withLam s env e) =
      (match evalSeq (n + 1) cur env [e] (withLam s env e) with
       | .ok (v, _) s4 => .ok v s4
       | .brk v s4 => .ok v s4
       | .err v p s4 => .err v p s4
       | .stop w => .stop w) := applyFn_lam0 n cur env e s
  simp only [posOf_unmapped, h1, evalArgs, h2, evalSeq]
  cases eval n cur env e (withLam s env e) with
  | ok a s' => cases a; rfl
  | err v p s' => rfl
  | brk v s' => rfl
  | stop w => rfl

/-! ### function body, NON-tail position, value used: `((fn [] (def r_ e) r_))` (context `fn_used` of the check) -/

def ctxFnUsed (e : Expr) : Expr :=
  wrapForm [wrapForm [.sym "fn", .btup [], wrapForm [.sym "def", .sym "r_", e], .sym "r_"]]

def withLam2 (s : SS) (env : Env) (body : List Expr) : SS :=
  { s with lams := s.lams.push { params := [], body := body, env := env, name := none },
           st := (s.st.alloc (.lam s.lams.size 0)).1 }

/-- what the wrapper does with the result of `e`: the value is bound to `r_` (one more box) and read back; bindings do not
    escape; a top-level `break` of `e` returns from the function with its value, without the binding -/
def fnUsedResult (env : Env) : R (Value × Env) → R (Value × Env)
  | .ok (v, _) s => .ok (v, env) { s with boxes := s.boxes.push v }
  | .brk v s => .ok (v, env) s
  | r => r

theorem eval_fn0' (k : Nat) (cur : Pos) (env : Env) (body : List Expr) (s : SS) :
    eval (k + 1) cur env (wrapForm (.sym "fn" :: .btup [] :: body)) s = .ok (.fn s.st.heap.size, env) (withLam2 s env body) := by
  rw [wrapForm, eval] <;> try (simp; done)
  simp [withLam2, allocV, State.alloc]

theorem applyFn_lam0' (j : Nat) (cur : Pos) (env : Env) (body : List Expr) (s : SS) :
    applyFn (j + 2) cur (.fn s.st.heap.size) [] (withLam2 s env body) =
      (match evalSeq (j + 1) cur env body (withLam2 s env body) with
       | .ok (v, _) s4 => .ok v s4
       | .brk v s4 => .ok v s4
       | .err v p s4 => .err v p s4
       | .stop w => .stop w) := by
  rw [applyFn]
  simp [withLam2, State.alloc, classify, bindAll, symName]
  rfl

theorem readBox_push (s : SS) (v : Value) : readBox { s with boxes := s.boxes.push v } s.boxes.size = v := by
  simp [readBox]

/-- `sem_context_free`, function body in non-tail position with the value used through a local: evaluating
    `((fn [] (def r_ e) r_))` is `fnUsedResult` of evaluating `e` (in the state that has the wrapper's closure object) -/
theorem ctx_fn_used (n : Nat) (cur : Pos) (env : Env) (e : Expr) (s : SS) :
    eval (n + 6) cur env (ctxFnUsed e) s =
      fnUsedResult env (eval (n + 2) cur env e (withLam2 s env [wrapForm [.sym "def", .sym "r_", e], .sym "r_"])) := by
  rw [ctxFnUsed, wrapForm, eval] <;> try (simp [wrapForm]; done)
  have h1 := eval_fn0' (n + 4) cur env [wrapForm [.sym "def", .sym "r_", e], .sym "r_"] s
  have h2 := applyFn_lam0' (n + 3) cur env [wrapForm [.sym "def", .sym "r_", e], .sym "r_"] s
  simp only [posOf_unmapped, h1, evalArgs, h2]
  generalize withLam2 s env [wrapForm [.sym "def", .sym "r_", e], .sym "r_"] = s1
  -- the body: (def r_ e) then r_
  have hdef : eval (n + 3) cur env (wrapForm [.sym "def", .sym "r_", e]) s1 =
      (match eval (n + 2) cur env e s1 with
       | .ok (v, env1) s' => .ok (v, ("r_", s'.boxes.size) :: env1) { s' with boxes := s'.boxes.push v }
       | .err v p s' => .err v p s' | .brk v s' => .brk v s' | .stop w => .stop w) := by
    rw [wrapForm, eval] <;> try (simp; done)
    simp only [posOf_unmapped, List.getLast?, List.getLast]
    cases eval (n + 2) cur env e s1 with
    | ok a s' => cases a; simp [destructure, bind]
    | err v p s' => rfl
    | brk v s' => rfl
    | stop w => rfl
  simp only [evalSeq, hdef]
  cases eval (n + 2) cur env e s1 with
  | ok a s' =>
    cases a with
    | mk v env1 =>
      simp only [evalSeq, eval, lookupEnv, fnUsedResult]
      simp [readBox]
  | err v p s' => rfl
  | brk v s' => rfl
  | stop w => rfl

end JanetModel.Lang
