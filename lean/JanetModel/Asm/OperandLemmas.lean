import JanetModel.Asm.Operand

namespace JanetModel.Asm
open JanetModel.Gen.Asm JanetModel.Gen.Bytecode

/-- the shape every generated field has: 1..3 bytes, starting at byte 1..3, inside the 32-bit word -/
def FieldOK (f : Field) : Prop := 1 ≤ f.nth ∧ 1 ≤ f.nbytes ∧ f.nth + f.nbytes ≤ 4

theorem doarg_roundtrip' (f : Field) (hf : FieldOK f) (arg : Int) (h : Encodable f arg) :
    ∃ w, doarg f arg = some w ∧ fieldRead f w = arg := by
  obtain ⟨nth, nbytes, signed⟩ := f
  obtain ⟨h1, h2, h3⟩ := hf
  simp only at h1 h2 h3
  have hc : (nth = 1 ∧ nbytes = 1) ∨ (nth = 1 ∧ nbytes = 2) ∨ (nth = 1 ∧ nbytes = 3) ∨ (nth = 2 ∧ nbytes = 1) ∨
      (nth = 2 ∧ nbytes = 2) ∨ (nth = 3 ∧ nbytes = 1) := by omega
  rcases hc with ⟨rfl, rfl⟩ | ⟨rfl, rfl⟩ | ⟨rfl, rfl⟩ | ⟨rfl, rfl⟩ | ⟨rfl, rfl⟩ | ⟨rfl, rfl⟩ <;> cases signed <;>
    simp [Encodable] at h <;>
    simp [doarg, fieldMin, fieldMax, fieldRead, doargMinSlack] <;>
    omega

end JanetModel.Asm
