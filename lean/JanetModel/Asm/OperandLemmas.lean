import JanetModel.Asm.Operand

namespace JanetModel.Asm
open JanetModel.Gen.Asm JanetModel.Gen.Bytecode

/-- the shape every generated field has: 1..3 bytes, starting at byte 1..3, inside the 32-bit word -/
def FieldOK (f : Field) : Prop := 1 ≤ f.nth ∧ 1 ≤ f.nbytes ∧ f.nth + f.nbytes ≤ 4

instance (f : Field) : Decidable (FieldOK f) := by unfold FieldOK; exact inferInstance

theorem fields_ok : ∀ (t : IType) (f : Field), f ∈ fieldsOf t → FieldOK f := by
  intro t
  cases t <;> decide

theorem doarg_eq (f : Field) (arg : Int) (h1 : ¬ arg < fieldMin f) (h2 : ¬ arg > fieldMax f) :
    doarg f arg = some (((arg % 4294967296).toNat * 2 ^ (8 * f.nth)) % 4294967296) := by
  simp [doarg, h1, h2]

theorem doarg_roundtrip' (f : Field) (hf : FieldOK f) (arg : Int) (h : Encodable f arg) :
    ∃ w, doarg f arg = some w ∧ fieldRead f w = arg := by
  obtain ⟨nth, nbytes, signed⟩ := f
  obtain ⟨h1, h2, h3⟩ := hf
  simp only at h1 h2 h3
  have hc : (nth = 1 ∧ nbytes = 1) ∨ (nth = 1 ∧ nbytes = 2) ∨ (nth = 1 ∧ nbytes = 3) ∨ (nth = 2 ∧ nbytes = 1) ∨
      (nth = 2 ∧ nbytes = 2) ∨ (nth = 3 ∧ nbytes = 1) := by omega
  rcases hc with ⟨rfl, rfl⟩ | ⟨rfl, rfl⟩ | ⟨rfl, rfl⟩ | ⟨rfl, rfl⟩ | ⟨rfl, rfl⟩ | ⟨rfl, rfl⟩ <;> cases signed <;>
    simp [Encodable] at h <;>
    refine ⟨_, doarg_eq _ _ ?_ ?_, ?_⟩ <;>
    simp [fieldMin, fieldMax, doargMinSlack, fieldRead] <;>
    first
      | omega
      | (split <;> omega)

end JanetModel.Asm
