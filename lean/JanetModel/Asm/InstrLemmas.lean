/-
asm ∘ disasm on instruction words: for every opcode of the generated table, reassembling the disassembly of a canonical word
gives the word back; lifted to bytecode arrays.
-/
import JanetModel.Asm.Instr
import JanetModel.Asm.OperandLemmas

namespace JanetModel.Asm
open JanetModel.Gen.Asm JanetModel.Gen.Bytecode

theorem or_mul_pow (a b k : Nat) (ha : a < 2 ^ k) : a ||| (b * 2 ^ k) = a + b * 2 ^ k := by
  have h := Nat.shiftLeft_add_eq_or_of_lt ha b
  rw [Nat.shiftLeft_eq] at h
  rw [Nat.or_comm, ← h, Nat.add_comm]

/-- the bits of `w` that belong to field `f`, in place -/
def rawShift (f : Field) (w : Nat) : Nat := (w / 2 ^ (8 * f.nth) % 2 ^ (8 * f.nbytes)) * 2 ^ (8 * f.nth)

/-- signed operands always reach the top of the word (`(int32_t)instr >> k`) -/
def FieldTop (f : Field) : Prop := FieldOK f ∧ (f.signed = true → f.nth + f.nbytes = 4)

instance (f : Field) : Decidable (FieldTop f) := by unfold FieldTop; exact inferInstance

/-- **one operand, disasm then asm**: whatever the disassembler reads out of a field, the assembler accepts and puts back in
place -/
theorem doarg_fieldRead (f : Field) (hf : FieldTop f) (w : Nat) (_hw : w < 4294967296) :
    doarg f (fieldRead f w) = some (rawShift f w) := by
  obtain ⟨nth, nbytes, signed⟩ := f
  obtain ⟨⟨h1, h2, h3⟩, h4⟩ := hf
  simp only at h1 h2 h3 h4
  have hc : (nth = 1 ∧ nbytes = 1) ∨ (nth = 1 ∧ nbytes = 2) ∨ (nth = 1 ∧ nbytes = 3) ∨ (nth = 2 ∧ nbytes = 1) ∨
      (nth = 2 ∧ nbytes = 2) ∨ (nth = 3 ∧ nbytes = 1) := by omega
  rcases hc with ⟨rfl, rfl⟩ | ⟨rfl, rfl⟩ | ⟨rfl, rfl⟩ | ⟨rfl, rfl⟩ | ⟨rfl, rfl⟩ | ⟨rfl, rfl⟩ <;> cases signed <;>
    simp at h4 <;>
    simp only [doarg, fieldRead, fieldMin, fieldMax, doargMinSlack, rawShift, Bool.false_eq_true, false_and, if_false, true_and, if_true] <;>
    (try split) <;>
    simp <;>
    omega

def orAll : List Nat → Nat
  | [] => 0
  | x :: xs => x ||| orAll xs

theorem encodeArgs_read (w : Nat) (hw : w < 4294967296) :
    ∀ (fs : List Field), (∀ f ∈ fs, FieldTop f) → encodeArgs fs (fs.map fun f => fieldRead f w) = some (orAll (fs.map fun f => rawShift f w)) := by
  intro fs
  induction fs with
  | nil => intro _; rfl
  | cons f fs ih =>
    intro h
    simp only [List.map, encodeArgs, doarg_fieldRead f (h f (by simp)) w hw, ih (fun g hg => h g (by simp [hg])), orAll]

theorem fields_top : ∀ (t : IType) (f : Field), f ∈ fieldsOf t → FieldTop f := by
  intro t
  cases t <;> decide

/-- `Op.ofNat?` inverts `Op.toNat` on the generated opcode table -/
def ofNatOK (n : Nat) : Bool :=
  match Op.ofNat? n with
  | some op => op.toNat == n
  | none => true

theorem toNat_of_ofNat : ∀ n, n < 128 → ∀ op, Op.ofNat? n = some op → op.toNat = n := by
  have h : ∀ n, n < 128 → ofNatOK n = true := by decide
  intro n hn op ho
  have := h n hn
  simp only [ofNatOK, ho, beq_iff_eq] at this
  exact this

theorem s_field_eq (w : Nat) (h : w / 16777216 = 0) :
    (decodeFieldsOf .s).map (fun f => fieldRead f w) = (fieldsOf .s).map (fun f => fieldRead f w) := by
  simp [decodeFieldsOf, fieldsOf, fieldRead]
  omega


theorem or256 (a b : Nat) (ha : a < 256) : a ||| b * 256 = a + b * 256 := by
  exact or_mul_pow a b 8 ha
theorem or65536 (a b : Nat) (ha : a < 65536) : a ||| b * 65536 = a + b * 65536 := by
  exact or_mul_pow a b 16 ha
theorem or16777216 (a b : Nat) (ha : a < 16777216) : a ||| b * 16777216 = a + b * 16777216 := by
  exact or_mul_pow a b 24 ha

/-! word shapes: opcode byte ored with the operand bytes in place is the word (one lemma per operand layout) -/

theorem shape_0 (w : Nat) (hbp : w % 256 < 128) (h : w / 256 = 0) : w % 128 ||| 0 = w := by
  rw [Nat.or_zero]; omega

theorem shape_1 (w : Nat) (hbp : w % 256 < 128) (x : Nat) (hx : x = w / 256) : w % 128 ||| (x * 256 ||| 0) = w := by
  rw [Nat.or_zero, or256 _ _ (by omega)]; omega

theorem shape_12 (w : Nat) (hbp : w % 256 < 128) (x y : Nat) (hx : x = w / 256 % 256) (hy : y = w / 65536) :
    w % 128 ||| (x * 256 ||| (y * 65536 ||| 0)) = w := by
  rw [Nat.or_zero, or65536 _ _ (by omega)]
  have e : x * 256 + y * 65536 = (x + y * 256) * 256 := by omega
  rw [e, or256 _ _ (by omega)]; omega

theorem shape_111 (w : Nat) (hbp : w % 256 < 128) (x y z : Nat) (hx : x = w / 256 % 256) (hy : y = w / 65536 % 256)
    (hz : z = w / 16777216) : w % 128 ||| (x * 256 ||| (y * 65536 ||| (z * 16777216 ||| 0))) = w := by
  have hq : y * 65536 ||| (z * 16777216 ||| 0) = (y + z * 256) * 65536 ||| 0 := by
    rw [Nat.or_zero, Nat.or_zero, or16777216 _ _ (by omega)]; omega
  rw [hq]
  exact shape_12 w hbp x (y + z * 256) hx (by omega)

/-- **one instruction word, disasm then asm** (arithmetic core): opcode number, instruction type and canonicity given -/
theorem encode_decodeArgs (w : Nat) (hw : w < 4294967296) (hbp : w % 256 < 128) (op : Op) (t : IType)
    (hn : op.toNat = w % 128) (ht : op.itype = t)
    (hcan : canonArgs t w) :
    encode op (decodeArgs t w) = some w := by
  unfold encode decodeArgs
  rw [ht, hn]
  have e : (decodeFieldsOf t).map (fun f => fieldRead f w) = (fieldsOf t).map (fun f => fieldRead f w) := by
    cases t <;> first | rfl | exact s_field_eq w hcan
  rw [e, encodeArgs_read w hw _ (fields_top t)]
  simp only [Option.map, Option.some.injEq]
  cases t <;> simp only [fieldsOf, List.map, orAll, rawShift, Nat.reduceMul, Nat.reducePow] <;> simp only [canonArgs] at hcan
  · exact shape_0 w hbp hcan
  · exact shape_1 w hbp _ (by omega)
  · exact shape_1 w hbp _ (by omega)
  · exact shape_12 w hbp _ _ rfl (by omega)
  · exact shape_12 w hbp _ _ rfl (by omega)
  · exact shape_12 w hbp _ _ rfl (by omega)
  · exact shape_12 w hbp _ _ rfl (by omega)
  · exact shape_12 w hbp _ _ rfl (by omega)
  · exact shape_12 w hbp _ _ rfl (by omega)
  · exact shape_111 w hbp _ _ _ rfl rfl (by omega)
  · exact shape_111 w hbp _ _ _ rfl rfl (by omega)
  · exact shape_111 w hbp _ _ _ rfl rfl (by omega)
  · exact shape_111 w hbp _ _ _ rfl rfl (by omega)
  · exact shape_12 w hbp _ _ rfl (by omega)

/-- **one instruction word, disasm then asm**: for every opcode of the generated table and every canonical word, assembling
what `janet_asm_decode_instruction` produced gives the word back -/
theorem encode_decode (w : Nat) (hc : Canonical w) (op : Op) (args : List Int) (hd : decode w = some (op, args)) :
    encode op args = some w := by
  obtain ⟨hw, hbp, hcan⟩ := hc
  unfold decode at hd
  cases ho : Op.ofNat? (w % 128) with
  | none => rw [ho] at hd; cases hd
  | some op' =>
    rw [ho] at hd hcan
    simp only [Option.some.injEq, Prod.mk.injEq] at hd
    obtain ⟨rfl, rfl⟩ := hd
    exact encode_decodeArgs w hw hbp op' op'.itype (toNat_of_ofNat (w % 128) (by omega) op' ho) rfl hcan

/-- **whole bytecode array**: `asm (disasm bytecode) = bytecode` when every word is canonical -/
theorem asm_disasm_bytecode (ws : List Nat) (h : ∀ w ∈ ws, Canonical w) : asmBytecode (disasmBytecode ws) = some ws := by
  induction ws with
  | nil => rfl
  | cons w ws ih =>
    have hc := h w (by simp)
    have hrest := ih (fun x hx => h x (by simp [hx]))
    simp only [disasmBytecode, List.map] at hrest ⊢
    cases hd : decode w with
    | none =>
      obtain ⟨_, _, hcan⟩ := hc
      unfold decode at hd
      cases ho : Op.ofNat? (w % 128) with
      | none => rw [ho] at hcan; exact hcan.elim
      | some op => rw [ho] at hd; cases hd
    | some p =>
      obtain ⟨op, args⟩ := p
      simp only [asmBytecode, encode_decode w hc op args hd, hrest]

end JanetModel.Asm
