/-
Funcdef level of asm ∘ disasm: `janet_verify` (bytecode.c) and the part of `janet_asm1` (asm.c) that decides whether the
assembled funcdef is accepted — arity assertions, the slot count (`def->slotcount = !!(flags & VARARG) + arity`, then
`doarg_1`: every JANET_OAT_SLOT operand `ret >= slotcount` raises it to `ret + 1`; the `:slotcount` entry of the
disassembly is not read), the bytecode loop, the final `janet_verify`.  Core Lean only.

Generated (Gen/AsmDef.lean, from the current asm.c / bytecode.c): whether the vararg flag is already set when the slot count
is initialised, which operands are slots, the comparisons of every `case JINT_x` of janet_verify in source order, the slot
count limit, the terminal opcodes.
-/
import JanetModel.Asm.Instr
import JanetModel.Gen.AsmDef

namespace JanetModel.Asm
open JanetModel.Gen.Asm JanetModel.Gen.AsmDef JanetModel.Gen.Bytecode

/-- one `JanetSymbolMap` entry (uint32 fields; `birth = UINT32_MAX` marks an upvalue entry whose `death` is an
environment index) -/
structure SymEntry where
  birth : Nat
  death : Nat
  slot : Nat
  deriving DecidableEq, Repr

/-- the fields of a `JanetFuncDef` that `janet_verify` reads -/
structure FDef where
  vararg : Bool
  arity : Int
  minArity : Int
  maxArity : Int
  slotcount : Int
  bytecode : List Nat
  nconsts : Nat
  ndefs : Nat
  nenvs : Nat
  symbolmap : List SymEntry
  deriving DecidableEq, Repr

/-- `(int32_t) instr` -/
def toI32 (w : Nat) : Int := if w < 2147483648 then (w : Int) else (w : Int) - 4294967296

/-- `(int32_t)(instr >> shift)` / `(int32_t)((instr >> shift) & 0xFF)` -/
def vOperand (c : VCheck) (w : Nat) : Nat := if c.masked then w / 2 ^ c.shift % 256 else w / 2 ^ c.shift

/-- return code of a failed comparison -/
def vCode : VKind → Nat
  | .slot => 4 | .label => 5 | .def_ => 6 | .const_ => 7 | .env => 8

/-- does comparison `c` of instruction `w` at index `i` make janet_verify return? -/
def vFails (d : FDef) (i : Nat) (w : Nat) (c : VCheck) : Bool :=
  match c.kind with
  | .slot => decide ((vOperand c w : Int) ≥ d.slotcount)
  | .label =>
    let dest : Int := (i : Int) + toI32 w / (2 ^ c.shift : Nat)
    decide (dest < 0 ∨ dest ≥ (d.bytecode.length : Int))
  | .def_ => decide (vOperand c w ≥ d.ndefs)
  | .const_ => decide (vOperand c w ≥ d.nconsts)
  | .env => decide (vOperand c w ≥ d.nenvs)

/-- the `if (…) return k;` statements of one case, in order -/
def checkList (d : FDef) (i : Nat) (w : Nat) : List VCheck → Nat
  | [] => 0
  | c :: cs => if vFails d i w c then vCode c.kind else checkList d i w cs

/-- one iteration of the instruction loop: 0 = `continue` -/
def checkInstr (d : FDef) (i : Nat) (w : Nat) : Nat :=
  match Op.ofNat? (w % 128) with
  | none => 3
  | some op => checkList d i w (verifyChecksOf op.itype)

def verifyLoop (d : FDef) : Nat → List Nat → Nat
  | _, [] => 0
  | i, w :: ws =>
    let r := checkInstr d i w
    if r ≠ 0 then r else verifyLoop d (i + 1) ws

/-- one iteration of the symbol-map loop -/
def symFails (d : FDef) (e : SymEntry) : Bool :=
  if e.birth = 4294967295 then decide (e.death ≥ d.nenvs)
  else decide ((e.slot : Int) ≥ d.slotcount) || decide (e.birth > e.death) || decide (e.death > d.bytecode.length)

/-- `janet_verify`: 0 = accepted, otherwise the returned code -/
def verify (d : FDef) : Nat :=
  if d.bytecode.length = 0 then 1
  else if d.slotcount < 0 ∨ d.slotcount > maxSlotcount then 2
  else if d.arity < 0 ∨ d.arity > d.slotcount then 2
  else if d.minArity < 0 ∨ d.minArity > d.maxArity then 2
  else if d.arity + (if d.vararg then 1 else 0) > d.slotcount then 2
  else
    let r := verifyLoop d 0 d.bytecode
    if r ≠ 0 then r
    else if d.symbolmap.any (symFails d) then 10
    else match d.bytecode.getLast? with
      | some w => if terminalOps.contains (w % 256) then 0 else 9
      | none => 1

/-! ### the assembler side -/

/-- `def->slotcount = !!(def->flags & JANET_FUNCDEF_FLAG_VARARG) + def->arity` at the point where janet_asm1 executes it -/
def slotInit (vararg : Bool) (arity : Int) : Int := (if slotInitCountsVararg && vararg then 1 else 0) + arity

/-- `if (argtype == JANET_OAT_SLOT && ret >= slotcount) slotcount = ret + 1` -/
def scStep (sc : Int) (ret : Int) : Int := if ret ≥ sc then ret + 1 else sc

/-- the operands of an instruction that are slots -/
def sel : List Bool → List Int → List Int
  | true :: ks, a :: as => a :: sel ks as
  | false :: ks, _ :: as => sel ks as
  | _, _ => []

/-- slot count after `read_instruction` processed the operands `args` -/
def scArgs (t : IType) (args : List Int) (sc : Int) : Int := (sel (slotOperandOf t) args).foldl scStep sc

/-- one instruction tuple of the disassembly: word and new slot count (`none` = assembler error) -/
def asmInstr (sc : Int) : Option (Op × List Int) → Option (Nat × Int)
  | none => none
  | some (op, args) => (encode op args).map fun w => (w, scArgs op.itype args sc)

/-- the bytecode loop of `janet_asm1` with the slot count threaded through -/
def asmBytecodeSC : Int → List (Option (Op × List Int)) → Option (List Nat × Int)
  | sc, [] => some ([], sc)
  | sc, i :: rest =>
    match asmInstr sc i with
    | none => none
    | some (w, sc') =>
      match asmBytecodeSC sc' rest with
      | none => none
      | some (ws, sc'') => some (w :: ws, sc'')

/-- the symbol-map loop of `janet_asm1`: `if (birth_pc != UINT32_MAX && slot_index < INT32_MAX && (int32_t) slot_index >=
slotcount) slotcount = slot_index + 1` — present in the source iff the generated `symbolmapCountsSlots` is true -/
def symStep (sc : Int) (e : SymEntry) : Int :=
  if symbolmapCountsSlots && decide (e.birth ≠ 4294967295) && decide (e.slot < 2147483647) && decide ((e.slot : Int) ≥ sc)
  then (e.slot : Int) + 1 else sc

/-- `janet_asm1 (janet_disasm d)` on the fields janet_verify reads: arity assertions, slot count, bytecode, verification.
Everything else of the disassembly (constants, sub-funcdefs, environments, symbol map) is copied entry by entry.
`extra`: the sub-funcdefs are assembled after the slot count is initialised and before the bytecode loop; the third operand of
each of their `ldu` / `setu` instructions (a slot of a captured frame) goes through `doarg_1` of an *enclosing* assembler
(`env + 1` levels up) and raises that funcdef's slot count — `extra` lists the operands that arrive at this funcdef. -/
def asmOfX (extra : List Int) (d : FDef) : Option FDef :=
  if d.arity < 0 then none
  else if d.maxArity < d.arity then none
  else if d.minArity > d.arity then none
  else match asmBytecodeSC (extra.foldl scStep (slotInit d.vararg d.arity)) (disasmBytecode d.bytecode) with
    | none => none
    | some (ws, sc) =>
      let d' := { d with bytecode := ws, slotcount := d.symbolmap.foldl symStep sc }
      if verify d' = 0 then some d' else none

/-- a funcdef without sub-funcdefs that use `ldu` / `setu` -/
def asmOf (d : FDef) : Option FDef := asmOfX [] d

/-! ### the slot count as a function of the bytecode words -/

/-- slot operands of a word as the disassembler prints them -/
def slotArgsW (w : Nat) : List Int :=
  match Op.ofNat? (w % 128) with
  | none => []
  | some op => sel (slotOperandOf op.itype) (decodeArgs op.itype w)

def scBytecode (sc : Int) (ws : List Nat) : Int := ws.foldl (fun s w => (slotArgsW w).foldl scStep s) sc

/-- the slot count `asm (disasm d)` ends up with -/
def asmSlotcountX (extra : List Int) (d : FDef) : Int :=
  d.symbolmap.foldl symStep (scBytecode (extra.foldl scStep (slotInit d.vararg d.arity)) d.bytecode)

def asmSlotcount (d : FDef) : Int := asmSlotcountX [] d

end JanetModel.Asm
