/-
asm ∘ disasm at funcdef level: the funcdef `janet_asm1` builds from `janet_disasm d` passes `janet_verify` whenever `d` does,
and its slot count is the least one janet_verify accepts for these operands.
-/
import JanetModel.Asm.Def
import JanetModel.Asm.InstrLemmas

namespace JanetModel.Asm
open JanetModel.Gen.Asm JanetModel.Gen.AsmDef JanetModel.Gen.Bytecode

/-! ### the slot-count fold -/

theorem scStep_ge (sc a : Int) : sc ≤ scStep sc a := by unfold scStep; split <;> omega
theorem scStep_gt (sc a : Int) : a < scStep sc a := by unfold scStep; split <;> omega
theorem scStep_le {sc a B : Int} (h1 : sc ≤ B) (h2 : a < B) : scStep sc a ≤ B := by unfold scStep; split <;> omega

theorem fold_ge (l : List Int) (sc : Int) : sc ≤ l.foldl scStep sc := by
  induction l generalizing sc with
  | nil => simp
  | cons a l ih => simp only [List.foldl_cons]; exact Int.le_trans (scStep_ge sc a) (ih _)

theorem fold_gt (l : List Int) (sc : Int) : ∀ a ∈ l, a < l.foldl scStep sc := by
  induction l generalizing sc with
  | nil => simp
  | cons b l ih =>
    intro a ha
    simp only [List.foldl_cons]
    rcases List.mem_cons.1 ha with rfl | h
    · exact Int.lt_of_lt_of_le (scStep_gt sc a) (fold_ge l _)
    · exact ih _ a h

theorem fold_le (l : List Int) (sc B : Int) (h1 : sc ≤ B) (h2 : ∀ a ∈ l, a < B) : l.foldl scStep sc ≤ B := by
  induction l generalizing sc with
  | nil => simpa using h1
  | cons b l ih =>
    simp only [List.foldl_cons]
    exact ih _ (scStep_le h1 (h2 b (by simp))) (fun a ha => h2 a (by simp [ha]))

theorem scBytecode_cons (sc : Int) (w : Nat) (ws : List Nat) :
    scBytecode sc (w :: ws) = scBytecode ((slotArgsW w).foldl scStep sc) ws := rfl

theorem scBytecode_ge (ws : List Nat) (sc : Int) : sc ≤ scBytecode sc ws := by
  induction ws generalizing sc with
  | nil => simp [scBytecode]
  | cons w ws ih => rw [scBytecode_cons]; exact Int.le_trans (fold_ge _ sc) (ih _)

/-- every slot operand of every instruction is below the final slot count -/
theorem scBytecode_gt (ws : List Nat) (sc : Int) : ∀ w ∈ ws, ∀ a ∈ slotArgsW w, a < scBytecode sc ws := by
  induction ws generalizing sc with
  | nil => simp
  | cons v ws ih =>
    intro w hw a ha
    rw [scBytecode_cons]
    rcases List.mem_cons.1 hw with rfl | h
    · exact Int.lt_of_lt_of_le (fold_gt _ sc a ha) (scBytecode_ge ws _)
    · exact ih _ w h a ha

/-- … and it is the least such bound above the initial count -/
theorem scBytecode_le (ws : List Nat) (sc B : Int) (h1 : sc ≤ B) (h2 : ∀ w ∈ ws, ∀ a ∈ slotArgsW w, a < B) :
    scBytecode sc ws ≤ B := by
  induction ws generalizing sc with
  | nil => simpa [scBytecode] using h1
  | cons v ws ih =>
    rw [scBytecode_cons]
    exact ih _ (fold_le _ sc B h1 (h2 v (by simp))) (fun w hw => h2 w (by simp [hw]))

/-! ### the symbol-map loop -/

theorem symStep_ge (sc : Int) (e : SymEntry) : sc ≤ symStep sc e := by
  unfold symStep; split
  · rename_i h; simp only [Bool.and_eq_true, decide_eq_true_eq] at h; omega
  · omega

theorem symStep_le {sc B : Int} (e : SymEntry) (h1 : sc ≤ B) (h2 : e.birth ≠ 4294967295 → (e.slot : Int) < B) :
    symStep sc e ≤ B := by
  unfold symStep; split
  · rename_i h; simp only [Bool.and_eq_true, decide_eq_true_eq] at h; have := h2 h.1.1.2; omega
  · exact h1

/-- the assembler counts symbol-map slots (generated flag; false on a tree whose janet_asm1 lacks the statement) -/
theorem sym_counts : symbolmapCountsSlots = true := rfl

theorem symStep_gt (sc : Int) (e : SymEntry) (hb : e.birth ≠ 4294967295) (hs : e.slot < 2147483647) :
    (e.slot : Int) < symStep sc e := by
  unfold symStep
  by_cases h : (e.slot : Int) ≥ sc
  · rw [if_pos (by simp [sym_counts, hb, hs, h])]; omega
  · rw [if_neg (by simp [h])]; omega

theorem symFold_ge (l : List SymEntry) (sc : Int) : sc ≤ l.foldl symStep sc := by
  induction l generalizing sc with
  | nil => simp
  | cons a l ih => simp only [List.foldl_cons]; exact Int.le_trans (symStep_ge sc a) (ih _)

theorem symFold_gt (l : List SymEntry) (sc : Int) :
    ∀ e ∈ l, e.birth ≠ 4294967295 → e.slot < 2147483647 → (e.slot : Int) < l.foldl symStep sc := by
  induction l generalizing sc with
  | nil => simp
  | cons b l ih =>
    intro e he hb hs
    simp only [List.foldl_cons]
    rcases List.mem_cons.1 he with rfl | h
    · exact Int.lt_of_lt_of_le (symStep_gt sc e hb hs) (symFold_ge l _)
    · exact ih _ e h hb hs

theorem symFold_le (l : List SymEntry) (sc B : Int) (h1 : sc ≤ B)
    (h2 : ∀ e ∈ l, e.birth ≠ 4294967295 → (e.slot : Int) < B) : l.foldl symStep sc ≤ B := by
  induction l generalizing sc with
  | nil => simpa using h1
  | cons b l ih =>
    simp only [List.foldl_cons]
    exact ih _ (symStep_le b h1 (h2 b (by simp))) (fun e he => h2 e (by simp [he]))

/-! ### the bytecode loop of janet_asm1 on a disassembly -/

theorem canonical_op (w : Nat) (hc : Canonical w) : ∃ op, Op.ofNat? (w % 128) = some op := by
  obtain ⟨_, _, hcan⟩ := hc
  cases ho : Op.ofNat? (w % 128) with
  | none => rw [ho] at hcan; exact hcan.elim
  | some op => exact ⟨op, rfl⟩

/-- words come back unchanged, the slot count is `scBytecode` of the words -/
theorem asmBytecodeSC_disasm (ws : List Nat) (h : ∀ w ∈ ws, Canonical w) (sc : Int) :
    asmBytecodeSC sc (disasmBytecode ws) = some (ws, scBytecode sc ws) := by
  induction ws generalizing sc with
  | nil => rfl
  | cons w ws ih =>
    have hc := h w (by simp)
    obtain ⟨op, ho⟩ := canonical_op w hc
    have hd : decode w = some (op, decodeArgs op.itype w) := by unfold decode; rw [ho]
    have he := encode_decode w hc op _ hd
    have hs : scArgs op.itype (decodeArgs op.itype w) sc = (slotArgsW w).foldl scStep sc := by
      unfold scArgs slotArgsW; rw [ho]
    have hrest := ih (fun x hx => h x (by simp [hx])) ((slotArgsW w).foldl scStep sc)
    simp only [disasmBytecode, List.map] at hrest ⊢
    simp only [asmBytecodeSC, hd, asmInstr, he, Option.map, hs, hrest, scBytecode_cons]

/-! ### janet_verify, as a conjunction -/

theorem vCode_ne (k : VKind) : vCode k ≠ 0 := by cases k <;> simp [vCode]

theorem checkList_zero (d : FDef) (i w : Nat) (cs : List VCheck) :
    checkList d i w cs = 0 ↔ ∀ c ∈ cs, vFails d i w c = false := by
  induction cs with
  | nil => simp [checkList]
  | cons c cs ih =>
    simp only [checkList, List.mem_cons, forall_eq_or_imp]
    cases hf : vFails d i w c with
    | true => simp [vCode_ne]
    | false => simpa using ih

theorem verifyLoop_zero (d : FDef) (ws : List Nat) (i : Nat) :
    verifyLoop d i ws = 0 ↔ ∀ k (hk : k < ws.length), checkInstr d (i + k) ws[k] = 0 := by
  induction ws generalizing i with
  | nil => simp [verifyLoop]
  | cons w ws ih =>
    simp only [verifyLoop]
    by_cases h0 : checkInstr d i w = 0
    · simp only [h0, ne_eq, not_true_eq_false, if_false]
      rw [ih]
      constructor
      · intro h k hk
        cases k with
        | zero => simpa using h0
        | succ k =>
          have := h k (by simpa using hk)
          simpa [Nat.add_assoc, Nat.add_comm 1 k] using this
      · intro h k hk
        have := h (k + 1) (by simpa using hk)
        simpa [Nat.add_assoc, Nat.add_comm 1 k] using this
    · rw [if_pos h0]
      constructor
      · intro h; exact absurd h h0
      · intro h
        have := h 0 (by simp)
        simp only [List.getElem_cons_zero, Nat.add_zero] at this
        exact absurd this h0

/-- everything `janet_verify` demands -/
structure VerifyOK (d : FDef) : Prop where
  nonempty : d.bytecode.length ≠ 0
  sc_range : 0 ≤ d.slotcount ∧ d.slotcount ≤ maxSlotcount
  arity : 0 ≤ d.arity ∧ d.arity ≤ d.slotcount
  minmax : 0 ≤ d.minArity ∧ d.minArity ≤ d.maxArity
  maxslot : d.arity + (if d.vararg then 1 else 0) ≤ d.slotcount
  instrs : verifyLoop d 0 d.bytecode = 0
  syms : d.symbolmap.any (symFails d) = false
  last : ∃ w, d.bytecode.getLast? = some w ∧ w % 256 ∈ terminalOps

theorem verify_zero_iff (d : FDef) : verify d = 0 ↔ VerifyOK d := by
  unfold verify
  constructor
  · intro h
    by_cases h1 : d.bytecode.length = 0
    · simp [h1] at h
    by_cases h2 : d.slotcount < 0 ∨ d.slotcount > maxSlotcount
    · simp [h1, h2] at h
    by_cases h3 : d.arity < 0 ∨ d.arity > d.slotcount
    · simp [h1, h2, h3] at h
    by_cases h4 : d.minArity < 0 ∨ d.minArity > d.maxArity
    · simp [h1, h2, h3, h4] at h
    by_cases h5 : d.arity + (if d.vararg then 1 else 0) > d.slotcount
    · simp [h1, h2, h3, h4, h5] at h
    rw [if_neg h1, if_neg h2, if_neg h3, if_neg h4, if_neg h5] at h
    by_cases h6 : verifyLoop d 0 d.bytecode = 0
    · simp only [h6, ne_eq, not_true_eq_false, if_false] at h
      cases h7 : d.symbolmap.any (symFails d) with
      | true => simp [h7] at h
      | false =>
        simp only [h7, Bool.false_eq_true, if_false] at h
        cases h8 : d.bytecode.getLast? with
        | none => simp [h8] at h
        | some w =>
          simp only [h8] at h
          by_cases h9 : w % 256 ∈ terminalOps
          · exact ⟨h1, by omega, by omega, by omega, by omega, h6, h7, w, h8, h9⟩
          · simp [h9] at h
    · simp only [ne_eq, h6, not_false_eq_true, if_true] at h
  · intro ⟨h1, h2, h3, h4, h5, h6, h7, w, h8, h9⟩
    rw [if_neg h1, if_neg (by omega), if_neg (by omega), if_neg (by omega), if_neg (by omega)]
    simp [h6, h7, h8, h9]

/-! ### slot operands of the assembler vs the slot comparisons of janet_verify -/

/-- what the assembler counted covers what janet_verify compares with the slot count -/
theorem slot_checks_of_args (t : IType) (w : Nat) (hw : w < 4294967296) (S : Int)
    (h : ∀ a ∈ sel (slotOperandOf t) (decodeArgs t w), a < S) :
    ∀ c ∈ verifyChecksOf t, c.kind = .slot → (vOperand c w : Int) < S := by
  cases t <;>
    simp only [verifyChecksOf, slotOperandOf, decodeArgs, decodeFieldsOf, sel, fieldRead, vOperand, List.map, List.mem_cons,
      List.not_mem_nil, or_false, forall_eq_or_imp, forall_eq, Nat.reduceMul, Nat.reducePow, Bool.false_eq_true, false_and, if_false,
      if_true, reduceCtorEq, false_implies, true_implies, implies_true, and_true, true_and, Nat.reduceSub] at h ⊢ <;>
    omega

/-- conversely, the slot comparisons of janet_verify bound every operand the assembler counts in the funcdef itself (the
third operand of a JINT_SES instruction — `ldu` / `setu`: a slot of a *captured* frame — is counted in an enclosing assembler) -/
theorem args_of_slot_checks (t : IType) (w : Nat) (hw : w < 4294967296) (d : FDef) (i : Nat)
    (h : ∀ c ∈ verifyChecksOf t, vFails d i w c = false) :
    ∀ a ∈ sel (slotOperandOf t) (decodeArgs t w), a < d.slotcount := by
  cases t <;>
    simp only [verifyChecksOf, slotOperandOf, decodeArgs, decodeFieldsOf, sel, fieldRead, vOperand, vFails, List.map, List.mem_cons,
      List.not_mem_nil, or_false, forall_eq_or_imp, forall_eq, Nat.reduceMul, Nat.reducePow, Bool.false_eq_true, false_and, if_false,
      if_true, reduceCtorEq, false_implies, implies_true, true_and, Nat.reduceSub, decide_eq_false_iff_not,
      forall_const] at h ⊢ <;>
    omega

/-- slot operands are at most three bytes wide -/
theorem slotArgs_small (t : IType) (w : Nat) : ∀ a ∈ sel (slotOperandOf t) (decodeArgs t w), a < 16777216 := by
  cases t <;> simp [slotOperandOf, decodeArgs, decodeFieldsOf, sel, fieldRead] <;> omega

/-! ### the assembled funcdef passes janet_verify -/

/-- `d` with another slot count: comparisons that are not about slots are unaffected -/
theorem vFails_slotcount (d : FDef) (S : Int) (i w : Nat) (c : VCheck) (hk : c.kind ≠ .slot) :
    vFails { d with slotcount := S } i w c = vFails d i w c := by
  unfold vFails
  cases hc : c.kind <;> simp_all

theorem any_false {α} (l : List α) (p : α → Bool) : l.any p = false ↔ ∀ e ∈ l, p e = false := by
  induction l with
  | nil => simp
  | cons a l ih => simp [List.any_cons, ih]

/-- the `1` of `maxslot = arity + vargs` is in the assembler's initial slot count: needs the vararg flag to be set
before `def->slotcount` is initialised (generated `slotInitCountsVararg`) -/
theorem slotInit_eq (v : Bool) (a : Int) : slotInit v a = a + (if v then 1 else 0) := by
  unfold slotInit
  cases v <;> simp [slotInitCountsVararg] <;> omega

/-- janet_verify still accepts `d` after its slot count is replaced by any `S` that covers the parameters, the slot
operands the assembler counts and the symbol-map slots -/
theorem verify_resized (d : FDef) (hv : VerifyOK d) (hc : ∀ w ∈ d.bytecode, Canonical w) (S : Int)
    (hinit : d.arity + (if d.vararg then 1 else 0) ≤ S) (hmax : S ≤ maxSlotcount)
    (hslots : ∀ w ∈ d.bytecode, ∀ a ∈ slotArgsW w, a < S)
    (hsym : ∀ e ∈ d.symbolmap, e.birth ≠ 4294967295 → (e.slot : Int) < S) :
    VerifyOK { d with slotcount := S } := by
  obtain ⟨h1, h2, h3, h4, h5, h6, h7, h8⟩ := hv
  have hv0 : (0 : Int) ≤ (if d.vararg then 1 else 0) := by split <;> omega
  refine ⟨h1, ⟨by show 0 ≤ S; omega, hmax⟩, ⟨h3.1, by show d.arity ≤ S; omega⟩, h4, hinit, ?_, ?_, h8⟩
  · show verifyLoop { d with slotcount := S } 0 d.bytecode = 0
    rw [verifyLoop_zero] at h6 ⊢
    intro k hk
    have h0 := h6 k hk
    have hmem : d.bytecode[k] ∈ d.bytecode := List.getElem_mem hk
    obtain ⟨op, ho⟩ := canonical_op _ (hc _ hmem)
    unfold checkInstr at h0 ⊢
    rw [ho] at h0 ⊢
    simp only at h0 ⊢
    rw [checkList_zero] at h0 ⊢
    intro c hcm
    by_cases hk' : c.kind = .slot
    · have hb := slot_checks_of_args op.itype d.bytecode[k] (hc _ hmem).1 S
        (by have := hslots _ hmem; unfold slotArgsW at this; rw [ho] at this; exact this) c hcm hk'
      unfold vFails
      rw [hk']
      simp only [decide_eq_false_iff_not]
      show ¬ ((vOperand c d.bytecode[k] : Int) ≥ S)
      omega
    · rw [vFails_slotcount d S _ _ c hk']; exact h0 c hcm
  · show d.symbolmap.any (symFails { d with slotcount := S }) = false
    rw [any_false] at h7 ⊢
    intro e he
    have h0 := h7 e he
    unfold symFails at h0 ⊢
    by_cases hb : e.birth = 4294967295
    · rw [if_pos hb] at h0 ⊢; exact h0
    · rw [if_neg hb] at h0 ⊢
      have := hsym e he hb
      simp only [Bool.or_eq_false_iff, decide_eq_false_iff_not] at h0 ⊢
      refine ⟨⟨?_, h0.1.2⟩, h0.2⟩
      show ¬ ((e.slot : Int) ≥ S)
      omega

/-- the original slot count is the least one: the parameters fill it, or its last slot is an operand of some instruction or
the slot of a named local (what the compiler produces: `slotcount = ra.max + 1`) -/
def Tight (d : FDef) : Prop :=
  d.slotcount = d.arity + (if d.vararg then 1 else 0) ∨ (∃ w ∈ d.bytecode, (d.slotcount - 1) ∈ slotArgsW w) ∨
  ∃ e ∈ d.symbolmap, e.birth ≠ 4294967295 ∧ (e.slot : Int) = d.slotcount - 1

/-- janet_verify bounds the slot of every named local by the slot count -/
theorem sym_slots_lt (d : FDef) (hv : VerifyOK d) : ∀ e ∈ d.symbolmap, e.birth ≠ 4294967295 → (e.slot : Int) < d.slotcount := by
  intro e hm hb
  have h7 := (any_false _ _).1 hv.syms e hm
  unfold symFails at h7
  rw [if_neg hb] at h7
  simp only [Bool.or_eq_false_iff, decide_eq_false_iff_not] at h7
  omega

theorem bytecode_part_le (d : FDef) (hv : VerifyOK d) (hc : ∀ w ∈ d.bytecode, Canonical w) (extra : List Int) (B : Int)
    (hB : d.slotcount ≤ B) (hx : ∀ x ∈ extra, x < B) :
    scBytecode (extra.foldl scStep (slotInit d.vararg d.arity)) d.bytecode ≤ B := by
  apply scBytecode_le
  · apply fold_le _ _ _ _ hx
    rw [slotInit_eq]; have := hv.maxslot; omega
  · intro w hw a ha
    obtain ⟨k, hk, rfl⟩ := List.getElem_of_mem hw
    have h0 := (verifyLoop_zero d d.bytecode 0).1 hv.instrs k hk
    obtain ⟨op, ho⟩ := canonical_op _ (hc _ hw)
    unfold checkInstr at h0
    unfold slotArgsW at ha
    rw [ho] at h0 ha
    simp only at h0
    rw [checkList_zero] at h0
    have := args_of_slot_checks op.itype _ (hc _ hw).1 d _ h0 a ha
    omega

/-- the assembler never needs more slots than `B` when the original count and the operands arriving from sub-funcdefs are
below `B` -/
theorem asmSlotcountX_le (d : FDef) (hv : VerifyOK d) (hc : ∀ w ∈ d.bytecode, Canonical w) (extra : List Int) (B : Int)
    (hB : d.slotcount ≤ B) (hx : ∀ x ∈ extra, x < B) : asmSlotcountX extra d ≤ B := by
  unfold asmSlotcountX
  apply symFold_le _ _ _ (bytecode_part_le d hv hc extra B hB hx)
  intro e he hb
  have := sym_slots_lt d hv e he hb
  omega

/-- the recomputed slot count covers the parameters (rest parameter included), every slot operand and every named local -/
theorem asmSlotcount_covers (extra : List Int) (d : FDef) (hv : VerifyOK d) :
    d.arity + (if d.vararg then 1 else 0) ≤ asmSlotcountX extra d ∧
    (∀ w ∈ d.bytecode, ∀ a ∈ slotArgsW w, a < asmSlotcountX extra d) ∧
    (∀ e ∈ d.symbolmap, e.birth ≠ 4294967295 → (e.slot : Int) < asmSlotcountX extra d) ∧
    (∀ x ∈ extra, x < asmSlotcountX extra d) := by
  unfold asmSlotcountX
  refine ⟨?_, ?_, ?_, ?_⟩
  · rw [← slotInit_eq]; exact Int.le_trans (Int.le_trans (fold_ge _ _) (scBytecode_ge _ _)) (symFold_ge _ _)
  · intro w hw a ha; exact Int.lt_of_lt_of_le (scBytecode_gt _ _ w hw a ha) (symFold_ge _ _)
  · intro e he hb
    apply symFold_gt _ _ e he hb
    have := sym_slots_lt d hv e he hb
    have h2 := hv.sc_range.2
    simp only [maxSlotcount] at h2
    omega
  · intro x hx
    exact Int.lt_of_lt_of_le (fold_gt _ _ x hx) (Int.le_trans (scBytecode_ge _ _) (symFold_ge _ _))

/-- **asm (disasm d) is accepted**: for every funcdef `d` that janet_verify accepts, whose instruction words are canonical
and whose arities are ordered the way the assembler asserts (`min-arity ≤ arity ≤ max-arity`), `janet_asm1 (janet_disasm d)`
succeeds — its own janet_verify call accepts — and returns `d` with the slot count the assembler computed: same words, same
arities, same tables.  `extra`: captured-slot operands of `ldu` / `setu` in sub-funcdefs that are counted here (any list of
one-byte operands). -/
theorem asm_disasm_def (extra : List Int) (d : FDef) (hv : verify d = 0) (hc : ∀ w ∈ d.bytecode, Canonical w)
    (hmin : d.minArity ≤ d.arity) (hmax : d.arity ≤ d.maxArity) (hx : ∀ x ∈ extra, x < 256) :
    asmOfX extra d = some { d with slotcount := asmSlotcountX extra d } := by
  rw [verify_zero_iff] at hv
  obtain ⟨c1, c2, c3, _⟩ := asmSlotcount_covers extra d hv
  have hsmall : asmSlotcountX extra d ≤ maxSlotcount :=
    asmSlotcountX_le d hv hc extra _ hv.sc_range.2 (fun x h => by have := hx x h; simp only [maxSlotcount]; omega)
  have hok : VerifyOK { d with slotcount := asmSlotcountX extra d } := verify_resized d hv hc _ c1 hsmall c2 c3
  unfold asmOfX
  rw [if_neg (by have := hv.arity.1; omega), if_neg (by omega), if_neg (by omega), asmBytecodeSC_disasm _ hc]
  have hz := (verify_zero_iff _).2 hok
  unfold asmSlotcountX at hz ⊢
  simp only
  rw [if_pos hz]

/-- the assembler never needs more slots than the original, provided the captured-slot operands arriving from sub-funcdefs
are below it … -/
theorem asm_slotcount_le (extra : List Int) (d : FDef) (hv : verify d = 0) (hc : ∀ w ∈ d.bytecode, Canonical w)
    (hx : ∀ x ∈ extra, x < d.slotcount) : asmSlotcountX extra d ≤ d.slotcount :=
  asmSlotcountX_le d ((verify_zero_iff d).1 hv) hc extra _ (Int.le_refl _) hx

/-- … and exactly as many when the original count is tight -/
theorem asm_slotcount_eq (extra : List Int) (d : FDef) (hv : verify d = 0) (hc : ∀ w ∈ d.bytecode, Canonical w)
    (hx : ∀ x ∈ extra, x < d.slotcount) (ht : Tight d) : asmSlotcountX extra d = d.slotcount := by
  have hle := asm_slotcount_le extra d hv hc hx
  obtain ⟨c1, c2, c3, _⟩ := asmSlotcount_covers extra d ((verify_zero_iff d).1 hv)
  rcases ht with h | ⟨w, hw, ha⟩ | ⟨e, he, hb, hs⟩
  · omega
  · have := c2 w hw _ ha; omega
  · have := c3 e he hb; omega

/-- **asm (disasm d) = d** on everything janet_verify reads, for funcdefs with a tight slot count (compiler output) -/
theorem asm_disasm_def_tight (extra : List Int) (d : FDef) (hv : verify d = 0) (hc : ∀ w ∈ d.bytecode, Canonical w)
    (hmin : d.minArity ≤ d.arity) (hmax : d.arity ≤ d.maxArity) (hx : ∀ x ∈ extra, x < d.slotcount) (ht : Tight d) :
    asmOfX extra d = some d := by
  have h256 : ∀ x ∈ extra, x < 256 ∨ x < d.slotcount := fun x h => Or.inr (hx x h)
  have hv' := (verify_zero_iff d).1 hv
  -- the general theorem needs one-byte operands only for the 2^24 bound; here the bound is the original slot count
  obtain ⟨c1, c2, c3, _⟩ := asmSlotcount_covers extra d hv'
  have he := asm_slotcount_eq extra d hv hc hx ht
  have hok : VerifyOK { d with slotcount := asmSlotcountX extra d } :=
    verify_resized d hv' hc _ c1 (by rw [he]; exact hv'.sc_range.2) c2 c3
  unfold asmOfX
  rw [if_neg (by have := hv'.arity.1; omega), if_neg (by omega), if_neg (by omega), asmBytecodeSC_disasm _ hc]
  have hz := (verify_zero_iff _).2 hok
  unfold asmSlotcountX at hz he
  simp only
  rw [if_pos hz, he]

end JanetModel.Asm
