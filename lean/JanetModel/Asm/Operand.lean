/-
Model of the assembler's operand encoder `doarg` / `read_instruction` (asm.c) and of the field extraction the
disassembler performs.  Core Lean only.  The slack in the lower bound (`-max - 1`) and the operand layout of every
instruction type are generated from the current asm.c.
-/
import JanetModel.Gen.Asm

namespace JanetModel.Asm
open JanetModel.Gen.Asm JanetModel.Gen.Bytecode

/-- `int32_t max = (1 << ((nbytes << 3) - hassign)) - 1` -/
def fieldMax (f : Field) : Int := 2 ^ (8 * f.nbytes - (if f.signed then 1 else 0)) - 1

/-- `int32_t min = hassign ? -max - 1 : 0` (the `1` is the generated `doargMinSlack`) -/
def fieldMin (f : Field) : Int := if f.signed then -(fieldMax f) - doargMinSlack else 0

/-- `doarg` after `doarg_1` produced the integer `arg`: `none` = "instruction argument … is too small / too large";
otherwise `((uint32_t) arg) << (nth << 3)` -/
def doarg (f : Field) (arg : Int) : Option Nat :=
  if arg < fieldMin f then none
  else if arg > fieldMax f then none
  else some (((arg % 4294967296).toNat * 2 ^ (8 * f.nth)) % 4294967296)

/-- what the field can hold: the two's-complement (resp. unsigned) range of `nbytes` bytes -/
def Encodable (f : Field) (arg : Int) : Prop :=
  if f.signed then -(2 ^ (8 * f.nbytes - 1)) ≤ arg ∧ arg < 2 ^ (8 * f.nbytes - 1)
  else 0 ≤ arg ∧ arg < 2 ^ (8 * f.nbytes)

/-- how the VM / disassembler read the field back (`(instr >> 8*nth) & mask`, sign-extended for signed fields) -/
def fieldRead (f : Field) (w : Nat) : Int :=
  let raw := (w / 2 ^ (8 * f.nth)) % 2 ^ (8 * f.nbytes)
  if f.signed ∧ raw ≥ 2 ^ (8 * f.nbytes - 1) then (raw : Int) - 2 ^ (8 * f.nbytes) else (raw : Int)

/-- `read_instruction`: opcode ored with every operand -/
def encodeArgs : List Field → List Int → Option Nat
  | [], [] => some 0
  | f :: fs, a :: as =>
    match doarg f a, encodeArgs fs as with
    | some w, some r => some (w ||| r)
    | _, _ => none
  | _, _ => none

def encode (op : Op) (args : List Int) : Option Nat :=
  (encodeArgs (fieldsOf op.itype) args).map fun w => op.toNat ||| w

end JanetModel.Asm
