/-
asm ∘ disasm on whole instruction words and whole bytecode arrays.  `decode` mirrors `janet_asm_decode_instruction`
(asm.c; operand fields from the generated `decodeFieldsOf`), `encode` (Operand.lean) mirrors `read_instruction` + `doarg`.
Core Lean only.
-/
import JanetModel.Asm.Operand

namespace JanetModel.Asm
open JanetModel.Gen.Asm JanetModel.Gen.Bytecode

/-- operands as the disassembler extracts them -/
def decodeArgs (t : IType) (w : Nat) : List Int := (decodeFieldsOf t).map fun f => fieldRead f w

/-- `janet_asm_decode_instruction`: `none` = not an instruction of the table (disasm then emits the raw integer) -/
def decode (w : Nat) : Option (Op × List Int) :=
  match Op.ofNat? (w % 128) with
  | none => none
  | some op => some (op, decodeArgs op.itype w)

/-- the instruction words `asm (disasm f)` can reproduce: breakpoint bit clear (the assembler has no syntax for it), no bits
outside the operand fields the assembler writes (JINT_0: none; JINT_S: the assembler accepts 16-bit slots only) -/
def canonArgs (t : IType) (w : Nat) : Prop :=
  match t with
  | .none_ => w / 256 = 0
  | .s => w / 16777216 = 0
  | _ => True

def Canonical (w : Nat) : Prop :=
  w < 4294967296 ∧ w % 256 < 128 ∧
  match Op.ofNat? (w % 128) with
  | none => False
  | some op => canonArgs op.itype w

/-- `janet_disasm_bytecode` then the bytecode loop of `janet_asm` -/
def disasmBytecode (ws : List Nat) : List (Option (Op × List Int)) := ws.map decode

def asmBytecode : List (Option (Op × List Int)) → Option (List Nat)
  | [] => some []
  | none :: _ => none
  | some (op, args) :: rest =>
    match encode op args, asmBytecode rest with
    | some w, some ws => some (w :: ws)
    | _, _ => none

end JanetModel.Asm
