/-
`janet_tablen` returns a power of two (for arguments below 2^32, i.e. everything an `int32_t` can hold), hence the
capacity of a table always is one.  The proof follows the generated smearing steps `n |= n >> 1, 2, 4, 8, 16`.
-/
import JanetModel.Table.Count

namespace JanetModel.Table
open JanetModel.Gen.Table

/-- bit `i` of `m` is set iff one of the `w` bits of `n` starting at `i` is set -/
def Win (n m w : Nat) : Prop := ∀ i, m.testBit i = true ↔ ∃ j, j < w ∧ n.testBit (i + j) = true

theorem win_base (n : Nat) : Win n n 1 := by
  intro i
  constructor
  · intro h; exact ⟨0, by omega, by simpa using h⟩
  · rintro ⟨j, hj, h⟩
    have : j = 0 := by omega
    subst this; simpa using h

theorem win_step {n m w : Nat} (hw : Win n m w) : Win n (m ||| (m >>> w)) (2 * w) := by
  intro i
  rw [Nat.testBit_or, Nat.testBit_shiftRight, Bool.or_eq_true, hw i, hw (w + i)]
  constructor
  · rintro (⟨j, hj, h⟩ | ⟨j, hj, h⟩)
    · exact ⟨j, by omega, h⟩
    · exact ⟨w + j, by omega, by rw [show i + (w + j) = w + i + j by omega]; exact h⟩
  · rintro ⟨j, hj, h⟩
    by_cases c : j < w
    · left; exact ⟨j, c, h⟩
    · right; exact ⟨j - w, by omega, by rw [show w + i + (j - w) = i + j by omega]; exact h⟩

/-- after the generated smearing steps every bit sees the 32 bits above it -/
theorem smear_win (n : Nat) : Win n (smear n) 32 := by
  have h1 := win_step (win_step (win_step (win_step (win_step (win_base n)))))
  simpa [smear, tablenShifts, List.foldl] using h1

theorem smear_eq (n k : Nat) (hk : n < 2 ^ k) (hk32 : k ≤ 32) (hlow : k = 0 ∨ 2 ^ (k - 1) ≤ n) :
    smear n = 2 ^ k - 1 := by
  apply Nat.eq_of_testBit_eq
  intro i
  rw [Nat.testBit_two_pow_sub_one]
  by_cases hi : i < k
  · have hl : 2 ^ (k - 1) ≤ n := by
      rcases hlow with h | h
      · omega
      · exact h
    obtain ⟨b, hb, hbt⟩ := Nat.exists_ge_and_testBit_of_ge_two_pow hl
    have hbk : b < k := by
      apply Decidable.byContradiction
      intro c
      have : n < 2 ^ b := Nat.lt_of_lt_of_le hk (Nat.pow_le_pow_right (by omega) (by omega))
      rw [Nat.testBit_lt_two_pow this] at hbt
      cases hbt
    simp only [hi, decide_true]
    exact (smear_win n i).mpr ⟨b - i, by omega, by rw [show i + (b - i) = b by omega]; exact hbt⟩
  · simp only [hi, decide_false]
    cases hs : (smear n).testBit i with
    | false => rfl
    | true =>
      exfalso
      obtain ⟨j, _, h⟩ := (smear_win n i).mp hs
      have : n < 2 ^ (i + j) := Nat.lt_of_lt_of_le hk (Nat.pow_le_pow_right (by omega) (by omega))
      rw [Nat.testBit_lt_two_pow this] at h
      cases h

/-- `janet_tablen(n)` is a power of two for every `n` an `int32_t` (even a `uint32_t`) can hold -/
theorem tablen_pow2 (n : Nat) (hn : n < 2 ^ 32) : ∃ k, tablen n = 2 ^ k := by
  by_cases h0 : n = 0
  · refine ⟨0, ?_⟩
    subst h0
    have := smear_eq 0 0 (by decide) (by decide) (Or.inl rfl)
    unfold tablen; simp only []; rw [this]
  · refine ⟨n.log2 + 1, ?_⟩
    have h1 : n < 2 ^ (n.log2 + 1) := Nat.lt_log2_self
    have h2 : 2 ^ n.log2 ≤ n := Nat.log2_self_le h0
    have h3 : n.log2 < 32 := (Nat.log2_lt h0).mpr hn
    have := smear_eq n (n.log2 + 1) h1 (by omega) (Or.inr (by simpa using h2))
    unfold tablen; simp only []; rw [this]
    have : 0 < 2 ^ (n.log2 + 1) := Nat.two_pow_pos _
    omega

theorem size_remove (h : Nat → Nat) (t : Table) (k : Nat) : (t.remove h k).1.data.size = t.data.size := by
  unfold Table.remove
  cases hit t.data (dictFind h t.data k) <;> simp

theorem size_insertAt (h : Nat → Nat) (t : Table) (k : Nat) (v : Val) : (t.insertAt h k v).data.size = t.data.size := by
  unfold Table.insertAt
  cases dictFind h t.data k <;> simp

theorem size_rehash (h : Nat → Nat) (t : Table) (n : Nat) : (t.rehash h n).data.size = n := by
  have : ∀ (l : List Slot) (nd : Array Slot) (b : Bool), (rehashLoop h l (nd, b)).1.size = nd.size := by
    intro l
    induction l with
    | nil => intros; rfl
    | cons a l ih =>
      intro nd b
      unfold rehashLoop
      cases a.key with
      | none => exact ih nd b
      | some ka =>
        simp only []
        cases dictFind h nd ka with
        | none => exact ih nd true
        | some j => rw [ih]; simp
  unfold Table.rehash
  simp only []
  rw [this]; simp

/-- a `put` leaves the capacity alone or makes it `janet_tablen(2 * count + 2)` -/
theorem size_putKey (h : Nat → Nat) (t : Table) (k : Nat) (v : Val) :
    (t.putKey h k v).data.size = t.data.size ∨ (t.putKey h k v).data.size = rehashSize t.count := by
  unfold Table.putKey
  by_cases hv : v = vNil
  · simp only [hv, if_true]; left; exact size_remove h t k
  · simp only [hv, if_false]
    cases hit t.data (dictFind h t.data k) with
    | some i => left; simp
    | none =>
      simp only []
      unfold Table.insertNew
      rw [size_insertAt]
      unfold Table.maybeRehash
      by_cases c : ((dictFind h t.data k).isNone || rehashNeeded t.count t.deleted t.capacity) = true
      · rw [if_pos c]; right; exact size_rehash h t _
      · rw [if_neg c]; left; rfl

end JanetModel.Table
