/-
Counting lemmas for the table model: `count` = number of live buckets, `deleted` = number of tombstones, at least
half of the buckets are empty — hence `janet_dict_find` never returns NULL where table.c dereferences its result.
-/
import JanetModel.Table.Lemmas

namespace JanetModel.Table
open JanetModel.Gen.Table

def isLive (s : Slot) : Bool := s.key.isSome
def isTomb (s : Slot) : Bool := s.key.isNone && s.val != vNil
def isEmp (s : Slot) : Bool := s.key.isNone && s.val == vNil

/-- number of buckets holding a key -/
def nLive (data : Array Slot) : Nat := data.countP isLive
/-- number of tombstones -/
def nTomb (data : Array Slot) : Nat := data.countP isTomb
/-- number of empty buckets -/
def nEmp (data : Array Slot) : Nat := data.countP isEmp

theorem setIfInBounds_eq_set (data : Array Slot) (j : Nat) (s : Slot) (hj : j < data.size) :
    data.setIfInBounds j s = data.set j s hj := by
  simp [Array.setIfInBounds, hj]

theorem slotAt_lt (data : Array Slot) (j : Nat) (hj : j < data.size) : slotAt data j = data[j] := by
  simp [slotAt, Array.getD_eq_getD_getElem?, hj]

theorem countP_setIfInBounds (p : Slot → Bool) (data : Array Slot) (j : Nat) (s : Slot) (hj : j < data.size) :
    (data.setIfInBounds j s).countP p =
      (data.countP p - if p (slotAt data j) = true then 1 else 0) + if p s = true then 1 else 0 := by
  rw [setIfInBounds_eq_set data j s hj, Array.countP_set, slotAt_lt data j hj]

theorem countP_pos_of_slot (p : Slot → Bool) (data : Array Slot) (j : Nat) (hj : j < data.size)
    (hp : p (slotAt data j) = true) : 0 < data.countP p := by
  rw [Array.countP_pos_iff]
  refine ⟨data[j], Array.mem_iff_getElem.mpr ⟨j, hj, rfl⟩, ?_⟩
  rw [← slotAt_lt data j hj]; exact hp

theorem partition_list (l : List Slot) :
    l.countP isLive + l.countP isTomb + l.countP isEmp = l.length := by
  induction l with
  | nil => rfl
  | cons s rest ih =>
    simp only [List.countP_cons, List.length_cons]
    cases hk : s.key with
    | some k => simp [isLive, isTomb, isEmp, hk]; omega
    | none =>
      by_cases hv : s.val = vNil
      · simp [isLive, isTomb, isEmp, hk, hv]; omega
      · simp [isLive, isTomb, isEmp, hk, hv]; omega

/-- every bucket is live, a tombstone, or empty -/
theorem partition (data : Array Slot) : nLive data + nTomb data + nEmp data = data.size := by
  unfold nLive nTomb nEmp
  rw [← Array.countP_toList, ← Array.countP_toList, ← Array.countP_toList]
  simpa using partition_list data.toList

theorem exists_empty {data : Array Slot} (hpos : 0 < nEmp data) :
    ∃ x, x < data.size ∧ (slotAt data x).isEmpty := by
  unfold nEmp at hpos
  rw [Array.countP_pos_iff] at hpos
  obtain ⟨a, hm, hp⟩ := hpos
  obtain ⟨i, hi, e⟩ := Array.mem_iff_getElem.mp hm
  refine ⟨i, hi, ?_⟩
  rw [slotAt_lt data i hi, e]
  simp only [isEmp, Bool.and_eq_true, Option.isNone_iff_eq_none, beq_iff_eq] at hp
  exact hp

/-- with an empty bucket somewhere, `janet_dict_find` does not return NULL -/
theorem find_ne_none {h : Nat → Nat} {data : Array Slot} (inv : DInv h data) (hpos : 0 < nEmp data) (k : Nat) :
    dictFind h data k ≠ none := by
  by_cases hex : ∃ i, (slotAt data i).key = some k
  · obtain ⟨i, hi⟩ := hex
    rw [find_hit inv hi]; simp
  · have hno : ∀ i, (slotAt data i).key ≠ some k := fun i hi => hex ⟨i, hi⟩
    have hm := find_miss (h := h) hno
    intro hnone
    rw [hnone] at hm
    obtain ⟨x, hx, he⟩ := exists_empty hpos
    exact hm x ((mem_probeSeq (maphash_le _ _)).mpr hx) he

/-! ### counts through `janet_table_rehash` -/

theorem size_setIfInBounds (data : Array Slot) (j : Nat) (s : Slot) : (data.setIfInBounds j s).size = data.size := by
  simp

theorem nLive_eq_range (data : Array Slot) :
    nLive data = (List.range data.size).countP (fun i => isLive (slotAt data i)) := by
  unfold nLive
  rw [← Array.countP_toList, toList_eq_map, List.countP_map]
  rfl

theorem rehashLoop_counts {h : Nat → Nat} {old : Array Slot} (oinv : DInv h old) :
    ∀ (idxs : List Nat) (nd : Array Slot) (bad : Bool), idxs.Nodup → DInv h nd →
      (∀ i ∈ idxs, ∀ k, (slotAt old i).key = some k → ∀ x, (slotAt nd x).key ≠ some k) →
      nTomb nd = 0 → nLive nd + idxs.countP (fun i => isLive (slotAt old i)) < nd.size →
      let r := rehashLoop h (idxs.map (slotAt old)) (nd, bad)
      r.2 = bad ∧ nLive r.1 = nLive nd + idxs.countP (fun i => isLive (slotAt old i)) ∧ nTomb r.1 = 0 := by
  intro idxs
  induction idxs with
  | nil => intro nd bad _ _ _ hT _; simp [rehashLoop, hT]
  | cons i rest ih =>
    intro nd bad hnd ninv habs hT hroom
    have hrestnd : rest.Nodup := (List.nodup_cons.mp hnd).2
    have hinot : i ∉ rest := (List.nodup_cons.mp hnd).1
    simp only [List.map_cons]
    unfold rehashLoop
    cases hk : (slotAt old i).key with
    | none =>
      simp only []
      have hc : (i :: rest).countP (fun i => isLive (slotAt old i)) = rest.countP (fun i => isLive (slotAt old i)) := by
        simp [isLive, hk]
      rw [hc] at hroom ⊢
      exact ih nd bad hrestnd ninv (fun i' hi' k hk' x => habs i' (by simp [hi']) k hk' x) hT hroom
    | some k =>
      simp only []
      have hc : (i :: rest).countP (fun i => isLive (slotAt old i)) = rest.countP (fun i => isLive (slotAt old i)) + 1 := by
        simp [isLive, hk]
      rw [hc] at hroom ⊢
      have hno : ∀ x, (slotAt nd x).key ≠ some k := habs i (by simp) k hk
      have hpos : 0 < nEmp nd := by have := partition nd; omega
      have hfm := find_miss (h := h) hno
      cases hf : dictFind h nd k with
      | none => exact absurd hf (find_ne_none ninv hpos k)
      | some j =>
        simp only []
        rw [hf] at hfm
        have hv : (slotAt old i).val ≠ vNil := oinv.live i k hk
        have hkv : slotAt old i = ⟨some k, (slotAt old i).val⟩ := by
          cases hs : slotAt old i with
          | mk kk vv => rw [hs] at hk; simp at hk; simp [hk]
        have ninv' : DInv h (nd.setIfInBounds j (slotAt old i)) := by
          rw [hkv]; exact ninv.insert hno hfm hv
        have hj : j < nd.size := hfm.lt (maphash_le _ _)
        have habs' : ∀ i' ∈ rest, ∀ k2, (slotAt old i').key = some k2 → ∀ x, (slotAt (nd.setIfInBounds j (slotAt old i)) x).key ≠ some k2 := by
          intro i' hi' k2 hk2 x
          rw [slotAt_set]
          by_cases c : x = j ∧ j < nd.size
          · simp only [c, and_self, if_true]
            intro e
            rw [hk] at e
            have : k = k2 := by cases e; rfl
            rw [← this] at hk2
            exact hinot (by rw [oinv.nodup i i' k hk hk2]; exact hi')
          · simp only [c, if_false]
            exact habs i' (by simp [hi']) k2 hk2 x
        have hl : nLive (nd.setIfInBounds j (slotAt old i)) = nLive nd + 1 := by
          unfold nLive
          rw [countP_setIfInBounds _ _ _ _ hj]
          simp [isLive, hfm.1, hk]
        have ht : nTomb (nd.setIfInBounds j (slotAt old i)) = 0 := by
          unfold nTomb at hT ⊢
          rw [countP_setIfInBounds _ _ _ _ hj, hT]
          simp [isTomb, hk]
        have := ih (nd.setIfInBounds j (slotAt old i)) bad hrestnd ninv' habs' ht (by rw [hl, size_setIfInBounds]; omega)
        refine ⟨this.1, ?_, this.2.2⟩
        rw [this.2.1, hl]; omega

/-- `janet_table_rehash(t, n)` with room for the live entries: no NULL dereference, same number of live buckets,
no tombstones -/
theorem rehash_counts {h : Nat → Nat} {t : Table} (inv : DInv h t.data) (n : Nat) (hn : nLive t.data < n) :
    (t.rehash h n).bad = t.bad ∧ nLive (t.rehash h n).data = nLive t.data ∧ nTomb (t.rehash h n).data = 0 ∧
      (t.rehash h n).count = t.count ∧ (t.rehash h n).deleted = 0 := by
  have hl := rehashLoop_counts inv (List.range t.data.size) (Array.replicate n Slot.empty) t.bad
    List.nodup_range (DInv.replicate h n)
    (fun i _ k _ x => by rw [slotAt_replicate]; simp [Slot.empty])
    (by unfold nTomb; rw [Array.countP_replicate]; simp [isTomb, Slot.empty])
    (by
      rw [← nLive_eq_range]
      have : nLive (Array.replicate n Slot.empty) = 0 := by
        unfold nLive; rw [Array.countP_replicate]; simp [isLive, Slot.empty]
      rw [this]; simpa using hn)
  simp only [] at hl
  rw [← toList_eq_map, ← nLive_eq_range] at hl
  have h0 : nLive (Array.replicate n Slot.empty) = 0 := by
    unfold nLive; rw [Array.countP_replicate]; simp [isLive, Slot.empty]
  rw [h0] at hl
  unfold Table.rehash
  exact ⟨hl.1, by simpa using hl.2.1, hl.2.2, rfl, rfl⟩

/-! ### the counting invariant of a table -/

structure CInv (t : Table) : Prop where
  /-- `count` is the number of buckets holding a key -/
  cnt : t.count = nLive t.data
  /-- `deleted` is the number of tombstones -/
  del : t.deleted = nTomb t.data
  /-- a bucket with a nil key is empty or the tombstone written by `janet_table_remove` -/
  shape : ∀ x, (slotAt t.data x).key = none → (slotAt t.data x).val = vNil ∨ (slotAt t.data x).val = tombVal
  pos : 0 < t.data.size
  /-- at least half of the buckets are empty -/
  room : 2 * (t.count + t.deleted) ≤ t.data.size

theorem CInv.emp_pos {t : Table} (c : CInv t) : 0 < nEmp t.data := by
  have := partition t.data
  have h1 := c.cnt; have h2 := c.del; have h3 := c.pos; have h4 := c.room
  omega

theorem shape_of_nTomb_zero {data : Array Slot} (h0 : nTomb data = 0) :
    ∀ x, (slotAt data x).key = none → (slotAt data x).val = vNil ∨ (slotAt data x).val = tombVal := by
  intro x hk
  left
  by_cases hx : x < data.size
  · unfold nTomb at h0
    rw [Array.countP_eq_zero] at h0
    have := h0 data[x] (Array.mem_iff_getElem.mpr ⟨x, hx, rfl⟩)
    rw [← slotAt_lt data x hx] at this
    simp only [isTomb, hk, Option.isNone_none, Bool.true_and, bne_iff_ne, ne_eq, Decidable.not_not] at this
    exact this
  · rw [slotAt_oob data x (by omega)]; rfl

theorem isBool_tombVal : isBoolVal tombVal = true := by decide
theorem tombVal_ne_nil : tombVal ≠ vNil := by decide

theorem CInv.init (n : Nat) : CInv (Table.init n) := by
  have hsz : (Table.init n).data.size = tablen n := by simp [Table.init]
  refine ⟨?_, ?_, ?_, ?_, ?_⟩
  · show 0 = nLive (Array.replicate _ Slot.empty)
    unfold nLive; rw [Array.countP_replicate]; simp [isLive, Slot.empty]
  · show 0 = nTomb (Array.replicate _ Slot.empty)
    unfold nTomb; rw [Array.countP_replicate]; simp [isTomb, Slot.empty]
  · intro x _
    show (slotAt (Array.replicate _ Slot.empty) x).val = vNil ∨ _
    rw [slotAt_replicate]; left; rfl
  · rw [hsz]; have := tablen_gt n; omega
  · show 2 * (0 + 0) ≤ _; omega

theorem CInv.clear {t : Table} (c : CInv t) : CInv t.clear := by
  refine ⟨?_, ?_, ?_, ?_, ?_⟩
  · show 0 = nLive (Array.replicate _ Slot.empty)
    unfold nLive; rw [Array.countP_replicate]; simp [isLive, Slot.empty]
  · show 0 = nTomb (Array.replicate _ Slot.empty)
    unfold nTomb; rw [Array.countP_replicate]; simp [isTomb, Slot.empty]
  · intro x _
    show (slotAt (Array.replicate _ Slot.empty) x).val = vNil ∨ _
    rw [slotAt_replicate]; left; rfl
  · show 0 < (Array.replicate t.data.size Slot.empty).size
    simp; exact c.pos
  · show 2 * (0 + 0) ≤ _; omega

/-- `janet_table_remove` keeps the counting invariant and never sets the NULL flag -/
theorem remove_counts {h : Nat → Nat} {t : Table} (inv : DInv h t.data) (c : CInv t) (k : Nat) :
    CInv (t.remove h k).1 := by
  by_cases hex : ∃ i, (slotAt t.data i).key = some k
  · obtain ⟨i, hi⟩ := hex
    have hf : hit t.data (dictFind h t.data k) = some i := by rw [find_hit inv hi, hit_of_key hi]
    have hil : i < t.data.size := key_some_lt hi
    have hlp : 0 < nLive t.data := countP_pos_of_slot isLive t.data i hil (by simp [isLive, hi])
    unfold Table.remove
    rw [hf]
    simp only []
    refine ⟨?_, ?_, ?_, ?_, ?_⟩
    · show t.count - 1 = nLive (t.data.setIfInBounds i ⟨none, tombVal⟩)
      unfold nLive
      rw [countP_setIfInBounds _ _ _ _ hil]
      have := c.cnt; unfold nLive at this
      simp [isLive, hi]; omega
    · show t.deleted + 1 = nTomb (t.data.setIfInBounds i ⟨none, tombVal⟩)
      unfold nTomb
      rw [countP_setIfInBounds _ _ _ _ hil]
      have := c.del; unfold nTomb at this
      simp [isTomb, hi]; omega
    · intro x hx
      show (slotAt (t.data.setIfInBounds i ⟨none, tombVal⟩) x).val = vNil ∨ _
      rw [slotAt_set] at hx ⊢
      by_cases cc : x = i ∧ i < t.data.size
      · simp only [cc, and_self, if_true]; right; trivial
      · simp only [cc, if_false] at hx ⊢; exact c.shape x hx
    · show 0 < (t.data.setIfInBounds i ⟨none, tombVal⟩).size
      simp; exact c.pos
    · show 2 * (t.count - 1 + (t.deleted + 1)) ≤ (t.data.setIfInBounds i ⟨none, tombVal⟩).size
      have := c.room; have := c.cnt
      simp; omega
  · have hno : ∀ i, (slotAt t.data i).key ≠ some k := fun i hi => hex ⟨i, hi⟩
    unfold Table.remove
    rw [hit_miss hno]
    exact c

theorem remove_bad {h : Nat → Nat} (t : Table) (k : Nat) : (t.remove h k).1.bad = t.bad := by
  unfold Table.remove
  cases hit t.data (dictFind h t.data k) <;> rfl

/-- the rehash decision: afterwards the counting invariant holds, nothing was dereferenced through NULL, and there
is room for one more entry -/
theorem maybeRehash_counts {h : Nat → Nat} {t : Table} (inv : DInv h t.data) (c : CInv t) (b : Option Nat) :
    CInv (t.maybeRehash h b) ∧ (t.maybeRehash h b).bad = t.bad ∧
      2 * ((t.maybeRehash h b).count + (t.maybeRehash h b).deleted + 1) ≤ (t.maybeRehash h b).data.size := by
  unfold Table.maybeRehash
  by_cases cnd : (b.isNone || rehashNeeded t.count t.deleted t.capacity) = true
  · rw [if_pos cnd]
    have hgt : nLive t.data < rehashSize t.count := by
      rw [← c.cnt]; unfold rehashSize; have := tablen_gt (2 * t.count + 2); omega
    have hc := rehash_counts (h := h) inv (rehashSize t.count) hgt
    have hsz := (rehash_spec (h := h) inv (rehashSize t.count)).2.1
    have hbig : 2 * t.count + 2 < rehashSize t.count := by unfold rehashSize; exact tablen_gt _
    refine ⟨⟨?_, ?_, shape_of_nTomb_zero hc.2.2.1, ?_, ?_⟩, hc.1, ?_⟩
    · rw [hc.2.2.2.1, hc.2.1]; exact c.cnt
    · rw [hc.2.2.2.2, hc.2.2.1]
    · rw [hsz]; omega
    · rw [hsz, hc.2.2.2.1, hc.2.2.2.2]; omega
    · rw [hsz, hc.2.2.2.1, hc.2.2.2.2]; omega
  · rw [if_neg cnd]
    refine ⟨c, rfl, ?_⟩
    have : rehashNeeded t.count t.deleted t.capacity = false := by
      cases hr : rehashNeeded t.count t.deleted t.capacity with
      | false => rfl
      | true => rw [hr] at cnd; simp at cnd
    unfold rehashNeeded Table.capacity at this
    simp at this
    omega

/-- the insertion proper: with an empty bucket available it finds a free bucket (no NULL), and the counters follow -/
theorem insertAt_counts {h : Nat → Nat} {t : Table} (inv : DInv h t.data) (c : CInv t) {k : Nat} (v : Val)
    (hno : ∀ i, (slotAt t.data i).key ≠ some k)
    (hroom : 2 * (t.count + t.deleted + 1) ≤ t.data.size) :
    CInv (t.insertAt h k v) ∧ (t.insertAt h k v).bad = t.bad := by
  have hpos := c.emp_pos
  have hfm := find_miss (h := h) hno
  unfold Table.insertAt
  cases hf : dictFind h t.data k with
  | none => exact absurd hf (find_ne_none inv hpos k)
  | some j =>
    rw [hf] at hfm
    simp only []
    have hj : j < t.data.size := hfm.lt (maphash_le _ _)
    have hkj := hfm.1
    refine ⟨⟨?_, ?_, ?_, ?_, ?_⟩, by first | rfl | trivial⟩
    · show t.count + 1 = nLive (t.data.setIfInBounds j ⟨some k, v⟩)
      unfold nLive
      rw [countP_setIfInBounds _ _ _ _ hj]
      have := c.cnt; unfold nLive at this
      simp [isLive, hkj]; omega
    · show (if isBoolVal (slotAt t.data j).val = true then t.deleted - 1 else t.deleted) = nTomb (t.data.setIfInBounds j ⟨some k, v⟩)
      unfold nTomb
      rw [countP_setIfInBounds _ _ _ _ hj]
      have hd := c.del; unfold nTomb at hd
      rcases c.shape j hkj with e | e
      · have hb0 : isBoolVal vNil = false := by decide
        simp [isTomb, hkj, e, hb0]; omega
      · have h1 : isBoolVal (slotAt t.data j).val = true := by rw [e]; exact isBool_tombVal
        have h2 : (slotAt t.data j).val ≠ vNil := by rw [e]; exact tombVal_ne_nil
        rw [if_pos h1]
        simp [isTomb, hkj, h2]; omega
    · intro x hx
      show (slotAt (t.data.setIfInBounds j ⟨some k, v⟩) x).val = vNil ∨ _
      rw [slotAt_set] at hx ⊢
      by_cases cc : x = j ∧ j < t.data.size
      · simp only [cc, and_self, if_true] at hx; cases hx
      · simp only [cc, if_false] at hx ⊢; exact c.shape x hx
    · show 0 < (t.data.setIfInBounds j ⟨some k, v⟩).size
      simp; exact c.pos
    · show 2 * (t.count + 1 + (if isBoolVal (slotAt t.data j).val = true then t.deleted - 1 else t.deleted)) ≤ (t.data.setIfInBounds j ⟨some k, v⟩).size
      simp only [Array.size_setIfInBounds]
      by_cases cb : isBoolVal (slotAt t.data j).val = true
      · rw [if_pos cb]; omega
      · rw [if_neg cb]; omega

/-- `janet_table_put` on a storable key keeps the counting invariant and never dereferences NULL -/
theorem putKey_counts {h : Nat → Nat} {t : Table} (inv : DInv h t.data) (c : CInv t) (hb : t.bad = false)
    (k : Nat) (v : Val) :
    CInv (t.putKey h k v) ∧ (t.putKey h k v).bad = t.bad := by
  unfold Table.putKey
  by_cases hv : v = vNil
  · simp only [hv, if_true]
    exact ⟨remove_counts inv c k, remove_bad t k⟩
  · simp only [hv, if_false]
    by_cases hex : ∃ i, (slotAt t.data i).key = some k
    · obtain ⟨i, hi⟩ := hex
      have hf : hit t.data (dictFind h t.data k) = some i := by rw [find_hit inv hi, hit_of_key hi]
      have hil : i < t.data.size := key_some_lt hi
      have hlp : 0 < nLive t.data := countP_pos_of_slot isLive t.data i hil (by simp [isLive, hi])
      rw [hf]
      simp only []
      refine ⟨⟨?_, ?_, ?_, ?_, ?_⟩, by first | rfl | trivial⟩
      · show t.count = nLive (t.data.setIfInBounds i ⟨some k, v⟩)
        unfold nLive
        rw [countP_setIfInBounds _ _ _ _ hil]
        have := c.cnt; unfold nLive at this hlp
        simp [isLive, hi]; omega
      · show t.deleted = nTomb (t.data.setIfInBounds i ⟨some k, v⟩)
        unfold nTomb
        rw [countP_setIfInBounds _ _ _ _ hil]
        have := c.del; unfold nTomb at this
        simp [isTomb, hi]; omega
      · intro x hx
        show (slotAt (t.data.setIfInBounds i ⟨some k, v⟩) x).val = vNil ∨ _
        rw [slotAt_set] at hx ⊢
        by_cases cc : x = i ∧ i < t.data.size
        · simp only [cc, and_self, if_true] at hx; cases hx
        · simp only [cc, if_false] at hx ⊢; exact c.shape x hx
      · show 0 < (t.data.setIfInBounds i ⟨some k, v⟩).size
        simp; exact c.pos
      · show 2 * (t.count + t.deleted) ≤ (t.data.setIfInBounds i ⟨some k, v⟩).size
        simp; exact c.room
    · have hno : ∀ i, (slotAt t.data i).key ≠ some k := fun i hi => hex ⟨i, hi⟩
      rw [hit_miss hno]
      simp only []
      unfold Table.insertNew
      have h1 := maybeRehash_counts (h := h) inv c (dictFind h t.data k)
      have h2 := maybeRehash_spec (h := h) inv (dictFind h t.data k)
      -- the key is still absent after the rehash
      have hb1 : (t.maybeRehash h (dictFind h t.data k)).bad = false := by rw [h1.2.1]; exact hb
      have hno1 : ∀ x, (slotAt (t.maybeRehash h (dictFind h t.data k)).data x).key ≠ some k :=
        absent_of_rawgetD_nil h2.1 (by rw [(h2.2 hb1).2, rawgetD_miss hno])
      have h3 := insertAt_counts (h := h) h2.1 h1.1 v hno1 h1.2.2
      exact ⟨h3.1, by rw [h3.2, h1.2.1]⟩

end JanetModel.Table
