/-
Executable model of janet's hash tables (src/core/table.c, `janet_dict_find` / `janet_dictionary_next` in util.c,
`janet_next` for dictionaries in value.c).  Core Lean only (linked into the driver `jm_c04`).

Conventions
* A key is a natural number `id`; equality of keys (`janet_equals`) is equality of ids; the hash function
  `h : Nat → Nat` (`janet_hash`, as an unsigned 32-bit value) is a parameter of every operation — the harness tells the
  driver each pool key's real hash; the theorems hold for every `h`.
* A value is a `Val` id: `0` = nil, `1` = false, `2` = true, `n ≥ 3` = some other non-nil value.
* A bucket (`JanetKV`) is `{key : Option Nat, val : Val}`: `key = none` is the nil key.  As in the C, an *empty* bucket is
  (nil, nil) and a *tombstone* is (nil, non-nil); `janet_table_remove` writes (nil, `tombVal`) where `tombVal` is read
  off the source by the translator (Gen/Table.lean), as are `maphash`, `tablen`, the rehash rule and the prototype
  depth limit.
* Loops are structural recursion over the index lists the C loops enumerate; mutation is returned state.
* A NULL bucket dereference in the C (possible only if `janet_dict_find` returns NULL where the code assumes it cannot)
  is recorded in the field `bad`; the invariant proves it never happens.
-/
import JanetModel.Gen.Table

namespace JanetModel.Table
open JanetModel.Gen.Table

abbrev Val := Nat
abbrev vNil : Val := 0

/-- `janet_checktype(v, JANET_BOOLEAN)` on value ids -/
@[inline] def isBoolVal (v : Val) : Bool := v == 1 || v == 2

structure Slot where
  key : Option Nat
  val : Val
  deriving DecidableEq, Repr, Inhabited

/-- bucket as initialised by `janet_memempty` -/
def Slot.empty : Slot := ⟨none, vNil⟩

structure Table where
  count : Nat
  deleted : Nat
  data : Array Slot            -- `capacity` is `data.size`
  proto : Option Nat := none   -- index of the prototype table in the driver's heap
  bad : Bool := false          -- a NULL bucket was dereferenced
  deriving Repr, Inhabited

@[inline] def Table.capacity (t : Table) : Nat := t.data.size

/-- bucket `i` (reads outside the array do not occur; they read an empty bucket in the model) -/
@[inline] def slotAt (data : Array Slot) (i : Nat) : Slot := data.getD i Slot.empty

/-! ### `janet_dict_find` (util.c) -/

inductive ScanR where
  | ret (i : Nat)                 -- `return buckets + i`
  | cont (first : Option Nat)     -- loop finished; `first_bucket`
  deriving Repr, DecidableEq

/-- `if (NULL == first_bucket) first_bucket = kv;` -/
@[inline] def firstOr (first : Option Nat) (i : Nat) : Option Nat :=
  match first with
  | none => some i
  | some f => some f

/-- one probe loop of `janet_dict_find` over the bucket indices `idxs` -/
def scan (data : Array Slot) (k : Nat) : List Nat → Option Nat → ScanR
  | [], first => .cont first
  | i :: rest, first =>
    let kv := slotAt data i
    match kv.key with
    | none =>
      if kv.val = vNil then .ret i
      else scan data k rest (firstOr first i)
    | some k' => if k' = k then .ret i else scan data k rest first

/-- `janet_dict_find(buckets, cap, key)`: `some i` = pointer to bucket `i`, `none` = NULL -/
def dictFind (h : Nat → Nat) (data : Array Slot) (k : Nat) : Option Nat :=
  let cap := data.size
  let index := maphash cap (h k)
  match scan data k (List.range' index (cap - index)) none with      -- "higher half"
  | .ret i => some i
  | .cont first =>
    match scan data k (List.range' 0 index) first with               -- "lower half"
    | .ret i => some i
    | .cont first => first

/-- `bucket != NULL && !janet_checktype(bucket->key, JANET_NIL)` -/
@[inline] def hit (data : Array Slot) (b : Option Nat) : Option Nat :=
  match b with
  | some i => if (slotAt data i).key.isSome then some i else none
  | none => none

/-! ### table.c -/

/-- `janet_table_init_impl` -/
def Table.init (capacity : Nat) : Table :=
  { count := 0, deleted := 0, data := Array.replicate (tablen capacity) Slot.empty }

/-- `janet_table_rawget` -/
def Table.rawget (h : Nat → Nat) (t : Table) (k : Nat) : Val :=
  match hit t.data (dictFind h t.data k) with
  | some i => (slotAt t.data i).val
  | none => vNil

/-- `janet_table_remove`: returns the table and the removed value -/
def Table.remove (h : Nat → Nat) (t : Table) (k : Nat) : Table × Val :=
  match hit t.data (dictFind h t.data k) with
  | some i =>
    ({ t with count := t.count - 1, deleted := t.deleted + 1,
              data := t.data.setIfInBounds i ⟨none, tombVal⟩ }, (slotAt t.data i).val)
  | none => (t, vNil)

/-- the copy loop of `janet_table_rehash` over the old buckets -/
def rehashLoop (h : Nat → Nat) : List Slot → Array Slot × Bool → Array Slot × Bool
  | [], acc => acc
  | kv :: rest, (nd, bad) =>
    match kv.key with
    | none => rehashLoop h rest (nd, bad)
    | some k =>
      match dictFind h nd k with
      | some j => rehashLoop h rest (nd.setIfInBounds j kv, bad)
      | none => rehashLoop h rest (nd, true)            -- `*newkv = *kv` with newkv == NULL

/-- `janet_table_rehash(t, size)` -/
def Table.rehash (h : Nat → Nat) (t : Table) (size : Nat) : Table :=
  let r := rehashLoop h t.data.toList (Array.replicate size Slot.empty, t.bad)
  { t with data := r.1, deleted := 0, bad := r.2 }

/-- `if (NULL == bucket || <rehash test>) janet_table_rehash(t, janet_tablen(<size>));` -/
def Table.maybeRehash (h : Nat → Nat) (t : Table) (b : Option Nat) : Table :=
  if b.isNone || rehashNeeded t.count t.deleted t.capacity then t.rehash h (rehashSize t.count) else t

/-- `bucket = janet_table_find(t, key); if (bucket->value is a boolean) --t->deleted; bucket->key = key; ...; ++t->count;` -/
def Table.insertAt (h : Nat → Nat) (t : Table) (k : Nat) (v : Val) : Table :=
  match dictFind h t.data k with
  | none => { t with bad := true }
  | some i =>
    { t with deleted := if isBoolVal (slotAt t.data i).val then t.deleted - 1 else t.deleted,
             data := t.data.setIfInBounds i ⟨some k, v⟩, count := t.count + 1 }

/-- the tail shared by `janet_table_put` and `janet_table_put_no_overwrite` once the key is known to be absent;
`b` is the bucket `janet_table_find` returned -/
def Table.insertNew (h : Nat → Nat) (t : Table) (b : Option Nat) (k : Nat) (v : Val) : Table :=
  (t.maybeRehash h b).insertAt h k v

/-- key argument of `janet_table_put`: nil and NaN keys are ignored -/
inductive KArg where
  | nil | nan | key (id : Nat)
  deriving Repr, DecidableEq

/-- `janet_table_put` on a storable key -/
def Table.putKey (h : Nat → Nat) (t : Table) (k : Nat) (v : Val) : Table :=
  if v = vNil then (t.remove h k).1
  else
    let b := dictFind h t.data k
    match hit t.data b with
    | some i => { t with data := t.data.setIfInBounds i ⟨some k, v⟩ }     -- `bucket->value = value`
    | none => t.insertNew h b k v

/-- `janet_table_put` -/
def Table.put (h : Nat → Nat) (t : Table) (k : KArg) (v : Val) : Table :=
  match k with
  | .nil => t
  | .nan => t
  | .key k => t.putKey h k v

/-- `janet_table_put_no_overwrite` -/
def Table.putNoOverwrite (h : Nat → Nat) (t : Table) (k : Nat) (v : Val) : Table :=
  let b := dictFind h t.data k
  match hit t.data b with
  | some _ => t
  | none => t.insertNew h b k v

/-- `janet_table_clear` -/
def Table.clear (t : Table) : Table :=
  { t with count := 0, deleted := 0, data := Array.replicate t.data.size Slot.empty }

/-- `janet_table_clone`: the bucket array is copied (value semantics here; the harness checks that the C copy
is not shared by mutating one side and comparing both after every op) -/
def Table.clone (t : Table) : Table :=
  { count := t.count, deleted := t.deleted, data := t.data, proto := t.proto, bad := t.bad }

/-- `janet_table_mergekv` -/
def Table.mergekv (h : Nat → Nat) (t : Table) (kvs : List Slot) : Table :=
  kvs.foldl (fun t kv => match kv.key with | some k => t.putKey h k kv.val | none => t) t

/-- boot.janet `merge`: `(def container @{}) (loop [c :in colls key :keys c] (put container key (in c key))) container`
(the shape is asserted by the translator); `colls` = the bucket arrays of the arguments -/
def mergeNew (h : Nat → Nat) (colls : List (List Slot)) : Table :=
  colls.foldl (fun t kvs => t.mergekv h kvs) (Table.init 0)

/-- boot.janet `zipcoll` / `from-pairs` / `tabseq`: a fresh `@{}` filled by `put` -/
def fromPuts (h : Nat → Nat) (kvs : List (KArg × Val)) : Table :=
  kvs.foldl (fun t kv => t.put h kv.1 kv.2) (Table.init 0)

/-- prototype walk of `janet_table_get`: `for (i = JANET_MAX_PROTO_DEPTH; t && i; t = t->proto, --i)`.
`heap` resolves a table reference. -/
def getChain (h : Nat → Nat) (heap : Nat → Option Table) (k : Nat) : Nat → Option Nat → Val
  | 0, _ => vNil
  | _, none => vNil
  | fuel + 1, some r =>
    match heap r with
    | none => vNil
    | some t =>
      match hit t.data (dictFind h t.data k) with
      | some i => (slotAt t.data i).val
      | none => getChain h heap k fuel t.proto

/-- `janet_table_get` -/
def tableGet (h : Nat → Nat) (heap : Nat → Option Table) (r : Nat) (k : Nat) : Val :=
  getChain h heap k maxProtoDepth (some r)

/-! ### iteration: `janet_next` on a dictionary (value.c) -/

/-- `while (kv < end) { if (!nil key) return kv->key; kv++; }` starting at bucket `i`, `n` buckets left -/
def nextFrom (data : Array Slot) : Nat → Nat → Option Nat
  | _, 0 => none
  | i, n + 1 =>
    match (slotAt data i).key with
    | some k => some k
    | none => nextFrom data (i + 1) n

/-- `janet_next(ds, key)` for a table/struct bucket array; `key = none` is nil.  A NULL result of
`janet_dict_find` (+1 is undefined behaviour in C; cannot happen on a table satisfying the invariant with
capacity > 0) is treated as "end". -/
def dictNext (h : Nat → Nat) (data : Array Slot) (k : Option Nat) : Option Nat :=
  match k with
  | none => nextFrom data 0 data.size
  | some k =>
    match dictFind h data k with
    | some i => nextFrom data (i + 1) (data.size - (i + 1))
    | none => none

/-- keys in bucket order (what repeated `next` should enumerate) -/
def keysOf (data : Array Slot) : List Nat := data.toList.filterMap (·.key)

/-- live buckets in bucket order -/
def liveOf (data : Array Slot) : List Slot := data.toList.filter (·.key.isSome)

/-- iterate `next` from nil at most `fuel` times, collecting the keys -/
def iterNext (h : Nat → Nat) (data : Array Slot) : Nat → Option Nat → List Nat
  | 0, _ => []
  | fuel + 1, cur =>
    match dictNext h data cur with
    | none => []
    | some k => k :: iterNext h data fuel (some k)

/-! ### structs (struct.c): `janet_struct_begin` / `janet_struct_put_ext` / `janet_struct_end`

`KeyInfo`: the signed 32-bit hash and the key's rank in `janet_compare` order are needed by the robin-hood
insertion of `janet_struct_put_ext`. -/

structure Struct where
  length : Nat                -- `janet_struct_length`
  data : Array Slot
  proto : Option Nat := none
  deriving Repr, Inhabited

/-- temporary struct under construction: `hashField` is the running count kept in the hash field -/
structure StructB where
  length : Nat
  filled : Nat
  data : Array Slot
  deriving Repr, Inhabited

def structBegin (count : Nat) : StructB :=
  { length := count, filled := 0, data := Array.replicate (structCap count) Slot.empty }

def toI32 (u : Nat) : Int := if u % 4294967296 < 2147483648 then (u % 4294967296 : Nat) else (u % 4294967296 : Nat) - (4294967296 : Int)

/-- the probe loop of `janet_struct_put_ext`; `idxs` enumerates `bounds[0..1]` then `bounds[2..3]` -/
def structPutLoop (h : Nat → Nat) (rank : Nat → Nat) (replace : Bool) (cap : Nat) :
    List Nat → (key : Nat) → (value : Val) → (hash : Int) → (dist : Nat) → StructB → StructB
  | [], _, _, _, _, st => st
  | i :: rest, key, value, hash, dist, st =>
    let kv := slotAt st.data i
    match kv.key with
    | none => { st with data := st.data.setIfInBounds i ⟨some key, value⟩, filled := st.filled + 1 }
    | some okey =>
      let otherhash := toI32 (h okey)
      let otherindex := maphash cap (h okey)
      let otherdist := (i + cap - otherindex) &&& (cap - 1)
      let status : Int :=
        if dist < otherdist then -1
        else if otherdist < dist then 1
        else if hash < otherhash then -1
        else if otherhash < hash then 1
        else if rank key < rank okey then -1 else if rank okey < rank key then 1 else 0
      if status = 1 then
        structPutLoop h rank replace cap rest okey kv.val otherhash (otherdist + 1)
          { st with data := st.data.setIfInBounds i ⟨some key, value⟩ }
      else if status = 0 then
        if replace then { st with data := st.data.setIfInBounds i ⟨kv.key, value⟩ } else st
      else structPutLoop h rank replace cap rest key value hash (dist + 1) st

/-- `janet_struct_put_ext` for a non-nil, non-NaN key -/
def structPut (h : Nat → Nat) (rank : Nat → Nat) (replace : Bool) (st : StructB) (key : Nat) (value : Val) : StructB :=
  if value = vNil then st
  else if st.filled = st.length then st
  else
    let cap := st.data.size
    let index := maphash cap (h key)
    structPutLoop h rank replace cap (List.range' index (cap - index) ++ List.range' 0 index) key value (toI32 (h key)) 0 st

/-- `janet_struct_end` (the hash value itself is not modelled) -/
def structEnd (h : Nat → Nat) (rank : Nat → Nat) (st : StructB) : Struct :=
  if st.filled ≠ st.length then
    let nb := (liveOf st.data).foldl (fun b kv => match kv.key with | some k => structPut h rank true b k kv.val | none => b)
      (structBegin st.filled)
    { length := nb.length, data := nb.data }
  else { length := st.length, data := st.data }

/-- `janet_table_to_struct` -/
def Table.toStruct (h : Nat → Nat) (rank : Nat → Nat) (t : Table) : Struct :=
  structEnd h rank ((liveOf t.data).foldl
    (fun b kv => match kv.key with | some k => structPut h rank true b k kv.val | none => b) (structBegin t.count))

/-- the own entries of a table in bucket order (the order of `keys` / `pairs` / `eachp`), as `put` arguments -/
def putsOf (t : Table) : List (KArg × Val) :=
  (liveOf t.data).map (fun kv => (match kv.key with | some k => KArg.key k | none => KArg.nil, kv.val))

/-- one level of boot.janet `freeze` on a table whose keys and values freeze to themselves:
`(let [temp-tab @{}] (eachp [k v] x ... (put temp-tab kk new)) (table/to-struct temp-tab ...))` — distinct keys, so
`old` is always nil and `new` is the value (source shape asserted by the translator) -/
def freezeLevel (h : Nat → Nat) (rank : Nat → Nat) (t : Table) : Struct :=
  (fromPuts h (putsOf t)).toStruct h rank

/-- boot.janet `thaw` on an already flattened table whose keys and values thaw to themselves:
`(walk-dict thaw (table/proto-flatten ds))` = a fresh `@{}` filled by `put` in iteration order -/
def thawFlat (h : Nat → Nat) (flat : Table) : Table := fromPuts h (putsOf flat)

/-- `struct/with-proto` applied to the entries of `s` in iteration order: `janet_struct_begin(length)`, one
`janet_struct_put` per entry, `janet_struct_end`, prototype link `p` -/
def Struct.withProto (h : Nat → Nat) (rank : Nat → Nat) (s : Struct) (p : Option Nat) : Struct :=
  { structEnd h rank ((liveOf s.data).foldl
      (fun b kv => match kv.key with | some k => structPut h rank true b k kv.val | none => b) (structBegin s.length))
    with proto := p }

/-- `janet_struct_find`: no tombstones in structs; first nil-key bucket or the key -/
def structFind (h : Nat → Nat) (data : Array Slot) (k : Nat) : Option Nat :=
  let cap := data.size
  let index := maphash cap (h k)
  (List.range' index (cap - index) ++ List.range' 0 index).find? (fun i =>
    match (slotAt data i).key with | none => true | some k' => k' == k)

/-- `janet_struct_rawget` -/
def Struct.rawget (h : Nat → Nat) (s : Struct) (k : Nat) : Val :=
  match structFind h s.data k with
  | some i => (slotAt s.data i).val
  | none => vNil

/-- `janet_struct_get` -/
def structGetChain (h : Nat → Nat) (heap : Nat → Option Struct) (k : Nat) : Nat → Option Nat → Val
  | 0, _ => vNil
  | _, none => vNil
  | fuel + 1, some r =>
    match heap r with
    | none => vNil
    | some s =>
      match hit s.data (structFind h s.data k) with
      | some i => (slotAt s.data i).val
      | none => structGetChain h heap k fuel s.proto

/-- `janet_struct_to_table` / one level of `struct/to-table` -/
def Struct.toTable (h : Nat → Nat) (s : Struct) (initCap : Nat) : Table :=
  (Table.init initCap).mergekv h s.data.toList

/-- `janet_table_proto_flatten`, `chain` = the tables met following `proto` -/
def protoFlatten (h : Nat → Nat) (chain : List Table) : Table :=
  chain.foldl (fun nt t => t.data.toList.foldl
    (fun nt kv => match kv.key with | some k => nt.putNoOverwrite h k kv.val | none => nt) nt) (Table.init 0)

end JanetModel.Table
