/-
Lemmas about the table model (Table/Model.lean): `janet_dict_find` finds a present key and returns a free bucket
on the probe path of an absent one; structural invariant of the bucket array and its preservation.
-/
import JanetModel.Table.Model

namespace JanetModel.Table
open JanetModel.Gen.Table

/-- (nil, nil) bucket -/
def Slot.isEmpty (s : Slot) : Prop := s.key = none ∧ s.val = vNil

/-- the probe order of `janet_dict_find`: `index .. cap-1`, then `0 .. index-1` -/
def probeSeq (cap index : Nat) : List Nat := List.range' index (cap - index) ++ List.range' 0 index

theorem scan_append (data : Array Slot) (k : Nat) (l1 l2 : List Nat) (first : Option Nat) :
    scan data k (l1 ++ l2) first =
      match scan data k l1 first with
      | .ret i => .ret i
      | .cont f => scan data k l2 f := by
  induction l1 generalizing first with
  | nil => simp [scan]
  | cons i rest ih =>
    simp only [List.cons_append, scan]
    cases hk : (slotAt data i).key with
    | none =>
      simp only []
      by_cases hv : (slotAt data i).val = vNil
      · simp [hv]
      · simp only [hv, if_false]; exact ih _
    | some k' =>
      simp only []
      by_cases hkk : k' = k
      · simp [hkk]
      · simp only [hkk, if_false]; exact ih _

theorem dictFind_eq (h : Nat → Nat) (data : Array Slot) (k : Nat) :
    dictFind h data k =
      match scan data k (probeSeq data.size (maphash data.size (h k))) none with
      | .ret i => some i
      | .cont f => f := by
  unfold dictFind probeSeq
  simp only [scan_append]
  cases scan data k (List.range' (maphash data.size (h k)) (data.size - maphash data.size (h k))) none <;> simp
  · rename_i f
    cases scan data k (List.range' 0 (maphash data.size (h k))) f <;> simp

/-- a present key is found when nothing before it on the probe path is empty or holds the same key -/
theorem scan_hit (data : Array Slot) (k : Nat) (pre : List Nat) (i : Nat) (post : List Nat) (first : Option Nat)
    (hpre : ∀ j ∈ pre, ¬ (slotAt data j).isEmpty ∧ (slotAt data j).key ≠ some k)
    (hi : (slotAt data i).key = some k) :
    scan data k (pre ++ i :: post) first = .ret i := by
  induction pre generalizing first with
  | nil => simp [scan, hi]
  | cons j rest ih =>
    have hj := hpre j (by simp)
    have hrest : ∀ x ∈ rest, ¬ (slotAt data x).isEmpty ∧ (slotAt data x).key ≠ some k :=
      fun x hx => hpre x (by simp [hx])
    simp only [List.cons_append, scan]
    cases hk : (slotAt data j).key with
    | none =>
      simp only []
      have hv : ¬ (slotAt data j).val = vNil := fun hv => hj.1 ⟨hk, hv⟩
      simp only [hv, if_false]; exact ih _ hrest
    | some k' =>
      simp only []
      have hkk : ¬ k' = k := fun e => hj.2 (by rw [hk, e])
      simp only [hkk, if_false]; exact ih _ hrest

/-- bucket `j` is free (nil key) and nothing before it in `l` is empty -/
def Good (data : Array Slot) (l : List Nat) (j : Nat) : Prop :=
  (slotAt data j).key = none ∧ ∃ pre post, l = pre ++ j :: post ∧ ∀ x ∈ pre, ¬ (slotAt data x).isEmpty

theorem Good.cons {data : Array Slot} {l : List Nat} {j : Nat} (i : Nat) (hi : ¬ (slotAt data i).isEmpty)
    (g : Good data l j) : Good data (i :: l) j := by
  obtain ⟨hk, pre, post, hl, hp⟩ := g
  refine ⟨hk, i :: pre, post, by simp [hl], ?_⟩
  intro x hx
  rcases List.mem_cons.mp hx with e | e
  · rw [e]; exact hi
  · exact hp x e

/-- for an absent key `scan` returns a free bucket with no empty bucket before it, or reports that `l` has no
empty bucket at all (then the first tombstone, if any) -/
theorem scan_miss (data : Array Slot) (k : Nat) (l : List Nat) (first : Option Nat)
    (hno : ∀ j ∈ l, (slotAt data j).key ≠ some k) :
    match scan data k l first with
    | .ret i => Good data l i
    | .cont f => (∀ x ∈ l, ¬ (slotAt data x).isEmpty) ∧
        (match first with
         | some f0 => f = some f0
         | none => match f with
           | none => True
           | some j => Good data l j) := by
  induction l generalizing first with
  | nil =>
    simp only [scan]
    refine ⟨by simp, ?_⟩
    cases first <;> simp
  | cons i rest ih =>
    have hrest : ∀ j ∈ rest, (slotAt data j).key ≠ some k := fun j hj => hno j (by simp [hj])
    simp only [scan]
    cases hk : (slotAt data i).key with
    | none =>
      simp only []
      by_cases hv : (slotAt data i).val = vNil
      · simp only [hv, if_true]
        exact ⟨hk, [], rest, by simp, by simp⟩
      · simp only [hv, if_false]
        have hne : ¬ (slotAt data i).isEmpty := fun e => hv e.2
        have := ih (firstOr first i) hrest
        generalize hs : scan data k rest (firstOr first i) = r at this
        cases r with
        | ret j => exact Good.cons i hne this
        | cont f =>
          obtain ⟨hall, hf⟩ := this
          refine ⟨?_, ?_⟩
          · intro x hx
            rcases List.mem_cons.mp hx with e | e
            · rw [e]; exact hne
            · exact hall x e
          · cases first with
            | some f0 => simpa [firstOr] using hf
            | none =>
              have : f = some i := by simpa [firstOr] using hf
              rw [this]
              exact ⟨hk, [], rest, by simp, by simp⟩
    | some k' =>
      simp only []
      have hkk : ¬ k' = k := fun e => hno i (by simp) (by rw [hk, e])
      simp only [hkk, if_false]
      have hne : ¬ (slotAt data i).isEmpty := fun e => by rw [e.1] at hk; cases hk
      have := ih first hrest
      generalize hs : scan data k rest first = r at this
      cases r with
      | ret j => exact Good.cons i hne this
      | cont f =>
        obtain ⟨hall, hf⟩ := this
        refine ⟨?_, ?_⟩
        · intro x hx
          rcases List.mem_cons.mp hx with e | e
          · rw [e]; exact hne
          · exact hall x e
        · cases first with
          | some f0 => simpa using hf
          | none =>
            cases f with
            | none => trivial
            | some j => exact Good.cons i hne (by simpa using hf)

/-! ### bucket access -/

theorem slotAt_set (data : Array Slot) (i x : Nat) (s : Slot) :
    slotAt (data.setIfInBounds i s) x = if x = i ∧ i < data.size then s else slotAt data x := by
  unfold slotAt
  simp only [Array.getD_eq_getD_getElem?, Array.getElem?_setIfInBounds]
  by_cases h1 : i = x
  · subst h1
    by_cases h2 : i < data.size
    · simp [h2]
    · simp [h2]
  · have : ¬ (x = i ∧ i < data.size) := fun h => h1 h.1.symm
    simp [h1, this]

theorem slotAt_oob (data : Array Slot) (x : Nat) (hx : data.size ≤ x) : slotAt data x = Slot.empty := by
  unfold slotAt
  simp only [Array.getD_eq_getD_getElem?]
  have : data[x]? = none := by simp; omega
  simp [this]

theorem slotAt_replicate (n x : Nat) : slotAt (Array.replicate n Slot.empty) x = Slot.empty := by
  unfold slotAt
  simp only [Array.getD_eq_getD_getElem?, Array.getElem?_replicate]
  by_cases h : x < n <;> simp [h]

theorem key_some_lt {data : Array Slot} {i k : Nat} (h : (slotAt data i).key = some k) : i < data.size := by
  by_cases hi : i < data.size
  · exact hi
  · rw [slotAt_oob data i (by omega)] at h; cases h

theorem maphash_lt (cap hv : Nat) (hc : 0 < cap) : maphash cap hv < cap := by
  unfold maphash
  have : hv &&& (cap - 1) ≤ cap - 1 := Nat.and_le_right
  omega

theorem mem_probeSeq {cap idx x : Nat} (hidx : idx ≤ cap) : x ∈ probeSeq cap idx ↔ x < cap := by
  unfold probeSeq
  simp only [List.mem_append, List.mem_range'_1]
  omega

theorem probeSeq_nodup (cap idx : Nat) : (probeSeq cap idx).Nodup := by
  unfold probeSeq
  refine List.nodup_append.mpr ⟨List.nodup_range' 1, List.nodup_range' 1, ?_⟩
  intro p hp1 q hq1 e
  rw [List.mem_range'_1] at hp1 hq1
  omega

theorem not_mem_pre {l pre post : List Nat} {j : Nat} (hn : l.Nodup) (hl : l = pre ++ j :: post) : j ∉ pre := by
  subst hl
  intro hm
  exact (List.nodup_append.mp hn).2.2 j hm j (by simp) rfl

/-! ### the structural invariant of a bucket array -/

structure DInv (h : Nat → Nat) (data : Array Slot) : Prop where
  /-- no key is stored twice -/
  nodup : ∀ i j k, (slotAt data i).key = some k → (slotAt data j).key = some k → i = j
  /-- probe-path property: between a key's home bucket and its bucket (cyclically) there is no empty bucket -/
  path : ∀ i k, (slotAt data i).key = some k →
    ∃ pre post, probeSeq data.size (maphash data.size (h k)) = pre ++ i :: post ∧
      ∀ x ∈ pre, ¬ (slotAt data x).isEmpty ∧ (slotAt data x).key ≠ some k
  /-- stored values are never nil -/
  live : ∀ i k, (slotAt data i).key = some k → (slotAt data i).val ≠ vNil

theorem find_hit {h : Nat → Nat} {data : Array Slot} (inv : DInv h data) {i k : Nat}
    (hi : (slotAt data i).key = some k) : dictFind h data k = some i := by
  obtain ⟨pre, post, hp, hpre⟩ := inv.path i k hi
  rw [dictFind_eq, hp, scan_hit data k pre i post none hpre hi]

theorem find_miss {h : Nat → Nat} {data : Array Slot} {k : Nat}
    (hno : ∀ i, (slotAt data i).key ≠ some k) :
    match dictFind h data k with
    | some j => Good data (probeSeq data.size (maphash data.size (h k))) j
    | none => ∀ x ∈ probeSeq data.size (maphash data.size (h k)), ¬ (slotAt data x).isEmpty := by
  rw [dictFind_eq]
  have := scan_miss data k (probeSeq data.size (maphash data.size (h k))) none (fun j _ => hno j)
  generalize scan data k (probeSeq data.size (maphash data.size (h k))) none = r at this
  cases r with
  | ret i => exact this
  | cont f =>
    obtain ⟨hall, hf⟩ := this
    cases f with
    | none => exact hall
    | some j => exact hf

theorem hit_of_key {data : Array Slot} {i k : Nat} (hi : (slotAt data i).key = some k) :
    hit data (some i) = some i := by
  simp [hit, hi]

theorem hit_miss {h : Nat → Nat} {data : Array Slot} {k : Nat} (hno : ∀ i, (slotAt data i).key ≠ some k) :
    hit data (dictFind h data k) = none := by
  have := find_miss (h := h) hno
  cases hf : dictFind h data k with
  | none => rfl
  | some j =>
    rw [hf] at this
    simp [hit, this.1]

/-- `janet_table_rawget` returns the stored value of a present key -/
theorem rawget_hit {h : Nat → Nat} {t : Table} (inv : DInv h t.data) {i k : Nat}
    (hi : (slotAt t.data i).key = some k) : t.rawget h k = (slotAt t.data i).val := by
  unfold Table.rawget
  rw [find_hit inv hi, hit_of_key hi]

/-- ... and nil for an absent key -/
theorem rawget_miss {h : Nat → Nat} {t : Table} {k : Nat}
    (hno : ∀ i, (slotAt t.data i).key ≠ some k) : t.rawget h k = vNil := by
  unfold Table.rawget
  rw [hit_miss hno]

/-! ### preservation of the invariant by the three kinds of bucket writes -/

theorem isEmpty_set_of_nonempty {data : Array Slot} {i : Nat} {s : Slot} (hs : ¬ s.isEmpty) {x : Nat}
    (hx : ¬ (slotAt data x).isEmpty) : ¬ (slotAt (data.setIfInBounds i s) x).isEmpty := by
  rw [slotAt_set]
  by_cases c : x = i ∧ i < data.size
  · simp only [c, and_self, if_true]; exact hs
  · simp only [c, if_false]; exact hx

/-- `bucket->value = value` on a bucket that holds the key -/
theorem DInv.overwrite {h : Nat → Nat} {data : Array Slot} (inv : DInv h data) {i k : Nat} {v : Val}
    (hi : (slotAt data i).key = some k) (hv : v ≠ vNil) : DInv h (data.setIfInBounds i ⟨some k, v⟩) := by
  have hkey : ∀ x, (slotAt (data.setIfInBounds i ⟨some k, v⟩) x).key = (slotAt data x).key := by
    intro x
    rw [slotAt_set]
    by_cases c : x = i ∧ i < data.size
    · simp only [c, and_self, if_true]; exact hi.symm
    · simp only [c, if_false]
  have hne : ¬ (Slot.isEmpty ⟨some k, v⟩) := fun e => by cases e.1
  refine ⟨?_, ?_, ?_⟩
  · intro a b k' ha hb
    rw [hkey] at ha hb
    exact inv.nodup a b k' ha hb
  · intro a k' ha
    rw [hkey] at ha
    obtain ⟨pre, post, hp, hpre⟩ := inv.path a k' ha
    refine ⟨pre, post, by simpa using hp, ?_⟩
    intro x hx
    refine ⟨isEmpty_set_of_nonempty hne (hpre x hx).1, ?_⟩
    rw [hkey]; exact (hpre x hx).2
  · intro a k' ha
    rw [slotAt_set] at ha ⊢
    by_cases c : a = i ∧ i < data.size
    · simp only [c, and_self, if_true]; exact hv
    · simp only [c, if_false] at ha ⊢; exact inv.live a k' ha

/-- `janet_table_remove`: the bucket becomes a tombstone (nil key, non-nil value) -/
theorem DInv.tomb {h : Nat → Nat} {data : Array Slot} (inv : DInv h data) (i : Nat) {tv : Val}
    (htv : tv ≠ vNil) : DInv h (data.setIfInBounds i ⟨none, tv⟩) := by
  have hkey : ∀ x k', (slotAt (data.setIfInBounds i ⟨none, tv⟩) x).key = some k' → (slotAt data x).key = some k' ∧ x ≠ i ∨ False := by
    intro x k' hx
    rw [slotAt_set] at hx
    by_cases c : x = i ∧ i < data.size
    · simp only [c, and_self, if_true] at hx; cases hx
    · simp only [c, if_false] at hx
      left
      refine ⟨hx, fun e => c ⟨e, ?_⟩⟩
      rw [← e]; exact key_some_lt hx
  have hne : ¬ (Slot.isEmpty ⟨none, tv⟩) := fun e => htv e.2
  refine ⟨?_, ?_, ?_⟩
  · intro a b k' ha hb
    rcases hkey a k' ha with ⟨ha', _⟩ | f
    · rcases hkey b k' hb with ⟨hb', _⟩ | f
      · exact inv.nodup a b k' ha' hb'
      · exact f.elim
    · exact f.elim
  · intro a k' ha
    rcases hkey a k' ha with ⟨ha', _⟩ | f
    · obtain ⟨pre, post, hp, hpre⟩ := inv.path a k' ha'
      refine ⟨pre, post, by simpa using hp, ?_⟩
      intro x hx
      refine ⟨isEmpty_set_of_nonempty hne (hpre x hx).1, ?_⟩
      intro hk
      rcases hkey x k' hk with ⟨hk', _⟩ | f
      · exact (hpre x hx).2 hk'
      · exact f
    · exact f.elim
  · intro a k' ha
    rcases hkey a k' ha with ⟨ha', hai⟩ | f
    · rw [slotAt_set]
      have : ¬ (a = i ∧ i < data.size) := fun c => hai c.1
      simp only [this, if_false]
      exact inv.live a k' ha'
    · exact f.elim

/-- writing a new key into the free bucket `janet_dict_find` returned for it -/
theorem DInv.insert {h : Nat → Nat} {data : Array Slot} (inv : DInv h data) {j k : Nat} {v : Val}
    (hno : ∀ i, (slotAt data i).key ≠ some k)
    (g : Good data (probeSeq data.size (maphash data.size (h k))) j) (hv : v ≠ vNil) :
    DInv h (data.setIfInBounds j ⟨some k, v⟩) := by
  obtain ⟨hjk, pre, post, hp, hpre⟩ := g
  have hne : ¬ (Slot.isEmpty ⟨some k, v⟩) := fun e => by cases e.1
  -- keys after the write
  have hkey : ∀ x k', (slotAt (data.setIfInBounds j ⟨some k, v⟩) x).key = some k' →
      (x = j ∧ k' = k) ∨ (x ≠ j ∧ (slotAt data x).key = some k') := by
    intro x k' hx
    rw [slotAt_set] at hx
    by_cases c : x = j ∧ j < data.size
    · simp only [c, and_self, if_true] at hx
      left; exact ⟨c.1, by cases hx; rfl⟩
    · simp only [c, if_false] at hx
      right
      refine ⟨fun e => ?_, hx⟩
      rw [e, hjk] at hx; cases hx
  refine ⟨?_, ?_, ?_⟩
  · intro a b k' ha hb
    rcases hkey a k' ha with ⟨ea, ek⟩ | ⟨na, ha'⟩
    · rcases hkey b k' hb with ⟨eb, _⟩ | ⟨_, hb'⟩
      · rw [ea, eb]
      · rw [ek] at hb'; exact (hno b hb').elim
    · rcases hkey b k' hb with ⟨_, ek⟩ | ⟨_, hb'⟩
      · rw [ek] at ha'; exact (hno a ha').elim
      · exact inv.nodup a b k' ha' hb'
  · intro a k' ha
    rcases hkey a k' ha with ⟨ea, ek⟩ | ⟨na, ha'⟩
    · refine ⟨pre, post, by rw [ea, ek]; simpa using hp, ?_⟩
      intro x hx
      refine ⟨isEmpty_set_of_nonempty hne (hpre x hx), ?_⟩
      intro hk
      rcases hkey x k' hk with ⟨ex, _⟩ | ⟨_, hx'⟩
      · exact not_mem_pre (probeSeq_nodup _ _) hp (by rw [← ex]; exact hx)
      · rw [ek] at hx'; exact hno x hx'
    · obtain ⟨pre', post', hp', hpre'⟩ := inv.path a k' ha'
      refine ⟨pre', post', by simpa using hp', ?_⟩
      intro x hx
      refine ⟨isEmpty_set_of_nonempty hne (hpre' x hx).1, ?_⟩
      intro hk
      rcases hkey x k' hk with ⟨_, ek⟩ | ⟨_, hx'⟩
      · rw [ek] at ha'; exact hno a ha'
      · exact (hpre' x hx).2 hx'
  · intro a k' ha
    rcases hkey a k' ha with ⟨ea, _⟩ | ⟨na, ha'⟩
    · rw [slotAt_set] at ha ⊢
      by_cases c : a = j ∧ j < data.size
      · simp only [c, and_self, if_true]; exact hv
      · simp only [c, if_false] at ha
        rw [ea, hjk] at ha; cases ha
    · rw [slotAt_set]
      have : ¬ (a = j ∧ j < data.size) := fun c => na c.1
      simp only [this, if_false]
      exact inv.live a k' ha'

theorem DInv.replicate (h : Nat → Nat) (n : Nat) : DInv h (Array.replicate n Slot.empty) := by
  refine ⟨?_, ?_, ?_⟩ <;> intro a <;> intros <;> rename_i hk <;> (try rename_i hk2) <;>
    first
    | (rw [slotAt_replicate] at hk; cases hk)
    | (rw [slotAt_replicate] at hk2; cases hk2)

/-! ### lookups after a bucket write -/

/-- `janet_table_rawget` on a bare bucket array -/
def rawgetD (h : Nat → Nat) (data : Array Slot) (k : Nat) : Val :=
  match hit data (dictFind h data k) with
  | some i => (slotAt data i).val
  | none => vNil

theorem rawget_eq_rawgetD (h : Nat → Nat) (t : Table) (k : Nat) : t.rawget h k = rawgetD h t.data k := rfl

theorem rawgetD_hit {h : Nat → Nat} {data : Array Slot} (inv : DInv h data) {i k : Nat}
    (hi : (slotAt data i).key = some k) : rawgetD h data k = (slotAt data i).val := by
  unfold rawgetD
  rw [find_hit inv hi, hit_of_key hi]

theorem rawgetD_miss {h : Nat → Nat} {data : Array Slot} {k : Nat}
    (hno : ∀ i, (slotAt data i).key ≠ some k) : rawgetD h data k = vNil := by
  unfold rawgetD
  rw [hit_miss hno]

/-- a write to bucket `i` does not change the lookup of a key that neither was nor is in bucket `i` -/
theorem rawgetD_set_other {h : Nat → Nat} {data : Array Slot} {i : Nat} {s : Slot} {k' : Nat}
    (inv : DInv h data) (inv' : DInv h (data.setIfInBounds i s))
    (hold : (slotAt data i).key ≠ some k') (hnew : s.key ≠ some k') :
    rawgetD h (data.setIfInBounds i s) k' = rawgetD h data k' := by
  by_cases hex : ∃ x, (slotAt data x).key = some k'
  · obtain ⟨x, hx⟩ := hex
    have hxi : x ≠ i := fun e => hold (e ▸ hx)
    have hsame : slotAt (data.setIfInBounds i s) x = slotAt data x := by
      rw [slotAt_set]; simp [hxi]
    rw [rawgetD_hit inv hx, rawgetD_hit inv' (by rw [hsame]; exact hx), hsame]
  · have hno : ∀ x, (slotAt data x).key ≠ some k' := fun x hx => hex ⟨x, hx⟩
    rw [rawgetD_miss hno, rawgetD_miss]
    intro x
    rw [slotAt_set]
    by_cases c : x = i ∧ i < data.size
    · simp only [c, and_self, if_true]; exact hnew
    · simp only [c, if_false]; exact hno x

theorem rawgetD_set_self {h : Nat → Nat} {data : Array Slot} {i k : Nat} {v : Val}
    (inv' : DInv h (data.setIfInBounds i ⟨some k, v⟩)) (hi : i < data.size) :
    rawgetD h (data.setIfInBounds i ⟨some k, v⟩) k = v := by
  have hs : slotAt (data.setIfInBounds i ⟨some k, v⟩) i = ⟨some k, v⟩ := by rw [slotAt_set]; simp [hi]
  rw [rawgetD_hit inv' (i := i) (by rw [hs])]
  rw [hs]

theorem Good.lt {data : Array Slot} {cap idx j : Nat} (hidx : idx ≤ cap) (g : Good data (probeSeq cap idx) j) : j < cap := by
  obtain ⟨_, pre, post, hp, _⟩ := g
  exact (mem_probeSeq hidx).mp (by rw [hp]; simp)

theorem maphash_le (cap hv : Nat) : maphash cap hv ≤ cap := by
  unfold maphash
  have : hv &&& (cap - 1) ≤ cap - 1 := Nat.and_le_right
  omega

/-! ### `janet_table_rehash` -/

theorem rehashLoop_bad (h : Nat → Nat) (slots : List Slot) (nd : Array Slot) :
    (rehashLoop h slots (nd, true)).2 = true := by
  induction slots generalizing nd with
  | nil => rfl
  | cons kv rest ih =>
    unfold rehashLoop
    cases kv.key with
    | none => exact ih nd
    | some k =>
      simp only []
      cases dictFind h nd k with
      | none => exact ih nd
      | some j => exact ih _

/-- the copy loop of `janet_table_rehash`, over the old buckets with indices `idxs` -/
theorem rehashLoop_spec {h : Nat → Nat} {old : Array Slot} (oinv : DInv h old) :
    ∀ (idxs : List Nat) (nd : Array Slot) (bad : Bool), idxs.Nodup → DInv h nd →
      (∀ i ∈ idxs, ∀ k, (slotAt old i).key = some k → ∀ x, (slotAt nd x).key ≠ some k) →
      let r := rehashLoop h (idxs.map (slotAt old)) (nd, bad)
      DInv h r.1 ∧ r.1.size = nd.size ∧
        (r.2 = false → ∀ k', rawgetD h r.1 k' =
          if (∃ i ∈ idxs, (slotAt old i).key = some k') then rawgetD h old k' else rawgetD h nd k') := by
  intro idxs
  induction idxs with
  | nil =>
    intro nd bad _ ninv _
    simp [rehashLoop, ninv]
  | cons i rest ih =>
    intro nd bad hnd ninv habs
    have hrestnd : rest.Nodup := (List.nodup_cons.mp hnd).2
    have hinot : i ∉ rest := (List.nodup_cons.mp hnd).1
    simp only [List.map_cons]
    unfold rehashLoop
    cases hk : (slotAt old i).key with
    | none =>
      simp only []
      have := ih nd bad hrestnd ninv (fun i' hi' k hk' x => habs i' (by simp [hi']) k hk' x)
      refine ⟨this.1, this.2.1, ?_⟩
      intro hb k'
      rw [this.2.2 hb k']
      have : (∃ i', i' ∈ i :: rest ∧ (slotAt old i').key = some k') ↔ (∃ i', i' ∈ rest ∧ (slotAt old i').key = some k') := by
        constructor
        · rintro ⟨i', hm, hk'⟩
          rcases List.mem_cons.mp hm with e | e
          · rw [e, hk] at hk'; cases hk'
          · exact ⟨i', e, hk'⟩
        · rintro ⟨i', hm, hk'⟩
          exact ⟨i', by simp [hm], hk'⟩
      simp only [this]
    | some k =>
      simp only []
      have hno : ∀ x, (slotAt nd x).key ≠ some k := habs i (by simp) k hk
      have hfm := find_miss (h := h) hno
      cases hf : dictFind h nd k with
      | none =>
        simp only []
        have := ih nd true hrestnd ninv (fun i' hi' k hk' x => habs i' (by simp [hi']) k hk' x)
        refine ⟨this.1, this.2.1, ?_⟩
        intro hb
        rw [rehashLoop_bad] at hb
        cases hb
      | some j =>
        simp only []
        rw [hf] at hfm
        have hv : (slotAt old i).val ≠ vNil := oinv.live i k hk
        have hkv : slotAt old i = ⟨some k, (slotAt old i).val⟩ := by
          cases hs : slotAt old i with
          | mk kk vv => rw [hs] at hk; simp at hk; simp [hk]
        have ninv' : DInv h (nd.setIfInBounds j (slotAt old i)) := by
          rw [hkv]; exact ninv.insert hno hfm hv
        have hj : j < nd.size := hfm.lt (maphash_le _ _)
        have habs' : ∀ i' ∈ rest, ∀ k2, (slotAt old i').key = some k2 → ∀ x, (slotAt (nd.setIfInBounds j (slotAt old i)) x).key ≠ some k2 := by
          intro i' hi' k2 hk2 x
          rw [slotAt_set]
          by_cases c : x = j ∧ j < nd.size
          · simp only [c, and_self, if_true]
            intro e
            rw [hk] at e
            have : k = k2 := by cases e; rfl
            rw [← this] at hk2
            exact hinot (by rw [oinv.nodup i i' k hk hk2]; exact hi')
          · simp only [c, if_false]
            exact habs i' (by simp [hi']) k2 hk2 x
        have := ih (nd.setIfInBounds j (slotAt old i)) bad hrestnd ninv' habs'
        refine ⟨this.1, by rw [this.2.1]; simp, ?_⟩
        intro hb k'
        rw [this.2.2 hb k']
        by_cases hkk : k' = k
        · subst hkk
          have h1 : ∃ i', i' ∈ i :: rest ∧ (slotAt old i').key = some k' := ⟨i, by simp, hk⟩
          simp only [h1, if_true]
          by_cases h2 : ∃ i', i' ∈ rest ∧ (slotAt old i').key = some k'
          · simp only [h2, if_true]
          · simp only [h2, if_false]
            have e1 : rawgetD h (nd.setIfInBounds j (slotAt old i)) k' = (slotAt old i).val := by
              have := ninv'
              rw [hkv] at this ⊢
              exact rawgetD_set_self this hj
            rw [e1, rawgetD_hit oinv hk]
        · have : (∃ i', i' ∈ i :: rest ∧ (slotAt old i').key = some k') ↔ (∃ i', i' ∈ rest ∧ (slotAt old i').key = some k') := by
            constructor
            · rintro ⟨i', hm, hk'⟩
              rcases List.mem_cons.mp hm with e | e
              · rw [e, hk] at hk'; exact absurd (by cases hk'; rfl) hkk
              · exact ⟨i', e, hk'⟩
            · rintro ⟨i', hm, hk'⟩
              exact ⟨i', by simp [hm], hk'⟩
          simp only [this]
          by_cases h2 : ∃ i', i' ∈ rest ∧ (slotAt old i').key = some k'
          · simp only [h2, if_true]
          · simp only [h2, if_false]
            refine rawgetD_set_other ninv ninv' ?_ ?_
            · rw [hfm.1]; simp
            · rw [hk]; intro e; exact hkk (by cases e; rfl)

theorem toList_eq_map (data : Array Slot) : data.toList = (List.range data.size).map (slotAt data) := by
  apply List.ext_getElem?
  intro i
  simp only [List.getElem?_map, Array.getElem?_toList]
  by_cases hi : i < data.size
  · simp [hi, slotAt, Array.getD_eq_getD_getElem?]
  · simp [hi]

theorem absent_of_rawgetD_nil {h : Nat → Nat} {data : Array Slot} (inv : DInv h data) {k : Nat}
    (hn : rawgetD h data k = vNil) : ∀ x, (slotAt data x).key ≠ some k := by
  intro x hx
  rw [rawgetD_hit inv hx] at hn
  exact inv.live x k hx hn

/-- `janet_table_rehash` keeps the invariant and, unless it dereferenced NULL, every lookup -/
theorem rehash_spec {h : Nat → Nat} {t : Table} (inv : DInv h t.data) (n : Nat) :
    DInv h (t.rehash h n).data ∧ (t.rehash h n).data.size = n ∧
      ((t.rehash h n).bad = false → t.bad = false ∧ ∀ k', rawgetD h (t.rehash h n).data k' = rawgetD h t.data k') := by
  have hl := rehashLoop_spec inv (List.range t.data.size) (Array.replicate n Slot.empty) t.bad
    List.nodup_range (DInv.replicate h n)
    (fun i _ k _ x => by rw [slotAt_replicate]; simp [Slot.empty])
  simp only [] at hl
  rw [← toList_eq_map] at hl
  unfold Table.rehash
  refine ⟨hl.1, by simpa using hl.2.1, ?_⟩
  intro hb
  simp only [] at hb
  refine ⟨?_, ?_⟩
  · cases htb : t.bad with
    | false => rfl
    | true => rw [htb, rehashLoop_bad] at hb; cases hb
  · intro k'
    have := hl.2.2 hb k'
    simp only [] at this ⊢
    rw [this]
    by_cases hex : ∃ i, i ∈ List.range t.data.size ∧ (slotAt t.data i).key = some k'
    · simp only [hex, if_true]
    · simp only [hex, if_false]
      rw [rawgetD_miss (fun x => by rw [slotAt_replicate]; simp [Slot.empty]), rawgetD_miss]
      intro x hx
      exact hex ⟨x, List.mem_range.mpr (key_some_lt hx), hx⟩

/-- `janet_table_remove` -/
theorem remove_spec {h : Nat → Nat} {t : Table} (inv : DInv h t.data) (k : Nat) :
    DInv h (t.remove h k).1.data ∧ (t.remove h k).1.bad = t.bad ∧ (t.remove h k).2 = rawgetD h t.data k ∧
      ∀ k', rawgetD h (t.remove h k).1.data k' = if k' = k then vNil else rawgetD h t.data k' := by
  by_cases hex : ∃ i, (slotAt t.data i).key = some k
  · obtain ⟨i, hi⟩ := hex
    have hf : hit t.data (dictFind h t.data k) = some i := by rw [find_hit inv hi, hit_of_key hi]
    have htv : tombVal ≠ vNil := by decide
    have inv' := inv.tomb i htv
    unfold Table.remove
    rw [hf]
    refine ⟨inv', rfl, (rawgetD_hit inv hi).symm, ?_⟩
    intro k'
    by_cases hkk : k' = k
    · simp only [hkk, if_true]
      apply rawgetD_miss
      intro x
      rw [slotAt_set]
      by_cases c : x = i ∧ i < t.data.size
      · simp [c]
      · simp only [c, if_false]
        intro hx
        exact c ⟨inv.nodup x i k hx hi, key_some_lt hi⟩
    · simp only [hkk, if_false]
      refine rawgetD_set_other inv inv' ?_ (by simp)
      rw [hi]; intro e; exact hkk (by cases e; rfl)
  · have hno : ∀ i, (slotAt t.data i).key ≠ some k := fun i hi => hex ⟨i, hi⟩
    unfold Table.remove
    rw [hit_miss hno]
    refine ⟨inv, rfl, (rawgetD_miss hno).symm, ?_⟩
    intro k'
    by_cases hkk : k' = k
    · simp only [hkk, if_true]; exact rawgetD_miss hno
    · simp only [hkk, if_false]

theorem maybeRehash_spec {h : Nat → Nat} {t : Table} (inv : DInv h t.data) (b : Option Nat) :
    DInv h (t.maybeRehash h b).data ∧
      ((t.maybeRehash h b).bad = false → t.bad = false ∧ ∀ k', rawgetD h (t.maybeRehash h b).data k' = rawgetD h t.data k') := by
  unfold Table.maybeRehash
  by_cases c : (b.isNone || rehashNeeded t.count t.deleted t.capacity) = true
  · rw [if_pos c]
    have := rehash_spec inv (rehashSize t.count)
    exact ⟨this.1, this.2.2⟩
  · rw [if_neg c]
    exact ⟨inv, fun hb => ⟨hb, fun _ => rfl⟩⟩

theorem insertAt_spec {h : Nat → Nat} {t : Table} (inv : DInv h t.data) {k : Nat} {v : Val}
    (hno : ∀ i, (slotAt t.data i).key ≠ some k) (hv : v ≠ vNil)
    (hb : (t.insertAt h k v).bad = false) :
    DInv h (t.insertAt h k v).data ∧ t.bad = false ∧
      ∀ k', rawgetD h (t.insertAt h k v).data k' = if k' = k then v else rawgetD h t.data k' := by
  unfold Table.insertAt at hb ⊢
  have hg := find_miss (h := h) hno
  cases hf : dictFind h t.data k with
  | none => rw [hf] at hb; simp at hb
  | some j =>
    rw [hf] at hb hg
    simp only [] at hb ⊢
    have inv' := inv.insert hno hg hv
    have hj : j < t.data.size := hg.lt (maphash_le _ _)
    refine ⟨inv', hb, ?_⟩
    intro k'
    by_cases hkk : k' = k
    · simp only [hkk, if_true]; exact rawgetD_set_self inv' hj
    · simp only [hkk, if_false]
      refine rawgetD_set_other inv inv' ?_ ?_
      · rw [hg.1]; simp
      · intro e; exact hkk (by cases e; rfl)

/-- the insertion tail of `janet_table_put` for an absent key and a non-nil value -/
theorem insertNew_spec {h : Nat → Nat} {t : Table} (inv : DInv h t.data) (b : Option Nat) {k : Nat} {v : Val}
    (hno : ∀ i, (slotAt t.data i).key ≠ some k) (hv : v ≠ vNil)
    (hb : (t.insertNew h b k v).bad = false) :
    DInv h (t.insertNew h b k v).data ∧ t.bad = false ∧
      ∀ k', rawgetD h (t.insertNew h b k v).data k' = if k' = k then v else rawgetD h t.data k' := by
  unfold Table.insertNew at hb ⊢
  have h1 := maybeRehash_spec (h := h) inv b
  -- were the rehashed table bad, the result would be bad too
  have hb1 : (t.maybeRehash h b).bad = false := by
    cases hbb : (t.maybeRehash h b).bad with
    | false => rfl
    | true =>
      exfalso
      unfold Table.insertAt at hb
      cases hf : dictFind h (t.maybeRehash h b).data k with
      | none => rw [hf] at hb; simp at hb
      | some j => rw [hf] at hb; simp only [] at hb; rw [hbb] at hb; cases hb
  obtain ⟨htb, hsame⟩ := h1.2 hb1
  have hno1 : ∀ x, (slotAt (t.maybeRehash h b).data x).key ≠ some k :=
    absent_of_rawgetD_nil h1.1 (by rw [hsame, rawgetD_miss hno])
  have := insertAt_spec h1.1 hno1 hv hb
  refine ⟨this.1, htb, ?_⟩
  intro k'
  rw [this.2.2 k', hsame]

/-- `janet_table_put` on a storable key: the finite-map update (a nil value erases) -/
theorem putKey_spec {h : Nat → Nat} {t : Table} (inv : DInv h t.data) (k : Nat) (v : Val)
    (hb : (t.putKey h k v).bad = false) :
    DInv h (t.putKey h k v).data ∧ t.bad = false ∧
      ∀ k', rawgetD h (t.putKey h k v).data k' = if k' = k then v else rawgetD h t.data k' := by
  unfold Table.putKey at hb ⊢
  by_cases hv : v = vNil
  · simp only [hv, if_true] at hb ⊢
    have := remove_spec (h := h) inv k
    rw [this.2.1] at hb
    exact ⟨this.1, hb, this.2.2.2⟩
  · simp only [hv, if_false] at hb ⊢
    by_cases hex : ∃ i, (slotAt t.data i).key = some k
    · obtain ⟨i, hi⟩ := hex
      have hf : hit t.data (dictFind h t.data k) = some i := by rw [find_hit inv hi, hit_of_key hi]
      rw [hf] at hb ⊢
      simp only [] at hb ⊢
      have inv' := inv.overwrite hi hv
      refine ⟨inv', hb, ?_⟩
      intro k'
      by_cases hkk : k' = k
      · simp only [hkk, if_true]; exact rawgetD_set_self inv' (key_some_lt hi)
      · simp only [hkk, if_false]
        refine rawgetD_set_other inv inv' ?_ ?_
        · rw [hi]; intro e; exact hkk (by cases e; rfl)
        · intro e; exact hkk (by cases e; rfl)
    · have hno : ∀ i, (slotAt t.data i).key ≠ some k := fun i hi => hex ⟨i, hi⟩
      rw [hit_miss hno] at hb ⊢
      simp only [] at hb ⊢
      exact insertNew_spec inv _ hno hv hb

/-! ### iteration with `next` -/

/-- keys of the buckets `i .. i+n-1`, in bucket order -/
def keysFrom (data : Array Slot) (i n : Nat) : List Nat := (List.range' i n).filterMap (fun x => (slotAt data x).key)

theorem keysFrom_succ (data : Array Slot) (i n : Nat) :
    keysFrom data i (n + 1) = match (slotAt data i).key with
      | none => keysFrom data (i + 1) n
      | some k => k :: keysFrom data (i + 1) n := by
  unfold keysFrom
  rw [List.range'_succ, List.filterMap_cons]
  cases (slotAt data i).key <;> rfl

theorem nextFrom_spec (data : Array Slot) : ∀ (n i : Nat),
    match nextFrom data i n with
    | none => keysFrom data i n = []
    | some k => ∃ j, i ≤ j ∧ j < i + n ∧ (slotAt data j).key = some k ∧
        keysFrom data i n = k :: keysFrom data (j + 1) (i + n - (j + 1)) := by
  intro n
  induction n with
  | zero => intro i; simp [nextFrom, keysFrom]
  | succ n ih =>
    intro i
    unfold nextFrom
    rw [keysFrom_succ]
    cases hk : (slotAt data i).key with
    | some k =>
      simp only []
      refine ⟨i, Nat.le_refl i, by omega, hk, ?_⟩
      have : i + (n + 1) - (i + 1) = n := by omega
      rw [this]
    | none =>
      simp only []
      have := ih (i + 1)
      cases hn : nextFrom data (i + 1) n with
      | none => rw [hn] at this; exact this
      | some k =>
        rw [hn] at this
        obtain ⟨j, h1, h2, h3, h4⟩ := this
        refine ⟨j, by omega, by omega, h3, ?_⟩
        rw [h4]
        have : i + 1 + n - (j + 1) = i + (n + 1) - (j + 1) := by omega
        rw [this]

theorem keysFrom_length_le (data : Array Slot) (i n : Nat) : (keysFrom data i n).length ≤ n := by
  unfold keysFrom
  have := List.length_filterMap_le (fun x => (slotAt data x).key) (List.range' i n)
  simpa using this

theorem mem_keysFrom {data : Array Slot} {i n k : Nat} :
    k ∈ keysFrom data i n ↔ ∃ x, i ≤ x ∧ x < i + n ∧ (slotAt data x).key = some k := by
  unfold keysFrom
  rw [List.mem_filterMap]
  constructor
  · rintro ⟨x, hx, hk⟩
    rw [List.mem_range'_1] at hx
    exact ⟨x, hx.1, hx.2, hk⟩
  · rintro ⟨x, h1, h2, hk⟩
    exact ⟨x, List.mem_range'_1.mpr ⟨h1, h2⟩, hk⟩

theorem keysFrom_nodup {h : Nat → Nat} {data : Array Slot} (inv : DInv h data) : ∀ (n i : Nat), (keysFrom data i n).Nodup := by
  intro n
  induction n with
  | zero => intro i; simp [keysFrom]
  | succ n ih =>
    intro i
    rw [keysFrom_succ]
    cases hk : (slotAt data i).key with
    | none => exact ih (i + 1)
    | some k =>
      simp only []
      refine List.nodup_cons.mpr ⟨?_, ih (i + 1)⟩
      intro hm
      obtain ⟨x, h1, _, hx⟩ := mem_keysFrom.mp hm
      have := inv.nodup x i k hx hk
      omega

/-- repeated `next` from a key enumerates exactly the keys of the later buckets -/
theorem iterNext_from {h : Nat → Nat} {data : Array Slot} (inv : DInv h data) :
    ∀ (fuel k j : Nat), (slotAt data j).key = some k →
      (keysFrom data (j + 1) (data.size - (j + 1))).length < fuel →
      iterNext h data fuel (some k) = keysFrom data (j + 1) (data.size - (j + 1)) := by
  intro fuel
  induction fuel with
  | zero => intro k j _ hl; omega
  | succ fuel ih =>
    intro k j hj hl
    have hjs : j < data.size := key_some_lt hj
    have hd : dictNext h data (some k) = nextFrom data (j + 1) (data.size - (j + 1)) := by
      unfold dictNext
      simp only [find_hit inv hj]
    unfold iterNext
    rw [hd]
    have hs := nextFrom_spec data (data.size - (j + 1)) (j + 1)
    cases hn : nextFrom data (j + 1) (data.size - (j + 1)) with
    | none => rw [hn] at hs; rw [hs]
    | some k' =>
      rw [hn] at hs
      obtain ⟨j', h1, h2, h3, h4⟩ := hs
      simp only []
      have e : j + 1 + (data.size - (j + 1)) - (j' + 1) = data.size - (j' + 1) := by omega
      rw [e] at h4
      rw [h4] at hl ⊢
      rw [ih k' j' h3 (by simp at hl; omega)]

/-- **iteration visits every key exactly once**: calling `next` from nil until it answers nil enumerates the keys
in bucket order — a duplicate-free list whose members are exactly the keys with a non-nil `rawget` -/
theorem iterNext_all {h : Nat → Nat} {data : Array Slot} (inv : DInv h data) :
    iterNext h data (data.size + 1) none = keysOf data ∧ (keysOf data).Nodup ∧
      ∀ k, k ∈ keysOf data ↔ rawgetD h data k ≠ vNil := by
  have hko : keysOf data = keysFrom data 0 data.size := by
    unfold keysOf keysFrom
    rw [toList_eq_map, List.filterMap_map, List.range_eq_range']
    rfl
  rw [hko]
  refine ⟨?_, keysFrom_nodup inv _ _, ?_⟩
  · have hd : dictNext h data none = nextFrom data 0 data.size := rfl
    unfold iterNext
    rw [hd]
    have hs := nextFrom_spec data data.size 0
    cases hn : nextFrom data 0 data.size with
    | none => rw [hn] at hs; rw [hs]
    | some k' =>
      rw [hn] at hs
      obtain ⟨j', _, h2, h3, h4⟩ := hs
      simp only []
      have e : 0 + data.size - (j' + 1) = data.size - (j' + 1) := by omega
      rw [e] at h4
      rw [h4]
      rw [iterNext_from inv data.size k' j' h3 (by
        have := keysFrom_length_le data (j' + 1) (data.size - (j' + 1)); omega)]
  · intro k
    rw [mem_keysFrom]
    constructor
    · rintro ⟨x, _, _, hx⟩
      rw [rawgetD_hit inv hx]
      exact inv.live x k hx
    · intro hne
      by_cases hex : ∃ x, (slotAt data x).key = some k
      · obtain ⟨x, hx⟩ := hex
        exact ⟨x, Nat.zero_le x, by have := key_some_lt hx; omega, hx⟩
      · exact absurd (rawgetD_miss (fun x hx => hex ⟨x, hx⟩)) hne

/-! ### capacity chosen by a rehash -/

theorem smear_ge_aux (l : List Nat) (n : Nat) : n ≤ l.foldl (fun n s => n ||| (n >>> s)) n := by
  induction l generalizing n with
  | nil => exact Nat.le_refl n
  | cons s rest ih =>
    simp only [List.foldl_cons]
    exact Nat.le_trans Nat.left_le_or (ih _)

/-- `janet_tablen(n) > n` (whatever the smearing steps are) -/
theorem tablen_gt (n : Nat) : n < tablen n := by
  unfold tablen smear
  have := smear_ge_aux tablenShifts n
  simp only []
  omega

end JanetModel.Table
