/-
Session 4: the robin-hood insertion of struct.c (`janet_struct_put_ext`) ESTABLISHES the struct invariant.

`structPutLoop` walks the cyclic probe sequence from the key's home bucket carrying a (key, value) pair; at a live
bucket it either moves on or swaps the carried pair with the bucket's (the displaced pair is carried on); at the
first empty bucket the carried pair is stored.  Whatever the comparisons decide (distance, hash, `janet_compare`
rank), the bucket array keeps `DInv` (no duplicate keys, probe-path property, non-nil values) and stays free of
tombstones, provided the inserted key is not already present and `janet_compare` separates distinct keys (`rank`
injective — the `status == 0` branch then never fires).  Hence `table/to-struct` of any table satisfying the table
invariant yields a struct satisfying `SInv` with the same finite map: for all inputs, no certificate needed.
-/
import JanetModel.Table.StructLemmas
import JanetModel.Table.Count
namespace JanetModel.Table
open JanetModel.Gen.Table

/-! ### the cyclic probe order, position by position -/

/-- `i + 1`, wrapping at `n` -/
def csucc (n i : Nat) : Nat := if i + 1 = n then 0 else i + 1

/-- `len` consecutive bucket indices starting at `i`, cyclically -/
def cyc (n : Nat) : Nat → Nat → List Nat
  | _, 0 => []
  | i, len + 1 => i :: cyc n (csucc n i) len

theorem cyc_eq_range' (n : Nat) : ∀ (len i : Nat), i + len ≤ n → cyc n i len = List.range' i len := by
  intro len
  induction len with
  | zero => intro i _; rfl
  | succ len ih =>
    intro i hi
    cases len with
    | zero => simp [cyc]
    | succ l =>
      have hs : csucc n i = i + 1 := by unfold csucc; rw [if_neg (by omega)]
      rw [cyc, hs, ih (i + 1) (by omega)]
      simp [List.range'_succ]

theorem cyc_wrap (n : Nat) : ∀ (d s m : Nat), s + d = n → 0 < d → m ≤ n →
    cyc n s (d + m) = List.range' s d ++ List.range' 0 m := by
  intro d
  induction d with
  | zero => intro s m _ h; omega
  | succ d ih =>
    intro s m hs _ hm
    have e : d + 1 + m = (d + m) + 1 := by omega
    rw [e, cyc]
    cases d with
    | zero =>
      have hsu : csucc n s = 0 := by unfold csucc; rw [if_pos (by omega)]
      rw [hsu, Nat.zero_add, cyc_eq_range' n m 0 (by omega)]
      simp [List.range'_succ]
    | succ d' =>
      have hsu : csucc n s = s + 1 := by unfold csucc; rw [if_neg (by omega)]
      rw [hsu, ih (s + 1) m (by omega) (by omega) hm]
      simp [List.range'_succ]

/-- the probe order of `janet_dict_find` / `janet_struct_put_ext` is the cyclic order from the home bucket -/
theorem probeSeq_eq_cyc {n s : Nat} (hs : s < n) : probeSeq n s = cyc n s n := by
  unfold probeSeq
  have := cyc_wrap n (n - s) s s (by omega) (by omega) (by omega)
  rw [← this]
  congr 1
  omega

/-- `x` lies in the cyclic interval `[s, i)` -/
def Btw (s i x : Nat) : Prop := (s ≤ i ∧ s ≤ x ∧ x < i) ∨ (i < s ∧ (s ≤ x ∨ x < i))

/-- the part of the probe sequence from `s` that precedes bucket `i` is the cyclic interval `[s, i)` -/
theorem probeSeq_split {n s i : Nat} (hs : s < n) (hi : i < n) :
    ∃ pre post, probeSeq n s = pre ++ i :: post ∧ ∀ x, x ∈ pre ↔ (x < n ∧ Btw s i x) := by
  unfold probeSeq Btw
  by_cases c : s ≤ i
  · refine ⟨List.range' s (i - s), List.range' (i + 1) (n - (i + 1)) ++ List.range' 0 s, ?_, ?_⟩
    · have e : n - s = (i - s) + ((n - (i + 1)) + 1) := by omega
      rw [e, ← List.range'_append_1, List.range'_succ]
      have : s + (i - s) = i := by omega
      simp [this]
    · intro x
      rw [List.mem_range'_1]
      omega
  · refine ⟨List.range' s (n - s) ++ List.range' 0 i, List.range' (i + 1) (s - (i + 1)), ?_, ?_⟩
    · have e : s = i + ((s - (i + 1)) + 1) := by omega
      conv => lhs; rhs; rw [e, ← List.range'_append_1, List.range'_succ]
      simp
    · intro x
      rw [List.mem_append, List.mem_range'_1, List.mem_range'_1]
      omega

theorem split_unique {l pre post pre' post' : List Nat} {i : Nat} (hn : l.Nodup)
    (e1 : l = pre ++ i :: post) (e2 : l = pre' ++ i :: post') : pre = pre' := by
  have hee : pre ++ i :: post = pre' ++ i :: post' := by rw [← e1, e2]
  rcases List.append_eq_append_iff.mp hee with ⟨a', h1, h2⟩ | ⟨c', h1, h2⟩
  · cases a' with
    | nil => simpa using h1.symm
    | cons a rest =>
      simp only [List.cons_append, List.cons.injEq] at h2
      have hm : i ∈ pre' := by rw [h1, ← h2.1]; simp
      exact absurd hm (not_mem_pre hn e2)
  · cases c' with
    | nil => simpa using h1
    | cons c rest =>
      simp only [List.cons_append, List.cons.injEq] at h2
      have hm : i ∈ pre := by rw [h1, ← h2.1]; simp
      exact absurd hm (not_mem_pre hn e1)

/-- the probe-path property of `DInv`, read as a statement about the cyclic interval -/
theorem path_btw {h : Nat → Nat} {data : Array Slot} (inv : DInv h data) {i k : Nat}
    (hi : (slotAt data i).key = some k) :
    ∀ x, x < data.size → Btw (maphash data.size (h k)) i x → ¬ (slotAt data x).isEmpty := by
  intro x hx hb
  have hlt := key_some_lt hi
  obtain ⟨pre, post, hp, hpre⟩ := inv.path i k hi
  obtain ⟨pre', post', hp', hm⟩ := probeSeq_split (maphash_lt data.size (h k) (by omega)) hlt
  have := split_unique (probeSeq_nodup _ _) hp hp'
  subst this
  exact (hpre x ((hm x).mpr ⟨hx, hb⟩)).1

/-! ### the loop of `janet_struct_put_ext` -/

/-- the three-level comparison of `janet_struct_put_ext` (distance, hash, `janet_compare`) -/
def rhStatus (dist otherdist : Nat) (hash otherhash : Int) (rk rok : Nat) : Int :=
  if dist < otherdist then -1
  else if otherdist < dist then 1
  else if hash < otherhash then -1
  else if otherhash < hash then 1
  else if rk < rok then -1 else if rok < rk then 1 else 0

theorem rhStatus_zero {dist otherdist : Nat} {hash otherhash : Int} {rk rok : Nat}
    (hz : rhStatus dist otherdist hash otherhash rk rok = 0) : rk = rok := by
  unfold rhStatus at hz
  repeat' split at hz
  all_goals omega

/-- one iteration of the loop, as the model defines it -/
theorem structPutLoop_cons (h : Nat → Nat) (rank : Nat → Nat) (replace : Bool) (cap i : Nat) (rest : List Nat)
    (key : Nat) (value : Val) (hash : Int) (dist : Nat) (st : StructB) :
    structPutLoop h rank replace cap (i :: rest) key value hash dist st =
      match (slotAt st.data i).key with
      | none => { st with data := st.data.setIfInBounds i ⟨some key, value⟩, filled := st.filled + 1 }
      | some okey =>
        let otherdist := (i + cap - maphash cap (h okey)) &&& (cap - 1)
        let status := rhStatus dist otherdist hash (toI32 (h okey)) (rank key) (rank okey)
        if status = 1 then
          structPutLoop h rank replace cap rest okey (slotAt st.data i).val (toI32 (h okey)) (otherdist + 1)
            { st with data := st.data.setIfInBounds i ⟨some key, value⟩ }
        else if status = 0 then
          if replace then { st with data := st.data.setIfInBounds i ⟨(slotAt st.data i).key, value⟩ } else st
        else structPutLoop h rank replace cap rest key value hash (dist + 1) st := by
  rfl

/-- writing `(k, v)` into bucket `j` — whatever it held — keeps `DInv` when `k` is not stored anywhere and no bucket
before `j` on `k`'s probe path is empty (generalises `DInv.insert`, where bucket `j` was free) -/
theorem DInv.place {h : Nat → Nat} {data : Array Slot} (inv : DInv h data) {j k : Nat} {v : Val}
    (hj : j < data.size) (hno : ∀ i, (slotAt data i).key ≠ some k)
    (hpath : ∀ x, x < data.size → Btw (maphash data.size (h k)) j x → ¬ (slotAt data x).isEmpty) (hv : v ≠ vNil) :
    DInv h (data.setIfInBounds j ⟨some k, v⟩) := by
  have hne : ¬ (Slot.isEmpty ⟨some k, v⟩) := fun e => by cases e.1
  have hkey : ∀ x k', (slotAt (data.setIfInBounds j ⟨some k, v⟩) x).key = some k' →
      (x = j ∧ k' = k) ∨ (x ≠ j ∧ (slotAt data x).key = some k') := by
    intro x k' hx
    rw [slotAt_set] at hx
    by_cases c : x = j ∧ j < data.size
    · simp only [c, and_self, if_true] at hx
      left; exact ⟨c.1, by cases hx; rfl⟩
    · simp only [c, if_false] at hx
      right
      exact ⟨fun e => c ⟨e, hj⟩, hx⟩
  refine ⟨?_, ?_, ?_⟩
  · intro a b k' ha hb
    rcases hkey a k' ha with ⟨ea, ek⟩ | ⟨na, ha'⟩
    · rcases hkey b k' hb with ⟨eb, _⟩ | ⟨_, hb'⟩
      · rw [ea, eb]
      · rw [ek] at hb'; exact (hno b hb').elim
    · rcases hkey b k' hb with ⟨_, ek⟩ | ⟨_, hb'⟩
      · rw [ek] at ha'; exact (hno a ha').elim
      · exact inv.nodup a b k' ha' hb'
  · intro a k' ha
    rcases hkey a k' ha with ⟨ea, ek⟩ | ⟨na, ha'⟩
    · obtain ⟨pre, post, hp, hm⟩ := probeSeq_split (maphash_lt data.size (h k) (by omega)) hj
      refine ⟨pre, post, by rw [ea, ek]; simpa using hp, ?_⟩
      intro x hx
      have hx' := (hm x).mp hx
      refine ⟨isEmpty_set_of_nonempty hne (hpath x hx'.1 hx'.2), ?_⟩
      intro hk
      rcases hkey x k' hk with ⟨ex, _⟩ | ⟨_, hx''⟩
      · exact not_mem_pre (probeSeq_nodup _ _) hp (by rw [← ex]; exact hx)
      · rw [ek] at hx''; exact hno x hx''
    · obtain ⟨pre', post', hp', hpre'⟩ := inv.path a k' ha'
      refine ⟨pre', post', by simpa using hp', ?_⟩
      intro x hx
      refine ⟨isEmpty_set_of_nonempty hne (hpre' x hx).1, ?_⟩
      intro hk
      rcases hkey x k' hk with ⟨_, ek⟩ | ⟨_, hx'⟩
      · rw [ek] at ha'; exact hno a ha'
      · exact (hpre' x hx).2 hx'
  · intro a k' ha
    rw [slotAt_set]
    by_cases c : a = j ∧ j < data.size
    · simp only [c, and_self, if_true]; exact hv
    · simp only [c, if_false]
      rw [slotAt_set] at ha
      simp only [c, if_false] at ha
      exact inv.live a k' ha

theorem NoTomb.place {data : Array Slot} (nt : NoTomb data) (j k : Nat) (v : Val) :
    NoTomb (data.setIfInBounds j ⟨some k, v⟩) := by
  intro x hx
  rw [slotAt_set] at hx ⊢
  by_cases c : x = j ∧ j < data.size
  · simp only [c, and_self, if_true] at hx; cases hx
  · simp only [c, if_false] at hx ⊢; exact nt x hx

theorem btw_csucc {n s i x : Nat} (hi : i < n) (hx : x < n) (hb : Btw s (csucc n i) x) : Btw s i x ∨ x = i := by
  unfold csucc at hb
  unfold Btw at hb ⊢
  by_cases c : i + 1 = n
  · rw [if_pos c] at hb; omega
  · rw [if_neg c] at hb; omega

theorem csucc_lt {n i : Nat} (hi : i < n) : csucc n i < n := by
  unfold csucc
  by_cases c : i + 1 = n
  · rw [if_pos c]; omega
  · rw [if_neg c]; omega

/-- `(k, v)` is an entry of the bucket array -/
def Ent (data : Array Slot) (k : Nat) (v : Val) : Prop := ∃ x, (slotAt data x).key = some k ∧ (slotAt data x).val = v

theorem ent_place {data : Array Slot} {j : Nat} (hj : j < data.size) (k : Nat) (v : Val) (k' : Nat) (v' : Val) :
    Ent (data.setIfInBounds j ⟨some k, v⟩) k' v' ↔
      ((k' = k ∧ v' = v) ∨ ∃ x, x ≠ j ∧ (slotAt data x).key = some k' ∧ (slotAt data x).val = v') := by
  unfold Ent
  constructor
  · rintro ⟨x, hk, hv⟩
    rw [slotAt_set] at hk hv
    by_cases c : x = j ∧ j < data.size
    · simp only [c, and_self, if_true] at hk hv
      left; exact ⟨by cases hk; rfl, hv.symm⟩
    · simp only [c, if_false] at hk hv
      right; exact ⟨x, fun e => c ⟨e, hj⟩, hk, hv⟩
  · rintro (⟨ek, ev⟩ | ⟨x, hx, hk, hv⟩)
    · refine ⟨j, ?_, ?_⟩ <;> rw [slotAt_set] <;> simp [hj, ek, ev]
    · refine ⟨x, ?_, ?_⟩ <;> rw [slotAt_set] <;> simp [hx, hk, hv]

theorem ent_split (data : Array Slot) (j : Nat) (k' : Nat) (v' : Val) :
    Ent data k' v' ↔ (((slotAt data j).key = some k' ∧ (slotAt data j).val = v') ∨
      ∃ x, x ≠ j ∧ (slotAt data x).key = some k' ∧ (slotAt data x).val = v') := by
  unfold Ent
  constructor
  · rintro ⟨x, hk, hv⟩
    by_cases c : x = j
    · left; rw [← c]; exact ⟨hk, hv⟩
    · right; exact ⟨x, c, hk, hv⟩
  · rintro (⟨hk, hv⟩ | ⟨x, _, hk, hv⟩)
    · exact ⟨j, hk, hv⟩
    · exact ⟨x, hk, hv⟩

theorem nLive_place {data : Array Slot} {j : Nat} (hj : j < data.size) (k : Nat) (v : Val) :
    nLive (data.setIfInBounds j ⟨some k, v⟩) = nLive data + (if isLive (slotAt data j) = true then 0 else 1) := by
  unfold nLive
  rw [countP_setIfInBounds isLive data j _ hj]
  have hn : isLive (⟨some k, v⟩ : Slot) = true := rfl
  rw [if_pos hn]
  by_cases c : isLive (slotAt data j) = true
  · have hp := countP_pos_of_slot isLive data j hj c
    rw [if_pos c, if_pos c]
    omega
  · rw [if_neg c, if_neg c]
    omega

theorem isEmpty_place_other {data : Array Slot} {j e : Nat} {s : Slot} (hne : e ≠ j)
    (he : (slotAt data e).isEmpty) : (slotAt (data.setIfInBounds j s) e).isEmpty := by
  rw [slotAt_set]
  have : ¬ (e = j ∧ j < data.size) := fun c => hne c.1
  simp only [this, if_false]; exact he

/-- **the loop of `janet_struct_put_ext`**, for every outcome of its comparisons: carrying a pair whose key is not
stored, over a cyclic stretch that contains an empty bucket, it stores exactly that pair (possibly displacing others
along the way) and keeps `DInv` / `NoTomb` -/
theorem putLoop_spec (h : Nat → Nat) (rank : Nat → Nat) (hr : ∀ a b, rank a = rank b → a = b) (replace : Bool) (n : Nat) :
    ∀ (len i ck : Nat) (cv : Val) (hash : Int) (dist : Nat) (st : StructB),
      st.data.size = n → i < n → DInv h st.data → NoTomb st.data →
      (∀ x, (slotAt st.data x).key ≠ some ck) → cv ≠ vNil →
      (∀ x, x < n → Btw (maphash n (h ck)) i x → ¬ (slotAt st.data x).isEmpty) →
      (∃ e, e ∈ cyc n i len ∧ (slotAt st.data e).isEmpty) →
      (structPutLoop h rank replace n (cyc n i len) ck cv hash dist st).data.size = n ∧
      DInv h (structPutLoop h rank replace n (cyc n i len) ck cv hash dist st).data ∧
      NoTomb (structPutLoop h rank replace n (cyc n i len) ck cv hash dist st).data ∧
      (structPutLoop h rank replace n (cyc n i len) ck cv hash dist st).filled = st.filled + 1 ∧
      (structPutLoop h rank replace n (cyc n i len) ck cv hash dist st).length = st.length ∧
      nLive (structPutLoop h rank replace n (cyc n i len) ck cv hash dist st).data = nLive st.data + 1 ∧
      ∀ k v, Ent (structPutLoop h rank replace n (cyc n i len) ck cv hash dist st).data k v ↔
        ((k = ck ∧ v = cv) ∨ Ent st.data k v) := by
  intro len
  induction len with
  | zero =>
    intro i ck cv hash dist st _ _ _ _ _ _ _ he
    obtain ⟨e, hm, _⟩ := he
    simp [cyc] at hm
  | succ len ih =>
    intro i ck cv hash dist st hsz hi inv nt hno hcv hpath hemp
    have hi' : i < st.data.size := by omega
    rw [cyc, structPutLoop_cons]
    cases hk : (slotAt st.data i).key with
    | none =>
      simp only []
      have hpath' : ∀ x, x < st.data.size → Btw (maphash st.data.size (h ck)) i x → ¬ (slotAt st.data x).isEmpty := by
        rw [hsz]; exact hpath
      refine ⟨by simpa using hsz, inv.place hi' hno hpath' hcv, nt.place i ck cv, trivial, trivial, ?_, ?_⟩
      · show nLive (st.data.setIfInBounds i ⟨some ck, cv⟩) = _
        rw [nLive_place hi']
        have : ¬ isLive (slotAt st.data i) = true := by simp [isLive, hk]
        rw [if_neg this]
      · intro k v
        show Ent (st.data.setIfInBounds i ⟨some ck, cv⟩) k v ↔ _
        rw [ent_place hi', ent_split st.data i k v]
        constructor
        · rintro (e | ⟨x, hx⟩)
          · left; exact e
          · right; right; exact ⟨x, hx⟩
        · rintro (e | ⟨hk', _⟩ | ⟨x, hx⟩)
          · left; exact e
          · rw [hk] at hk'; cases hk'
          · right; exact ⟨x, hx⟩
    | some okey =>
      simp only []
      -- the bucket is live: the empty bucket lies further on
      have hine : ¬ (slotAt st.data i).isEmpty := fun e => by rw [e.1] at hk; cases hk
      obtain ⟨e, hem, hee⟩ := hemp
      have hei : e ≠ i := fun c => hine (c ▸ hee)
      have hem' : e ∈ cyc n (csucc n i) len := by
        rcases List.mem_cons.mp hem with c | c
        · exact absurd c hei
        · exact c
      have hsi := csucc_lt hi
      by_cases hs1 : rhStatus dist ((i + n - maphash n (h okey)) &&& (n - 1)) hash (toI32 (h okey)) (rank ck) (rank okey) = 1
      · rw [if_pos hs1]
        -- swap: the carried pair takes the bucket, the displaced pair is carried on
        have hpath' : ∀ x, x < st.data.size → Btw (maphash st.data.size (h ck)) i x → ¬ (slotAt st.data x).isEmpty := by
          rw [hsz]; exact hpath
        have inv' := inv.place hi' hno hpath' hcv
        have nt' := nt.place i ck cv
        have hne : ¬ (Slot.isEmpty ⟨some ck, cv⟩) := fun e => by cases e.1
        have hno' : ∀ x, (slotAt (st.data.setIfInBounds i ⟨some ck, cv⟩) x).key ≠ some okey := by
          intro x hx
          rw [slotAt_set] at hx
          by_cases c : x = i ∧ i < st.data.size
          · simp only [c, and_self, if_true] at hx
            cases hx
            exact hno i hk
          · simp only [c, if_false] at hx
            exact c ⟨inv.nodup x i okey hx hk, hi'⟩
        have hov : (slotAt st.data i).val ≠ vNil := inv.live i okey hk
        have hpo : ∀ x, x < n → Btw (maphash n (h okey)) (csucc n i) x →
            ¬ (slotAt (st.data.setIfInBounds i ⟨some ck, cv⟩) x).isEmpty := by
          intro x hx hb
          rcases btw_csucc hi hx hb with hb' | hxi
          · have := path_btw inv hk x (by omega) (by rw [hsz]; exact hb')
            exact isEmpty_set_of_nonempty hne this
          · rw [hxi, slotAt_set]
            simp only [hi', and_self, if_true]
            exact hne
        have := ih (csucc n i) okey (slotAt st.data i).val (toI32 (h okey)) (((i + n - maphash n (h okey)) &&& (n - 1)) + 1)
          { st with data := st.data.setIfInBounds i ⟨some ck, cv⟩ } (by simpa using hsz) hsi inv' nt' hno' hov hpo
          ⟨e, hem', isEmpty_place_other hei hee⟩
        obtain ⟨r1, r2, r3, r4, r5, r6, r7⟩ := this
        refine ⟨r1, r2, r3, r4, r5, ?_, ?_⟩
        · rw [r6]
          show nLive (st.data.setIfInBounds i ⟨some ck, cv⟩) + 1 = _
          rw [nLive_place hi']
          have : isLive (slotAt st.data i) = true := by simp [isLive, hk]
          rw [if_pos this]
        · intro k v
          rw [r7 k v]
          show ((k = okey ∧ v = (slotAt st.data i).val) ∨ Ent (st.data.setIfInBounds i ⟨some ck, cv⟩) k v) ↔ _
          rw [ent_place hi', ent_split st.data i k v, hk]
          constructor
          · rintro (⟨e1, e2⟩ | e | ⟨x, hx⟩)
            · right; left; exact ⟨by rw [e1], e2.symm⟩
            · left; exact e
            · right; right; exact ⟨x, hx⟩
          · rintro (e | ⟨e1, e2⟩ | ⟨x, hx⟩)
            · right; left; exact e
            · left; exact ⟨by cases e1; rfl, e2.symm⟩
            · right; right; exact ⟨x, hx⟩
      · rw [if_neg hs1]
        by_cases hs0 : rhStatus dist ((i + n - maphash n (h okey)) &&& (n - 1)) hash (toI32 (h okey)) (rank ck) (rank okey) = 0
        · -- equal distance, hash and rank: the keys would be equal, but the carried key is not stored
          have := hr _ _ (rhStatus_zero hs0)
          rw [this] at hno
          exact absurd hk (hno i)
        · rw [if_neg hs0]
          have hpo : ∀ x, x < n → Btw (maphash n (h ck)) (csucc n i) x → ¬ (slotAt st.data x).isEmpty := by
            intro x hx hb
            rcases btw_csucc hi hx hb with hb' | hxi
            · exact hpath x hx hb'
            · rw [hxi]; exact hine
          exact ih (csucc n i) ck cv hash (dist + 1) st hsz hsi inv nt hno hcv hpo ⟨e, hem', hee⟩

/-! ### `janet_struct_put_ext` on a struct under construction -/

/-- invariant of a struct under construction (`janet_struct_begin` .. `janet_struct_end`) -/
structure BInv (h : Nat → Nat) (st : StructB) : Prop where
  d : DInv h st.data
  nt : NoTomb st.data
  /-- the running count kept in the hash field = number of live buckets -/
  cnt : nLive st.data = st.filled
  /-- the bucket array was allocated for `length` entries -/
  room : st.length ≤ st.data.size

theorem nTomb_zero_of_noTomb {data : Array Slot} (nt : NoTomb data) : nTomb data = 0 := by
  unfold nTomb
  rw [Array.countP_eq_zero]
  intro a ha
  obtain ⟨i, hi, e⟩ := Array.mem_iff_getElem.mp ha
  have := nt i
  rw [slotAt_lt data i hi, e] at this
  intro ht
  simp only [isTomb, Bool.and_eq_true, Option.isNone_iff_eq_none, bne_iff_ne, ne_eq] at ht
  exact ht.2 (this ht.1)

theorem BInv.begin (h : Nat → Nat) (count : Nat) : BInv h (structBegin count) := by
  refine ⟨DInv.replicate h _, ?_, ?_, ?_⟩
  · intro i _
    show (slotAt (Array.replicate _ Slot.empty) i).val = vNil
    rw [slotAt_replicate]; rfl
  · show nLive (Array.replicate _ Slot.empty) = 0
    unfold nLive
    rw [Array.countP_eq_zero]
    intro a ha
    have : a = Slot.empty := by
      obtain ⟨i, hi, e⟩ := Array.mem_iff_getElem.mp ha
      rw [← e]; simp
    rw [this]; decide
  · show count ≤ (Array.replicate (structCap count) Slot.empty).size
    have := tablen_gt (2 * count)
    simp only [Array.size_replicate, structCap]
    omega

theorem absent_iff_noEnt (data : Array Slot) (k : Nat) : (∀ x, (slotAt data x).key ≠ some k) ↔ ∀ v, ¬ Ent data k v := by
  constructor
  · rintro hno v ⟨x, hk, _⟩; exact hno x hk
  · intro hne x hk; exact hne _ ⟨x, hk, rfl⟩

/-- **`janet_struct_put_ext`** with a key that is not yet stored: one more entry, invariant kept -/
theorem structPut_spec (h : Nat → Nat) (rank : Nat → Nat) (hr : ∀ a b, rank a = rank b → a = b) (replace : Bool)
    (st : StructB) (key : Nat) (v : Val) (inv : BInv h st) (hno : ∀ x, (slotAt st.data x).key ≠ some key)
    (hv : v ≠ vNil) (hroom : st.filled < st.length) :
    BInv h (structPut h rank replace st key v) ∧ (structPut h rank replace st key v).filled = st.filled + 1 ∧
    (structPut h rank replace st key v).length = st.length ∧
    ∀ k v', Ent (structPut h rank replace st key v).data k v' ↔ ((k = key ∧ v' = v) ∨ Ent st.data k v') := by
  have hpos : 0 < st.data.size := by have := inv.room; omega
  have hs := maphash_lt st.data.size (h key) hpos
  have e : structPut h rank replace st key v =
      structPutLoop h rank replace st.data.size (cyc st.data.size (maphash st.data.size (h key)) st.data.size) key v (toI32 (h key)) 0 st := by
    unfold structPut
    rw [if_neg hv, if_neg (by omega)]
    simp only []
    rw [← probeSeq_eq_cyc hs]
    rfl
  rw [e]
  have hemp : ∃ e, e ∈ cyc st.data.size (maphash st.data.size (h key)) st.data.size ∧ (slotAt st.data e).isEmpty := by
    have hp := partition st.data
    have h1 := inv.cnt
    have h2 := nTomb_zero_of_noTomb inv.nt
    have h3 := inv.room
    obtain ⟨x, hx, he⟩ := exists_empty (data := st.data) (by omega)
    refine ⟨x, ?_, he⟩
    rw [← probeSeq_eq_cyc hs]
    exact (mem_probeSeq (Nat.le_of_lt hs)).mpr hx
  have hb : ∀ x, x < st.data.size → Btw (maphash st.data.size (h key)) (maphash st.data.size (h key)) x →
      ¬ (slotAt st.data x).isEmpty := by
    intro x _ hb
    unfold Btw at hb
    omega
  obtain ⟨r1, r2, r3, r4, r5, r6, r7⟩ := putLoop_spec h rank hr replace st.data.size st.data.size _ key v (toI32 (h key)) 0 st
    rfl hs inv.d inv.nt hno hv hb hemp
  refine ⟨⟨r2, r3, ?_, ?_⟩, r4, r5, r7⟩
  · rw [r6, r4, inv.cnt]
  · rw [r5, r1]; exact inv.room

/-- the insertion loops of `janet_table_to_struct` / `janet_struct_end` -/
def putAll (h : Nat → Nat) (rank : Nat → Nat) (b : StructB) (l : List Slot) : StructB :=
  l.foldl (fun b kv => match kv.key with | some k => structPut h rank true b k kv.val | none => b) b

theorem putAll_spec (h : Nat → Nat) (rank : Nat → Nat) (hr : ∀ a b, rank a = rank b → a = b) :
    ∀ (l : List Slot) (b : StructB), BInv h b →
      (∀ s ∈ l, s.key ≠ none ∧ s.val ≠ vNil) → l.Pairwise (fun s s' => s.key ≠ s'.key) →
      (∀ s ∈ l, ∀ k, s.key = some k → ∀ x, (slotAt b.data x).key ≠ some k) →
      b.filled + l.length ≤ b.length →
      BInv h (putAll h rank b l) ∧ (putAll h rank b l).filled = b.filled + l.length ∧
      (putAll h rank b l).length = b.length ∧
      ∀ k v, Ent (putAll h rank b l).data k v ↔ (Ent b.data k v ∨ ∃ s ∈ l, s.key = some k ∧ s.val = v) := by
  intro l
  induction l with
  | nil =>
    intro b inv _ _ _ _
    refine ⟨inv, rfl, rfl, ?_⟩
    intro k v
    simp [putAll]
  | cons s rest ih =>
    intro b inv hl hpw habs hlen
    have hs := hl s (by simp)
    cases hk : s.key with
    | none => exact absurd hk hs.1
    | some k0 =>
      have e : putAll h rank b (s :: rest) = putAll h rank (structPut h rank true b k0 s.val) rest := by
        unfold putAll
        rw [List.foldl_cons, hk]
      rw [e]
      have hlen' : b.filled < b.length := by simp only [List.length_cons] at hlen; omega
      obtain ⟨p1, p2, p3, p4⟩ := structPut_spec h rank hr true b k0 s.val inv (habs s (by simp) k0 hk) hs.2 hlen'
      have hpw' := List.pairwise_cons.mp hpw
      have habs' : ∀ s' ∈ rest, ∀ k, s'.key = some k → ∀ x, (slotAt (structPut h rank true b k0 s.val).data x).key ≠ some k := by
        intro s' hs' k hk'
        rw [absent_iff_noEnt]
        intro v hent
        rcases (p4 k v).mp hent with ⟨ek, _⟩ | hent'
        · exact hpw'.1 s' hs' (by rw [hk, hk', ek])
        · exact (absent_iff_noEnt _ _).mp (habs s' (by simp [hs']) k hk') v hent'
      obtain ⟨q1, q2, q3, q4⟩ := ih (structPut h rank true b k0 s.val) p1 (fun s' hs' => hl s' (by simp [hs'])) hpw'.2 habs'
        (by rw [p2, p3]; simp only [List.length_cons] at hlen; omega)
      refine ⟨q1, by rw [q2, p2]; simp only [List.length_cons]; omega, by rw [q3, p3], ?_⟩
      intro k v
      rw [q4 k v, p4 k v]
      constructor
      · rintro ((⟨ek, ev⟩ | hb) | ⟨s', hs', hks⟩)
        · right; exact ⟨s, by simp, by rw [hk, ek], ev.symm⟩
        · left; exact hb
        · right; exact ⟨s', by simp [hs'], hks⟩
      · rintro (hb | ⟨s', hs', hks, hvs⟩)
        · left; right; exact hb
        · rcases List.mem_cons.mp hs' with c | c
          · left; left
            rw [c, hk] at hks
            exact ⟨by cases hks; rfl, by rw [← hvs, c]⟩
          · right; exact ⟨s', c, hks, hvs⟩

/-! ### `table/to-struct` -/

theorem mem_toList_iff (data : Array Slot) (s : Slot) : s ∈ data.toList ↔ ∃ j, j < data.size ∧ slotAt data j = s := by
  rw [Array.mem_toList_iff, Array.mem_iff_getElem]
  constructor
  · rintro ⟨j, hj, e⟩; exact ⟨j, hj, by rw [slotAt_lt data j hj]; exact e⟩
  · rintro ⟨j, hj, e⟩; exact ⟨j, hj, by rw [← slotAt_lt data j hj]; exact e⟩

theorem liveOf_pairwise {h : Nat → Nat} {data : Array Slot} (inv : DInv h data) :
    (liveOf data).Pairwise (fun s s' => s.key ≠ s'.key) := by
  have hp : data.toList.Pairwise (fun s s' => s.key.isSome = true → s.key ≠ s'.key) := by
    rw [List.pairwise_iff_getElem]
    intro a b ha hb hab
    rw [toList_getElem, toList_getElem]
    intro hs e
    cases hk : (slotAt data a).key with
    | none => rw [hk] at hs; cases hs
    | some k =>
      have := inv.nodup a b k hk (by rw [← e, hk])
      omega
  unfold liveOf
  refine List.Pairwise.imp_of_mem ?_ (List.Pairwise.filter _ hp)
  intro s s' hs _ hr
  exact hr (List.mem_filter.mp hs).2

theorem liveOf_length (data : Array Slot) : (liveOf data).length = nLive data := by
  unfold liveOf nLive
  rw [← Array.countP_toList, List.countP_eq_length_filter]
  rfl

theorem mem_liveOf {h : Nat → Nat} {data : Array Slot} (inv : DInv h data) (s : Slot) :
    s ∈ liveOf data → s.key ≠ none ∧ s.val ≠ vNil := by
  intro hs
  unfold liveOf at hs
  obtain ⟨hm, hl⟩ := List.mem_filter.mp hs
  obtain ⟨j, _, e⟩ := (mem_toList_iff data s).mp hm
  cases hk : s.key with
  | none => rw [hk] at hl; cases hl
  | some k =>
    refine ⟨by simp, ?_⟩
    rw [← e] at hk ⊢
    exact inv.live j k hk

theorem ent_liveOf (data : Array Slot) (k : Nat) (v : Val) :
    (∃ s ∈ liveOf data, s.key = some k ∧ s.val = v) ↔ Ent data k v := by
  unfold liveOf Ent
  constructor
  · rintro ⟨s, hs, hk, hv⟩
    obtain ⟨j, _, e⟩ := (mem_toList_iff data s).mp (List.mem_filter.mp hs).1
    exact ⟨j, by rw [e]; exact hk, by rw [e]; exact hv⟩
  · rintro ⟨x, hk, hv⟩
    refine ⟨slotAt data x, List.mem_filter.mpr ⟨(mem_toList_iff data _).mpr ⟨x, key_some_lt hk, rfl⟩, by rw [hk]; rfl⟩, hk, hv⟩

theorem ent_replicate (n : Nat) (k : Nat) (v : Val) : ¬ Ent (Array.replicate n Slot.empty) k v := by
  rintro ⟨x, hk, _⟩
  rw [slotAt_replicate] at hk
  cases hk

/-- two bucket arrays satisfying `DInv` with the same entries answer every lookup alike -/
theorem rawgetD_of_ent {h : Nat → Nat} {a b : Array Slot} (ia : DInv h a) (ib : DInv h b)
    (he : ∀ k v, Ent a k v ↔ Ent b k v) (k : Nat) : rawgetD h a k = rawgetD h b k := by
  by_cases c : ∃ i, (slotAt a i).key = some k
  · obtain ⟨i, hi⟩ := c
    obtain ⟨j, hj, hv⟩ := (he k _).mp ⟨i, hi, rfl⟩
    rw [rawgetD_hit ia hi, rawgetD_hit ib hj, hv]
  · have hno : ∀ i, (slotAt a i).key ≠ some k := fun i hi => c ⟨i, hi⟩
    have hnb : ∀ j, (slotAt b j).key ≠ some k := by
      intro j hj
      obtain ⟨i, hi, _⟩ := (he k _).mpr ⟨j, hj, rfl⟩
      exact hno i hi
    rw [rawgetD_miss hno, rawgetD_miss hnb]

/-- **`janet_table_to_struct` establishes the struct invariant and keeps the map** — for every table whose bucket
array satisfies `DInv` and whose `count` field is the number of live buckets, every hash function, and every
`janet_compare` ranking that separates distinct keys -/
theorem toStruct_spec (h : Nat → Nat) (rank : Nat → Nat) (hr : ∀ a b, rank a = rank b → a = b) (t : Table)
    (inv : DInv h t.data) (hc : t.count = nLive t.data) :
    SInv h (t.toStruct h rank) ∧ (t.toStruct h rank).length = t.count ∧ (t.toStruct h rank).proto = none ∧
    (∀ k v, Ent (t.toStruct h rank).data k v ↔ Ent t.data k v) ∧
    (∀ k, (t.toStruct h rank).rawget h k = t.rawget h k) ∧
    nLive (t.toStruct h rank).data = (t.toStruct h rank).length := by
  have hl := liveOf_length t.data
  obtain ⟨p1, p2, p3, p4⟩ := putAll_spec h rank hr (liveOf t.data) (structBegin t.count) (BInv.begin h t.count)
    (mem_liveOf inv) (liveOf_pairwise inv)
    (fun _ _ k _ x hx => by
      have : (slotAt (Array.replicate (structCap t.count) Slot.empty) x).key = some k := hx
      rw [slotAt_replicate] at this; cases this)
    (by show 0 + (liveOf t.data).length ≤ t.count; omega)
  have e : t.toStruct h rank = { length := (putAll h rank (structBegin t.count) (liveOf t.data)).length,
                                 data := (putAll h rank (structBegin t.count) (liveOf t.data)).data } := by
    unfold Table.toStruct structEnd
    have hf : (putAll h rank (structBegin t.count) (liveOf t.data)).filled = (putAll h rank (structBegin t.count) (liveOf t.data)).length := by
      rw [p2, p3]; show 0 + (liveOf t.data).length = t.count; omega
    show (if (putAll h rank (structBegin t.count) (liveOf t.data)).filled ≠ (putAll h rank (structBegin t.count) (liveOf t.data)).length then _ else _) = _
    rw [if_neg (by rw [hf]; simp)]
    rfl
  have hent : ∀ k v, Ent (t.toStruct h rank).data k v ↔ Ent t.data k v := by
    intro k v
    rw [e]
    show Ent (putAll h rank (structBegin t.count) (liveOf t.data)).data k v ↔ _
    rw [p4 k v, ent_liveOf]
    constructor
    · rintro (hb | hb)
      · exact absurd hb (ent_replicate _ k v)
      · exact hb
    · intro hb; right; exact hb
  have si : SInv h (t.toStruct h rank) := by rw [e]; exact ⟨p1.d, p1.nt⟩
  refine ⟨si, by rw [e]; exact p3, by rw [e], hent, ?_, ?_⟩
  · intro k
    rw [struct_rawget_eq_dict si k, rawget_eq_rawgetD]
    exact rawgetD_of_ent si.d inv hent k
  · rw [e]
    show nLive (putAll h rank (structBegin t.count) (liveOf t.data)).data = (putAll h rank (structBegin t.count) (liveOf t.data)).length
    rw [p1.cnt, p2, p3]
    show 0 + (liveOf t.data).length = t.count
    omega

/-- `struct/with-proto` over the entries of a struct = `janet_table_to_struct` over the same bucket array -/
theorem withProto_eq (h : Nat → Nat) (rank : Nat → Nat) (s : Struct) (p : Option Nat) :
    s.withProto h rank p =
      { (Table.toStruct h rank { count := s.length, deleted := 0, data := s.data }) with proto := p } := rfl

theorem foldl_updKV_filter (l : List Slot) (m : Nat → Val) :
    (l.filter (·.key.isSome)).foldl updKV m = l.foldl updKV m := by
  induction l generalizing m with
  | nil => rfl
  | cons a rest ih =>
    cases hk : a.key with
    | none =>
      have : updKV m a = m := by unfold updKV; rw [hk]
      simp only [List.filter, hk, Option.isSome_none, List.foldl_cons, this]
      exact ih m
    | some k =>
      simp only [List.filter, hk, Option.isSome_some, List.foldl_cons]
      exact ih _

/-! ### `janet_struct_end` and struct literals with pairwise distinct keys -/

/-- **`janet_struct_end`**: from a struct under construction satisfying `BInv` — whether or not every announced entry
arrived (nil values and NaN / nil keys are skipped by `janet_struct_put`, the struct is then rebuilt with the
entries that went in) — the result satisfies the struct invariant, holds exactly the entries of the builder, and its
`length` is the number of live buckets -/
theorem structEnd_spec (h : Nat → Nat) (rank : Nat → Nat) (hr : ∀ a b, rank a = rank b → a = b) (b : StructB)
    (inv : BInv h b) :
    SInv h (structEnd h rank b) ∧ (∀ k v, Ent (structEnd h rank b).data k v ↔ Ent b.data k v) ∧
    (structEnd h rank b).length = b.filled ∧ nLive (structEnd h rank b).data = (structEnd h rank b).length ∧
    (structEnd h rank b).proto = none := by
  by_cases c : b.filled ≠ b.length
  · have e : structEnd h rank b = Table.toStruct h rank { count := b.filled, deleted := 0, data := b.data } := by
      unfold structEnd Table.toStruct
      rw [if_pos c]
      have r := putAll_spec h rank hr (liveOf b.data) (structBegin b.filled) (BInv.begin h b.filled)
        (mem_liveOf inv.d) (liveOf_pairwise inv.d)
        (fun _ _ k _ x hx => by
          have : (slotAt (Array.replicate (structCap b.filled) Slot.empty) x).key = some k := hx
          rw [slotAt_replicate] at this; cases this)
        (by show 0 + (liveOf b.data).length ≤ b.filled; rw [liveOf_length, inv.cnt]; omega)
      have hf : (putAll h rank (structBegin b.filled) (liveOf b.data)).filled = (putAll h rank (structBegin b.filled) (liveOf b.data)).length := by
        rw [r.2.1, r.2.2.1]; show 0 + (liveOf b.data).length = b.filled; rw [liveOf_length, inv.cnt]; omega
      show _ = structEnd h rank (putAll h rank (structBegin b.filled) (liveOf b.data))
      unfold structEnd
      rw [if_neg (by rw [hf]; simp)]
      rfl
    have r := toStruct_spec h rank hr { count := b.filled, deleted := 0, data := b.data } inv.d inv.cnt.symm
    rw [e]
    exact ⟨r.1, r.2.2.2.1, r.2.1, r.2.2.2.2.2, r.2.2.1⟩
  · have hfl : b.filled = b.length := by
      by_cases c' : b.filled = b.length
      · exact c'
      · exact absurd c' c
    have e : structEnd h rank b = { length := b.length, data := b.data } := by
      unfold structEnd
      rw [if_neg c]
    rw [e]
    refine ⟨⟨inv.d, inv.nt⟩, fun _ _ => Iff.rfl, hfl.symm, ?_, rfl⟩
    show nLive b.data = b.length
    rw [inv.cnt, hfl]

/-- the `janet_struct_put` calls of a struct literal / `struct` / `struct/with-proto`: one per (key, value) argument -/
def putArgs (h : Nat → Nat) (rank : Nat → Nat) (b : StructB) (kvs : List (Nat × Val)) : StructB :=
  kvs.foldl (fun b kv => structPut h rank true b kv.1 kv.2) b

theorem structPut_nil (h : Nat → Nat) (rank : Nat → Nat) (replace : Bool) (st : StructB) (key : Nat) :
    structPut h rank replace st key vNil = st := by
  unfold structPut
  rw [if_pos rfl]

theorem putArgs_spec (h : Nat → Nat) (rank : Nat → Nat) (hr : ∀ a b, rank a = rank b → a = b) :
    ∀ (l : List (Nat × Val)) (b : StructB), BInv h b →
      l.Pairwise (fun s s' => s.1 ≠ s'.1) →
      (∀ s ∈ l, ∀ x, (slotAt b.data x).key ≠ some s.1) →
      b.filled + l.length ≤ b.length →
      BInv h (putArgs h rank b l) ∧ (putArgs h rank b l).length = b.length ∧
      (putArgs h rank b l).filled ≤ b.filled + l.length ∧
      ∀ k v, Ent (putArgs h rank b l).data k v ↔ (Ent b.data k v ∨ ((k, v) ∈ l ∧ v ≠ vNil)) := by
  intro l
  induction l with
  | nil =>
    intro b inv _ _ _
    refine ⟨inv, rfl, Nat.le_refl _, ?_⟩
    intro k v
    simp [putArgs]
  | cons s rest ih =>
    intro b inv hpw habs hlen
    have e : putArgs h rank b (s :: rest) = putArgs h rank (structPut h rank true b s.1 s.2) rest := by
      unfold putArgs
      rw [List.foldl_cons]
    rw [e]
    have hpw' := List.pairwise_cons.mp hpw
    simp only [List.length_cons] at hlen
    by_cases hv : s.2 = vNil
    · rw [hv, structPut_nil]
      obtain ⟨q1, q2, q3, q4⟩ := ih b inv hpw'.2 (fun s' hs' => habs s' (by simp [hs'])) (by omega)
      refine ⟨q1, q2, by simp only [List.length_cons]; omega, ?_⟩
      intro k v
      rw [q4 k v]
      constructor
      · rintro (hb | ⟨hm, hn⟩)
        · left; exact hb
        · right; exact ⟨by simp [hm], hn⟩
      · rintro (hb | ⟨hm, hn⟩)
        · left; exact hb
        · rcases List.mem_cons.mp hm with c | c
          · rw [← c] at hv; exact absurd hv hn
          · right; exact ⟨c, hn⟩
    · obtain ⟨p1, p2, p3, p4⟩ := structPut_spec h rank hr true b s.1 s.2 inv (habs s (by simp)) hv (by omega)
      have habs' : ∀ s' ∈ rest, ∀ x, (slotAt (structPut h rank true b s.1 s.2).data x).key ≠ some s'.1 := by
        intro s' hs'
        rw [absent_iff_noEnt]
        intro v hent
        rcases (p4 s'.1 v).mp hent with ⟨ek, _⟩ | hent'
        · exact hpw'.1 s' hs' ek.symm
        · exact (absent_iff_noEnt _ _).mp (habs s' (by simp [hs'])) v hent'
      obtain ⟨q1, q2, q3, q4⟩ := ih (structPut h rank true b s.1 s.2) p1 hpw'.2 habs' (by rw [p2, p3]; omega)
      refine ⟨q1, by rw [q2, p3], by rw [p2] at q3; simp only [List.length_cons]; omega, ?_⟩
      intro k v
      rw [q4 k v, p4 k v]
      constructor
      · rintro ((⟨ek, ev⟩ | hb) | ⟨hm, hn⟩)
        · right; refine ⟨by rw [ek, ev]; simp, by rw [ev]; exact hv⟩
        · left; exact hb
        · right; exact ⟨by simp [hm], hn⟩
      · rintro (hb | ⟨hm, hn⟩)
        · left; right; exact hb
        · rcases List.mem_cons.mp hm with c | c
          · left; left
            rw [← c]
            exact ⟨rfl, rfl⟩
          · right; exact ⟨c, hn⟩

/-- **a struct literal with pairwise distinct keys** (`janet_struct_begin(n)`, at most `n` × `janet_struct_put` — pairs
with a nil / NaN key are skipped by the caller's loop —, `janet_struct_end`): struct invariant, and its entries are exactly the arguments with a non-nil value -/
theorem structLiteral_spec (h : Nat → Nat) (rank : Nat → Nat) (hr : ∀ a b, rank a = rank b → a = b)
    (kvs : List (Nat × Val)) (hd : kvs.Pairwise (fun s s' => s.1 ≠ s'.1)) (n : Nat) (hn : kvs.length ≤ n) :
    SInv h (structEnd h rank (putArgs h rank (structBegin n) kvs)) ∧
    (∀ k v, Ent (structEnd h rank (putArgs h rank (structBegin n) kvs)).data k v ↔ ((k, v) ∈ kvs ∧ v ≠ vNil)) ∧
    nLive (structEnd h rank (putArgs h rank (structBegin n) kvs)).data =
      (structEnd h rank (putArgs h rank (structBegin n) kvs)).length := by
  obtain ⟨p1, _, _, p4⟩ := putArgs_spec h rank hr kvs (structBegin n) (BInv.begin h n) hd
    (fun _ _ x hx => by
      have : (slotAt (Array.replicate (structCap n) Slot.empty) x).key = some _ := hx
      rw [slotAt_replicate] at this; cases this)
    (by show 0 + kvs.length ≤ n; omega)
  have r := structEnd_spec h rank hr _ p1
  refine ⟨r.1, ?_, r.2.2.2.1⟩
  intro k v
  rw [r.2.1 k v, p4 k v]
  constructor
  · rintro (hb | hb)
    · exact absurd hb (ent_replicate _ k v)
    · exact hb
  · intro hb; right; exact hb

end JanetModel.Table
