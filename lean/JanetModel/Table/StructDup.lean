/-
Session 4d: the ORDERING invariant of the robin-hood layout of struct.c, and the `status == 0` (replace) path of
`janet_struct_put_ext`.

`OInv`: a stored key `k`, were it carried again from its home bucket towards its bucket, would pass over every
occupant it meets on the way — at each bucket `x` of the cyclic interval [home k, bucket k) the triple
(distance of `k` at `x`, hash of `k`, rank of `k`) is lexicographically smaller than the occupant's triple.
`janet_struct_put_ext` keeps `OInv` when it inserts a key that is not stored (`putLoop_ord`), and under `OInv` a key
that IS stored is found by the loop with `status == 0` before any swap or empty bucket (`putLoop_dup`): the put then
only replaces the value.  Hence a struct literal that repeats keys is the finite map in which the last non-nil value
wins, with the struct invariant — for all inputs, no certificate.
-/
import JanetModel.Table.StructBuild
import JanetModel.Table.Pow2
namespace JanetModel.Table
open JanetModel.Gen.Table

/-! ### cyclic distance -/

/-- number of steps from bucket `s` to bucket `x` in the cyclic order of `n` buckets -/
def cd (n s x : Nat) : Nat := if s ≤ x then x - s else x + n - s

/-- the distance expression of struct.c, `(i + cap - index) & (cap - 1)`, for a power-of-two capacity -/
theorem and_eq_cd {n s x : Nat} (hp : ∃ p, n = 2 ^ p) (hs : s < n) (_hx : x < n) :
    (x + n - s) &&& (n - 1) = cd n s x := by
  obtain ⟨p, rfl⟩ := hp
  rw [Nat.and_two_pow_sub_one_eq_mod]
  generalize 2 ^ p = n at *
  unfold cd
  by_cases c : s ≤ x
  · rw [if_pos c]
    have : x + n - s = (x - s) + n := by omega
    rw [this, Nat.add_mod_right, Nat.mod_eq_of_lt (by omega)]
  · rw [if_neg c]; exact Nat.mod_eq_of_lt (by omega)

theorem cd_self (n s : Nat) : cd n s s = 0 := by unfold cd; simp

theorem cd_csucc {n s i : Nat} (hs : s < n) (_hi : i < n) (hne : csucc n i ≠ s) : cd n s (csucc n i) = cd n s i + 1 := by
  unfold csucc at hne ⊢
  unfold cd
  by_cases c : i + 1 = n
  · rw [if_pos c] at hne ⊢
    by_cases c1 : s ≤ 0
    · omega
    · rw [if_neg c1]
      by_cases c2 : s ≤ i
      · rw [if_pos c2]; omega
      · omega
  · rw [if_neg c] at hne ⊢
    by_cases c1 : s ≤ i + 1
    · rw [if_pos c1]
      by_cases c2 : s ≤ i
      · rw [if_pos c2]; omega
      · omega
    · rw [if_neg c1]
      by_cases c2 : s ≤ i
      · omega
      · rw [if_neg c2]; omega

/-- every bucket but `i` lies in the cyclic interval from `i`'s successor to `i` -/
theorem btw_all {n i e : Nat} (_hi : i < n) (he : e < n) (hne : e ≠ i) : Btw (csucc n i) i e := by
  unfold csucc Btw
  by_cases c : i + 1 = n
  · rw [if_pos c]; omega
  · rw [if_neg c]; omega

theorem btw_irrefl (s i : Nat) : ¬ Btw s i i := by unfold Btw; omega

theorem btw_empty (s x : Nat) : ¬ Btw s s x := by unfold Btw; omega

theorem btw_step {n s p i : Nat} (hp : p < n) (_hi : i < n) (hb : Btw s p i) : Btw s p (csucc n i) ∨ csucc n i = p := by
  unfold csucc
  unfold Btw at hb ⊢
  by_cases c : i + 1 = n
  · rw [if_pos c]; omega
  · rw [if_neg c]; omega

theorem csucc_ne_of_btw {n s p i : Nat} (hs : s < n) (hp : p < n) (_hi : i < n) (hb : Btw s p i) : csucc n i ≠ s := by
  unfold csucc
  unfold Btw at hb
  by_cases c : i + 1 = n
  · rw [if_pos c]; omega
  · rw [if_neg c]; omega

theorem mem_cyc_lt (n : Nat) : ∀ (len i e : Nat), i < n → e ∈ cyc n i len → e < n := by
  intro len
  induction len with
  | zero => intro i e _ hm; simp [cyc] at hm
  | succ len ih =>
    intro i e hi hm
    rw [cyc] at hm
    rcases List.mem_cons.mp hm with c | c
    · omega
    · exact ih (csucc n i) e (csucc_lt hi) c

/-! ### the three-level order of `janet_struct_put_ext` -/

/-- lexicographic order on (distance, hash, rank) -/
def Lt3 (d1 : Nat) (h1 : Int) (r1 : Nat) (d2 : Nat) (h2 : Int) (r2 : Nat) : Prop :=
  d1 < d2 ∨ (d1 = d2 ∧ (h1 < h2 ∨ (h1 = h2 ∧ r1 < r2)))

theorem Lt3.trans {d1 d2 d3 : Nat} {h1 h2 h3 : Int} {r1 r2 r3 : Nat}
    (a : Lt3 d1 h1 r1 d2 h2 r2) (b : Lt3 d2 h2 r2 d3 h3 r3) : Lt3 d1 h1 r1 d3 h3 r3 := by
  unfold Lt3 at *; omega

/-- `status` of `janet_struct_put_ext` decides the lexicographic order of the two triples -/
theorem rhStatus_cases (d od : Nat) (hh oh : Int) (r ork : Nat) :
    (Lt3 d hh r od oh ork ∧ rhStatus d od hh oh r ork = -1) ∨
    (Lt3 od oh ork d hh r ∧ rhStatus d od hh oh r ork = 1) ∨
    (d = od ∧ hh = oh ∧ r = ork ∧ rhStatus d od hh oh r ork = 0) := by
  generalize hs : rhStatus d od hh oh r ork = s
  unfold rhStatus at hs
  unfold Lt3
  repeat' split at hs
  all_goals omega

theorem rhStatus_of_lt {d od : Nat} {hh oh : Int} {r ork : Nat} (hl : Lt3 d hh r od oh ork) :
    rhStatus d od hh oh r ork = -1 := by
  rcases rhStatus_cases d od hh oh r ork with ⟨_, e⟩ | ⟨l, _⟩ | ⟨e1, e2, e3, _⟩
  · exact e
  · unfold Lt3 at *; omega
  · unfold Lt3 at *; omega

theorem rhStatus_self (d : Nat) (hh : Int) (r : Nat) : rhStatus d d hh hh r r = 0 := by
  rcases rhStatus_cases d d hh hh r r with ⟨l, _⟩ | ⟨l, _⟩ | ⟨_, _, _, e⟩
  · unfold Lt3 at *; omega
  · unfold Lt3 at *; omega
  · exact e

/-- key `k`, carried to bucket `x`, passes over the occupant `o` of `x` (`status == -1`) -/
def Loses (h : Nat → Nat) (rank : Nat → Nat) (n k o x : Nat) : Prop :=
  Lt3 (cd n (maphash n (h k)) x) (toI32 (h k)) (rank k) (cd n (maphash n (h o)) x) (toI32 (h o)) (rank o)

theorem Loses.trans {h : Nat → Nat} {rank : Nat → Nat} {n a b c x : Nat}
    (p : Loses h rank n a b x) (q : Loses h rank n b c x) : Loses h rank n a c x := Lt3.trans p q

/-- **ordering invariant of the robin-hood layout** -/
def OInv (h : Nat → Nat) (rank : Nat → Nat) (data : Array Slot) : Prop :=
  ∀ j k, (slotAt data j).key = some k → ∀ x, x < data.size → Btw (maphash data.size (h k)) j x →
    ∀ o, (slotAt data x).key = some o → Loses h rank data.size k o x

theorem OInv.replicate (h : Nat → Nat) (rank : Nat → Nat) (n : Nat) : OInv h rank (Array.replicate n Slot.empty) := by
  intro j k hj
  rw [slotAt_replicate] at hj; cases hj

theorem key_setVal {data : Array Slot} {p k : Nat} (hp : (slotAt data p).key = some k) (v : Val) (x : Nat) :
    (slotAt (data.setIfInBounds p ⟨some k, v⟩) x).key = (slotAt data x).key := by
  rw [slotAt_set]
  by_cases c : x = p ∧ p < data.size
  · simp only [c, and_self, if_true]
    exact hp.symm
  · simp only [c, if_false]

theorem OInv.of_keys {h : Nat → Nat} {rank : Nat → Nat} {data data' : Array Slot} (oi : OInv h rank data)
    (hsz : data'.size = data.size) (hk : ∀ x, (slotAt data' x).key = (slotAt data x).key) : OInv h rank data' := by
  intro j k hj x hx hb o ho
  rw [hsz] at hx hb ⊢
  rw [hk] at hj ho
  exact oi j k hj x hx hb o ho

/-- writing a key that is not stored into bucket `i`: the ordering invariant is kept when the new key passes over
everything before `i` on its path and every stored key whose path crosses `i` passes over the new key -/
theorem OInv.place {h : Nat → Nat} {rank : Nat → Nat} {data : Array Slot} (oi : OInv h rank data) {i ck : Nat} {v : Val}
    (hi : i < data.size)
    (hcar : ∀ x, x < data.size → Btw (maphash data.size (h ck)) i x → ∀ o, (slotAt data x).key = some o →
      Loses h rank data.size ck o x)
    (hoth : ∀ j k, j ≠ i → (slotAt data j).key = some k → Btw (maphash data.size (h k)) j i →
      Loses h rank data.size k ck i) :
    OInv h rank (data.setIfInBounds i ⟨some ck, v⟩) := by
  intro j k hj x hx hb o ho
  have hsz : (data.setIfInBounds i ⟨some ck, v⟩).size = data.size := by simp
  rw [hsz] at hx hb ⊢
  rw [slotAt_set] at hj ho
  by_cases cj : j = i ∧ i < data.size
  · simp only [cj, and_self, if_true] at hj
    have ek : k = ck := by cases hj; rfl
    rw [ek] at hb ⊢
    rw [cj.1] at hb
    by_cases cx : x = i ∧ i < data.size
    · rw [cx.1] at hb; exact absurd hb (btw_irrefl _ _)
    · simp only [cx, if_false] at ho
      exact hcar x hx hb o ho
  · simp only [cj, if_false] at hj
    have hji : j ≠ i := fun e => cj ⟨e, hi⟩
    by_cases cx : x = i ∧ i < data.size
    · simp only [cx, and_self, if_true] at ho
      have eo : o = ck := by cases ho; rfl
      rw [eo, cx.1]
      rw [cx.1] at hb
      exact hoth j k hji hj hb
    · simp only [cx, if_false] at ho
      exact oi j k hj x hx hb o ho

/-! ### inserting a key that is not stored keeps the ordering invariant -/

theorem putLoop_ord (h : Nat → Nat) (rank : Nat → Nat) (hr : ∀ a b, rank a = rank b → a = b) (replace : Bool) (n : Nat)
    (hp2 : ∃ p, n = 2 ^ p) :
    ∀ (len i ck : Nat) (cv : Val) (hash : Int) (dist : Nat) (st : StructB),
      st.data.size = n → i < n → DInv h st.data → NoTomb st.data → OInv h rank st.data →
      (∀ x, (slotAt st.data x).key ≠ some ck) → cv ≠ vNil →
      (∀ x, x < n → Btw (maphash n (h ck)) i x → ¬ (slotAt st.data x).isEmpty) →
      (∃ e, e ∈ cyc n i len ∧ (slotAt st.data e).isEmpty) →
      (∀ x, x < n → Btw (maphash n (h ck)) i x → ∀ o, (slotAt st.data x).key = some o → Loses h rank n ck o x) →
      dist = cd n (maphash n (h ck)) i → hash = toI32 (h ck) →
      OInv h rank (structPutLoop h rank replace n (cyc n i len) ck cv hash dist st).data := by
  intro len
  induction len with
  | zero =>
    intro i ck cv hash dist st _ _ _ _ _ _ _ _ he
    obtain ⟨e, hm, _⟩ := he
    simp [cyc] at hm
  | succ len ih =>
    intro i ck cv hash dist st hsz hi inv nt oi hno hcv hpath hemp hcar hdist hhash
    have hi' : i < st.data.size := by omega
    have hn0 : 0 < n := by omega
    have hemp0 := hemp
    rw [cyc, structPutLoop_cons]
    cases hk : (slotAt st.data i).key with
    | none =>
      simp only []
      show OInv h rank (st.data.setIfInBounds i ⟨some ck, cv⟩)
      refine oi.place hi' (by rw [hsz]; exact hcar) ?_
      intro j k _ hj hb
      have := path_btw inv hj i hi' hb
      exact absurd ⟨hk, nt i hk⟩ this
    | some okey =>
      simp only []
      have hine : ¬ (slotAt st.data i).isEmpty := fun e => by rw [e.1] at hk; cases hk
      obtain ⟨e, hem, hee⟩ := hemp
      have hen : e < n := mem_cyc_lt n (len + 1) i e hi hem
      have hei : e ≠ i := fun c => hine (c ▸ hee)
      have hem' : e ∈ cyc n (csucc n i) len := by
        rcases List.mem_cons.mp hem with c | c
        · exact absurd c hei
        · exact c
      have hsi := csucc_lt hi
      have hho : maphash n (h okey) < n := maphash_lt n (h okey) hn0
      have hhc : maphash n (h ck) < n := maphash_lt n (h ck) hn0
      have hod : (i + n - maphash n (h okey)) &&& (n - 1) = cd n (maphash n (h okey)) i := and_eq_cd hp2 hho hi
      rw [hod, hdist, hhash]
      rcases rhStatus_cases (cd n (maphash n (h ck)) i) (cd n (maphash n (h okey)) i) (toI32 (h ck)) (toI32 (h okey))
        (rank ck) (rank okey) with ⟨hl, hs⟩ | ⟨hl, hs⟩ | ⟨_, _, e3, _⟩
      · -- status = -1: the carried pair moves on
        rw [hs, if_neg (by decide), if_neg (by decide)]
        have hpo : ∀ x, x < n → Btw (maphash n (h ck)) (csucc n i) x → ¬ (slotAt st.data x).isEmpty := by
          intro x hx hb
          rcases btw_csucc hi hx hb with hb' | hxi
          · exact hpath x hx hb'
          · rw [hxi]; exact hine
        have hcar' : ∀ x, x < n → Btw (maphash n (h ck)) (csucc n i) x → ∀ o, (slotAt st.data x).key = some o →
            Loses h rank n ck o x := by
          intro x hx hb o ho
          rcases btw_csucc hi hx hb with hb' | hxi
          · exact hcar x hx hb' o ho
          · rw [hxi] at ho ⊢
            rw [hk] at ho
            cases ho
            exact hl
        have hne : csucc n i ≠ maphash n (h ck) := by
          intro c
          have := btw_all hi hen hei
          rw [c] at this
          exact hpath e hen this hee
        exact ih (csucc n i) ck cv (toI32 (h ck)) (cd n (maphash n (h ck)) i + 1) st hsz hsi inv nt oi hno hcv hpo
          ⟨e, hem', hee⟩ hcar' (cd_csucc hhc hi hne).symm rfl
      · -- status = 1: swap
        rw [hs, if_pos rfl]
        have hpath' : ∀ x, x < st.data.size → Btw (maphash st.data.size (h ck)) i x → ¬ (slotAt st.data x).isEmpty := by
          rw [hsz]; exact hpath
        have inv' := inv.place hi' hno hpath' hcv
        have nt' := nt.place i ck cv
        have hnee : ¬ (Slot.isEmpty ⟨some ck, cv⟩) := fun e => by cases e.1
        have hno' : ∀ x, (slotAt (st.data.setIfInBounds i ⟨some ck, cv⟩) x).key ≠ some okey := by
          intro x hx
          rw [slotAt_set] at hx
          by_cases c : x = i ∧ i < st.data.size
          · simp only [c, and_self, if_true] at hx
            cases hx
            exact hno i hk
          · simp only [c, if_false] at hx
            exact c ⟨inv.nodup x i okey hx hk, hi'⟩
        have hov : (slotAt st.data i).val ≠ vNil := inv.live i okey hk
        have hpo : ∀ x, x < n → Btw (maphash n (h okey)) (csucc n i) x →
            ¬ (slotAt (st.data.setIfInBounds i ⟨some ck, cv⟩) x).isEmpty := by
          intro x hx hb
          rcases btw_csucc hi hx hb with hb' | hxi
          · have := path_btw inv hk x (by omega) (by rw [hsz]; exact hb')
            exact isEmpty_set_of_nonempty hnee this
          · rw [hxi, slotAt_set]
            simp only [hi', and_self, if_true]
            exact hnee
        have oi' : OInv h rank (st.data.setIfInBounds i ⟨some ck, cv⟩) := by
          refine oi.place hi' (by rw [hsz]; exact hcar) ?_
          intro j k _ hj hb
          rw [hsz] at hb ⊢
          have h1 : Loses h rank n k okey i := by
            have := oi j k hj i hi' (by rw [hsz]; exact hb) okey hk
            rw [hsz] at this; exact this
          exact h1.trans hl
        have hcar' : ∀ x, x < n → Btw (maphash n (h okey)) (csucc n i) x → ∀ o,
            (slotAt (st.data.setIfInBounds i ⟨some ck, cv⟩) x).key = some o → Loses h rank n okey o x := by
          intro x hx hb o ho
          rw [slotAt_set] at ho
          rcases btw_csucc hi hx hb with hb' | hxi
          · have hxi : ¬ (x = i ∧ i < st.data.size) := fun c => btw_irrefl _ _ (c.1 ▸ hb')
            simp only [hxi, if_false] at ho
            have := oi i okey hk x (by omega) (by rw [hsz]; exact hb') o ho
            rw [hsz] at this; exact this
          · simp only [hxi, hi', and_self, if_true] at ho
            cases ho
            rw [hxi]; exact hl
        have hne : csucc n i ≠ maphash n (h okey) := by
          intro c
          have := btw_all hi hen hei
          rw [c] at this
          exact path_btw inv hk e (by omega) (by rw [hsz]; exact this) hee
        exact ih (csucc n i) okey (slotAt st.data i).val (toI32 (h okey)) (cd n (maphash n (h okey)) i + 1)
          { st with data := st.data.setIfInBounds i ⟨some ck, cv⟩ } (by simpa using hsz) hsi inv' nt' oi' hno' hov hpo
          ⟨e, hem', isEmpty_place_other hei hee⟩ hcar' (cd_csucc hho hi hne).symm rfl
      · -- status = 0: equal ranks, i.e. the carried key is stored — excluded
        have := hr _ _ e3
        rw [this] at hno
        exact absurd hk (hno i)

/-! ### putting a key that IS stored: `status == 0`, the value is replaced in place -/

theorem putLoop_dup (h : Nat → Nat) (rank : Nat → Nat) (n : Nat) (hp2 : ∃ p, n = 2 ^ p) :
    ∀ (len i ck : Nat) (cv : Val) (hash : Int) (dist : Nat) (st : StructB) (p : Nat),
      st.data.size = n → i < n → DInv h st.data → NoTomb st.data → OInv h rank st.data →
      (slotAt st.data p).key = some ck → p ∈ cyc n i len → (Btw (maphash n (h ck)) p i ∨ i = p) →
      dist = cd n (maphash n (h ck)) i → hash = toI32 (h ck) →
      structPutLoop h rank true n (cyc n i len) ck cv hash dist st =
        { st with data := st.data.setIfInBounds p ⟨some ck, cv⟩ } := by
  intro len
  induction len with
  | zero =>
    intro i ck cv hash dist st p _ _ _ _ _ _ hm
    simp [cyc] at hm
  | succ len ih =>
    intro i ck cv hash dist st p hsz hi inv nt oi hp hm hb hdist hhash
    have hi' : i < st.data.size := by omega
    have hn0 : 0 < n := by omega
    have hpn : p < n := by have := key_some_lt hp; omega
    have hhc : maphash n (h ck) < n := maphash_lt n (h ck) hn0
    rw [cyc, structPutLoop_cons]
    by_cases hip : i = p
    · rw [hip, hp]
      simp only []
      have hod : (p + n - maphash n (h ck)) &&& (n - 1) = cd n (maphash n (h ck)) p := and_eq_cd hp2 hhc hpn
      rw [hod, hdist, hhash, hip, rhStatus_self, if_neg (by decide), if_pos rfl, if_pos trivial]
    · have hb' : Btw (maphash n (h ck)) p i := by
        rcases hb with c | c
        · exact c
        · exact absurd c hip
      have hne := path_btw inv hp i hi' (by rw [hsz]; exact hb')
      cases hk : (slotAt st.data i).key with
      | none => exact absurd ⟨hk, nt i hk⟩ hne
      | some o =>
        simp only []
        have hho : maphash n (h o) < n := maphash_lt n (h o) hn0
        have hod : (i + n - maphash n (h o)) &&& (n - 1) = cd n (maphash n (h o)) i := and_eq_cd hp2 hho hi
        have hl : Loses h rank n ck o i := by
          have := oi p ck hp i hi' (by rw [hsz]; exact hb') o hk
          rw [hsz] at this; exact this
        rw [hod, hdist, hhash, rhStatus_of_lt hl, if_neg (by decide), if_neg (by decide)]
        have hm' : p ∈ cyc n (csucc n i) len := by
          rcases List.mem_cons.mp hm with c | c
          · exact absurd c.symm hip
          · exact c
        exact ih (csucc n i) ck cv (toI32 (h ck)) (cd n (maphash n (h ck)) i + 1) st p hsz (csucc_lt hi) inv nt oi hp hm'
          (btw_step hpn hi hb') (cd_csucc hhc hi (csucc_ne_of_btw hhc hpn hi hb')).symm rfl

/-! ### `janet_struct_put_ext` on a struct under construction, any key -/

theorem structPutLoop_size (h : Nat → Nat) (rank : Nat → Nat) (replace : Bool) (cap : Nat) :
    ∀ (l : List Nat) (key : Nat) (value : Val) (hash : Int) (dist : Nat) (st : StructB),
      (structPutLoop h rank replace cap l key value hash dist st).data.size = st.data.size := by
  intro l
  induction l with
  | nil => intros; rfl
  | cons i rest ih =>
    intro key value hash dist st
    rw [structPutLoop_cons]
    cases hk : (slotAt st.data i).key with
    | none => simp
    | some okey =>
      simp only []
      by_cases c1 : rhStatus dist ((i + cap - maphash cap (h okey)) &&& (cap - 1)) hash (toI32 (h okey)) (rank key) (rank okey) = 1
      · rw [if_pos c1, ih]; simp
      · rw [if_neg c1]
        by_cases c0 : rhStatus dist ((i + cap - maphash cap (h okey)) &&& (cap - 1)) hash (toI32 (h okey)) (rank key) (rank okey) = 0
        · rw [if_pos c0]
          cases replace <;> simp
        · rw [if_neg c0, ih]

theorem structPut_size (h : Nat → Nat) (rank : Nat → Nat) (replace : Bool) (st : StructB) (key : Nat) (v : Val) :
    (structPut h rank replace st key v).data.size = st.data.size := by
  unfold structPut
  by_cases c1 : v = vNil
  · rw [if_pos c1]
  · rw [if_neg c1]
    by_cases c2 : st.filled = st.length
    · rw [if_pos c2]
    · rw [if_neg c2]
      exact structPutLoop_size _ _ _ _ _ _ _ _ _ _

/-- invariant of a struct under construction, with the ordering of the robin-hood layout -/
structure OBInv (h : Nat → Nat) (rank : Nat → Nat) (st : StructB) : Prop where
  b : BInv h st
  o : OInv h rank st.data
  p2 : ∃ p, st.data.size = 2 ^ p

theorem OBInv.begin (h : Nat → Nat) (rank : Nat → Nat) (count : Nat) (hc : 2 * count < 2 ^ 32) :
    OBInv h rank (structBegin count) := by
  refine ⟨BInv.begin h count, OInv.replicate h rank _, ?_⟩
  obtain ⟨k, hk⟩ := tablen_pow2 (2 * count) hc
  exact ⟨k, by simp [structBegin, structCap, hk]⟩

theorem structPut_eq_loop (h : Nat → Nat) (rank : Nat → Nat) (replace : Bool) (st : StructB) (key : Nat) (v : Val)
    (hv : v ≠ vNil) (hroom : st.filled < st.length) (hpos : 0 < st.data.size) :
    structPut h rank replace st key v =
      structPutLoop h rank replace st.data.size (cyc st.data.size (maphash st.data.size (h key)) st.data.size)
        key v (toI32 (h key)) 0 st := by
  have hs := maphash_lt st.data.size (h key) hpos
  unfold structPut
  rw [if_neg hv, if_neg (by omega)]
  simp only []
  rw [← probeSeq_eq_cyc hs]
  rfl

/-- **`janet_struct_put_ext`, any key**: a key that is not stored is added, a key that is stored gets the new value
(`status == 0`); the invariants — including the ordering of the layout — are kept -/
theorem structPut_any (h : Nat → Nat) (rank : Nat → Nat) (hr : ∀ a b, rank a = rank b → a = b)
    (st : StructB) (key : Nat) (v : Val) (inv : OBInv h rank st) (hv : v ≠ vNil) (hroom : st.filled < st.length) :
    OBInv h rank (structPut h rank true st key v) ∧
    (structPut h rank true st key v).filled ≤ st.filled + 1 ∧
    (structPut h rank true st key v).length = st.length ∧
    ∀ k v', Ent (structPut h rank true st key v).data k v' ↔ ((k = key ∧ v' = v) ∨ (k ≠ key ∧ Ent st.data k v')) := by
  have hpos : 0 < st.data.size := by have := inv.b.room; omega
  have hs := maphash_lt st.data.size (h key) hpos
  have e := structPut_eq_loop h rank true st key v hv hroom hpos
  have hsz := structPut_size h rank true st key v
  by_cases hex : ∃ p, (slotAt st.data p).key = some key
  · -- the key is stored: replace
    obtain ⟨p, hp⟩ := hex
    have hpn := key_some_lt hp
    have hstart : Btw (maphash st.data.size (h key)) p (maphash st.data.size (h key)) ∨ maphash st.data.size (h key) = p := by
      unfold Btw; omega
    have hm : p ∈ cyc st.data.size (maphash st.data.size (h key)) st.data.size := by
      rw [← probeSeq_eq_cyc hs]
      exact (mem_probeSeq (Nat.le_of_lt hs)).mpr hpn
    have r := putLoop_dup h rank st.data.size inv.p2 st.data.size _ key v (toI32 (h key)) 0 st p rfl hs inv.b.d inv.b.nt
      inv.o hp hm hstart (cd_self _ _).symm rfl
    rw [e, r]
    have hkeys := key_setVal hp v
    refine ⟨⟨⟨inv.b.d.overwrite hp hv, inv.b.nt.place p key v, ?_, ?_⟩, inv.o.of_keys (by simp) hkeys, ?_⟩, ?_, rfl, ?_⟩
    · show nLive (st.data.setIfInBounds p ⟨some key, v⟩) = st.filled
      rw [nLive_place hpn]
      have : isLive (slotAt st.data p) = true := by simp [isLive, hp]
      rw [if_pos this, inv.b.cnt]; rfl
    · show st.length ≤ (st.data.setIfInBounds p ⟨some key, v⟩).size
      simpa using inv.b.room
    · obtain ⟨q, hq⟩ := inv.p2
      exact ⟨q, by simpa using hq⟩
    · show st.filled ≤ st.filled + 1
      omega
    · intro k v'
      show Ent (st.data.setIfInBounds p ⟨some key, v⟩) k v' ↔ _
      rw [ent_place hpn]
      constructor
      · rintro (c | ⟨x, hx, hkx, hvx⟩)
        · left; exact c
        · right
          refine ⟨?_, x, hkx, hvx⟩
          intro ek
          rw [ek] at hkx
          exact hx (inv.b.d.nodup x p key hkx hp)
      · rintro (c | ⟨hne, x, hkx, hvx⟩)
        · left; exact c
        · right
          refine ⟨x, ?_, hkx, hvx⟩
          intro ex
          rw [ex, hp] at hkx
          cases hkx
          exact hne rfl
  · -- the key is not stored: insert
    have hno : ∀ x, (slotAt st.data x).key ≠ some key := fun x hx => hex ⟨x, hx⟩
    obtain ⟨p1, p2, p3, p4⟩ := structPut_spec h rank hr true st key v inv.b hno hv hroom
    have hemp : ∃ e, e ∈ cyc st.data.size (maphash st.data.size (h key)) st.data.size ∧ (slotAt st.data e).isEmpty := by
      have hp := partition st.data
      have h1 := inv.b.cnt
      have h2 := nTomb_zero_of_noTomb inv.b.nt
      have h3 := inv.b.room
      obtain ⟨x, hx, he⟩ := exists_empty (data := st.data) (by omega)
      refine ⟨x, ?_, he⟩
      rw [← probeSeq_eq_cyc hs]
      exact (mem_probeSeq (Nat.le_of_lt hs)).mpr hx
    have ho := putLoop_ord h rank hr true st.data.size inv.p2 st.data.size _ key v (toI32 (h key)) 0 st rfl hs
      inv.b.d inv.b.nt inv.o hno hv (fun x _ hb => absurd hb (btw_empty _ _)) hemp
      (fun x _ hb => absurd hb (btw_empty _ _)) (cd_self _ _).symm rfl
    refine ⟨⟨p1, ?_, ?_⟩, by omega, p3, ?_⟩
    · have := ho
      rw [← e] at this
      exact this
    · rw [hsz]; exact inv.p2
    · intro k v'
      rw [p4 k v']
      constructor
      · rintro (c | c)
        · left; exact c
        · right
          refine ⟨?_, c⟩
          intro ek
          obtain ⟨x, hx, _⟩ := c
          rw [ek] at hx
          exact hno x hx
      · rintro (c | ⟨_, c⟩)
        · left; exact c
        · right; exact c

/-- **the `status == 0` path**: putting a key that is stored in bucket `p` replaces that bucket's value, nothing else -/
theorem structPut_dup (h : Nat → Nat) (rank : Nat → Nat) (st : StructB) (key : Nat) (v : Val) (p : Nat)
    (inv : OBInv h rank st) (hp : (slotAt st.data p).key = some key) (hv : v ≠ vNil) (hroom : st.filled < st.length) :
    structPut h rank true st key v = { st with data := st.data.setIfInBounds p ⟨some key, v⟩ } := by
  have hpos : 0 < st.data.size := by have := inv.b.room; omega
  have hs := maphash_lt st.data.size (h key) hpos
  have hpn := key_some_lt hp
  have hstart : Btw (maphash st.data.size (h key)) p (maphash st.data.size (h key)) ∨ maphash st.data.size (h key) = p := by
    unfold Btw; omega
  have hm : p ∈ cyc st.data.size (maphash st.data.size (h key)) st.data.size := by
    rw [← probeSeq_eq_cyc hs]
    exact (mem_probeSeq (Nat.le_of_lt hs)).mpr hpn
  rw [structPut_eq_loop h rank true st key v hv hroom hpos]
  exact putLoop_dup h rank st.data.size inv.p2 st.data.size _ key v (toI32 (h key)) 0 st p rfl hs inv.b.d inv.b.nt
    inv.o hp hm hstart (cd_self _ _).symm rfl

/-! ### struct literals, any arguments -/

/-- the finite map a struct literal denotes: pairs with a nil value are dropped, the LAST non-nil value of a key wins -/
def litMap (kvs : List (Nat × Val)) (m : Nat → Option Val) : Nat → Option Val :=
  kvs.foldl (fun m kv => if kv.2 = vNil then m else fun k => if k = kv.1 then some kv.2 else m k) m

theorem putArgs_any (h : Nat → Nat) (rank : Nat → Nat) (hr : ∀ a b, rank a = rank b → a = b) :
    ∀ (l : List (Nat × Val)) (b : StructB) (m : Nat → Option Val), OBInv h rank b →
      (∀ k v, Ent b.data k v ↔ m k = some v) → b.filled + l.length ≤ b.length →
      OBInv h rank (putArgs h rank b l) ∧ (putArgs h rank b l).length = b.length ∧
      ∀ k v, Ent (putArgs h rank b l).data k v ↔ litMap l m k = some v := by
  intro l
  induction l with
  | nil =>
    intro b m inv hm _
    exact ⟨inv, rfl, hm⟩
  | cons s rest ih =>
    intro b m inv hm hlen
    have e : putArgs h rank b (s :: rest) = putArgs h rank (structPut h rank true b s.1 s.2) rest := by
      unfold putArgs
      rw [List.foldl_cons]
    have el : litMap (s :: rest) m = litMap rest (if s.2 = vNil then m else fun k => if k = s.1 then some s.2 else m k) := by
      unfold litMap
      rw [List.foldl_cons]
    rw [e, el]
    simp only [List.length_cons] at hlen
    by_cases hv : s.2 = vNil
    · rw [hv, structPut_nil, if_pos rfl]
      exact ih b m inv hm (by omega)
    · rw [if_neg hv]
      obtain ⟨p1, p2, p3, p4⟩ := structPut_any h rank hr b s.1 s.2 inv hv (by omega)
      obtain ⟨q1, q2, q3⟩ := ih (structPut h rank true b s.1 s.2) (fun k => if k = s.1 then some s.2 else m k) p1
        (by
          intro k v
          rw [p4 k v]
          by_cases c : k = s.1
          · rw [if_pos c]
            constructor
            · rintro (⟨_, ev⟩ | ⟨hne, _⟩)
              · rw [ev]
              · exact absurd c hne
            · intro hsome
              left; exact ⟨c, by cases hsome; rfl⟩
          · rw [if_neg c, ← hm k v]
            constructor
            · rintro (⟨ek, _⟩ | ⟨_, hent⟩)
              · exact absurd ek c
              · exact hent
            · intro hent; right; exact ⟨c, hent⟩)
        (by rw [p3]; omega)
      exact ⟨q1, by rw [q2, p3], q3⟩

/-- **a struct literal with ANY arguments, repeated keys included** (`janet_struct_begin(n)`, at most `n` ×
`janet_struct_put`, `janet_struct_end` with its rebuild): the struct invariant holds, and the entries are the finite
map in which the last non-nil value of each key wins -/
theorem structLiteral_any (h : Nat → Nat) (rank : Nat → Nat) (hr : ∀ a b, rank a = rank b → a = b)
    (kvs : List (Nat × Val)) (n : Nat) (hn : kvs.length ≤ n) (hc : 2 * n < 2 ^ 32) :
    SInv h (structEnd h rank (putArgs h rank (structBegin n) kvs)) ∧
    (∀ k v, Ent (structEnd h rank (putArgs h rank (structBegin n) kvs)).data k v ↔ litMap kvs (fun _ => none) k = some v) ∧
    nLive (structEnd h rank (putArgs h rank (structBegin n) kvs)).data =
      (structEnd h rank (putArgs h rank (structBegin n) kvs)).length ∧
    (structEnd h rank (putArgs h rank (structBegin n) kvs)).proto = none := by
  obtain ⟨p1, _, p3⟩ := putArgs_any h rank hr kvs (structBegin n) (fun _ => none) (OBInv.begin h rank n hc)
    (fun k v => by
      constructor
      · intro hb; exact absurd hb (ent_replicate _ k v)
      · intro hb; cases hb)
    (by show 0 + kvs.length ≤ n; omega)
  have r := structEnd_spec h rank hr _ p1.b
  refine ⟨r.1, ?_, r.2.2.2.1, r.2.2.2.2⟩
  intro k v
  rw [r.2.1 k v, p3 k v]

end JanetModel.Table
