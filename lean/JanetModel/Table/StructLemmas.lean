/-
Session 3: structs as finite maps.  A struct bucket array that satisfies the same structural invariant as a table's
(`DInv`: no duplicate keys, probe-path property, stored values non-nil) and holds no tombstone (`NoTomb`) is read by
`janet_struct_find` exactly as `janet_dict_find` reads it; so `struct/rawget`, `janet_struct_get_ex` (prototype walk)
and `struct/to-table` are finite-map operations.

That `janet_struct_put_ext` (robin-hood insertion) *establishes* the invariant is not proved in this model (C03 proves
the layout theorem in its own model of struct.c).  Instead the invariant is *checked*: `checkSInv` is an executable
decision procedure, proved sound here (`checkSInv_sound`), and the model driver evaluates it on every struct a history
creates — the same struct whose bucket array is compared with the implementation's slot by slot.
-/
import JanetModel.Table.Lemmas
namespace JanetModel.Table
open JanetModel.Gen.Table

/-- a nil-key bucket is empty (structs have no tombstones) -/
def NoTomb (data : Array Slot) : Prop := ∀ i, (slotAt data i).key = none → (slotAt data i).val = vNil

structure SInv (h : Nat → Nat) (s : Struct) : Prop where
  d : DInv h s.data
  nt : NoTomb s.data

/-- the predicate of `janet_struct_find`'s loop: stop at a nil key or at the key -/
def sfPred (data : Array Slot) (k : Nat) (i : Nat) : Bool :=
  match (slotAt data i).key with | none => true | some k' => k' == k

theorem structFind_eq (h : Nat → Nat) (data : Array Slot) (k : Nat) :
    structFind h data k = (probeSeq data.size (maphash data.size (h k))).find? (sfPred data k) := rfl

theorem find?_pre {α : Type} (p : α → Bool) (pre : List α) (i : α) (post : List α)
    (hpre : ∀ x ∈ pre, p x = false) (hi : p i = true) : (pre ++ i :: post).find? p = some i := by
  induction pre with
  | nil => simp [hi]
  | cons a rest ih =>
    have ha : p a = false := hpre a (by simp)
    simp only [List.cons_append, List.find?, ha]
    exact ih (fun x hx => hpre x (by simp [hx]))

/-- a present key is found at its bucket -/
theorem structFind_hit {h : Nat → Nat} {data : Array Slot} (inv : DInv h data) (nt : NoTomb data) {i k : Nat}
    (hi : (slotAt data i).key = some k) : structFind h data k = some i := by
  rw [structFind_eq]
  obtain ⟨pre, post, hp, hpre⟩ := inv.path i k hi
  rw [hp]
  apply find?_pre
  · intro x hx
    have hx' := hpre x hx
    unfold sfPred
    cases hk : (slotAt data x).key with
    | none => exact absurd ⟨hk, nt x hk⟩ hx'.1
    | some k' =>
      simp only []
      have : k' ≠ k := fun e => hx'.2 (by rw [hk, e])
      simpa using this
  · unfold sfPred; rw [hi]; simp

/-- an absent key: `janet_struct_find` stops at an empty bucket (or runs off the array) -/
theorem structFind_miss {h : Nat → Nat} {data : Array Slot} (nt : NoTomb data) {k : Nat}
    (hno : ∀ i, (slotAt data i).key ≠ some k) :
    structFind h data k = none ∨ ∃ j, structFind h data k = some j ∧ (slotAt data j).key = none ∧ (slotAt data j).val = vNil := by
  rw [structFind_eq]
  cases hf : (probeSeq data.size (maphash data.size (h k))).find? (sfPred data k) with
  | none => left; rfl
  | some j =>
    right
    have hp := List.find?_some hf
    unfold sfPred at hp
    cases hk : (slotAt data j).key with
    | none => exact ⟨j, rfl, hk, nt j hk⟩
    | some k' =>
      rw [hk] at hp
      simp only [beq_iff_eq] at hp
      exact absurd (by rw [hk, hp]) (hno j)

/-- **`struct/rawget` is the map lookup**: present key ↦ its (non-nil) value, absent key ↦ nil -/
theorem struct_rawget_hit {h : Nat → Nat} {s : Struct} (inv : SInv h s) {i k : Nat} (hi : (slotAt s.data i).key = some k) :
    s.rawget h k = (slotAt s.data i).val ∧ s.rawget h k ≠ vNil := by
  unfold Struct.rawget
  rw [structFind_hit inv.d inv.nt hi]
  exact ⟨rfl, inv.d.live i k hi⟩

theorem struct_rawget_miss {h : Nat → Nat} {s : Struct} (inv : SInv h s) {k : Nat}
    (hno : ∀ i, (slotAt s.data i).key ≠ some k) : s.rawget h k = vNil := by
  unfold Struct.rawget
  rcases structFind_miss (h := h) inv.nt hno with e | ⟨j, e, _, hv⟩
  · rw [e]
  · rw [e]; exact hv

/-- ... and agrees with what `janet_dict_find` would read (tables and structs share the lookup semantics) -/
theorem struct_rawget_eq_dict {h : Nat → Nat} {s : Struct} (inv : SInv h s) (k : Nat) :
    s.rawget h k = rawgetD h s.data k := by
  by_cases c : ∃ i, (slotAt s.data i).key = some k
  · obtain ⟨i, hi⟩ := c
    rw [(struct_rawget_hit inv hi).1, rawgetD_hit inv.d hi]
  · have hno : ∀ i, (slotAt s.data i).key ≠ some k := fun i hi => c ⟨i, hi⟩
    rw [struct_rawget_miss inv hno, rawgetD_miss hno]

/-- `bucket != NULL && key not nil` after `janet_struct_find` -/
theorem struct_hit_spec {h : Nat → Nat} {s : Struct} (inv : SInv h s) (k : Nat) :
    (∃ i, hit s.data (structFind h s.data k) = some i ∧ (slotAt s.data i).key = some k ∧ s.rawget h k = (slotAt s.data i).val ∧
      s.rawget h k ≠ vNil) ∨
    (hit s.data (structFind h s.data k) = none ∧ s.rawget h k = vNil) := by
  by_cases c : ∃ i, (slotAt s.data i).key = some k
  · obtain ⟨i, hi⟩ := c
    left
    refine ⟨i, ?_, hi, (struct_rawget_hit inv hi).1, (struct_rawget_hit inv hi).2⟩
    rw [structFind_hit inv.d inv.nt hi]
    unfold hit; simp [hi]
  · have hno : ∀ i, (slotAt s.data i).key ≠ some k := fun i hi => c ⟨i, hi⟩
    right
    refine ⟨?_, struct_rawget_miss inv hno⟩
    rcases structFind_miss (h := h) inv.nt hno with e | ⟨j, e, hk, _⟩
    · rw [e]; rfl
    · rw [e]; unfold hit; simp [hk]

/-- **`janet_struct_get_ex`: lookups fall back along the struct prototype chain** — the struct's own entry if it has
one, else the prototype's answer, for at most `fuel` levels -/
theorem struct_get_spec (h : Nat → Nat) (heap : Nat → Option Struct) (hinv : ∀ r s, heap r = some s → SInv h s)
    (k : Nat) (fuel : Nat) (r : Nat) :
    structGetChain h heap k (fuel + 1) (some r) =
      match heap r with
      | none => vNil
      | some s => if s.rawget h k ≠ vNil then s.rawget h k else structGetChain h heap k fuel s.proto := by
  conv => lhs; unfold structGetChain
  cases hr : heap r with
  | none => rfl
  | some s =>
    simp only []
    rcases struct_hit_spec (hinv r s hr) k with ⟨i, hh, _, hv, hne⟩ | ⟨hh, hv⟩
    · rw [hh]; simp only []; rw [if_pos hne, hv]
    · rw [hh]; simp only []; rw [if_neg (by rw [hv]; simp)]

theorem struct_get_depth_cutoff (h : Nat → Nat) (heap : Nat → Option Struct) (k : Nat) (r : Option Nat) :
    structGetChain h heap k 0 r = vNil := by
  cases r <;> rfl

/-! ### folding the buckets of an array into a map (struct/to-table, table/clone by puts, merge) -/

def updKV (m : Nat → Val) (kv : Slot) : Nat → Val :=
  match kv.key with
  | some k => fun k' => if k' = k then kv.val else m k'
  | none => m

theorem fold_upd_absent (l : List Slot) (k : Nat) (hno : ∀ s ∈ l, s.key ≠ some k) :
    ∀ m : Nat → Val, (l.foldl updKV m) k = m k := by
  induction l with
  | nil => intro m; rfl
  | cons a rest ih =>
    intro m
    simp only [List.foldl_cons]
    rw [ih (fun s hs => hno s (by simp [hs]))]
    unfold updKV
    cases ha : a.key with
    | none => rfl
    | some k' =>
      simp only []
      have : k ≠ k' := fun e => hno a (by simp) (by rw [ha, e])
      simp [this]

theorem fold_upd_last (pre : List Slot) (s : Slot) (post : List Slot) (k : Nat) (hs : s.key = some k)
    (hpost : ∀ x ∈ post, x.key ≠ some k) (m : Nat → Val) : ((pre ++ s :: post).foldl updKV m) k = s.val := by
  rw [List.foldl_append, List.foldl_cons, fold_upd_absent post k hpost]
  unfold updKV
  rw [hs]
  simp

theorem toList_getElem (data : Array Slot) (j : Nat) (hj : j < data.toList.length) : data.toList[j] = slotAt data j := by
  have hj' : j < data.size := by simpa using hj
  unfold slotAt
  simp [Array.getD, hj']

/-- the buckets of an array satisfying `DInv`, folded in bucket order into a map, give the array's lookup function:
a key held by bucket `i` maps to that bucket's value ... -/
theorem fold_buckets_hit {h : Nat → Nat} {data : Array Slot} (inv : DInv h data) (m : Nat → Val) {i k : Nat}
    (hi : (slotAt data i).key = some k) : (data.toList.foldl updKV m) k = (slotAt data i).val := by
  have hlt : i < data.size := key_some_lt hi
  have hlt' : i < data.toList.length := by simpa using hlt
  have hsplit : data.toList = data.toList.take i ++ data.toList[i] :: data.toList.drop (i + 1) := by
    rw [List.getElem_cons_drop hlt', List.take_append_drop]
  rw [hsplit, fold_upd_last _ _ _ k (by rw [toList_getElem]; exact hi), toList_getElem]
  intro x hx hk
  obtain ⟨j, hj, hxj⟩ := List.getElem_of_mem hx
  have hjl : i + 1 + j < data.toList.length := by
    have : j < data.toList.length - (i + 1) := by simpa using hj
    omega
  rw [List.getElem_drop] at hxj
  rw [← hxj, toList_getElem] at hk
  have := inv.nodup _ _ k hk hi
  omega

/-- ... and a key held by no bucket keeps what the map had -/
theorem fold_buckets_miss {data : Array Slot} (m : Nat → Val) {k : Nat}
    (hno : ∀ i, (slotAt data i).key ≠ some k) : (data.toList.foldl updKV m) k = m k := by
  apply fold_upd_absent
  intro s hs hk
  obtain ⟨j, hj, hsj⟩ := List.getElem_of_mem hs
  rw [← hsj, toList_getElem] at hk
  exact hno j hk

/-! ### an executable check of the struct invariant, proved sound -/

/-- bucket `i` holds key `k`: `i` occurs in `k`'s probe sequence and every bucket before it is live with another key -/
def checkPath (h : Nat → Nat) (data : Array Slot) (i k : Nat) : Bool :=
  let l := probeSeq data.size (maphash data.size (h k))
  l.contains i && (l.takeWhile (· != i)).all (fun x =>
    match (slotAt data x).key with
    | none => false
    | some k' => k' != k)

def checkSlot (h : Nat → Nat) (data : Array Slot) (i : Nat) : Bool :=
  match (slotAt data i).key with
  | none => (slotAt data i).val == vNil
  | some k => (slotAt data i).val != vNil && checkPath h data i k

/-- the struct invariant, decidably -/
def checkSInv (h : Nat → Nat) (data : Array Slot) : Bool :=
  (List.range data.size).all (checkSlot h data)

theorem takeWhile_split (l : List Nat) (i : Nat) (hi : i ∈ l) :
    ∃ post, l = l.takeWhile (· != i) ++ i :: post := by
  induction l with
  | nil => cases hi
  | cons a rest ih =>
    by_cases c : a = i
    · subst c
      exact ⟨rest, by simp [List.takeWhile]⟩
    · have hi' : i ∈ rest := by
        rcases List.mem_cons.mp hi with e | e
        · exact absurd e.symm c
        · exact e
      obtain ⟨post, hp⟩ := ih hi'
      refine ⟨post, ?_⟩
      have : (a != i) = true := by simpa using c
      simp only [List.takeWhile, this, List.cons_append]
      rw [← hp]

theorem checkSInv_sound (h : Nat → Nat) (data : Array Slot) (hc : checkSInv h data = true) :
    DInv h data ∧ NoTomb data := by
  have hall : ∀ i, i < data.size → checkSlot h data i = true := by
    intro i hi
    unfold checkSInv at hc
    rw [List.all_eq_true] at hc
    exact hc i (by simpa using hi)
  have hpath : ∀ i k, (slotAt data i).key = some k →
      (slotAt data i).val ≠ vNil ∧ ∃ pre post, probeSeq data.size (maphash data.size (h k)) = pre ++ i :: post ∧
        ∀ x ∈ pre, ∃ k', (slotAt data x).key = some k' ∧ k' ≠ k := by
    intro i k hi
    have hs := hall i (key_some_lt hi)
    unfold checkSlot at hs
    rw [hi] at hs
    simp only [Bool.and_eq_true, bne_iff_ne, ne_eq] at hs
    refine ⟨hs.1, ?_⟩
    have hp := hs.2
    unfold checkPath at hp
    simp only [Bool.and_eq_true, List.all_eq_true] at hp
    have hmem : i ∈ probeSeq data.size (maphash data.size (h k)) := by
      have := hp.1
      simpa using this
    obtain ⟨post, hsplit⟩ := takeWhile_split _ i hmem
    refine ⟨_, post, hsplit, ?_⟩
    intro x hx
    have := hp.2 x hx
    cases hk : (slotAt data x).key with
    | none => rw [hk] at this; simp at this
    | some k' =>
      rw [hk] at this
      exact ⟨k', rfl, by simpa using this⟩
  refine ⟨⟨?_, ?_, ?_⟩, ?_⟩
  · -- no duplicate keys: both buckets lie on the key's probe sequence; one of them is in the other's prefix
    intro i j k hi hj
    obtain ⟨_, pre1, post1, e1, hp1⟩ := hpath i k hi
    obtain ⟨_, pre2, post2, e2, hp2⟩ := hpath j k hj
    apply Decidable.byContradiction
    intro hne
    have hee : pre1 ++ i :: post1 = pre2 ++ j :: post2 := by rw [← e1, e2]
    rcases List.append_eq_append_iff.mp hee with ⟨a', h1, h2⟩ | ⟨c', h1, h2⟩
    · cases a' with
      | nil =>
        simp only [List.nil_append, List.cons.injEq] at h2
        exact hne h2.1
      | cons a rest =>
        simp only [List.cons_append, List.cons.injEq] at h2
        have hm : i ∈ pre2 := by rw [h1, ← h2.1]; simp
        obtain ⟨k', hk', hne'⟩ := hp2 i hm
        rw [hi] at hk'; cases hk'; exact hne' rfl
    · cases c' with
      | nil =>
        simp only [List.nil_append, List.cons.injEq] at h2
        exact hne h2.1.symm
      | cons c rest =>
        simp only [List.cons_append, List.cons.injEq] at h2
        have hm : j ∈ pre1 := by rw [h1, ← h2.1]; simp
        obtain ⟨k', hk', hne'⟩ := hp1 j hm
        rw [hj] at hk'; cases hk'; exact hne' rfl
  · intro i k hi
    obtain ⟨_, pre, post, e, hp⟩ := hpath i k hi
    refine ⟨pre, post, e, ?_⟩
    intro x hx
    obtain ⟨k', hk', hne'⟩ := hp x hx
    refine ⟨fun he => (by rw [he.1] at hk'; cases hk'), ?_⟩
    rw [hk']; intro e; cases e; exact hne' rfl
  · intro i k hi
    exact (hpath i k hi).1
  · intro i hi
    by_cases hlt : i < data.size
    · have hs := hall i hlt
      unfold checkSlot at hs
      rw [hi] at hs
      simpa using hs
    · rw [slotAt_oob data i (by omega)]; rfl


/-! ### an executable check that two bucket arrays hold the same map, proved sound -/

/-- every live bucket of `a` is found in `b` with the same value -/
def checkSub (h : Nat → Nat) (a b : Array Slot) : Bool :=
  (List.range a.size).all (fun i =>
    match (slotAt a i).key with
    | none => true
    | some k => rawgetD h b k == (slotAt a i).val)

def checkSameMap (h : Nat → Nat) (a b : Array Slot) : Bool := checkSub h a b && checkSub h b a

theorem checkSub_sound {h : Nat → Nat} {a b : Array Slot} (hc : checkSub h a b = true) {i k : Nat}
    (hi : (slotAt a i).key = some k) : rawgetD h b k = (slotAt a i).val := by
  unfold checkSub at hc
  rw [List.all_eq_true] at hc
  have := hc i (by simpa using key_some_lt hi)
  rw [hi] at this
  simpa using this

theorem checkSameMap_sound {h : Nat → Nat} {a b : Array Slot} (ia : DInv h a) (ib : DInv h b)
    (hc : checkSameMap h a b = true) (k : Nat) : rawgetD h a k = rawgetD h b k := by
  unfold checkSameMap at hc
  rw [Bool.and_eq_true] at hc
  by_cases ca : ∃ i, (slotAt a i).key = some k
  · obtain ⟨i, hi⟩ := ca
    rw [rawgetD_hit ia hi, checkSub_sound hc.1 hi]
  · have hno : ∀ i, (slotAt a i).key ≠ some k := fun i hi => ca ⟨i, hi⟩
    rw [rawgetD_miss hno]
    by_cases cb : ∃ j, (slotAt b j).key = some k
    · obtain ⟨j, hj⟩ := cb
      have h1 := checkSub_sound hc.2 hj
      rw [rawgetD_miss hno] at h1
      exact absurd h1.symm (ib.live j k hj)
    · have hnb : ∀ j, (slotAt b j).key ≠ some k := fun j hj => cb ⟨j, hj⟩
      rw [rawgetD_miss hnb]

/-- certificate for one `table/to-struct` result: the struct invariant holds and both bucket arrays hold the same map -/
def certToStruct (h : Nat → Nat) (t : Table) (s : Struct) : Bool :=
  checkSInv h s.data && checkSameMap h t.data s.data

end JanetModel.Table
