#!/usr/bin/env python3
"""Replace the `### Cxx` entries of DESIGN.md §3 by the builders' drafts in notes/design_s4/Cxx.section.md.
usage: tools/design_sections.py C04 C07 …   (ids whose draft should be pasted)"""
import re, sys, os, html
V = os.path.dirname(os.path.dirname(os.path.abspath(__file__)))
p = os.path.join(V, "DESIGN.md")
d = open(p).read()
for pid in sys.argv[1:]:
    sec = open(os.path.join(V, "notes/design_s4/%s.section.md" % pid)).read().strip("\n")
    sec = html.unescape(sec)
    m = re.search(r"^### %s\b.*?(?=^### C\d\d\b|^-{20,}\s*$)" % pid, d, flags=re.S | re.M)
    assert m, pid
    if not sec.startswith("### " + pid):
        sec = "### " + pid + " — " + sec
    d = d[:m.start()] + sec + "\n\n" + d[m.end():]
    print(pid, "replaced", len(sec.splitlines()), "lines")
open(p, "w").write(d)
