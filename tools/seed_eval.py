#!/usr/bin/env python3
"""Confirm a seeded change and run the property's check against it.

usage: tools/seed_eval.py <ID> <src dir with patch.diff, demo*, meta.json> <name>
  1. scratch worktree of /repo HEAD under /tmp; build (make); run the demo -> must pass
  2. apply patch; build; run the repo test suite (serialised) -> must pass; run the demo -> must fail
  3. VERIF_REPO=<worktree> ./check <ID>  -> expect exit 1 + VIOLATION
  4. write /verif/seeded/<name>/{patch.diff, demo files, meta.json (with what was run and what happened)}
  5. remove the worktree
"""
import json, os, shutil, subprocess, sys, time

VERIF = os.path.dirname(os.path.dirname(os.path.abspath(__file__)))


def sh(cmd, cwd=None, timeout=3600, env=None):
    t = time.time()
    try:
        r = subprocess.run(cmd, shell=True, cwd=cwd, stdout=subprocess.PIPE, stderr=subprocess.STDOUT, timeout=timeout, env=env)
        return r.returncode, r.stdout.decode(errors="replace"), time.time() - t
    except subprocess.TimeoutExpired as e:
        return 124, (e.stdout or b"").decode(errors="replace") + "\nTIMEOUT", time.time() - t


def snapshot():
    """Checks are run from a snapshot of /verif's committed HEAD (builders may be mid-edit in the live tree)."""
    if os.environ.get("SEED_EVAL_LIVE"):
        return VERIF
    head = sh("git -C %s rev-parse --short HEAD" % VERIF)[1].strip()
    snap = "/var/tmp/verif-snap/" + head
    import fcntl
    os.makedirs("/var/tmp/verif-snap", exist_ok=True)
    with open("/var/tmp/verif-snap/.lock", "w") as lk:
        fcntl.flock(lk, fcntl.LOCK_EX)
        if not os.path.exists(os.path.join(snap, ".ready")):
            sh("rm -rf %s" % snap)
            rc, out, _ = sh("git -C %s worktree add --detach %s HEAD" % (VERIF, snap))
            assert rc == 0, out
            sh("rsync -a %s/lean/.lake/ %s/lean/.lake/" % (VERIF, snap))
            rc, out, _ = sh("lake build", cwd=os.path.join(snap, "lean"), timeout=3600)
            open(os.path.join(snap, ".ready"), "w").write(out[-300:])
        # drop older snapshots
        for d in os.listdir("/var/tmp/verif-snap"):
            q = os.path.join("/var/tmp/verif-snap", d)
            if os.path.isdir(q) and d != head and time.time() - os.path.getmtime(q) > 7200:
                sh("git -C %s worktree remove --force %s" % (VERIF, q))
                sh("rm -rf %s" % q)
    return snap


def main():
    pid, src, name = sys.argv[1], sys.argv[2], sys.argv[3]
    SNAP = snapshot()
    extra_checks = sys.argv[4:]  # other property ids to run too
    meta = json.load(open(os.path.join(src, "meta.json")))
    wt = "/tmp/ev-" + name
    sh("git -C /repo worktree remove --force %s" % wt)
    rc, out, _ = sh("git -C /repo worktree add -q --detach %s HEAD" % wt)
    assert rc == 0, out
    res = {"repo_head": sh("git -C /repo rev-parse --short HEAD")[1].strip(), "verif_snapshot": SNAP}
    try:
        # copy demo files into the worktree at the path the demo_cmd expects (/tmp/seed-<ID>-out/<k>/ -> keep absolute refs working)
        demo_cmd = meta["demo_cmd"]
        demo_cmd = demo_cmd.replace("/tmp/seed-%s" % pid + "/", wt + "/").replace("/tmp/seed-%s " % pid, wt + " ")
        rc, out, t = sh("make -j16 2>&1 | tail -3", cwd=wt)
        rc, out, t = sh(demo_cmd, cwd=wt, timeout=600)
        res["demo_clean"] = {"rc": rc, "tail": out[-400:], "s": round(t, 1)}
        rc, out, _ = sh("git apply %s" % os.path.join(src, "patch.diff"), cwd=wt)
        res["patch_applies"] = (rc == 0)
        if rc != 0:
            res["apply_error"] = out[-400:]
        else:
            rc, out, t = sh("make -j16 2>&1 | tail -5", cwd=wt)
            res["builds"] = os.path.exists(os.path.join(wt, "build/janet"))
            rc, out, t = sh("flock /var/tmp/janet-verif/.suite.lock timeout -k 10 900 make test 2>&1 | tail -15", cwd=wt, timeout=3600)  # a hung suite must not keep the machine-wide lock
            res["suite"] = {"rc": rc, "tail": out[-600:], "s": round(t, 1)}
            res["tests_pass"] = ("All tests passed" in out) or (rc == 0 and "failed" not in out.lower())
            rc, out, t = sh(demo_cmd, cwd=wt, timeout=600)
            res["demo_mutated"] = {"rc": rc, "tail": out[-600:], "s": round(t, 1)}
            sh("rm -rf build", cwd=wt)
            res["checks"] = {}
            for cid in [pid] + extra_checks:
                env = dict(os.environ, VERIF_REPO=wt)
                rc, out, t = sh("./check %s --tier quick" % cid, cwd=SNAP, timeout=3600, env=env)
                viol = [l for l in out.splitlines() if l.startswith("VIOLATION") or l.startswith("KNOWN-FINDING") or l.startswith("CHECK-ERROR")]
                res["checks"][cid] = {"rc": rc, "lines": viol[:12], "s": round(t, 1), "tail": out[-1500:] if rc not in (0, 1) else ""}
                # keep the first replay for the record
                for l in viol:
                    if l.startswith("VIOLATION") and "replay=" in l:
                        p = l.split("replay=")[1].split()[0]
                        if os.path.exists(p):
                            try:
                                res["checks"][cid]["first_replay"] = json.load(open(p))
                                s = json.dumps(res["checks"][cid]["first_replay"])
                                if len(s) > 4000:
                                    res["checks"][cid]["first_replay"] = s[:4000] + "...(truncated)"
                            except Exception:
                                pass
                        break
    finally:
        sh("git -C /repo worktree remove --force %s" % wt)
        import hashlib
        sh("rm -rf /var/tmp/janet-verif-alt/%s" % hashlib.sha256(wt.encode()).hexdigest()[:10])
    dst = os.path.join(VERIF, "seeded", name)
    os.makedirs(dst, exist_ok=True)
    for f in ([] if os.path.abspath(src) == os.path.abspath(dst) else os.listdir(src)):
        if f in ("test.log",):
            continue
        p = os.path.join(src, f)
        if os.path.isfile(p) and os.path.getsize(p) < 200000:
            shutil.copy(p, dst)
    old = os.path.join(dst, "meta.json")
    if os.path.exists(old):
        try:
            om = json.load(open(old))
            hist = om.get("history", [])
            if "evaluation" in om:
                hist.append({"verif_commit": om["evaluation"].get("verif_snapshot", "live tree"), "detected": om.get("detected"),
                             "checks": {c: {"rc": v.get("rc"), "lines": v.get("lines", [])[:3]} for c, v in om["evaluation"].get("checks", {}).items()}})
            meta["history"] = hist
            for k2 in ("confirmed_note",):
                if k2 in om:
                    meta[k2] = om[k2]
        except Exception:
            pass
    meta["evaluation"] = res
    confirmed = res.get("patch_applies") and res.get("builds") and res.get("tests_pass") and res.get("demo_clean", {}).get("rc") == 0 and res.get("demo_mutated", {}).get("rc") not in (0, None)
    meta["confirmed"] = bool(confirmed)
    meta["detected"] = {c: (v["rc"] == 1 and any(l.startswith("VIOLATION") for l in v["lines"])) for c, v in res.get("checks", {}).items()}
    json.dump(meta, open(os.path.join(dst, "meta.json"), "w"), indent=1)
    print(name, "confirmed=%s" % meta["confirmed"], "detected=%s" % meta["detected"])
    for c, v in res.get("checks", {}).items():
        print("  ", c, "rc=%s" % v["rc"], "%.0fs" % v["s"], v["lines"][:3])
    if not confirmed:
        print(json.dumps({k: res.get(k) for k in ("patch_applies", "builds", "tests_pass", "demo_clean", "demo_mutated", "apply_error")}, indent=1)[:1500])


main()
