#!/usr/bin/env python3
"""Fill the numbers of DESIGN.md that are derived from the trees: header placeholders (or their previous values, kept between
HTML-comment markers) and the §7 table of quick-tier wall times / obligation counts from evidence/*.json.  Idempotent."""
import json, glob, os, re, subprocess
V = os.path.dirname(os.path.dirname(os.path.abspath(__file__)))
p = os.path.join(V, "DESIGN.md")
d = open(p).read()
sh = lambda c: subprocess.run(c, shell=True, capture_output=True, text=True).stdout.strip()
nfix = sh("git -C /repo log --oneline | grep -c ' fix:'")
ncommits = sh("git -C %s log --oneline | wc -l" % V)
nlean = sh("find %s/lean/JanetModel %s/lean/Driver -name '*.lean' | xargs cat | wc -l" % (V, V))
ev = {}
for f in sorted(glob.glob(os.path.join(V, "evidence/C*.json"))):
    e = json.load(open(f)); ev[e["property_id"]] = e
nobl = sum((e["coverage"].get("obligations") or 0) for e in ev.values())
vals = {"NFIX": nfix, "NCOMMITS": ncommits, "NOBL": str(nobl), "NLEAN": "%d 000" % (int(nlean) // 1000)}
for k, v in vals.items():
    d = d.replace("@%s@" % k, "<!--%s-->%s<!--/-->" % (k, v))
    d = re.sub(r"<!--%s-->.*?<!--/-->" % k, "<!--%s-->%s<!--/-->" % (k, v), d)
# §7 table
cells = []
for pid in sorted(ev):
    e = ev[pid]
    cells.append("%s %.0f s (%d)" % (pid, e.get("wall_s") or 0, e["coverage"].get("obligations") or 0))
rows = ["| " + " | ".join(cells[i:i + 5]) + " |" for i in range(0, len(cells), 5)]
tab = "| | | | | |\n|---|---|---|---|---|\n" + "\n".join(rows) + "\n"
d = re.sub(r"\| \| \| \| \| \|\n\|---\|---\|---\|---\|---\|\n(\| C\d\d .*\n)+", lambda m: tab, d)
open(p, "w").write(d)
print(vals, len(cells))
