#!/bin/sh
out=$1; mkdir -p $out; rm -f $out/summary.txt
for grp in "C01 C02 C03 C04 C05" "C06 C07 C08 C09 C10" "C11 C12 C13 C14 C15" "C16 C17 C18 C19 C20"; do
  /verif/tools/runall.sh $out $grp
done
