#!/usr/bin/env python3
"""Regenerate MANIFEST.json from tools/manifest.d/<id>.json (one file per claimed property) + properties.jsonl."""
import json, os
here = os.path.dirname(os.path.dirname(os.path.abspath(__file__)))
claimed = {}
for f in sorted(os.listdir(os.path.join(here, "tools/manifest.d"))):
    if f.endswith(".json"):
        claimed[f[:-5]] = json.load(open(os.path.join(here, "tools/manifest.d", f)))
ids = [json.loads(l)["id"] for l in open(os.path.join(here, "properties.jsonl"))]
checks, na = [], []
for i in ids:
    c = claimed.get(i)
    if c and not c.get("not_applicable"):
        checks.append({
            "property_id": i,
            "quick_cmd": "./check %s --tier quick" % i,
            "thorough_cmd": "./check %s --tier thorough" % i,
            "evidence_file": "/verif/evidence/%s.json" % i,
            "replay_cmd_template": "./check %s --replay {path}" % i,
            "engine": "lean4-proof+correspondence",
            "level_claimed": {"category": c["category"], "text": c["text"], "design_ref": "DESIGN.md section 3, " + i},
            "level_note": c["note"],
            "technique": c["technique"],
        })
    else:
        na.append({"property_id": i, "reason": (c or {}).get("reason", "check not built yet (work in progress; see DESIGN.md section 3 for the plan)")})
m = {
    "version": 1,
    "setup_cmd": "./setup.sh",
    "hooks": {"guard": "JANET_VERIF", "enable": "vlib/build.py compiles every variant except `nohooks` with -DJANET_VERIF",
              "baseline_off_cmd": "./check baseline_off", "source_commits": json.load(open(os.path.join(here, "tools/hook_commits.json"))), "add_only": True},
    "engines": [{"name": "lean4-proof+correspondence", "path": "/verif/check", "serves_properties": [c["property_id"] for c in checks],
                 "kind_free_text": "Lean 4 theorems over hand-written models and regenerated tables (lake build + axiom audit on every run), tied to the C by a translator (tools/gen) and a differential correspondence harness (harness/) against ASan builds of the current tree"}],
    "checks": checks,
    "not_applicable": na,
    "notes": "See DESIGN.md. Every check: regenerate Gen/*.lean from /repo, lake build Props/<id>, audit axioms, run correspondence, search for a failing input on any break.",
}
json.dump(m, open(os.path.join(here, "MANIFEST.json"), "w"), indent=1)
print("claimed:", [c["property_id"] for c in checks])
