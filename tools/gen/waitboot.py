"""Translator for C07 (boot.janet part): the forms that cancel other tasks -> lean/JanetModel/Gen/WaitBoot.lean.

`cancel-all`, `wait-for-fibers`, `ev/gather` and `ev/with-deadline` are cut from the current src/boot/boot.janet, read with a
small janet reader (tuples, bracket tuples, structs / tables, strings, long strings, comments, the reader macros ' ~ , ;),
their docstring is dropped and their LOCAL names (parameters, with-syms / let / def / each / seq bindings) are renamed $0, $1, …
in order of binding, so that a renamed local or a reworded docstring is not a difference.  The result is emitted as `Sexp`
data; Lean (Props/C07 `boot_forms_are_the_mirrored_ones`) compares it with the forms the mirrors of Wait/Gather.lean were written from.
ExtractError: a form is missing or unreadable.
"""
import re

from . import csrc
from .csrc import ExtractError

FORMS = [("cancelAllForm", "defn-", "cancel-all"), ("waitForFibersForm", "defn-", "wait-for-fibers"),
         ("gatherForm", "defmacro", "ev/gather"), ("withDeadlineForm", "defmacro", "ev/with-deadline")]

_DELIM = set("()[]{}\"`;',~@ \t\r\n#")
_READER = {"'": "quote", "~": "quasiquote", ",": "unquote", ";": "splice"}
_CLOSE = {"(": ")", "[": "]", "{": "}"}


def read_form(src, i):
    """-> (tree, next index).  tree: str (atom) | (bracket, [items])"""
    n = len(src)
    while i < n:
        c = src[i]
        if c.isspace():
            i += 1
        elif c == "#":
            while i < n and src[i] != "\n":
                i += 1
        else:
            break
    if i >= n:
        raise ExtractError("boot.janet: unexpected end of text")
    c = src[i]
    if c in _READER:
        t, j = read_form(src, i + 1)
        return ("(", [_READER[c], t]), j
    if c == "@" and i + 1 < n and src[i + 1] in "([{\"`":
        t, j = read_form(src, i + 1)
        return ("(", ["@", t]), j
    if c in _CLOSE:
        items, i = [], i + 1
        while True:
            while i < n and (src[i].isspace() or src[i] == "#"):
                if src[i] == "#":
                    while i < n and src[i] != "\n":
                        i += 1
                else:
                    i += 1
            if i >= n:
                raise ExtractError("boot.janet: unbalanced %s" % c)
            if src[i] == _CLOSE[c]:
                return (c, items), i + 1
            if src[i] in ")]}":
                raise ExtractError("boot.janet: mismatched bracket")
            t, i = read_form(src, i)
            items.append(t)
    if c == '"':
        j = i + 1
        while j < n and src[j] != '"':
            j += 2 if src[j] == "\\" else 1
        return src[i:j + 1], j + 1
    if c == "`":
        k = i
        while k < n and src[k] == "`":
            k += 1
        fence = src[i:k]
        j = src.find(fence, k)
        if j < 0:
            raise ExtractError("boot.janet: unterminated long string")
        return '"<long string>"', j + len(fence)
    j = i
    while j < n and src[j] not in _DELIM:
        j += 1
    if j == i:
        raise ExtractError("boot.janet: cannot read at %r" % src[i:i + 20])
    return src[i:j], j


def find_form(src, head, name):
    m = re.search(r"\(%s\s+%s(?=[\s\[])" % (re.escape(head), re.escape(name)), src)
    if not m:
        raise ExtractError("boot.janet: (%s %s ...) not found" % (head, name))
    t, _ = read_form(src, m.start())
    return t


def is_str(t):
    return isinstance(t, str) and t.startswith('"')


def pattern_syms(p, out):
    if isinstance(p, str):
        if not p.startswith((":", '"', "&")) and not re.match(r"^-?\d", p) and p not in ("nil", "true", "false"):
            out.append(p)
    else:
        xs = p[1]
        if p[0] == "(" and xs and xs[0] in ("quote", "quasiquote", "unquote", "splice", "@"):
            xs = xs[1:]              # a reader macro: `,f` in a quasiquoted binding position binds nothing new by itself
            if p[1][0] == "unquote":
                return               # the value of an outer local, already bound by with-syms
        for x in xs:
            pattern_syms(x, out)


def binders(t, out):
    """symbols bound inside the form, in order of binding"""
    if isinstance(t, str):
        return
    br, xs = t
    if br == "(" and xs and isinstance(xs[0], str):
        h = xs[0]
        if h in ("defn-", "defn", "defmacro", "fn") :
            for x in xs[1:]:
                if not isinstance(x, str) and x[0] == "[":
                    pattern_syms(x, out)
                    break
        elif h in ("with-syms",) and len(xs) > 1:
            pattern_syms(xs[1], out)
        elif h in ("let", "if-let", "when-let") and len(xs) > 1 and not isinstance(xs[1], str):
            for k in range(0, len(xs[1][1]), 2):
                pattern_syms(xs[1][1][k], out)
        elif h in ("def", "var") and len(xs) > 1:
            pattern_syms(xs[1], out)
        elif h in ("each", "eachp", "eachk", "for") and len(xs) > 1:
            pattern_syms(xs[1], out)
        elif h in ("seq", "loop") and len(xs) > 1 and not isinstance(xs[1], str) and xs[1][1]:
            pattern_syms(xs[1][1][0], out)
    for x in xs:
        binders(x, out)


def rename(t, env):
    if isinstance(t, str):
        return env.get(t, t)
    return (t[0], [rename(x, env) for x in t[1]])


def normalise(t, name):
    br, xs = t
    # drop the docstring: a string directly after the name
    xs = list(xs)
    if len(xs) > 3 and is_str(xs[2]):
        del xs[2]
    t = (br, xs)
    bs = []
    binders(t, bs)
    env = {}
    for b in bs:
        if b not in env and b != name:
            env[b] = "$%d" % len(env)
    return rename(t, env)


def lean(t):
    if isinstance(t, str):
        return '.atom "%s"' % t.replace("\\", "\\\\").replace('"', '\\"')
    return ".list '%s' [%s]" % (t[0], ", ".join(lean(x) for x in t[1]))


def show(t):
    if isinstance(t, str):
        return t
    return t[0] + " ".join(show(x) for x in t[1]) + _CLOSE[t[0]]


def extract(tree):
    src = csrc.read(tree, "src/boot/boot.janet")
    return {lname: normalise(find_form(src, head, name), name) for lname, head, name in FORMS}


def render(d, ns="JanetModel.Gen.WaitBoot"):
    L = ["import JanetModel.Wait.Gather",
         "-- GENERATED by tools/gen/waitboot.py from src/boot/boot.janet (docstrings dropped, locals renamed in order of binding) — do not edit",
         "namespace %s" % ns, "open JanetModel.Wait.Gather", ""]
    for lname, _, name in FORMS:
        L.append("-- %s" % show(d[lname]))
        L.append("abbrev %s : Sexp :=\n  %s" % (lname, lean(d[lname])))
        L.append("")
    L.append("end %s" % ns)
    return "\n".join(L) + "\n"


if __name__ == "__main__":
    import sys
    sys.stdout.write(render(extract(sys.argv[1] if len(sys.argv) > 1 else "/repo"), *(sys.argv[2:3])))
