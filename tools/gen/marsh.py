"""Translator: marsh.c  ->  Gen/Marsh.lean (lead-byte enum, integer codec constants)."""
import re
from . import csrc
from .csrc import ExtractError


def extract(tree):
    src = csrc.strip_comments(csrc.read(tree, "src/core/marsh.c"))
    lb = csrc.enum_values(src, "LB_REAL")
    push = csrc.func_body(src, "pushint")
    rd = csrc.func_body(src, "readint")
    c = {}
    m = re.search(r"if\s*\(\s*x\s*>=\s*0\s*&&\s*x\s*<\s*(\w+)\s*\)", push)
    if not m:
        raise ExtractError("pushint: 1-byte range test not recognised")
    c["pushSmallLim"] = csrc.cint(m.group(1))
    m = re.search(r"else\s+if\s*\(\s*x\s*<=\s*(-?\w+)\s*&&\s*x\s*>=\s*(-?\w+)\s*\)", push)
    if not m:
        raise ExtractError("pushint: 2-byte range test not recognised")
    c["pushMidHi"], c["pushMidLo"] = csrc.cint(m.group(1)), csrc.cint(m.group(2))
    m = re.search(r"intbuf\[0\]\s*=\s*\(\(x\s*>>\s*(\w+)\)\s*&\s*(\w+)\)\s*\|\s*(\w+)\s*;\s*intbuf\[1\]\s*=\s*x\s*&\s*(\w+)\s*;", push)
    if not m:
        raise ExtractError("pushint: 2-byte encoding not recognised")
    c["pushMidShift"], c["pushMidMask"], c["pushMidTag"], c["pushMidLowMask"] = [csrc.cint(g) for g in m.groups()]
    m = re.search(r"intbuf\[0\]\s*=\s*LB_INTEGER\s*;\s*intbuf\[1\]\s*=\s*\(x\s*>>\s*24\)\s*&\s*0xFF\s*;\s*intbuf\[2\]\s*=\s*\(x\s*>>\s*16\)\s*&\s*0xFF\s*;"
                  r"\s*intbuf\[3\]\s*=\s*\(x\s*>>\s*8\)\s*&\s*0xFF\s*;\s*intbuf\[4\]\s*=\s*x\s*&\s*0xFF\s*;", push)
    if not m:
        raise ExtractError("pushint: 5-byte big-endian encoding not recognised")
    m = re.search(r"if\s*\(\s*\*data\s*<\s*(\w+)\s*\)\s*\{\s*ret\s*=\s*\*data\+\+\s*;", rd)
    if not m:
        raise ExtractError("readint: 1-byte case not recognised")
    c["readSmallLim"] = csrc.cint(m.group(1))
    m = re.search(r"else\s+if\s*\(\s*\*data\s*<\s*(\w+)\s*\)\s*\{\s*MARSH_EOS\s*\(\s*st\s*,\s*data\s*\+\s*1\s*\)\s*;\s*uint32_t\s+uret\s*=\s*\(\(data\[0\]\s*&\s*(\w+)\)\s*<<\s*(\w+)\)\s*\+\s*data\[1\]\s*;"
                  r"\s*uret\s*\|=\s*\(uret\s*>>\s*(\w+)\)\s*\?\s*(\w+)\s*:\s*0\s*;", rd)
    if not m:
        raise ExtractError("readint: 2-byte case not recognised")
    c["readMidLim"], c["readMidMask"], c["readMidShift"], c["readSignShift"], c["readSignFill"] = [csrc.cint(g) for g in m.groups()]
    m = re.search(r"else\s+if\s*\(\s*\*data\s*==\s*LB_INTEGER\s*\)\s*\{\s*MARSH_EOS\s*\(\s*st\s*,\s*data\s*\+\s*4\s*\)\s*;\s*uint32_t\s+ui\s*=\s*"
                  r"\(\(uint32_t\)\s*\(data\[1\]\)\s*<<\s*24\)\s*\|\s*\(\(uint32_t\)\s*\(data\[2\]\)\s*<<\s*16\)\s*\|\s*\(\(uint32_t\)\s*\(data\[3\]\)\s*<<\s*8\)\s*\|\s*\(uint32_t\)\s*\(data\[4\]\)\s*;", rd)
    if not m:
        raise ExtractError("readint: 5-byte case not recognised")
    eos = re.search(r"#define\s+MARSH_EOS\s*\(\s*st\s*,\s*data\s*\)\s*do\s*\{\s*\\?\s*if\s*\(\s*\(data\)\s*>=\s*\(st\)->end\s*\)", csrc.read(tree, "src/core/marsh.c"))
    if not eos:
        raise ExtractError("MARSH_EOS: bound test `(data) >= (st)->end` not recognised")
    # bit operations -> arithmetic (the Lean model uses / and %); each step is checked to be an identity
    def pow2(v, what):
        if v <= 0 or v & (v - 1):
            raise ExtractError("%s: %d is not a power of two" % (what, v))
        return v
    a = {}
    a["pushSmallLim"], a["pushMidHi"], a["pushMidLo"] = c["pushSmallLim"], c["pushMidHi"], c["pushMidLo"]
    a["pushMidDiv"] = 1 << c["pushMidShift"]
    a["pushMidMod"] = pow2(c["pushMidMask"] + 1, "pushint mask")
    if c["pushMidTag"] & c["pushMidMask"]:
        raise ExtractError("pushint: tag bit overlaps mask")
    a["pushMidTag"] = c["pushMidTag"]
    a["pushLowMod"] = pow2(c["pushMidLowMask"] + 1, "pushint low mask")
    a["readSmallLim"], a["readMidLim"] = c["readSmallLim"], c["readMidLim"]
    a["readMidMod"] = pow2(c["readMidMask"] + 1, "readint mask")
    a["readMidMul"] = 1 << c["readMidShift"]
    a["readSignThresh"] = 1 << c["readSignShift"]
    sub = (1 << 32) - c["readSignFill"]
    pow2(sub, "readint sign fill complement")
    if a["readMidMod"] * a["readMidMul"] > sub:
        raise ExtractError("readint: sign fill overlaps payload bits, `|=` is not an addition")
    a["readSignSub"] = sub
    return lb, a


def render(tree):
    lb, c = extract(tree)
    out = [csrc.lean_header("src/core/marsh.c"), "namespace JanetModel.Gen.Marsh\n"]
    out.append("/-- lead bytes (enum at the top of marsh.c) -/")
    for k, v in lb.items():
        out.append("abbrev %s : Nat := %d" % (k.lower().replace("lb_", "lb") if False else "lb_" + k[3:].lower(), v))
    out.append("\ndef leadBytes : List (String × Nat) := [" + ", ".join('("%s", %d)' % (k, v) for k, v in lb.items()) + "]\n")
    out.append("/-- constants read off `pushint` / `readint` -/")
    for k, v in c.items():
        ty = "Int" if k in ("pushMidHi", "pushMidLo", "pushSmallLim", "pushMidDiv", "pushMidMod", "pushLowMod") else "Nat"
        out.append("abbrev %s : %s := %s" % (k, ty, ("(%d)" % v) if v < 0 else str(v)))
    out.append("\nend JanetModel.Gen.Marsh\n")
    return "\n".join(out)
