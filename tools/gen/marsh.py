"""Translator: marsh.c  ->  Gen/Marsh.lean (lead-byte enum, integer codec constants)."""
import re
from . import csrc
from .csrc import ExtractError


def extract(tree):
    src = csrc.strip_comments(csrc.read(tree, "src/core/marsh.c"))
    lb = csrc.enum_values(src, "LB_REAL")
    push = csrc.func_body(src, "pushint")
    rd = csrc.func_body(src, "readint")
    c = {}
    m = re.search(r"if\s*\(\s*x\s*>=\s*0\s*&&\s*x\s*<\s*(\w+)\s*\)", push)
    if not m:
        raise ExtractError("pushint: 1-byte range test not recognised")
    c["pushSmallLim"] = csrc.cint(m.group(1))
    m = re.search(r"else\s+if\s*\(\s*x\s*<=\s*(-?\w+)\s*&&\s*x\s*>=\s*(-?\w+)\s*\)", push)
    if not m:
        raise ExtractError("pushint: 2-byte range test not recognised")
    c["pushMidHi"], c["pushMidLo"] = csrc.cint(m.group(1)), csrc.cint(m.group(2))
    m = re.search(r"intbuf\[0\]\s*=\s*\(\(x\s*>>\s*(\w+)\)\s*&\s*(\w+)\)\s*\|\s*(\w+)\s*;\s*intbuf\[1\]\s*=\s*x\s*&\s*(\w+)\s*;", push)
    if not m:
        raise ExtractError("pushint: 2-byte encoding not recognised")
    c["pushMidShift"], c["pushMidMask"], c["pushMidTag"], c["pushMidLowMask"] = [csrc.cint(g) for g in m.groups()]
    m = re.search(r"intbuf\[0\]\s*=\s*LB_INTEGER\s*;\s*intbuf\[1\]\s*=\s*\(x\s*>>\s*24\)\s*&\s*0xFF\s*;\s*intbuf\[2\]\s*=\s*\(x\s*>>\s*16\)\s*&\s*0xFF\s*;"
                  r"\s*intbuf\[3\]\s*=\s*\(x\s*>>\s*8\)\s*&\s*0xFF\s*;\s*intbuf\[4\]\s*=\s*x\s*&\s*0xFF\s*;", push)
    if not m:
        raise ExtractError("pushint: 5-byte big-endian encoding not recognised")
    m = re.search(r"if\s*\(\s*\*data\s*<\s*(\w+)\s*\)\s*\{\s*ret\s*=\s*\*data\+\+\s*;", rd)
    if not m:
        raise ExtractError("readint: 1-byte case not recognised")
    c["readSmallLim"] = csrc.cint(m.group(1))
    m = re.search(r"else\s+if\s*\(\s*\*data\s*<\s*(\w+)\s*\)\s*\{\s*MARSH_EOS\s*\(\s*st\s*,\s*data\s*\+\s*1\s*\)\s*;\s*uint32_t\s+uret\s*=\s*\(\(data\[0\]\s*&\s*(\w+)\)\s*<<\s*(\w+)\)\s*\+\s*data\[1\]\s*;"
                  r"\s*uret\s*\|=\s*\(uret\s*>>\s*(\w+)\)\s*\?\s*(\w+)\s*:\s*0\s*;", rd)
    if not m:
        raise ExtractError("readint: 2-byte case not recognised")
    c["readMidLim"], c["readMidMask"], c["readMidShift"], c["readSignShift"], c["readSignFill"] = [csrc.cint(g) for g in m.groups()]
    m = re.search(r"else\s+if\s*\(\s*\*data\s*==\s*LB_INTEGER\s*\)\s*\{\s*MARSH_EOS\s*\(\s*st\s*,\s*data\s*\+\s*4\s*\)\s*;\s*uint32_t\s+ui\s*=\s*"
                  r"\(\(uint32_t\)\s*\(data\[1\]\)\s*<<\s*24\)\s*\|\s*\(\(uint32_t\)\s*\(data\[2\]\)\s*<<\s*16\)\s*\|\s*\(\(uint32_t\)\s*\(data\[3\]\)\s*<<\s*8\)\s*\|\s*\(uint32_t\)\s*\(data\[4\]\)\s*;", rd)
    if not m:
        raise ExtractError("readint: 5-byte case not recognised")
    eos = re.search(r"#define\s+MARSH_EOS\s*\(\s*st\s*,\s*data\s*\)\s*do\s*\{\s*\\?\s*if\s*\(\s*\(data\)\s*>=\s*\(st\)->end\s*\)", csrc.read(tree, "src/core/marsh.c"))
    if not eos:
        raise ExtractError("MARSH_EOS: bound test `(data) >= (st)->end` not recognised")
    # bit operations -> arithmetic (the Lean model uses / and %); each step is checked to be an identity
    def pow2(v, what):
        if v <= 0 or v & (v - 1):
            raise ExtractError("%s: %d is not a power of two" % (what, v))
        return v
    a = {}
    a["pushSmallLim"], a["pushMidHi"], a["pushMidLo"] = c["pushSmallLim"], c["pushMidHi"], c["pushMidLo"]
    a["pushMidDiv"] = 1 << c["pushMidShift"]
    a["pushMidMod"] = pow2(c["pushMidMask"] + 1, "pushint mask")
    if c["pushMidTag"] & c["pushMidMask"]:
        raise ExtractError("pushint: tag bit overlaps mask")
    a["pushMidTag"] = c["pushMidTag"]
    a["pushLowMod"] = pow2(c["pushMidLowMask"] + 1, "pushint low mask")
    a["readSmallLim"], a["readMidLim"] = c["readSmallLim"], c["readMidLim"]
    a["readMidMod"] = pow2(c["readMidMask"] + 1, "readint mask")
    a["readMidMul"] = 1 << c["readMidShift"]
    a["readSignThresh"] = 1 << c["readSignShift"]
    sub = (1 << 32) - c["readSignFill"]
    pow2(sub, "readint sign fill complement")
    if a["readMidMod"] * a["readMidMul"] > sub:
        raise ExtractError("readint: sign fill overlaps payload bits, `|=` is not an addition")
    a["readSignSub"] = sub
    a.update(extract_size(tree, src))
    return lb, a


def extract_size(tree, src):
    """push64/read64 threshold, recursion guard."""
    p64 = csrc.func_body(src, "push64")
    r64 = csrc.func_body(src, "read64")
    m = re.search(r"if\s*\(\s*x\s*<=\s*(\w+)\s*\)\s*\{\s*pushbyte\s*\(\s*st\s*,\s*\(uint8_t\)\s*x\s*\)\s*;\s*\}\s*else\s*\{\s*uint8_t\s+bytes\[9\]\s*;\s*int\s+nbytes\s*=\s*0\s*;"
                  r"\s*while\s*\(\s*x\s*\)\s*\{\s*bytes\[\+\+nbytes\]\s*=\s*x\s*&\s*0xFF\s*;\s*x\s*>>=\s*8\s*;\s*\}\s*bytes\[0\]\s*=\s*(\w+)\s*\+\s*nbytes\s*;"
                  r"\s*pushbytes\s*\(\s*st\s*,\s*bytes\s*,\s*nbytes\s*\+\s*1\s*\)\s*;", p64)
    if not m:
        raise ExtractError("push64: shape not recognised")
    t1, t2 = csrc.cint(m.group(1)), csrc.cint(m.group(2))
    m = re.search(r"if\s*\(\s*\*data\s*<=\s*(\w+)\s*\)\s*\{\s*ret\s*=\s*\*data\s*;\s*\*atdata\s*=\s*data\s*\+\s*1\s*;\s*\}\s*else\s*\{\s*int\s+nbytes\s*=\s*\*data\s*-\s*(\w+)\s*;\s*ret\s*=\s*0\s*;"
                  r"\s*if\s*\(\s*nbytes\s*>\s*8\s*\)\s*janet_panic\s*\([^;]*;\s*MARSH_EOS\s*\(\s*st\s*,\s*data\s*\+\s*nbytes\s*\)\s*;"
                  r"\s*for\s*\(\s*int\s+i\s*=\s*nbytes\s*;\s*i\s*>\s*0\s*;\s*i--\s*\)\s*ret\s*=\s*\(ret\s*<<\s*8\)\s*\+\s*data\[i\]\s*;\s*\*atdata\s*=\s*data\s*\+\s*nbytes\s*\+\s*1\s*;", r64)
    if not m:
        raise ExtractError("read64: shape not recognised")
    t3, t4 = csrc.cint(m.group(1)), csrc.cint(m.group(2))
    if not (t1 == t2 == t3 == t4):
        raise ExtractError("push64/read64: thresholds disagree %r" % ((t1, t2, t3, t4),))
    hdr = csrc.strip_comments(csrc.read(tree, "src/include/janet.h"))
    m = re.search(r"#define\s+JANET_RECURSION_GUARD\s+(\d+)", hdr)
    if not m:
        raise ExtractError("JANET_RECURSION_GUARD not found")
    guard = int(m.group(1))
    if not re.search(r"#define\s+MARSH_STACKCHECK\s+if\s*\(\(flags\s*&\s*0xFFFF\)\s*>\s*JANET_RECURSION_GUARD\)", src):
        raise ExtractError("MARSH_STACKCHECK: shape not recognised")
    return {"push64Small": t1, "recursionGuard": guard}


def _case_block(body, label):
    m = re.search(r"case\s+%s\s*:\s*\{" % label, body)
    if not m:
        raise ExtractError("marshal_one: case %s not found" % label)
    i = m.end() - 1
    return body[i:csrc.match_brace(body, i)]


def _pre(block, mark_re, child_re, what):
    marks = [m.start() for m in re.finditer(mark_re, block)]
    if len(marks) != 1:
        raise ExtractError("%s: expected exactly one numbering point, found %d" % (what, len(marks)))
    kids = [m.start() for m in re.finditer(child_re, block)]
    if not kids:
        return True
    if marks[0] < kids[0]:
        return True
    if marks[0] > kids[-1]:
        return False
    raise ExtractError("%s: numbering point lies between child visits" % what)


def extract_marks(tree):
    """Where is a value numbered relative to its children?  marshal side: MARK_SEEN() vs marshal_one(...) inside each
    `case JANET_X:` of marshal_one; unmarshal side: janet_v_push(st->lookup, ...) vs unmarshal_one(...) in each branch."""
    src = csrc.strip_comments(csrc.read(tree, "src/core/marsh.c"))
    mo = csrc.func_body(src, "marshal_one")
    out = {}
    # the second switch (reference types) is the one containing MARK_SEEN
    idx = [m.start() for m in re.finditer(r"switch\s*\(\s*type\s*\)", mo)]
    if len(idx) != 2:
        raise ExtractError("marshal_one: expected two `switch (type)`")
    sw = mo[idx[1]:]
    for ty in ("ARRAY", "TUPLE", "TABLE", "STRUCT", "BUFFER", "NUMBER"):
        out["markPre" + ty.capitalize()] = _pre(_case_block(sw, "JANET_" + ty), r"MARK_SEEN\s*\(\s*\)", r"\bmarshal_one\s*\(", "marshal_one/" + ty)
    m = re.search(r"case\s+JANET_STRING\s*:\s*case\s+JANET_SYMBOL\s*:\s*case\s+JANET_KEYWORD\s*:\s*\{", sw)
    if not m:
        raise ExtractError("marshal_one: string case not found")
    blk = sw[m.end() - 1:csrc.match_brace(sw, m.end() - 1)]
    out["markPreString"] = _pre(blk, r"MARK_SEEN\s*\(\s*\)", r"\bmarshal_one\s*\(", "marshal_one/STRING")
    # seen-table check happens before the registry check, both before the second switch
    pre = mo[idx[0]:idx[1]]
    a, b = pre.find("janet_table_get(&st->seen, x)"), pre.find("janet_table_get(st->rreg, x)")
    if a < 0 or b < 0 or not a < b:
        raise ExtractError("marshal_one: seen / registry lookups not recognised")
    uo = csrc.func_body(src, "unmarshal_one")
    def branch(cond):
        m = re.search(cond + r"\s*\{", uo)
        if not m:
            raise ExtractError("unmarshal_one: branch %s not found" % cond)
        return uo[m.end() - 1:csrc.match_brace(uo, m.end() - 1)]
    push, kid = r"janet_v_push\s*\(\s*st->lookup\s*,", r"\bunmarshal_one\s*\("
    out["pushPreArray"] = _pre(branch(r"if\s*\(\s*lead\s*==\s*LB_ARRAY\s*\|\|\s*lead\s*==\s*LB_ARRAY_WEAK\s*\)"), push, kid, "unmarshal_one/array")
    out["pushPreTuple"] = _pre(branch(r"else\s+if\s*\(\s*lead\s*==\s*LB_TUPLE\s*\)"), push, kid, "unmarshal_one/tuple")
    out["pushPreStruct"] = _pre(branch(r"else\s+if\s*\(\s*lead\s*==\s*LB_STRUCT\s*\|\|\s*lead\s*==\s*LB_STRUCT_PROTO\s*\)"), push, kid, "unmarshal_one/struct")
    m = re.search(r"else\s+if\s*\(\s*lead\s*==\s*LB_REFERENCE\s*\)\s*\{", uo)
    if not m:
        raise ExtractError("unmarshal_one: reference branch not found")
    j = csrc.match_brace(uo, m.end() - 1)
    m2 = re.match(r"\s*else\s*\{", uo[j:])
    if not m2:
        raise ExtractError("unmarshal_one: table branch not found")
    k = j + m2.end() - 1
    out["pushPreTable"] = _pre(uo[k:csrc.match_brace(uo, k)], push, kid, "unmarshal_one/table")
    return out


def extract_env_bitset(tree):
    """marshal_one_env, early-detach path: which slots of the frame are written out?  `1 & (bitset[i >> S] >> (i & M))`."""
    src = csrc.strip_comments(csrc.read(tree, "src/core/marsh.c"))
    body = csrc.func_body(src, "marshal_one_env")
    m = re.search(r"uint32_t\s*\*\s*bitset\s*=\s*janet_stack_frame\s*\(\s*values\s*\)->func->def->closure_bitset\s*;\s*"
                  r"for\s*\(\s*int32_t\s+i\s*=\s*0\s*;\s*i\s*<\s*env->length\s*;\s*i\+\+\s*\)\s*\{\s*"
                  r"if\s*\(\s*1\s*&\s*\(\s*bitset\[\s*i\s*>>\s*(\w+)\s*\]\s*>>\s*\(\s*i\s*&\s*(\w+)\s*\)\s*\)\s*\)\s*\{\s*"
                  r"marshal_one\s*\(\s*st\s*,\s*values\[i\]\s*,\s*flags\s*\+\s*1\s*\)\s*;\s*\}\s*else\s*\{\s*pushbyte\s*\(\s*st\s*,\s*LB_NIL\s*\)\s*;\s*\}\s*\}", body)
    if not m:
        raise ExtractError("marshal_one_env: early-detach loop over the closure bitset not recognised")
    return {"envWordShift": csrc.cint(m.group(1)), "envBitMask": csrc.cint(m.group(2))}


def render(tree):
    lb, c = extract(tree)
    out = [csrc.lean_header("src/core/marsh.c"), "namespace JanetModel.Gen.Marsh\n"]
    out.append("/-- lead bytes (enum at the top of marsh.c) -/")
    for k, v in lb.items():
        out.append("abbrev %s : Nat := %d" % (k.lower().replace("lb_", "lb") if False else "lb_" + k[3:].lower(), v))
    out.append("\ndef leadBytes : List (String × Nat) := [" + ", ".join('("%s", %d)' % (k, v) for k, v in lb.items()) + "]\n")
    out.append("/-- constants read off `pushint` / `readint` -/")
    for k, v in c.items():
        ty = "Int" if k in ("pushMidHi", "pushMidLo", "pushSmallLim", "pushMidDiv", "pushMidMod", "pushLowMod") else "Nat"
        out.append("abbrev %s : %s := %s" % (k, ty, ("(%d)" % v) if v < 0 else str(v)))
    out.append("\n/-- numbering point of each type relative to its children: `true` = before (MARK_SEEN / janet_v_push precedes the")
    out.append("first recursive call), `false` = after the last one -/")
    for k, v in extract_marks(tree).items():
        out.append("abbrev %s : Bool := %s" % (k, "true" if v else "false"))
    out.append("\n/-- early-detach path of marshal_one_env: slot `i` is written iff `1 & (bitset[i >> envWordShift] >> (i & envBitMask))` -/")
    for k, v in extract_env_bitset(tree).items():
        out.append("abbrev %s : Nat := %d" % (k, v))
    out.append("\nend JanetModel.Gen.Marsh\n")
    return "\n".join(out)
