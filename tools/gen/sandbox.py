"""C18 translator: LLVM IR of the bootstrapped amalgamation -> sliced interprocedural CFG + untrusted certificate
(lean/JanetModel/Gen/Sandbox.lean), plus a Python mirror of the Lean checker used to name uncovered paths.

    model = extract(build)          # build: vlib.build.Build (already boot()ed)
    cert  = certify(model)          # untrusted forward analysis -> certificate
    bad   = check(model, cert)      # Python mirror of Sandbox.certOK: list of failures, each naming function/site
    text  = render(model, cert)     # Gen/Sandbox.lean

What is *transcribed* (trusted): for every function of the slice, its basic blocks, their order of events and their
edges; registration tables; the three stores to janet_vm.sandbox_flags.  What is *analysed* (untrusted, checked by the
Lean kernel through `certOK`): the per-node knowledge sets, per-function pre/post conditions and purity flags.
One analysis result is used without a certificate (listed in notes/C18.md as trusted): `mayGrow`, the set of functions
outside the slice that may change the flag word (reach janet_sandbox / an indirect call that can), whose calls are
transcribed as `havoc`.
"""
import os
import re

from . import llvmir
from .csrc import ExtractError, read, strip_comments, lean_header

VERIF = os.path.dirname(os.path.dirname(os.path.dirname(os.path.abspath(__file__))))
CAP_LEAN = os.path.join(VERIF, "lean", "JanetModel", "Sandbox", "Cap.lean")

ATTR = re.compile(r'\b(dso_local|internal|private|hidden|noundef|nonnull|signext|zeroext|noalias|nocapture|readonly|returned|'
                  r'align \d+|dereferenceable\(\d+\)|unnamed_addr|local_unnamed_addr)\b')


# ----------------------------------------------------------------------------------------- specification tables
def cap_tables(path=CAP_LEAN):
    """Names listed in Cap.lean: (sensitive{name:[masks]}, benign set, exempt set of (fn,name), spawners, caps{lean name:int})."""
    src = open(path).read()
    caps = {m.group(1): int(m.group(2)) for m in re.finditer(r'abbrev (cap\w+) : Mask := (\d+)', src)}

    def block(name):
        m = re.search(r'^def %s\b[^\n]*:=\s*\[(.*?)^\s*$' % name, src, re.S | re.M)
        if not m:
            raise ExtractError("Cap.lean: def %s not found" % name)
        return re.sub(r'--[^\n]*', '', m.group(1))
    sens = {}
    for m in re.finditer(r'\("([^"]+)",\s*\[([^\]]*)\]\)', block("sensitive")):
        masks = []
        for g in m.group(2).split(","):
            v = 0
            for c in g.split("|||"):
                v |= caps[c.strip()]
            masks.append(v)
        sens[m.group(1)] = masks
    benign = set(re.findall(r'"([^"]+)"', block("benign")))
    exempt = set(re.findall(r'\("([^"]+)",\s*"([^"]+)"\)', block("exempt")))
    spawners = set(re.findall(r'"([^"]+)"', block("spawners")))
    if len(sens) < 50 or not benign or not spawners:
        raise ExtractError("Cap.lean tables look wrong")
    return sens, benign, exempt, spawners, caps


def role_tables(path=CAP_LEAN):
    """(siteRole {(fn, call): mask}, byRole {call: [masks]}, paramModes {fn: parameter index}) of Cap.lean"""
    src = open(path).read()
    caps = {m.group(1): int(m.group(2)) for m in re.finditer(r'abbrev (cap\w+) : Mask := (\d+)', src)}

    def block(name):
        m = re.search(r'^def %s\b[^\n]*:=\s*\[(.*?)^\s*$' % name, src, re.S | re.M)
        if not m:
            raise ExtractError("Cap.lean: def %s not found" % name)
        return re.sub(r'--[^\n]*', '', m.group(1))
    site = {(a, b): caps[c] for a, b, c in re.findall(r'\(\("([^"]+)",\s*"([^"]+)"\),\s*(cap\w+)\)', block("siteRole"))}
    by = {n: [caps[x.strip()] for x in g.split(",")] for n, g in re.findall(r'\("([^"]+)",\s*\[([^\]]*)\]\)', block("byRole"))}
    pm = {a: int(b) for a, b in re.findall(r'\("([^"]+)",\s*(\d+)\)', block("paramModes"))}
    if not site or not by:
        raise ExtractError("Cap.lean: siteRole / byRole look wrong")
    return site, by, pm


def need_addrinfo(md):
    return [4] if md == 0 else [8]


def _mode_relevant(path=CAP_LEAN):
    m = re.search(r'abbrev modeRelevant : Nat := ([\d |]+)', open(path).read())
    if not m:
        raise ExtractError("Cap.lean: modeRelevant not found")
    v = 0
    for x in m.group(1).split("|||"):
        v |= int(x)
    return v


def need_open(md):
    acc = md & 3
    out = []
    if acc in (0, 2, 3):
        out.append(64)
    if acc in (1, 2, 3) or md & 64 or md & 512:
        out.append(32)
    return out


def _benign_ordered(path=CAP_LEAN):
    src = open(path).read()
    m = re.search(r'^def benign\b[^\n]*:=\s*\[(.*?)^\s*$', src, re.S | re.M)
    return re.findall(r'"([^"]+)"', re.sub(r'--[^\n]*', '', m.group(1)))


# ----------------------------------------------------------------------------------------- helpers on IR
def norm_type(t):
    t = ATTR.sub('', t)
    t = re.sub(r'\s+%[\w.]+$', '', t.strip())
    return re.sub(r'\s+', ' ', t).strip()


def fn_sig(fn):
    return norm_type(fn.rettype), tuple(norm_type(p) for p in llvmir.split_top(fn.sig) if p != '...')


def icall_sig(inst):
    mm = re.match(r'^(?:%\S+\s*=\s*)?(?:tail |notail |musttail )?call\s+(.*?)\s*%[\w.]+\(', inst.text)
    if not mm:
        raise ExtractError("indirect call shape: " + inst.text[:120])
    args = []
    for a, v in inst.args:
        args.append(norm_type(a[:len(a) - len(v)]))
    return norm_type(mm.group(1)), tuple(args)


def c_string_globals(mod):
    out = {}
    for g, init in mod.globals.items():
        m = re.search(r'constant \[\d+ x i8\] c"((?:[^"\\]|\\[0-9A-Fa-f]{2}|\\\\)*)"', init)
        if m:
            s = re.sub(r'\\([0-9A-Fa-f]{2})', lambda x: chr(int(x.group(1), 16)), m.group(1))
            out[g] = s.rstrip("\0")
    return out


def registration_tables(mod):
    """{janet name: C function} from every constant array of JanetRegExt / JanetReg / JanetMethod in the IR."""
    strs = c_string_globals(mod)
    regs, methods = {}, {}
    for g, init in mod.globals.items():
        for kind, dest in (("JanetRegExt", regs), ("JanetReg", regs), ("JanetMethod", methods)):
            if re.search(r'\[\d+ x %struct\.' + kind + r'\]', init):
                for m in re.finditer(r'%struct\.' + kind + r' \{ i8\* getelementptr inbounds \(\[\d+ x i8\], \[\d+ x i8\]\* @([\w.]+), i\d+ 0, i\d+ 0\), '
                                     r'i64 \(i32, %union\.Janet\*\)\* @(\w+)', init):
                    name = strs.get(m.group(1))
                    if name is None:
                        raise ExtractError("registration table %s: name string %s not found" % (g, m.group(1)))
                    dest.setdefault(name, set()).add(m.group(2))
                break
    if len(regs) < 300:
        raise ExtractError("only %d registered core functions found in IR" % len(regs))
    return regs, methods


def source_registrations(tree):
    """JANET_CORE_REG / JANET_REG entries of the C source (all platforms): {janet name: C function}"""
    out = {}
    d = os.path.join(tree, "src/core")
    for f in sorted(os.listdir(d)):
        if f.endswith(".c"):
            src = strip_comments(read(tree, "src/core/" + f))
            for m in re.finditer(r'\bJANET_(?:CORE_)?REG\(\s*"([^"]+)"\s*,\s*(\w+)\s*\)', src):
                out.setdefault(m.group(1), set()).add(m.group(2))
            for m in re.finditer(r'\{\s*"([^"]+)"\s*,\s*(\w+)\s*,\s*(?:NULL|JDOC\()', src):
                out.setdefault(m.group(1), set()).add(m.group(2))
    return out


def header_defines(tree, scratch=None):
    """JANET_SANDBOX_* / JANET_FILE_* constants of janet.h whose definition is a literal expression (decimal, hex, `1u << 5`, …;
    a body that names another identifier - the composites JANET_SANDBOX_FS, _ALL … - is skipped).  The NAMES come from the
    source text, the VALUES from the compiler (clang evaluates `(unsigned long long)(NAME)` with the tree's headers)."""
    src = strip_comments(read(tree, "src/include/janet.h"))
    names = []
    for m in re.finditer(r'^[ \t]*#[ \t]*define[ \t]+(JANET_SANDBOX_\w+|JANET_FILE_(?:WRITE|READ|APPEND|UPDATE))[ \t]+(\S.*?)[ \t]*$', src, re.M):
        if not re.search(r'(?<![\w.])[A-Za-z_]\w*', m.group(2)) and m.group(1) not in names:
            names.append(m.group(1))
    if len(names) < 10:
        raise ExtractError("JANET_SANDBOX_* defines not found")
    import shutil
    import tempfile
    scratch = tempfile.mkdtemp(prefix="c18-defs-", dir="/var/tmp")      # private: concurrent runs on the same tree do not share it
    try:
        cfile = os.path.join(scratch, "c18-defs.c")
        with open(cfile, "w") as f:
            f.write("#include <janet.h>\n" + "".join("unsigned long long c18v_%s = (unsigned long long)(%s);\n" % (n, n) for n in names))
        ir = llvmir.compile_ir(cfile, [os.path.join(tree, "src/include"), os.path.join(tree, "src/conf")], out=os.path.join(scratch, "c18-defs.ll"))
    finally:
        shutil.rmtree(scratch, ignore_errors=True)
    d = {}
    for m in re.finditer(r'^@c18v_(\w+) = [^\n]*?global i64 (-?\d+)', ir, re.M):
        d[m.group(1)] = int(m.group(2)) & 0xFFFFFFFFFFFFFFFF
    missing = [n for n in names if n not in d]
    if missing:
        raise ExtractError("janet.h constants not evaluated by the compiler: %s" % missing[:5])
    return d


def sandbox_options(mod):
    """keyword -> mask from corelib.c sandbox_options[] (IR global)."""
    strs = c_string_globals(mod)
    for g, init in mod.globals.items():
        if g.endswith("sandbox_options") and "SandboxOption" in init:
            out = []
            for m in re.finditer(r'%struct\.SandboxOption \{ i8\* getelementptr inbounds \(\[\d+ x i8\], \[\d+ x i8\]\* @([\w.]+), i\d+ 0, i\d+ 0\), i32 (-?\d+) \}', init):
                out.append((strs[m.group(1)], int(m.group(2)) & 0xFFFFFFFF))
            if len(out) < 10:
                raise ExtractError("sandbox_options: too few entries")
            return out
    raise ExtractError("sandbox_options[] not found in IR")


# ----------------------------------------------------------------------------------------- address-taken functions
_RID = r'(?:"[^"]*"|[-\w.$]+)'


def raw_address_scan(text, spawners):
    """Independent of llvmir.parse: scan the IR *text*.  Every mention `@f` of a defined function `f` that is not the callee
    of a direct call (`call <type> @f(`) and not the head of its own `define` takes its address: global initialisers
    (JanetReg / JanetRegExt / JanetMethod arrays, JanetAbstractType vtables, handler tables), stores, call arguments,
    constant-expression callees (bitcast).  Returns (defined names, {f: [(where, kind)]}) with kind 'global' | 'inst' |
    'arg:<callee>'."""
    head = re.compile(r'^define\s[^@]*@(' + _RID + r')\(')
    defined = set(m.group(1).strip('"') for m in re.finditer(head.pattern, text, re.M))
    callpat = re.compile(r'^\s*(?:%' + _RID + r'\s*=\s*)?(?:tail |musttail |notail )?call\s[^@]*?@(' + _RID + r')\(')
    ref = re.compile(r'@(' + _RID + r')')
    uses = {}
    cur = None
    for line in text.split("\n"):
        if not line or line[0] in ";!":
            continue
        if line.startswith("define "):
            m = head.match(line)
            if not m:
                raise ExtractError("address scan: define line: " + line[:120])
            cur = m.group(1).strip('"')
            rest = line[m.end():]
            rest = rest[rest.rfind(")"):]            # attributes after the parameter list (personality, prefix data …)
            for r in ref.finditer(rest):
                if r.group(1).strip('"') in defined:
                    uses.setdefault(r.group(1).strip('"'), []).append((cur, "inst"))
            continue
        if line == "}":
            cur = None
            continue
        if cur is None:
            if line.startswith(("declare ", "attributes ", "source_filename", "target ", "%", "$", "module asm")):
                continue
            m = re.match(r'^@(' + _RID + r')\s*=', line)
            if not m:
                if "@" in line:
                    raise ExtractError("address scan: unrecognised top-level line: " + line[:120])
                continue
            where, kind, body = "global " + m.group(1).strip('"'), "global", line[m.end():]
        else:
            where, kind, body = cur, "inst", line
            m = callpat.match(line)
            if m and "bitcast" not in line[:m.start(1)] and " asm " not in line[:m.start(1)]:
                kind = "arg:" + m.group(1).strip('"')
                body = line[m.end():]
        for r in ref.finditer(body):
            n = r.group(1).strip('"')
            if n in defined:
                uses.setdefault(n, []).append((where, kind))
    return defined, uses


# ----------------------------------------------------------------------------------------- the model
class Model:
    pass


FLAG_GEP = None


def _see_through(f, val, depth=0):
    """Definition text of the value `val` in function `f`, looking through int locals that are assigned exactly once and whose
    address is used for nothing but that store and loads (`uint32_t x = <v>; … x …` - a harmless copy).  A parameter is
    returned as '<param N>'."""
    m = re.match(r'^%(\d+)$', val)
    if m and int(m.group(1)) < f.params:
        return "<param %s>" % m.group(1)
    insts = [i for b in f.blocks for i in b.insts]
    d = ""
    for i in insts:
        if i.text.startswith(val + " = "):
            d = i.text
            break
    m = re.match(r'%[\w.]+ = load i32, i32\* (%[\w.]+),', d)
    if not m or depth > 3:
        return d
    slot = m.group(1)
    if not any(re.match(re.escape(slot) + r' = alloca i32\b', i.text) for i in insts):
        return d
    pat = re.compile(r'(?<![\w.])' + re.escape(slot) + r'(?![\w.])')
    stores = []
    for b in f.blocks:
        if b.term_text and pat.search(b.term_text):
            return d
        for i in b.insts:
            t = i.text
            if not pat.search(t) or re.match(re.escape(slot) + r' = alloca i32\b', t) or re.match(r'%[\w.]+ = load i32, i32\* ' + re.escape(slot) + r',', t):
                continue
            ms = re.match(r'store i32 (\S+), i32\* ' + re.escape(slot) + r',', t)
            if not ms:
                return d
            stores.append(ms.group(1))
    if len(stores) != 1:
        return d
    return _see_through(f, stores[0], depth + 1)


def _flag_field(mod):
    """GEP expression of janet_vm.sandbox_flags, taken from janet_sandbox_assert, whose shape is verified here:
       load arg; load flags; and; icmp ne 0; br -> {call janet_panic; unreachable} / {ret}."""
    f = mod.functions.get("janet_sandbox_assert")
    if f is None or f.params != 1 or len(f.blocks) != 3:
        raise ExtractError("janet_sandbox_assert: unexpected shape (blocks)")
    b0, b1, b2 = f.blocks
    txt = "\n".join(i.text for i in b0.insts)
    m = re.search(r'(%\d+) = load i32, i32\* (getelementptr inbounds \(%struct\.JanetVM, %struct\.JanetVM\* @janet_vm, i32 0, i32 \d+\))', txt)
    if not m:
        raise ExtractError("janet_sandbox_assert: flags load not found")
    gep = m.group(2)
    m2 = re.search(r'(%\d+) = and i32 (%\d+), (%\d+)\n(%\d+) = icmp ne i32 \1, 0$', txt)
    if not m2:
        raise ExtractError("janet_sandbox_assert: test is not `(arg & flags) != 0`")
    ops = [_see_through(f, m2.group(2)), _see_through(f, m2.group(3))]          # (copies through single-assignment locals are fine)
    isflag = [bool(re.match(r'%\d+ = load i32, i32\* ' + re.escape(gep) + r',', o)) for o in ops]
    if isflag.count(True) != 1:
        raise ExtractError("janet_sandbox_assert: test is not `(arg & flags) != 0`")
    if ops[1 - isflag.index(True)] != "<param 0>":
        raise ExtractError("janet_sandbox_assert: tested value is not the argument")
    if len(re.findall(r' = and i32 ', txt)) != 1 or not re.search(r'br i1 ' + re.escape(m2.group(4)) + r',', b0.term_text):
        raise ExtractError("janet_sandbox_assert: branch is not on `(arg & flags) != 0`")
    if b0.term != "br" or b0.succs != [b1.label, b2.label]:
        raise ExtractError("janet_sandbox_assert: branch shape")
    calls1 = [i.callee for i in b1.insts if i.kind == "call"]
    if b1.term != "unreachable" or calls1 != ["janet_panic"] or b2.term != "ret" or [i for i in b2.insts if i.kind != "other"]:
        raise ExtractError("janet_sandbox_assert: does not panic / return as expected")
    return gep


def flag_writes(mod, gep):
    """Every store to the flag word / whole-VM overwrite / other way to reach the word, classified:
       zero    store of the constant 0
       or      store of `load(flag word) | x`
       copy    janet_go_thread_subr shape: `janet_init(); janet_vm.sandbox_flags = msg->argi` (the value is a load of field 1
               of the JanetEVGenericMessage parameter, janet_init is called earlier in the same block, no other flag store between)
       vmcopy  memcpy/memmove/memset over the whole janet_vm
       addr    the address of the word is used for something else than a load / store (it could be written through)
       viaptr  field 33 (the flag word) is addressed through a JanetVM* that is not the constant @janet_vm
       other   anything else"""
    out = []
    field = re.search(r'i32 0, i32 (\d+)\)$', gep).group(1)
    viaptr = re.compile(r'getelementptr inbounds %struct\.JanetVM, %struct\.JanetVM\* %[\w.]+, i32 0, i32 ' + field + r'\b')
    for name in mod.order:
        f = mod.functions[name]
        for b in f.blocks:
            for k, i in enumerate(b.insts):
                if viaptr.search(i.text):
                    out.append((name, "viaptr"))
                if i.kind == "store" and gep in i.text:
                    m = re.match(r'store i32 (\S+), i32\* ' + re.escape(gep) + r',', i.text)
                    if not m:
                        out.append((name, "addr"))        # the address itself is the stored value
                        continue
                    val = m.group(1)
                    kind = "other"
                    if val == "0":
                        kind = "zero"
                    else:
                        # look back in the block for the definition
                        defs = {x.text.split(" = ")[0]: x.text for x in b.insts[:k] if " = " in x.text}
                        d = defs.get(val, "")
                        mo = re.match(r'%\d+ = or i32 (%\d+), (%\d+)', d)
                        ml = re.match(r'%\d+ = load i32, i32\* (%\d+),', _see_through(f, val))
                        fdefs_all = {x.text.split(" = ")[0]: x.text for bb in f.blocks for x in bb.insts if " = " in x.text}
                        if mo and any(gep in defs.get(o, "") and " load i32" in defs.get(o, "") for o in mo.groups()):
                            kind = "or"
                        elif ml:
                            g = fdefs_all.get(ml.group(1), "")
                            mg = re.match(r'%\d+ = getelementptr inbounds %struct\.JanetEVGenericMessage, %struct\.JanetEVGenericMessage\* %(\d+), i32 0, i32 1$', g)
                            before = b.insts[:k]
                            inits = [j for j, x in enumerate(before) if x.kind == "call" and x.callee == "janet_init"]
                            if mg and int(mg.group(1)) < f.params and inits and \
                                    not any(x.kind == "store" and gep in x.text for x in before[inits[-1]:]):
                                kind = "copy"
                    out.append((name, kind))
                elif i.kind == "call" and i.callee and i.callee.startswith("llvm.mem") and i.args and "@janet_vm to i8*" in i.args[0][0] and "getelementptr" not in i.args[0][0]:
                    out.append((name, "vmcopy"))
                elif gep in i.text and not re.match(r'%[\w.]+ = load i32, i32\* ' + re.escape(gep) + r',', i.text):
                    out.append((name, "addr"))
    return out


def thread_start_shape(mod, gep, handovers, spawners):
    """How a new thread gets its flag word: every site that hands `janet_go_thread_subr` (the function with the `copy` store)
    to a spawner must put the CURRENT flag word into the message field / argument that the copy reads.
    -> list of (function, fact)."""
    out = []
    starters = sorted(set(n for n, k in flag_writes(mod, gep) if k == "copy"))
    ldflag = re.compile(r'(%[\w.]+) = load i32, i32\* ' + re.escape(gep) + r',')
    for st in starters:
        out.append((st, "janet_init; flags := msg.argi"))
        for name in mod.order:
            f = mod.functions[name]
            for b in f.blocks:
                for k, i in enumerate(b.insts):
                    if not (st in i.refs or (i.kind == "call" and i.callee == st)):
                        continue
                    if i.kind == "call" and i.callee == st:
                        out.append((name, "direct call of " + st))         # not a thread start we know
                        continue
                    if not (i.kind == "call" and i.callee in spawners):
                        out.append((name, "address of %s used outside a spawner call" % st))
                        continue
                    before = b.insts[:k]
                    defs = {x.text.split(" = ")[0]: x.text for x in before if " = " in x.text}
                    fact = "unverified hand-over via " + i.callee
                    if i.callee == "janet_ev_threaded_call" and len(i.args) >= 2:
                        msg = i.args[1][1]
                        fld = re.compile(r'(%[\w.]+) = getelementptr inbounds %struct\.JanetEVGenericMessage, %struct\.JanetEVGenericMessage\* ' + re.escape(msg) + r', i32 0, i32 1$')
                        slots = set(m.group(1) for m in (fld.match(x.text) for x in before) if m)
                        stores = [x for x in before if x.kind == "store" and any(re.match(r'store i32 \S+, i32\* ' + re.escape(sl) + r',', x.text) for sl in slots)]
                        if stores:
                            v = re.match(r'store i32 (\S+),', stores[-1].text).group(1)
                            if ldflag.match(_see_through(f, v)):
                                fact = "janet_ev_threaded_call: msg.argi := flags"
                    elif i.callee == "janet_ev_threaded_await" and len(i.args) >= 3:
                        if ldflag.match(_see_through(f, i.args[2][1])):
                            fact = "janet_ev_threaded_await: argi := flags"
                    out.append((name, fact))
    # janet_ev_threaded_await(fp, tag, argi, argp) forwards its argi parameter as msg.argi and its fp to janet_ev_threaded_call
    f = mod.functions.get("janet_ev_threaded_await")
    fact = "unverified"
    if f is not None and f.params == 4:
        txt = "\n".join(i.text for b in f.blocks for i in b.insts)
        m = re.search(r'store i32 %2, i32\* (%\d+),', txt)
        if m:
            slot = m.group(1)
            m2 = re.search(r'(%\d+) = load i32, i32\* ' + re.escape(slot) + r',[^\n]*\n(%\d+) = getelementptr inbounds %struct\.JanetEVGenericMessage, %struct\.JanetEVGenericMessage\* (%\d+), i32 0, i32 1\nstore i32 \1, i32\* \2,', txt)
            calls = [i for b in f.blocks for i in b.insts if i.kind == "call" and i.callee == "janet_ev_threaded_call"]
            nst = len(re.findall(r'store i32 \S+, i32\* ' + re.escape(slot) + r',', txt))
            if m2 and nst == 1 and len(calls) == 1 and len(calls[0].args) >= 2 and calls[0].args[1][1] == m2.group(3):
                fact = "msg.argi := parameter argi; janet_ev_threaded_call(fp, msg)"
    out.append(("janet_ev_threaded_await", fact))
    return out


def thread_message_path(mod):
    """How the message of janet_ev_threaded_call(fp, arguments, cb) reaches `fp` in the new thread (data flow; POSIX path):
      janet_ev_threaded_call: a block `init` (single-assignment pointer local) gets a whole-struct copy of the `arguments`
        parameter in field m and the `fp` parameter in field s, and is the argument of pthread_create(.., body, init);
      body: copies field m of its argument into a local message, loads field s, and calls it with that local message (which
        nothing else writes).
    -> [(function, fact)]"""
    bad = lambda why: [("janet_ev_threaded_call", "unrecognised message path: " + why)]
    f = mod.functions.get("janet_ev_threaded_call")
    if f is None or f.params != 3:
        return bad("janet_ev_threaded_call not found")

    def defs_of(fn):
        return {x.text.split(" = ")[0]: x.text for b in fn.blocks for x in b.insts if " = " in x.text}

    def origin(fn, defs, val, depth=0):
        """'<param N>', or ('local', alloca) for the address of a local, through bitcasts and single-assignment locals"""
        m = re.match(r'^%(\d+)$', val)
        if m and int(m.group(1)) < fn.params:
            return "<param %s>" % m.group(1)
        d = defs.get(val, "")
        if depth > 6 or not d:
            return None
        if re.match(r'%[\w.]+ = alloca ', d):
            return ("local", val)
        mb = re.match(r'%[\w.]+ = bitcast \S.*? (%[\w.]+) to ', d)
        if mb:
            return origin(fn, defs, mb.group(1), depth + 1)
        ml = re.match(r'%[\w.]+ = load (.+?), (.+?)\* (%[\w.]+), align', d)
        if ml and re.match(r'%[\w.]+ = alloca ', defs.get(ml.group(3), "")):
            slot = ml.group(3)
            pat = re.compile(r'(?<![\w.])' + re.escape(slot) + r'(?![\w.])')
            stores = []
            for b in fn.blocks:
                for i in b.insts:
                    if not pat.search(i.text) or i.text.startswith(slot + " = alloca") or re.match(r'%[\w.]+ = load .*\* ' + re.escape(slot) + r', align', i.text):
                        continue
                    ms = re.match(r'store (.+?) (%[\w.]+), \1\* ' + re.escape(slot) + r', align', i.text)
                    if not ms:
                        return None
                    stores.append(ms.group(2))
            if len(stores) == 1:
                if re.match(r'%[\w.]+ = (?:tail )?call .*@malloc\(', defs.get(stores[0], "")) or re.match(r'%[\w.]+ = bitcast i8\* (%[\w.]+) to ', defs.get(stores[0], "")) and \
                        re.search(r'@(?:malloc|janet_malloc)\(', defs.get(re.match(r'%[\w.]+ = bitcast i8\* (%[\w.]+) to ', defs.get(stores[0], "")).group(1), "")):
                    return ("heap", slot)
                return origin(fn, defs, stores[0], depth + 1)
        return None

    def field_of(fn, defs, val):
        """(origin of the base pointer, field index) when `val` is (a bitcast of) `&base->field`"""
        d = defs.get(val, "")
        mb = re.match(r'%[\w.]+ = bitcast \S.*? (%[\w.]+) to ', d)
        if mb:
            d = defs.get(mb.group(1), "")
        mg = re.match(r'%[\w.]+ = getelementptr inbounds %struct\.JanetEVThreadInit, %struct\.JanetEVThreadInit\* (%[\w.]+), i32 0, i32 (\d+)$', d)
        if not mg:
            return None
        return origin(fn, defs, mg.group(1)), int(mg.group(2))
    defs = defs_of(f)
    insts = [i for b in f.blocks for i in b.insts]
    pc = [i for i in insts if i.kind == "call" and i.callee == "pthread_create"]
    if len(pc) != 1 or len(pc[0].args) != 4:
        return bad("not exactly one pthread_create")
    body = [r for r in pc[0].refs if r in mod.functions]
    init = origin(f, defs, pc[0].args[3][1])
    if len(body) != 1 or not init or init[0] != "heap":
        return bad("pthread_create arguments")
    mfield = sfield = None
    for i in insts:
        if i.kind == "call" and (i.callee or "").startswith("llvm.memcpy") and len(i.args) >= 3:
            dst, src = field_of(f, defs, i.args[0][1]), origin(f, defs, i.args[1][1])
            if dst and dst[0] == init and src == "<param 1>":
                mfield = dst[1] if mfield is None else -1
        ms = re.match(r'store (.+?) (%[\w.]+), \1\* (%[\w.]+), align', i.text)
        if ms:
            dst = field_of(f, defs, ms.group(3))
            if dst and dst[0] == init and origin(f, defs, ms.group(2)) == "<param 0>":
                sfield = dst[1] if sfield is None else -1
    if mfield is None or mfield < 0 or sfield is None or sfield < 0:
        return bad("message copy / subroutine store into the init block (fields %s, %s)" % (mfield, sfield))
    # the message field of the init block is addressed exactly once (for that copy): nothing patches it afterwards
    ngep = 0
    for i in insts:
        mg = re.match(r'(%[\w.]+) = getelementptr inbounds %struct\.JanetEVThreadInit, %struct\.JanetEVThreadInit\* (%[\w.]+), i32 0, i32 (\d+)$', i.text)
        if mg and int(mg.group(3)) == mfield and origin(f, defs, mg.group(2)) == init:
            ngep += 1
    if ngep != 1:
        return bad("the message field of the init block is addressed %d times" % ngep)
    out = [("janet_ev_threaded_call", "init.msg := arguments; init.subr := fp; pthread_create(body, init)")]
    g = mod.functions[body[0]]
    gdefs = defs_of(g)
    ginsts = [i for b in g.blocks for i in b.insts]
    msg_local = None
    for i in ginsts:
        if i.kind == "call" and (i.callee or "").startswith("llvm.memcpy") and len(i.args) >= 3:
            src, dst = field_of(g, gdefs, i.args[1][1]), origin(g, gdefs, i.args[0][1])
            if src and src[0] == "<param 0>" and src[1] == mfield and dst and dst[0] == "local":
                msg_local = dst[1] if msg_local is None else False
    if not msg_local:
        return out + [("thread body", "unrecognised message path: no single copy of init.msg into a local")]
    ok = False
    for i in ginsts:
        if i.kind != "icall":
            continue
        mc = re.match(r'^(?:%\S+\s*=\s*)?(?:tail |notail |musttail )?call\s+.*?\s(%[\w.]+)\(', i.text)
        cal = gdefs.get(mc.group(1), "") if mc else ""
        ml = re.match(r'%[\w.]+ = load .+\* (%[\w.]+), align', cal)
        if not ml:
            continue
        # the callee is loaded from a single-assignment local that holds init->subr
        slot = ml.group(1)
        sts = [m_ for m_ in (re.match(r'store (.+?) (%[\w.]+), \1\* ' + re.escape(slot) + r', align', x.text) for x in ginsts) if m_]
        if len(sts) != 1 or any(re.match(r'store .*\* ' + re.escape(slot) + r', align', x.text) and not re.match(r'store (.+?) (%[\w.]+), \1\* ', x.text) for x in ginsts):
            continue
        v = sts[0].group(2)
        mv = re.match(r'%[\w.]+ = load .+\* (%[\w.]+), align', gdefs.get(v, ""))
        fld = field_of(g, gdefs, mv.group(1)) if mv else None
        if fld and fld[0] == "<param 0>" and fld[1] == sfield and any(a[1] == msg_local for a in i.args):
            ok = True
    # nothing else writes the local message: its only mentions are the alloca, the bitcast feeding that memcpy, and call arguments
    pat = re.compile(r'(?<![\w.])' + re.escape(msg_local) + r'(?![\w.])')
    for i in ginsts:
        t = i.text
        if pat.search(t) and not (t.startswith(msg_local + " = alloca") or re.match(r'%[\w.]+ = bitcast .* ' + re.escape(msg_local) + r' to i8\*$', t) or i.kind == "icall"):
            # reading a field of the local copy is harmless: a GEP whose only uses are loads
            mg = re.match(r'(%[\w.]+) = getelementptr inbounds %struct\.JanetEVGenericMessage, %struct\.JanetEVGenericMessage\* ' + re.escape(msg_local) + r', i32 0, i32 \d+$', t)
            if mg:
                pg = re.compile(r'(?<![\w.])' + re.escape(mg.group(1)) + r'(?![\w.])')
                uses = [x.text for x in ginsts if pg.search(x.text) and not x.text.startswith(mg.group(1) + " = ")]
                if all(re.match(r'%[\w.]+ = load .+\* ' + re.escape(mg.group(1)) + r', align', u) for u in uses):
                    continue
            ok = False
    nb = sum(1 for i in ginsts if re.match(r'%[\w.]+ = bitcast .* ' + re.escape(msg_local) + r' to i8\*$', i.text))
    if nb != 1:
        ok = False
    out.append(("thread body", "msg := init.msg; subr := init.subr; subr(msg)" if ok else "unrecognised message path: the subroutine is not called with the copied message"))
    return out


def sandbox_cfun_shape(mod, gep, regs):
    """Shape of the two functions behind `(sandbox & keywords)` - the regenerated side of the Lean model `sandboxCfun` /
    `sandboxOp` (data flow only; loop syntax, block order and local names are free):
      vm.c janet_sandbox          the sandbox capability is asserted first, then flags |= parameter
      corelib.c janet_core_sandbox   one call of janet_sandbox; its argument is a local that starts at 0 and is otherwise only
                                  or-ed with the `flag` field of a SandboxOption reached from sandbox_options[] (base, +1 steps);
                                  an unknown keyword ends in the noreturn janet_panicf
    -> list of (function, fact); anything else is listed as ('<fn>', 'unrecognised: ...') and rejected by Lean."""
    out = []
    ld32 = r'%[\w.]+ = load i32, i32\* '
    f = mod.functions.get("janet_sandbox")
    fact = "unrecognised: janet_sandbox"
    if f is not None and f.params == 1:
        try:
            slot = _param_fixed(f, 0)
            insts = [i for b in f.blocks for i in b.insts]
            calls = [i for i in insts if i.kind in ("call", "icall")]
            stores = [k for k, i in enumerate(insts) if i.kind == "store" and gep in i.text]
            if calls and calls[0].callee == "janet_sandbox_assert" and len(calls[0].const_args) == 1 and calls[0].const_args[0] is not None \
                    and len(calls) == 1 and len(stores) == 1 and insts.index(calls[0]) < stores[0] and len(f.blocks) == 1:
                defs = {x.text.split(" = ")[0]: x.text for x in insts if " = " in x.text}
                m = re.match(r'store i32 (%[\w.]+), i32\* ' + re.escape(gep) + r',', insts[stores[0]].text)
                mo = re.match(r'%[\w.]+ = or i32 (%[\w.]+), (%[\w.]+)$', defs.get(m.group(1), "")) if m else None
                if mo:
                    ops = [defs.get(o, "") for o in mo.groups()]
                    if any(gep in o and " load i32" in o for o in ops) and any(re.match(ld32 + re.escape(slot) + r',', o) for o in ops):
                        fact = "janet_sandbox_assert(%d); flags |= parameter" % (calls[0].const_args[0] & 0xFFFFFFFF)
        except ExtractError as e:
            fact = "unrecognised: %s" % e
    out.append(("janet_sandbox", fact))
    cf = sorted(regs.get("sandbox", ()))
    if len(cf) != 1 or cf[0] not in mod.functions:
        return out + [("sandbox", "unrecognised: binding `sandbox` is not registered to exactly one C function")]
    f = mod.functions[cf[0]]
    insts = [i for b in f.blocks for i in b.insts]
    defs = {x.text.split(" = ")[0]: x.text for x in insts if " = " in x.text}
    calls = [i for i in insts if i.kind == "call" and i.callee == "janet_sandbox"]
    if len(calls) != 1 or len(calls[0].args) != 1:
        return out + [(f.name, "unrecognised: not exactly one call of janet_sandbox")]
    m = re.match(ld32 + r'(%[\w.]+),', defs.get(calls[0].args[0][1], ""))
    if not m:
        return out + [(f.name, "unrecognised: argument of janet_sandbox is not a local")]
    X = m.group(1)
    pat = re.compile(r'(?<![\w.])' + re.escape(X) + r'(?![\w.])')
    zero = ors = 0
    optvars = set()
    bad = None

    def flag_field(d, depth):
        """the instruction text `d` loads `opt->flag` (field 1 of a SandboxOption reached through a pointer local), or loads
        an i32 local that is only ever assigned such values (`uint32_t bit = opt->flag; mask |= bit;`)"""
        mf = re.match(ld32 + r'(%[\w.]+),', d)
        if not mf or depth > 2:
            return False
        src = mf.group(1)
        mg = re.match(r'%[\w.]+ = getelementptr inbounds %struct\.SandboxOption, %struct\.SandboxOption\* (%[\w.]+), i32 0, i32 1$', defs.get(src, ""))
        if mg:
            mp = re.match(r'%[\w.]+ = load %struct\.SandboxOption\*, %struct\.SandboxOption\*\* (%[\w.]+),', defs.get(mg.group(1), ""))
            if mp:
                optvars.add(mp.group(1))
                return True
            # sandbox_options[k].flag
            return bool(re.match(r'%[\w.]+ = getelementptr inbounds \[\d+ x %struct\.SandboxOption\], \[\d+ x %struct\.SandboxOption\]\* @sandbox_options, i64 0, i64 \S+$', defs.get(mg.group(1), "")))
        if not re.match(re.escape(src) + r' = alloca i32\b', defs.get(src, "")) or src == X:
            return False
        pl = re.compile(r'(?<![\w.])' + re.escape(src) + r'(?![\w.])')
        n = 0
        for j in insts:
            if not pl.search(j.text) or re.match(re.escape(src) + r' = alloca i32\b', j.text) or re.match(ld32 + re.escape(src) + r',', j.text):
                continue
            mst = re.match(r'store i32 (%[\w.]+), i32\* ' + re.escape(src) + r',', j.text)
            if not mst or not flag_field(defs.get(mst.group(1), ""), depth + 1):
                return False
            n += 1
        return n > 0
    for i in insts:
        t = i.text
        if not pat.search(t):
            continue
        if re.match(re.escape(X) + r' = alloca i32\b', t) or re.match(ld32 + re.escape(X) + r',', t):
            continue
        ms = re.match(r'store i32 (\S+), i32\* ' + re.escape(X) + r',', t)
        if not ms:
            bad = "the mask local is used in: " + t[:70]
            break
        if ms.group(1) == "0":
            zero += 1
            continue
        mo = re.match(r'%[\w.]+ = or i32 (%[\w.]+), (%[\w.]+)$', defs.get(ms.group(1), ""))
        ok = False
        if mo:
            a_, b_ = [defs.get(o, "") for o in mo.groups()]
            if re.match(ld32 + re.escape(X) + r',', b_):
                a_, b_ = b_, a_
            if re.match(ld32 + re.escape(X) + r',', a_) and flag_field(b_, 0):
                ok = True
        if not ok:
            bad = "the mask local is assigned: " + (defs.get(ms.group(1), "") or t)[:70]
            break
        ors += 1
    if bad or zero != 1 or ors < 1:
        return out + [(f.name, "unrecognised: " + (bad or "mask local: %d stores of 0, %d or-stores" % (zero, ors)))]
    out.append((f.name, "mask := 0; mask |= opt->flag; janet_sandbox(mask)"))
    # where `opt` comes from
    fact = "opt := sandbox_options; opt++"
    for ov in sorted(optvars):
        for i in insts:
            ms = re.match(r'store %struct\.SandboxOption\* (.+), %struct\.SandboxOption\*\* ' + re.escape(ov) + r',', i.text)
            if not ms:
                if re.search(r'(?<![\w.])' + re.escape(ov) + r'(?![\w.])', i.text) and " = alloca " not in i.text and " = load " not in i.text:
                    fact = "unrecognised: the option pointer is used in: " + i.text[:60]
                continue
            v = ms.group(1)
            if re.match(r'getelementptr inbounds \(\[\d+ x %struct\.SandboxOption\], \[\d+ x %struct\.SandboxOption\]\* @sandbox_options, i64 0, i64 0\)$', v):
                continue
            mg = re.match(r'%[\w.]+ = getelementptr inbounds %struct\.SandboxOption, %struct\.SandboxOption\* (%[\w.]+), i32 1$', defs.get(v, ""))
            if mg and re.match(r'%[\w.]+ = load %struct\.SandboxOption\*, %struct\.SandboxOption\*\* ' + re.escape(ov) + r',', defs.get(mg.group(1), "")):
                continue
            fact = "unrecognised: the option pointer is assigned: " + (defs.get(v, "") or v)[:60]
    out.append((f.name, fact))
    pan = [b for b in f.blocks if b.term == "unreachable" and any(i.kind == "call" and (i.callee or "").startswith("janet_panic") for i in b.insts)]
    out.append((f.name, "unknown keyword: janet_panic*; unreachable" if pan else "unrecognised: no panic path"))
    return out


def extract(build, ir_text=None):
    sens, benign, exempt, spawners, caps = cap_tables()
    tree = build.tree
    if ir_text is None:
        cfile = os.path.join(build.dir, "boot", "janet.c")
        if not os.path.exists(cfile):
            raise ExtractError("no amalgamation at " + cfile)
        out = os.path.join(build.dir, "boot", "janet-c18.ll")
        tmp = "%s.%d.tmp" % (out, os.getpid())       # private while it is written: another C18 run on the same tree may be reading
        try:
            ir_text = llvmir.compile_ir(cfile, [os.path.join(tree, "src/include"), os.path.join(tree, "src/conf")], out=tmp)
            os.replace(tmp, out)                     # (kept for inspection)
        finally:
            if os.path.exists(tmp):
                os.remove(tmp)
    mod = llvmir.parse(ir_text)
    M = Model()
    M.mod = mod
    M.sens, M.benign, M.exempt, M.spawners, M.caps = sens, benign, exempt, spawners, caps
    M.site_role, M.by_role, M.param_modes = role_tables()
    gep = _flag_field(mod)
    M.flag_gep = gep
    M.flag_writes = flag_writes(mod, gep)
    M.thread_start = thread_start_shape(mod, gep, None, spawners) + thread_message_path(mod)
    M.defines = header_defines(tree, os.path.join(build.dir, "boot"))
    M.options = sandbox_options(mod)
    regs, methods = registration_tables(mod)
    M.regs, M.methods = regs, methods
    M.sandbox_shape = sandbox_cfun_shape(mod, gep, regs)
    src_regs = source_registrations(tree)
    missing = sorted(n for n in regs if n not in src_regs)
    if missing:
        raise ExtractError("registered in IR but not found by the source parser: %s" % missing[:8])
    for n, fs in regs.items():
        if not fs <= src_regs[n]:
            raise ExtractError("IR and source disagree on the C function of %s: %s vs %s" % (n, sorted(fs), sorted(src_regs[n])))
    M.src_only = sorted(n for n in src_regs if n not in regs)     # other platforms / disabled features
    # external symbols
    ext_vars = set()
    for g, init in mod.globals.items():
        if re.match(r'external\s', init) and not g.startswith("llvm."):
            ext_vars.add(g)
    M.externals = sorted(x for x in (mod.declared | ext_vars) if not x.startswith("llvm."))   # llvm.*: compiler intrinsics
    M.all_known = list(sens) + _benign_ordered()
    fdefs = mod.functions
    # sensitive names may also be *defined* functions (the FFI trampoline)
    sens_names = set(sens)
    # ---- direct call graph + spawner edges + uses of addresses
    addr_uses = {}        # defined function -> list of (where, via spawner?)
    cg = {}
    for name in mod.order:
        f = fdefs[name]
        s = cg.setdefault(name, set())
        for b in f.blocks:
            for i in b.insts:
                if i.kind == "call" and i.callee:
                    s.add(i.callee)
                for r in i.refs:
                    if r in fdefs:
                        via = i.kind == "call" and i.callee in spawners
                        addr_uses.setdefault(r, []).append((name, via))
                        if via:
                            s.add(r)
                    elif r in sens_names:
                        s.add(r)
    for g, init in mod.globals.items():
        for r in re.finditer(r'@([\w.$]+)', init):
            if r.group(1) in fdefs:
                addr_uses.setdefault(r.group(1), []).append(("global " + g, False))
    M.escaping = set(n for n, us in addr_uses.items() if any(not via for _, via in us))
    # independent scan of the IR text (Lean: gen_entries compares it with the entry list of the graph)
    rdefined, ruses = raw_address_scan(ir_text, spawners)
    if rdefined != set(fdefs):
        raise ExtractError("address scan and IR parser disagree on the set of defined functions: %s" % sorted(rdefined ^ set(fdefs))[:6])
    M.addr_uses_raw = ruses
    M.addr_taken = sorted(n for n, us in ruses.items() if any(k[4:] not in spawners for _, k in us if k.startswith("arg:")) or
                          any(not k.startswith("arg:") for _, k in us))
    M.handovers = sorted(set((n, w) for n, us in ruses.items() for w, k in us if k.startswith("arg:") and k[4:] in spawners))
    # ---- mayGrow: functions that may change the flag word (whole program, direct + type-compatible indirect calls)
    bysig = {}
    for n in M.escaping:
        bysig.setdefault(fn_sig(fdefs[n]), []).append(n)
    icalls = {}
    for fn, lab, i in mod.indirect_call_sites():
        icalls.setdefault(fn, set()).add(icall_sig(i))
    may = set(n for n, k in M.flag_writes)
    changed = True
    while changed:
        changed = False
        for fn in mod.order:
            if fn in may:
                continue
            if cg[fn] & may or any(set(bysig.get(s, ())) & may for s in icalls.get(fn, ())):
                may.add(fn)
                changed = True
    M.may_grow = may
    M.benign_calls = set()
    # certificate for `may` (checked in Lean, gen_mayGrow): the complement is closed under direct calls and under
    # type-compatible indirect calls, and contains no function that writes the flag word
    edges = set()
    for fn in mod.order:
        if fn in may:
            continue
        for c in cg[fn]:
            if c in fdefs:
                edges.add((fn, c))
        for sg in icalls.get(fn, ()):
            for c in bysig.get(sg, ()):
                edges.add((fn, c))
    M.nogrow_edges = sorted(edges)
    # ---- slice: functions that reach a sensitive symbol through direct calls / spawner edges
    rev = {}
    for a, bs in cg.items():
        for b_ in bs:
            rev.setdefault(b_, set()).add(a)
    R, todo = set(), [s for s in sens_names]
    while todo:
        x = todo.pop()
        for c in rev.get(x, ()):
            if c not in R and c not in sens_names:
                R.add(c)
                todo.append(c)
    # ... plus the helpers they call that (transitively) assert: their asserts are part of the callers' paths
    A, todo = set(), ["janet_sandbox_assert"]
    while todo:
        x = todo.pop()
        for c in rev.get(x, ()):
            if c not in A:
                A.add(c)
                todo.append(c)
    todo = list(R)
    while todo:
        x = todo.pop()
        for c in cg.get(x, ()):
            if c in A and c not in R and c in fdefs and c != "janet_sandbox":
                R.add(c)
                todo.append(c)
    base_slice = [n for n in mod.order if n in R]
    # ---- parameter-keyed functions: Cap.paramModes (reviewed: `need` depends on the parameter) + helpers that forward an
    # i32 parameter to janet_sandbox_assert (`static void need_cap(uint32_t cap) { janet_sandbox_assert(cap); }`), found here.
    # Both kinds: not address-taken, parameter spilled once and never assigned, every call site passes an integer constant.
    # Each is CLONED per constant (one graph function per (function, constant)), so its postcondition is per constant.
    for pf in M.param_modes:
        if pf not in fdefs:
            raise ExtractError("Cap.paramModes: function %s does not exist" % pf)
    M.mode_functions_names = set(re.findall(r'\("(\w+)",\s*"[\w-]+"\)', re.search(r'def modeFunctions[^\n]*', open(CAP_LEAN).read()).group(0)))
    M.param_all = dict(M.param_modes)
    M.param_auto = {}
    for n in base_slice:
        if n in M.param_all or n in M.escaping:
            continue
        ai = _auto_param(fdefs[n])
        if ai is not None:
            M.param_all[n] = ai
            M.param_auto[n] = ai
    consts = {pf: set() for pf in M.param_all}
    for n in base_slice:
        for b in fdefs[n].blocks:
            for i in b.insts:
                if i.kind == "call" and i.callee in M.param_all:
                    ai = M.param_all[i.callee]
                    if ai >= len(i.const_args) or i.const_args[ai] is None or i.const_args[ai] < 0:
                        raise ExtractError("%s: argument %d of %s (parameter-keyed function%s) is not a non-negative integer constant" % (
                            n, ai, i.callee, " of Cap.paramModes" if i.callee in M.param_modes else ": it forwards the parameter to janet_sandbox_assert"))
                    consts[i.callee].add(i.const_args[ai])
    # out-parameter functions: `*p = constant` through one i32* parameter, at most one value per activation (see _out_param);
    # one graph function per value the activation stores (OUT_NONE = it stores nothing)
    M.out_param = {}
    for n in base_slice:
        if n in M.escaping or n in M.mode_functions_names or n in M.param_auto:
            continue
        op_ = _out_param(fdefs[n])
        if op_ is not None:
            M.out_param[n] = op_
    M.slice, M.slice_m0, M.slice_ov, M.clone_id = [], [], [], {}
    for n in base_slice:
        cs = sorted(consts.get(n, ())) if n in M.param_all else [None]
        if len(cs) > 24:
            raise ExtractError("%s: parameter-keyed function called with %d different constants" % (n, len(cs)))
        ovs = (M.out_param[n]["vals"] + [OUT_NONE]) if n in M.out_param else [None]
        for c in (cs or [0]):
            for ov in ovs:
                M.clone_id[(n, c, ov)] = len(M.slice)
                M.slice.append(n)
                M.slice_m0.append(c)
                M.slice_ov.append(ov)
    M.param_consts = {k: sorted(v) for k, v in consts.items()}
    # ---- nodes
    fn_ids = {}
    for k, n in enumerate(M.slice):
        fn_ids.setdefault(n, k)              # name -> first clone
    M.mode_relevant = _mode_relevant()
    capsrc = open(CAP_LEAN).read()
    M.mode_functions = dict(re.findall(r'\("(\w+)",\s*"([\w-]+)"\)', re.search(r'def modeFunctions[^\n]*', capsrc).group(0)))
    M.file_flags_relevant = 15
    for mf in M.mode_functions:
        if mf not in fdefs:
            raise ExtractError("Cap.modeFunctions: function %s does not exist" % mf)
        if mf not in fn_ids:
            raise ExtractError("Cap.modeFunctions: function %s is not in the slice" % mf)
    M.mode_tracked, M.mode_untracked, M.mask_tracked, M.assert_choices = [], [], [], []
    M.guard_tracked = []
    M.stop_nodes = []
    M.out_sites = []
    M.out_forks = []
    M.setjmp_fns = set()
    M.param_slot = {}
    nodes = []            # (fn id, op tuple, succ node ids)   op: ('nop',) ('assert',m) ('libc',fn,name) ('call',g) ('havoc',why) ('ret',)
    entry_of = []
    M.node_src = []       # parallel: (function, block label, text)
    seen_names = set()
    for fidx, name in enumerate(M.slice):
        f = fdefs[name]
        again = name in seen_names          # a further clone of a parameter-keyed function: same events, own nodes
        seen_names.add(name)
        marks = (len(M.mode_tracked), len(M.mode_untracked), len(M.mask_tracked), len(M.assert_choices))
        M.cur_ov = M.slice_ov[fidx]
        M.out_upd, M.out_after = {}, {}
        first = {}
        chains = []
        mode_ev = _mode_track(M, f)
        mask_ev, var_asserts = _mask_track(M, f, _param_fixed(f, M.param_auto[name]) if name in M.param_auto else None)
        guard_ev, guard_br = {}, {}
        if name not in M.mode_functions and name not in M.param_all:
            excl = set(v for n_, v in M.mode_tracked + M.mask_tracked if n_ == name)
            guard_ev, guard_br, ginfo, M.out_upd = _guard_track(M, f, excl)
            if ginfo:
                M.guard_tracked.append((name, ginfo))
        if (mask_ev or var_asserts) and (name in M.mode_functions or name in M.param_all):
            raise ExtractError("%s: a tracked assert-mask variable next to another tracked variable kind" % name)
        if (1 if mode_ev else 0) + (1 if mask_ev or var_asserts else 0) + (1 if guard_ev else 0) > 1:
            # several variables packed in one word: an assignment keeps the other fields
            mode_ev = {k: (("modeUpd", _keep(LO_KEEP), v[1]) if v[0] == "modeSet" else v) for k, v in mode_ev.items()}
            mask_ev = {k: (("modeUpd", _keep(HI_KEEP), v[1]) if v[0] == "modeSet" else v) for k, v in mask_ev.items()}
        mode_ev = dict(mode_ev)
        mode_ev.update(mask_ev)
        mode_ev.update(guard_ev)
        if name in M.param_all:
            if mode_ev:
                raise ExtractError("%s: parameter-keyed function (Cap.paramModes / assert-forwarding helper) has a tracked local as well" % name)
            if name in M.escaping:
                raise ExtractError("%s: Cap.paramModes function is address-taken (its parameter is not a constant)" % name)
            M.param_slot[name] = _param_fixed(f, M.param_all[name])
        for b in f.blocks:
            evs = []
            for i in b.insts:
                if id(i) in mode_ev:
                    evs.append((mode_ev[id(i)], i.text))
                evs += _events(M, name, i, fn_ids, fdefs, b, var_asserts)
                if id(i) in M.out_after:
                    evs.append((M.out_after[id(i)], i.text))
            if b.term == "ret":
                evs.append((("ret",), "ret"))
            if not evs:
                evs = [(("nop",), "")]
            first[b.label] = len(nodes)
            exits = []                     # exit nodes of the previous event (one, or the alternatives of a choice)
            for op, txt in evs:
                ent = len(nodes)
                if op[0] == "choice":      # assert(c ? A : B): a fork (nop) to one assert node per constant; no condition modelled
                    nodes.append([fidx, ("nop",), []])
                    M.node_src.append((name, b.label, txt))
                    if len(op) > 2:
                        M.out_forks.append((ent,) + op[2])
                    heads, new_exits = [], []
                    for alt in op[1]:          # each alternative is a chain of ops
                        prev = None
                        for aop in alt:
                            cur_ = len(nodes)
                            nodes.append([fidx, aop, []])
                            M.node_src.append((name, b.label, txt))
                            if prev is None:
                                heads.append(cur_)
                            else:
                                nodes[prev][2] = [cur_]
                            prev = cur_
                        new_exits.append(prev)
                    nodes[ent][2] = heads
                elif op[0] == "stop":      # this clone's activation never executes the instruction: a node without successors
                    nodes.append([fidx, ("nop",), []])
                    M.node_src.append((name, b.label, txt))
                    M.stop_nodes.append(ent)
                    new_exits = []
                else:
                    nodes.append([fidx, op, []])
                    M.node_src.append((name, b.label, txt))
                    new_exits = [ent]
                for a in exits:
                    nodes[a][2] = [ent]
                exits = new_exits
            chains.append((b, exits))
        for b, lasts in chains:
            if b.term == "indirectbr":
                raise ExtractError("indirectbr in slice function " + name)
            targets = [first[s] for s in b.succs]
            if b.label in guard_br:            # conditional branch on a guard variable: one modeTest node per edge
                field, arms = guard_br[b.label]
                targets = []
                for (val, eq), s_ in zip(arms, b.succs):
                    targets.append(len(nodes))
                    nodes.append([fidx, ("modeTest", field, val, eq), [first[s_]]])
                    M.node_src.append((name, b.label, b.term_text))
            for last in lasts:
                nodes[last][2] = [] if nodes[last][1][0] == "ret" else list(targets)
        entry_of.append(first[f.blocks[0].label])
        if name in M.setjmp_fns and (mode_ev or name in M.param_all):
            raise ExtractError("%s calls setjmp and has a tracked variable (its value after a longjmp is not modelled)" % name)
        if again:                            # bookkeeping lists: one line per function, not per clone
            del M.mode_tracked[marks[0]:], M.mode_untracked[marks[1]:], M.mask_tracked[marks[2]:], M.assert_choices[marks[3]:]
    M.nodes = nodes
    M.fn_ids = fn_ids
    M.entries_of = entry_of
    # out-parameter families: (function, key constant) -> size of a clone, [(graph function, value; OUT_NONE_L = nothing)], [(node offset, constant)]
    M.out_families, M.out_family_ix = [], {}
    for n in M.out_param:
        for key in sorted(set(k[1] for k in M.clone_id if k[0] == n), key=lambda x: -1 if x is None else x):
            clones = [(M.clone_id[(n, key, ov)], OUT_NONE_L if ov == OUT_NONE else ov) for ov in M.out_param[n]["vals"] + [OUT_NONE]]
            f0 = clones[0][0]
            size = (entry_of[f0 + 1] if f0 + 1 < len(entry_of) else len(nodes)) - entry_of[f0]
            stores = []
            for j in range(size):
                src = M.node_src[entry_of[f0] + j][2]
                ms = re.match(r'out-store (\d+): ', src)
                if ms:
                    stores.append((j, int(ms.group(1))))
            M.out_family_ix[(n, key)] = len(M.out_families)
            M.out_families.append((size, clones, stores))
    M.out_site_rows = [(n_, M.out_family_ix[(c_, k_)], off_) for n_, c_, k_, off_ in M.out_forks]
    # entry points: functions of the slice whose address escapes (registered cfunctions, method tables, callbacks)
    M.entry_fns = [n for n in M.slice if n in M.escaping]
    cfun_names = {}
    for jn, fs in list(regs.items()) + [("method :" + k, v) for k, v in methods.items()]:
        for c in fs:
            cfun_names.setdefault(c, []).append(jn)
    M.cfun_names = cfun_names
    return M


OPEN_FLAGS_ARG = {"open": 1, "open64": 1, "openat": 2, "openat64": 2}


def _mode_track(M, f):
    """open(2) flags tracking for one function: {id(instruction): ('modeSet', c) | ('modeOr', c)} (events emitted just
    BEFORE that instruction's own events).  The flags argument of every open-like call must be a constant or the load of one
    i32 alloca that is only ever assigned constants and `x | constant`; otherwise the call is preceded by modeSet 3
    ("unknown": Cap.needOpen then requires both capabilities)."""
    REL = M.mode_relevant
    out = {}
    if f.name in M.mode_functions:
        return _mode_track_result(M, f)
    sites = []
    for b in f.blocks:
        for k, i in enumerate(b.insts):
            if i.kind == "call" and i.callee in OPEN_FLAGS_ARG:
                sites.append((b, k, i))
    if not sites:
        return out
    allocas = set()
    site_var = {}
    for b, k, i in sites:
        ai = OPEN_FLAGS_ARG[i.callee]
        if ai >= len(i.args):
            out[id(i)] = ("modeSet", 3)
            continue
        c = i.const_args[ai]
        if c is not None:
            out[id(i)] = ("modeSet", c & REL)
            continue
        val = i.args[ai][1]
        d = [x.text for x in b.insts[:k] if x.text.startswith(val + " = ")]
        m = re.match(r'%[\w.]+ = load i32, i32\* (%[\w.]+),', d[-1]) if d else None
        if not m:
            out[id(i)] = ("modeSet", 3)
            continue
        site_var[id(i)] = m.group(1)
        allocas.add(m.group(1))
    if not allocas:
        return out
    ok = len(allocas) == 1
    var = sorted(allocas)[0]
    evs = {}
    if ok:
        pat = re.compile(r'(?<![\w.])' + re.escape(var) + r'(?![\w.])')
        for b in f.blocks:
            defs = {}
            for i in b.insts:
                t = i.text
                if " = " in t:
                    defs[t.split(" = ")[0]] = t
                if not pat.search(t):
                    continue
                if re.match(re.escape(var) + r' = alloca i32\b', t) or re.match(r'%[\w.]+ = load i32, i32\* ' + re.escape(var) + r',', t):
                    continue
                ms = re.match(r'store i32 (\S+), i32\* ' + re.escape(var) + r',', t)
                if not ms:
                    ok = False
                    break
                v = ms.group(1)
                if re.match(r'^-?\d+$', v):
                    evs[id(i)] = ("modeSet", int(v) & REL)
                    continue
                dv = defs.get(v, "")
                if re.match(r'%[\w.]+ = load i32, i32\* ' + re.escape(var) + r',', dv):
                    continue                                    # x |= 0 (clang folds the or away)
                mo = re.match(r'%[\w.]+ = or i32 (\S+), (\S+)$', dv)
                if mo:
                    a, c2 = mo.groups()
                    if re.match(r'^-?\d+$', a):
                        a, c2 = c2, a
                    if re.match(r'^-?\d+$', c2) and re.match(r'%[\w.]+ = load i32, i32\* ' + re.escape(var) + r',', defs.get(a, "")):
                        evs[id(i)] = ("modeOr", int(c2) & REL)
                        continue
                ok = False
                break
            if not ok:
                break
    if ok:
        out.update(evs)
        M.mode_tracked.append((f.name, var))
    else:
        for sid in site_var:
            out[sid] = ("modeSet", 3)
        M.mode_untracked.append(f.name)
    return out


def _mode_track_result(M, f):
    """Functions of Cap.modeFunctions (io.c checkflags): track the i32 local that is built with `|= constant` and emit the
    pseudo call where its value is copied out (into the return slot)."""
    REL = M.file_flags_relevant
    pseudo = M.mode_functions[f.name]
    ld = r'%[\w.]+ = load i32, i32\* '
    cands = set()
    for b in f.blocks:
        defs = {}
        for i in b.insts:
            t = i.text
            if " = " in t:
                defs[t.split(" = ")[0]] = t
            ms = re.match(r'store i32 (%[\w.]+), i32\* (%[\w.]+),', t)
            if ms and re.match(r'%[\w.]+ = or i32 ', defs.get(ms.group(1), "")):
                cands.add(ms.group(2))
    if len(cands) != 1:
        raise ExtractError("%s: expected exactly one `x |= constant` local, found %s" % (f.name, sorted(cands)))
    var = cands.pop()
    out = {}
    npseudo = 0
    pat = re.compile(r'(?<![\w.])' + re.escape(var) + r'(?![\w.])')
    for b in f.blocks:
        defs = {}
        for i in b.insts:
            t = i.text
            if " = " in t:
                defs[t.split(" = ")[0]] = t
            ms = re.match(r'store i32 (\S+), i32\* (%[\w.]+),', t)
            if ms and ms.group(2) != var and re.match(ld + re.escape(var) + r',', defs.get(ms.group(1), "")):
                out[id(i)] = ("libc", f.name, pseudo)          # the tracked value leaves the function here
                npseudo += 1
                continue
            if not pat.search(t):
                continue
            if re.match(re.escape(var) + r' = alloca i32\b', t) or re.match(ld + re.escape(var) + r',', t):
                continue
            if not ms or ms.group(2) != var:
                raise ExtractError("%s: untracked use of the flags local: %s" % (f.name, t[:100]))
            v = ms.group(1)
            if re.match(r'^-?\d+$', v):
                out[id(i)] = ("modeSet", int(v) & REL)
                continue
            mo = re.match(r'%[\w.]+ = or i32 (\S+), (\S+)$', defs.get(v, ""))
            if mo and re.match(r'^-?\d+$', mo.group(2)) and re.match(ld + re.escape(var) + r',', defs.get(mo.group(1), "")):
                out[id(i)] = ("modeOr", int(mo.group(2)) & REL)
                continue
            raise ExtractError("%s: flags local assigned in an unexpected way: %s" % (f.name, t[:100]))
    if npseudo == 0:
        raise ExtractError("%s: the flags local is never handed back" % f.name)
    M.mode_tracked.append((f.name, var))
    return out


SHIFT = 16                             # the tracked assert-mask variable lives in bits 16..47 of the activation's word
LO_KEEP = (1 << SHIFT) - 1             # field of the open(2)-flags variable
HI_KEEP = 0xFFFFFFFF << SHIFT          # field of the assert-mask variable
GUARD_SHIFT = 48                       # guard variables: one 8-bit field each, from bit 48
GUARD_BITS = 8
MAX_GUARDS = 4
ALLW = (1 << (GUARD_SHIFT + GUARD_BITS * MAX_GUARDS)) - 1


def _keep(field):
    """`keep` operand of modeUpd for an assignment to `field`: every other field of the word"""
    return ALLW & ~field


OUT_PTR_LIBC = {"getaddrinfo": 3}      # reviewed: external functions that return a pointer through argument k and do not keep the address
OUT_NONE_L = 256                       # the same in the generated Lean tables
OUT_NONE = -1                          # clone of an out-parameter function for the activations that store nothing


def _out_param(f):
    """`f` has exactly one `i32*` parameter p that is spilled once, never assigned, and whose every use is
    `*p = constant (0..255)`; and no store through p can be followed, in the CFG, by a store of a DIFFERENT constant through p.
    Then an activation of f stores at most one value through p, and the set of activations is the union over v of "stores
    only v" plus "stores nothing": the graph gets one clone of f per case, in which the other stores are nodes without
    successors (such an activation never executes them).
    -> dict(idx, slot, stores={id(inst): constant}, vals=[..]) or None (not recognised = not summarised)."""
    found = []
    for x in f.blocks[0].insts:
        m = re.match(r'store i32\* %(\d+), i32\*\* (%[\w.]+),', x.text)
        if m and int(m.group(1)) < f.params:
            found.append((int(m.group(1)), m.group(2)))
    res = []
    for idx, slot in found:
        pat = re.compile(r'(?<![\w.])' + re.escape(slot) + r'(?![\w.])')
        ppat = re.compile(r'(?<![\w.])%' + str(idx) + r'(?![\w.])')
        ptrs, ok, nspill = set(), True, 0
        for b in f.blocks:
            for i in b.insts:
                t = i.text
                if ppat.search(t):
                    if re.match(r'store i32\* %' + str(idx) + r', i32\*\* ' + re.escape(slot) + r',', t):
                        nspill += 1
                    else:
                        ok = False
                    continue
                if not pat.search(t):
                    continue
                if re.match(re.escape(slot) + r' = alloca i32\*', t):
                    continue
                ml = re.match(r'(%[\w.]+) = load i32\*, i32\*\* ' + re.escape(slot) + r',', t)
                if ml:
                    ptrs.add(ml.group(1))
                    continue
                ok = False
            if b.term_text and (pat.search(b.term_text) or ppat.search(b.term_text)):
                ok = False
        if not ok or nspill != 1 or not ptrs:
            continue
        stores, where = {}, []
        anyp = re.compile(r'(?<![\w.])(' + "|".join(re.escape(p_) for p_ in sorted(ptrs)) + r')(?![\w.])')
        for b in f.blocks:
            for k, i in enumerate(b.insts):
                t = i.text
                if not anyp.search(t):
                    continue
                if re.match(r'%[\w.]+ = load i32\*, i32\*\* ', t) and t.split(" = ")[0] in ptrs:
                    continue
                ms = re.match(r'store i32 (-?\d+), i32\* (%[\w.]+),', t)
                if ms and ms.group(2) in ptrs and 0 <= int(ms.group(1)) < (1 << GUARD_BITS) and len(anyp.findall(t)) == 1:
                    stores[id(i)] = int(ms.group(1))
                    where.append((b, k, int(ms.group(1))))
                    continue
                ok = False
            if b.term_text and anyp.search(b.term_text):
                ok = False
        if not ok or not stores:
            continue
        # no store of another constant after a store (CFG reachability)
        for b, k, c in where:
            seen, todo = set(), list(b.succs)
            while todo:
                l_ = todo.pop()
                if l_ not in seen:
                    seen.add(l_)
                    todo += f.bmap[l_].succs
            for b2, k2, c2 in where:
                if c2 != c and (b2.label in seen or (b2 is b and k2 > k)):
                    ok = False
        if ok:
            res.append(dict(idx=idx, slot=slot, stores=stores, vals=sorted(set(stores.values()))))
    return res[0] if len(res) == 1 and len(found) == 1 else None


def _guard_track(M, f, exclude):
    """Guard variables of one function: i32 locals that are only ever assigned integer constants 0..255 and that decide at
    least one conditional branch `br (icmp eq|ne (load x), K)`.  The address is used for nothing but load / store - or as the
    argument of ONE out-parameter function (M.out_param: the callee's only stores through it are constants, summarised per
    clone of the callee).  Each gets an 8-bit field of the activation's word.
    -> ({id(store inst): ('modeUpd', keep, value << off)},
        {block label: (field mask, [(value << off, eq) for the true edge, (.., not eq) for the false edge])},
        [(alloca, offset, values, branch blocks)],
        {id(call inst): (keep, offset, alloca)} for the calls that get the address of a guard variable)
    Anything not recognised is simply not tracked (no guard = every path possible = over-approximation)."""
    allocas = []
    for b in f.blocks:
        for i in b.insts:
            m = re.match(r'(%[\w.]+) = alloca i32\b', i.text)
            if m and m.group(1) not in exclude:
                allocas.append(m.group(1))
    cands = {}
    for v in allocas:
        pat = re.compile(r'(?<![\w.])' + re.escape(v) + r'(?![\w.])')
        ld = re.compile(r'%[\w.]+ = load i32, i32\* ' + re.escape(v) + r',')
        st = re.compile(r'store i32 (-?\d+), i32\* ' + re.escape(v) + r',')
        ok, stores, vals, outs, callee = True, [], set(), [], None
        for b in f.blocks:
            for i in b.insts:
                t = i.text
                if not pat.search(t):
                    continue
                if re.match(re.escape(v) + r' = alloca i32\b', t) or ld.match(t):
                    continue
                ms = st.match(t)
                if ms and 0 <= int(ms.group(1)) < (1 << GUARD_BITS):
                    stores.append((i, int(ms.group(1))))
                    vals.add(int(ms.group(1)))
                    continue
                if i.kind == "call" and i.callee in M.out_param and callee in (None, i.callee) and len(pat.findall(t)) == 1:
                    op_ = M.out_param[i.callee]
                    if op_["idx"] < len(i.args) and i.args[op_["idx"]][1] == v and i.args[op_["idx"]][0].startswith("i32*"):
                        callee = i.callee
                        outs.append(i)
                        vals.update(op_["vals"])
                        continue
                ok = False
                break
            if not ok:
                break
            if b.term_text and pat.search(b.term_text):
                ok = False
                break
        if ok and stores:
            cands[v] = (stores, vals, outs)
    # pointer locals that are only assigned `null` and whose address is passed to a reviewed external function that writes a
    # result pointer through it (OUT_PTR_LIBC): value 0 = null, 1 = not null; after such a call the variable is either
    ptr_after = {}
    for b in f.blocks:
        for i in b.insts:
            m = re.match(r'(%[\w.]+) = alloca (\S+\*),', i.text)
            if not m or m.group(1) in exclude:
                continue
            v, ty = m.group(1), re.escape(m.group(2))
            pat = re.compile(r'(?<![\w.])' + re.escape(v) + r'(?![\w.])')
            ok, stores, outs = True, [], []
            for b2 in f.blocks:
                for i2 in b2.insts:
                    t = i2.text
                    if not pat.search(t):
                        continue
                    if i2 is i or re.match(r'%[\w.]+ = load ' + ty + ', ' + ty + r'\* ' + re.escape(v) + r',', t):
                        continue
                    if re.match(r'store ' + ty + ' null, ' + ty + r'\* ' + re.escape(v) + r',', t):
                        stores.append((i2, 0))
                        continue
                    if i2.kind == "call" and i2.callee in OUT_PTR_LIBC and i2.callee not in M.mod.functions and len(pat.findall(t)) == 1 \
                            and OUT_PTR_LIBC[i2.callee] < len(i2.args) and i2.args[OUT_PTR_LIBC[i2.callee]][1] == v:
                        outs.append(i2)
                        continue
                    ok = False
                if b2.term_text and pat.search(b2.term_text):
                    ok = False
            if ok and stores and outs:
                cands[v] = (stores, {0, 1}, [])
                allocas.append(v)
                ptr_after[v] = (outs, m.group(2))
    # conditional branches decided by a candidate
    branches = {}
    for b in f.blocks:
        if b.term != "br" or len(b.succs) != 2:
            continue
        mb = re.match(r'br i1 (%[\w.]+), label ', b.term_text)
        if not mb:
            continue
        defs = {}
        pos = {}
        for k, x in enumerate(b.insts):
            if " = " in x.text:
                r = x.text.split(" = ")[0]
                defs[r] = x.text
                pos[r] = k
        cmp_ = defs.get(mb.group(1), "")
        mc = re.match(r'%[\w.]+ = icmp (eq|ne) i32 (%[\w.]+), (-?\d+)$', cmp_)
        if mc:
            is_eq, ldreg, kc = mc.group(1) == "eq", mc.group(2), int(mc.group(3))
            ml = re.match(r'%[\w.]+ = load i32, i32\* (%[\w.]+),', defs.get(ldreg, ""))
            v = ml.group(1) if ml else None
            if v in ptr_after:
                continue
        else:
            mc = re.match(r'%[\w.]+ = icmp (eq|ne) (\S+\*) (%[\w.]+), null$', cmp_)
            if not mc:
                continue
            is_eq, ldreg, kc = mc.group(1) == "eq", mc.group(3), 0          # x == NULL  <=>  field == 0
            ml = re.match(r'%[\w.]+ = load (\S+\*), \S+ (%[\w.]+),', defs.get(ldreg, ""))
            v = ml.group(2) if ml and ml.group(1) == mc.group(2) else None
            if v not in ptr_after or ptr_after[v][1] != mc.group(2):
                continue
        if v not in cands or not 0 <= kc < (1 << GUARD_BITS):
            continue
        # the variable must not be assigned between the load and the branch
        if any(x.kind in ("store", "call", "icall", "asm") and re.search(r'(?<![\w.])' + re.escape(v) + r'(?![\w.])', x.text)
               for x in b.insts[pos[ldreg]:]):
            continue
        branches.setdefault(v, []).append((b.label, is_eq, kc))
    chosen = [v for v in allocas if v in branches][:MAX_GUARDS]
    evs, brs, info, out_upd = {}, {}, [], {}
    for k, v in enumerate(chosen):
        off = GUARD_SHIFT + GUARD_BITS * k
        field = ((1 << GUARD_BITS) - 1) << off
        for i, c in cands[v][0]:
            evs[id(i)] = ("modeUpd", _keep(field), c << off)
        for i in cands[v][2]:
            out_upd[id(i)] = (_keep(field), off, v)
        for i in ptr_after.get(v, ([], None))[0]:
            M.out_after[id(i)] = ("choice", [[("modeUpd", _keep(field), 0)], [("modeUpd", _keep(field), 1 << off)]])
        for lab, is_eq, kc in branches[v]:
            if lab in brs:
                continue
            brs[lab] = (field, [(kc << off, is_eq), (kc << off, not is_eq)])
        info.append((v, off, sorted(cands[v][1]), [b_[0] for b_ in branches[v]]))
    return evs, brs, info, out_upd


def _param_fixed(f, idx):
    """Parameter `idx` of f is spilled to one alloca that is never assigned again (clang -O0 shape)."""
    b0 = f.blocks[0]
    slot = None
    for i in b0.insts:
        m = re.match(r'store i32 %' + str(idx) + r', i32\* (%[\w.]+),', i.text)
        if m:
            slot = m.group(1)
            break
    if slot is None:
        raise ExtractError("%s: parameter %d is not an i32 spilled in the entry block" % (f.name, idx))
    pat = re.compile(r'(?<![\w.])' + re.escape(slot) + r'(?![\w.])')
    n = 0
    for b in f.blocks:
        for i in b.insts:
            t = i.text
            if not pat.search(t):
                continue
            if re.match(re.escape(slot) + r' = alloca i32\b', t) or re.match(r'%[\w.]+ = load i32, i32\* ' + re.escape(slot) + r',', t):
                continue
            if re.match(r'store i32 %' + str(idx) + r', i32\* ' + re.escape(slot) + r',', t):
                n += 1
                continue
            raise ExtractError("%s: parameter %d is modified / its address is used: %s" % (f.name, idx, t[:100]))
    if n != 1:
        raise ExtractError("%s: parameter %d spilled %d times" % (f.name, idx, n))
    return slot


def _assert_arg(f, b, i, pslot=None):
    """Non-constant argument of a janet_sandbox_assert call: ('choice', [c1, c2..]) for select/phi of constants,
    ('pchoice', c_if_nonzero, c_if_zero) for `p ? A : B` on the tracked parameter (spilled to `pslot`),
    ('var', alloca) for a load of an i32 local; ExtractError otherwise."""
    val = i.args[0][1] if i.args else ""
    d = None
    for x in b.insts:
        if x is i:
            break
        if x.text.startswith(val + " = "):
            d = x.text
    if d is None:
        raise ExtractError("janet_sandbox_assert with a non-constant argument in %s (no definition of %s in the block)" % (f.name, val))
    m = re.match(r'%[\w.]+ = select i1 (%[\w.]+), i32 (-?\d+), i32 (-?\d+)$', d)
    if m:
        a_, b_ = int(m.group(2)) & 0xFFFFFFFF, int(m.group(3)) & 0xFFFFFFFF
        if pslot is not None:
            defs = {x.text.split(" = ")[0]: x.text for x in b.insts if " = " in x.text}
            mc = re.match(r'%[\w.]+ = icmp ne i32 (%[\w.]+), 0$', defs.get(m.group(1), ""))
            if mc and re.match(r'%[\w.]+ = load i32, i32\* ' + re.escape(pslot) + r',', defs.get(mc.group(1), "")):
                return ("pchoice", a_, b_)
        return ("choice", [a_, b_])
    m = re.match(r'%[\w.]+ = phi i32 (.*)$', d)
    if m:
        inc = re.findall(r'\[\s*(\S+),\s*%[\w.]+\s*\]', m.group(1))
        if inc and all(re.match(r'^-?\d+$', v) for v in inc):
            return ("choice", sorted(set(int(v) & 0xFFFFFFFF for v in inc)))
    m = re.match(r'%[\w.]+ = load i32, i32\* (%[\w.]+),', d)
    if m:
        return ("var", m.group(1))
    raise ExtractError("janet_sandbox_assert with a non-constant argument in %s: %s" % (f.name, d[:100]))


def _auto_param(f):
    """Index of the i32 parameter that `f` forwards to janet_sandbox_assert (`janet_sandbox_assert(cap)` where `cap` is a
    parameter that is spilled once and never assigned), or None."""
    found = set()
    for b in f.blocks:
        for i in b.insts:
            if i.kind == "call" and i.callee == "janet_sandbox_assert" and (len(i.const_args) != 1 or i.const_args[0] is None):
                try:
                    r = _assert_arg(f, b, i)
                except ExtractError:
                    return None
                if r[0] != "var":
                    continue
                for x in f.blocks[0].insts:
                    m = re.match(r'store i32 %(\d+), i32\* ' + re.escape(r[1]) + r',', x.text)
                    if m and int(m.group(1)) < f.params:
                        found.add(int(m.group(1)))
    if len(found) != 1:
        return None
    idx = found.pop()
    try:
        _param_fixed(f, idx)
    except ExtractError:
        return None
    return idx


def _mask_track(M, f, pslot=None):
    """Assert-mask variable of one function: `x = C0; x |= C1; if (..) x |= C2; janet_sandbox_assert(x)`.
    -> ({id(store inst): ('modeSet', c << SHIFT) | ('modeOr', c << SHIFT)}, {id(assert call inst)})"""
    sites = []
    for b in f.blocks:
        for i in b.insts:
            if i.kind == "call" and i.callee == "janet_sandbox_assert" and (len(i.const_args) != 1 or i.const_args[0] is None):
                r = _assert_arg(f, b, i)
                if r[0] == "var" and r[1] != pslot:          # (the forwarded parameter is handled in _events: assertMd 0)
                    sites.append((i, r[1]))
    if not sites:
        return {}, set()
    allocas = set(v for _, v in sites)
    if len(allocas) != 1:
        raise ExtractError("%s: janet_sandbox_assert on more than one mask variable" % f.name)
    var = allocas.pop()
    ld = r'%[\w.]+ = load i32, i32\* ' + re.escape(var) + r','
    pat = re.compile(r'(?<![\w.])' + re.escape(var) + r'(?![\w.])')
    evs = {}
    for b in f.blocks:
        defs = {}
        for i in b.insts:
            t = i.text
            if " = " in t:
                defs[t.split(" = ")[0]] = t
            if not pat.search(t):
                continue
            if re.match(re.escape(var) + r' = alloca i32\b', t) or re.match(ld, t):
                continue
            ms = re.match(r'store i32 (\S+), i32\* ' + re.escape(var) + r',', t)
            if not ms:
                raise ExtractError("janet_sandbox_assert with a non-constant argument in %s: mask variable %s is used in %s" % (f.name, var, t[:80]))
            v = ms.group(1)
            if re.match(r'^-?\d+$', v):
                evs[id(i)] = ("modeSet", (int(v) & 0xFFFFFFFF) << SHIFT)
                continue
            dv = defs.get(v, "")
            if re.match(ld, dv):
                continue
            mo = re.match(r'%[\w.]+ = or i32 (\S+), (\S+)$', dv)
            if mo:
                a, c2 = mo.groups()
                if re.match(r'^-?\d+$', a):
                    a, c2 = c2, a
                if re.match(r'^-?\d+$', c2) and re.match(ld, defs.get(a, "")):
                    evs[id(i)] = ("modeOr", (int(c2) & 0xFFFFFFFF) << SHIFT)
                    continue
            raise ExtractError("janet_sandbox_assert with a non-constant argument in %s: mask variable %s assigned a value that is not built from constants: %s" % (f.name, var, (dv or t)[:80]))
    M.mask_tracked.append((f.name, var))
    return evs, set(id(i) for i, _ in sites)


SETJMP = ("_setjmp", "setjmp", "__sigsetjmp", "sigsetjmp")


def _events(M, fname, i, fn_ids, fdefs, blk=None, var_asserts=()):
    """Events of one IR instruction, in order."""
    evs = []
    sens = M.sens
    if i.kind == "store" and M.flag_gep in i.text:
        return [(("havoc", "flag store"), i.text)]
    if fname in M.out_param and id(i) in M.out_param[fname]["stores"]:
        # `*p = c` in the clone for the activations that store `ov` (and nothing else) through p
        # (a `nop` in the clone that executes it, so that the clones of one function have the same node numbering: `outParamsOK`)
        return [(("nop",) if M.out_param[fname]["stores"][id(i)] == M.cur_ov else ("stop",), "out-store %d: %s" % (M.out_param[fname]["stores"][id(i)], i.text))]
    # references to sensitive externals (address taken, or a variable such as environ read/written)
    for r in i.refs:
        if r in sens and not (i.kind == "call" and i.callee == r):
            evs.append((("libc", fname, r), i.text))
    if i.kind == "icall":
        evs.append((("havoc", "indirect call"), i.text))
    elif i.kind == "call" and i.callee:
        c = i.callee
        if c == "janet_sandbox_assert":
            if id(i) in var_asserts:
                evs.append((("assertMd", SHIFT), i.text))
            elif len(i.const_args) != 1 or i.const_args[0] is None:
                r = _assert_arg(fdefs[fname], blk, i, M.param_slot.get(fname))   # raises ExtractError when it is not select/phi of constants
                if r[0] == "var":
                    if fname in M.param_auto and r[1] == M.param_slot.get(fname):
                        evs.append((("assertMd", 0), i.text))        # the word of this activation IS the constant argument
                        return evs
                    raise ExtractError("janet_sandbox_assert with a non-constant argument in %s" % fname)
                M.assert_choices.append((fname,) + tuple(r))
                if r[0] == "pchoice":          # p ? A : B on the tracked parameter: two guarded arms
                    evs.append((("choice", [[("modeGuard", 0, False), ("assert", r[1])], [("modeGuard", 0, True), ("assert", r[2])]]), i.text))
                else:
                    evs.append((("choice", [[("assert", c_)] for c_ in r[1]]), i.text))
            else:
                evs.append((("assert", i.const_args[0] & 0xFFFFFFFF), i.text))
        elif c in sens:
            evs.append((("libc", fname, c), i.text))
        elif c in SETJMP:
            # returns a second time after a longjmp from anything called later: by then the flag word may have grown, so nothing
            # known before may be kept (`havoc`); tracked variables of such a function would be indeterminate (see extract)
            M.setjmp_fns.add(fname)
            evs.append((("havoc", "setjmp"), i.text))
        elif c.startswith("llvm.mem") and i.args and "@janet_vm to i8*" in i.args[0][0] and "getelementptr" not in i.args[0][0]:
            evs.append((("havoc", "whole-VM overwrite"), i.text))
        elif c in M.spawners:
            for r in i.refs:
                if r in fn_ids:
                    if r in M.param_all or r in M.out_param:
                        raise ExtractError("parameter-keyed function %s is handed to a spawner" % r)
                    evs.append((("call", fn_ids[r], 0), i.text))
        elif c in fn_ids:
            m0, key = 0, None
            if c in M.param_all:
                m0 = key = i.const_args[M.param_all[c]]       # (checked to be a constant when the clones were made)
            if c in M.out_param:
                # the activation stores one of `vals` through its pointer parameter, or nothing: one alternative per case; when
                # the argument is the address of a guard variable of this function, the alternative for v ends with `x := v`
                upd = M.out_upd.get(id(i))
                alts = []
                for ov in M.out_param[c]["vals"] + [OUT_NONE]:
                    alt = [("call", M.clone_id[(c, key, ov)], m0)]
                    if upd is not None and ov != OUT_NONE:
                        alt.append(("modeUpd", upd[0], ov << upd[1]))
                    alts.append(alt)
                M.out_sites.append((fname, c, upd[2] if upd else None))
                evs.append((("choice", alts, (c, key, upd[1] if upd else 0)), i.text))
            else:
                evs.append((("call", M.clone_id[(c, key, None)], m0), i.text))
        elif c in fdefs:
            if c in M.may_grow:
                evs.append((("havoc", "call " + c), i.text))
            else:
                M.benign_calls.add(c)          # no event: certified by `gen_mayGrow` (c is outside the closed set mayGrow)
        # other externals: benign (checked by `classified` in Lean)
    return evs


# ----------------------------------------------------------------------------------------- untrusted analysis -> certificate
def _minimise(groups):
    gs = sorted(set(groups))
    out = []
    for g in gs:
        if not any(h != g and (h & g) == h for h in gs):
            out.append(g)
    return frozenset(out)


def _meet(a, b):
    """knowledge valid on both paths"""
    if a is None:
        return b
    if b is None:
        return a
    return _minimise([x | y for x in a for y in b])


def _bits(m):
    return [1 << k for k in range(32) if m >> k & 1]


def certify(M):
    nodes = M.nodes
    nf = len(M.slice)
    # purity: greatest fixpoint
    pure = [True] * nf
    changed = True
    while changed:
        changed = False
        for fn, op, succ in nodes:
            if pure[fn] and (op[0] == "havoc" or (op[0] == "call" and not pure[op[1]])):
                pure[fn] = False
                changed = True
    K = [dict() for _ in nodes]       # node -> {mode: knowledge}   (one case per mode; joins of equal modes are met)
    fpre = [dict() for _ in range(nf)]               # per function: {initial value of the tracked variable (call `m0`; 0 for entry points): knowledge}
    post = [None] * nf
    for n in M.entry_fns:
        fpre[M.fn_ids[n]][0] = frozenset()
    state = {"work": True}

    def add(n, mode, kn):
        old = K[n].get(mode)
        nk = _meet(old, kn)
        if nk != old:
            K[n][mode] = nk
            state["work"] = True
    rounds = 0
    while state["work"]:
        state["work"] = False
        rounds += 1
        if rounds > 300:
            raise ExtractError("certificate analysis does not converge")
        for f in range(nf):
            for m0 in sorted(fpre[f]):
                add(M.entries_of[f], m0, fpre[f][m0])
        for n, (fn, op, succ) in enumerate(nodes):
            for mode, k in list(K[n].items()):
                om = mode
                if op[0] == "assert":
                    out = _minimise(list(k) + _bits(op[1]))
                elif op[0] == "havoc":
                    out = frozenset()
                elif op[0] == "modeSet":
                    out, om = k, op[1]
                elif op[0] == "modeOr":
                    out, om = k, mode | op[1]
                elif op[0] == "modeUpd":
                    out, om = k, (mode & op[1]) | op[2]
                elif op[0] == "assertMd":
                    out = _minimise(list(k) + _bits((mode >> op[1]) & 0xFFFFFFFF))
                elif op[0] == "modeGuard":
                    if (mode == op[1]) != op[2]:
                        continue
                    out = k
                elif op[0] == "modeTest":
                    if ((mode & op[1]) == op[2]) != op[3]:
                        continue
                    out = k
                elif op[0] == "call":
                    g = op[1]
                    np_ = _meet(fpre[g].get(op[2]), k)
                    if np_ != fpre[g].get(op[2]):
                        fpre[g][op[2]] = np_
                        state["work"] = True
                    if post[g] is None:
                        continue
                    out = _minimise((list(k) if pure[g] else []) + list(post[g]))
                elif op[0] == "ret":
                    np_ = _meet(post[fn], k)
                    if np_ != post[fn]:
                        post[fn] = np_
                        state["work"] = True
                    continue
                else:
                    out = k
                for s in succ:
                    add(s, om, out)
    C = Model()
    # never-reached nodes: no case.  Never-called functions / functions that never return: "false" = the group 0
    C.K = [sorted((m, sorted(k)) for m, k in d.items()) for d in K]
    C.post = [sorted(k) if k is not None else [0] for k in post]
    C.pure = pure
    C.reached = [bool(d) for d in K]
    return C


# ----------------------------------------------------------------------------------------- Python mirror of Sandbox.certOK
def _imp(gp, ks):
    return any((g & gp) == g for g in ks)


def need(M, fn, name, md=0):
    if (fn, name) in M.exempt:
        return []
    if name in OPEN_FLAGS_ARG:
        return need_open(md)
    if name == "janet-file-flags":
        return ([32] if md & 13 else []) + ([64] if (md & 2) or (md & 4 and md & 8) else [])
    if fn == "janet_get_addrinfo" and name == "getaddrinfo":
        return need_addrinfo(md)
    if (fn, name) in M.site_role:
        return [M.site_role[(fn, name)]]
    if name in M.by_role:
        return list(M.by_role[name])
    return M.sens.get(name, [])


def _cover(Ks, m, pred):
    return any(cm == m and all(pred(g) for g in gs) for cm, gs in Ks)


def check(M, C):
    """Mirror of the Lean checker.  Returns a list of dict(kind=..., node=..., fn=..., detail=...)."""
    bad = []
    nodes = M.nodes
    entry_ids = set(M.fn_ids[n] for n in M.entry_fns)
    for f, name in enumerate(M.slice):
        e = M.entries_of[f]
        if nodes[e][0] != f:
            bad.append(dict(kind="entry-fn", fn=name))
        if f in entry_ids and not _cover(C.K[e], 0, lambda g: False):
            bad.append(dict(kind="entry-K", fn=name))
    for n, (fn, op, succ) in enumerate(nodes):
        name = M.slice[fn]
        for s in succ:
            if nodes[s][0] != fn:
                bad.append(dict(kind="edge-fn", fn=name, node=n))
        if C.pure[fn] and (op[0] == "havoc" or (op[0] == "call" and not C.pure[op[1]])):
            bad.append(dict(kind="pure", fn=name, node=n))
        for m, k in C.K[n]:
            def edges(om, pred):
                for s in succ:
                    if not _cover(C.K[s], om, pred):
                        bad.append(dict(kind="edge", fn=name, node=n, to=s, mode=m))
            if op[0] in ("nop", "libc"):
                edges(m, lambda g: _imp(g, k))
            elif op[0] == "assert":
                edges(m, lambda g: (g & op[1]) != 0 or _imp(g, k))
            elif op[0] == "modeSet":
                edges(op[1], lambda g: _imp(g, k))
            elif op[0] == "modeOr":
                edges(m | op[1], lambda g: _imp(g, k))
            elif op[0] == "modeUpd":
                edges((m & op[1]) | op[2], lambda g: _imp(g, k))
            elif op[0] == "assertMd":
                edges(m, lambda g: (g & ((m >> op[1]) & 0xFFFFFFFF)) != 0 or _imp(g, k))
            elif op[0] == "modeGuard":
                if (m == op[1]) == op[2]:
                    edges(m, lambda g: _imp(g, k))
            elif op[0] == "modeTest":
                if ((m & op[1]) == op[2]) == op[3]:
                    edges(m, lambda g: _imp(g, k))
            elif op[0] == "havoc":
                edges(m, lambda g: False)
            elif op[0] == "call":
                g_ = op[1]
                if not _cover(C.K[M.entries_of[g_]], op[2], lambda x: _imp(x, k)):
                    bad.append(dict(kind="call-entry", fn=name, node=n, callee=M.slice[g_]))
                edges(m, lambda x: (C.pure[g_] and _imp(x, k)) or _imp(x, C.post[g_]))
            elif op[0] == "ret":
                if not all(_imp(x, k) for x in C.post[fn]):
                    bad.append(dict(kind="ret", fn=name, node=n))
            if op[0] == "libc":
                for r in need(M, op[1], op[2], m):
                    if not _imp(r, k):
                        bad.append(dict(kind="uncovered", fn=name, fnid=fn, node=n, call=op[2], need=r, known=list(k), mode=m & LO_KEEP,
                                        asserted_mask=(m >> SHIFT) & 0xFFFFFFFF, guards=m >> GUARD_SHIFT, reached=C.reached[n], src=M.node_src[n][2]))
    return bad


def uncovered_entries(M, C, bad):
    """For each uncovered sensitive call: the entry functions from which it is reachable without the needed assert
    (search over the call structure, ignoring knowledge - the names are only used to aim the witness synthesiser)."""
    callers = {}
    for n, (fn, op, succ) in enumerate(M.nodes):
        if op[0] == "call":
            callers.setdefault(op[1], set()).add(fn)
    out = []
    for b in bad:
        if b["kind"] != "uncovered":
            continue
        f0 = b.get("fnid", M.fn_ids[b["fn"]])
        seen, todo, ents = {f0}, [f0], []
        while todo:
            f = todo.pop()
            if M.slice[f] in M.entry_fns:
                ents.append(M.slice[f])
            for c in callers.get(f, ()):
                if c not in seen:
                    seen.add(c)
                    todo.append(c)
        names = sorted(set(j for e in ents for j in M.cfun_names.get(e, [])))
        out.append(dict(b, entries=sorted(ents), bindings=names))
    return out


# ----------------------------------------------------------------------------------------- rendering
def _lstr(s):
    return '"' + s.replace("\\", "\\\\").replace('"', '\\"') + '"'


def _lnat_list(xs):
    return "[" + ", ".join(str(x) for x in xs) + "]"


def render(M, C, origin="current tree"):
    o = [lean_header(origin)]
    o.append("import JanetModel.Sandbox.Model\n")
    o.append("namespace JanetModel.Gen.Sandbox\nopen JanetModel.Sandbox\n")
    o.append("/-- `#define JANET_SANDBOX_*` of janet.h -/")
    o.append("abbrev defines : List (String × Nat) := [" + ", ".join("(%s, %d)" % (_lstr(k), v) for k, v in sorted(M.defines.items(), key=lambda kv: kv[1])) + "]\n")
    o.append("/-- corelib.c `sandbox_options[]` -/")
    o.append("abbrev options : List (String × Nat) := [" + ", ".join("(%s, %d)" % (_lstr(k), v) for k, v in M.options) + "]\n")
    o.append("/-- every store to `janet_vm.sandbox_flags` / overwrite of the whole `janet_vm` in the program: (function, kind) -/")
    o.append("abbrev flagWrites : List (String × String) := [" + ", ".join("(%s, %s)" % (_lstr(a), _lstr(b)) for a, b in M.flag_writes) + "]\n")
    o.append("/-- how a new thread gets its flag word: the `copy` store and every site that hands its function to a spawner (tools/gen/sandbox.py thread_start_shape) -/")
    o.append("abbrev threadStart : List (String × String) := [" + ", ".join("(%s, %s)" % (_lstr(a), _lstr(b)) for a, b in M.thread_start) + "]\n")
    o.append("/-- data-flow shape of vm.c janet_sandbox and of the C function registered as `sandbox` (tools/gen/sandbox.py sandbox_cfun_shape) -/")
    o.append("abbrev sandboxShape : List (String × String) := [" + ", ".join("(%s, %s)" % (_lstr(a), _lstr(b)) for a, b in M.sandbox_shape) + "]\n")
    o.append("/-- functions that execute an overwrite of the whole VM state and are reachable (direct calls) from an address-taken function -/")
    o.append("abbrev externals : List String := [" + ", ".join(_lstr(x) for x in M.externals) + "]\n")
    o.append("/-- untrusted: index of each external in `Cap.allKnown` (an unclassified symbol gets an index past the end) -/")
    o.append("abbrev externalsIdx : List Nat := " + _lnat_list([M.all_known.index(x) if x in M.all_known else len(M.all_known) for x in M.externals]) + "\n")
    o.append("abbrev fnNames : Array String := #[" + ", ".join(_lstr(x) for x in M.slice) + "]\n")
    o.append("/-- entry node of each function of the slice -/")
    o.append("abbrev fnEntry : Array Nat := #" + _lnat_list(M.entries_of) + "\n")
    o.append("/-- functions whose address escapes: registered C functions, method tables, callbacks -/")
    o.append("abbrev entryFns : List Nat := " + _lnat_list([M.fn_ids[n] for n in M.entry_fns]) + "\n")
    pid = {n: k for k, n in enumerate(M.mod.order)}
    o.append("/-- every function DEFINED in the program, in IR order: program id ↦ C name -/")
    o.append("abbrev progFns : List String := [" + ", ".join(_lstr(x) for x in M.mod.order) + "]\n")
    o.append("/-- program id of each function of the slice (graph function index ↦ program id) -/")
    o.append("abbrev sliceIds : List Nat := " + _lnat_list([pid[n] for n in M.slice]) + "\n")
    o.append("/-- INDEPENDENT scan of the IR text (tools/gen/sandbox.py raw_address_scan): program ids of every defined function that is\n"
             "    mentioned anywhere other than as the callee of a direct call or as the argument of a spawner: %d functions\n"
             "    (%d mentions in global initialisers, %d as call arguments, %d in other instructions) -/" % (
                 len(M.addr_taken), sum(1 for us in M.addr_uses_raw.values() for _, k in us if k == "global"),
                 sum(1 for us in M.addr_uses_raw.values() for _, k in us if k.startswith("arg:")),
                 sum(1 for us in M.addr_uses_raw.values() for _, k in us if k == "inst")))
    o.append("abbrev addressTaken : List Nat := " + _lnat_list(sorted(pid[x] for x in M.addr_taken)) + "\n")
    o.append("-- of which in the slice: " + ", ".join(x for x in M.addr_taken if x in M.fn_ids))
    o.append("/-- (function, caller) program ids: function handed to a spawner (Cap.spawners) as a constant argument in `caller`: %s -/" % (
        ", ".join("%s in %s" % h for h in M.handovers)))
    o.append("abbrev handovers : List (Nat × Nat) := [" + ", ".join("(%d, %d)" % (pid[a_], pid[b_]) for a_, b_ in M.handovers) + "]\n")
    o.append("/-- UNTRUSTED summary `mayGrow` (program ids): functions that may change the flag word; calls of these from the slice are `havoc`: %d functions -/" % len(M.may_grow))
    o.append("abbrev mayGrowIds : List Nat := " + _lnat_list(sorted(pid[x] for x in M.may_grow)) + "\n")
    o.append("/-- call edges (caller, callee) leaving a function OUTSIDE mayGrow: direct calls of defined functions, and for every indirect\n"
             "    call every address-taken function of the same LLVM type -/")
    chunks = [M.nogrow_edges[k:k + 300] for k in range(0, len(M.nogrow_edges), 300)] or [[]]
    for ci, ch in enumerate(chunks):             # (one long literal exceeds the elaborator's recursion depth)
        o.append("def noGrowEdges%d : List (Nat × Nat) := [" % ci + ", ".join("(%d, %d)" % (pid[a_], pid[b_]) for a_, b_ in ch) + "]")
    o.append("def noGrowEdges : List (Nat × Nat) := List.flatten [" + ", ".join("noGrowEdges%d" % ci for ci in range(len(chunks))) + "]  -- %d edges\n" % len(M.nogrow_edges))
    o.append("/-- defined functions outside the slice that slice functions call directly and that are transcribed as NO event: %s -/" % ", ".join(sorted(M.benign_calls)))
    o.append("abbrev benignCallees : List Nat := " + _lnat_list(sorted(pid[x] for x in M.benign_calls)) + "\n")
    o.append("/-- functions of `flagWrites` -/")
    o.append("abbrev flagWriters : List Nat := " + _lnat_list(sorted(set(pid[x] for x, _ in M.flag_writes))) + "\n")

    def op(t):
        if t[0] == "nop":
            return ".nop"
        if t[0] == "assert":
            return "(.assert %d)" % t[1]
        if t[0] == "libc":
            return "(.libc %s %s)" % (_lstr(t[1]), _lstr(t[2]))
        if t[0] == "call":
            return "(.call %d %d)" % (t[1], t[2])
        if t[0] == "modeUpd":
            return "(.modeUpd %d %d)" % (t[1], t[2])
        if t[0] == "assertMd":
            return "(.assertMd %d)" % t[1]
        if t[0] == "modeGuard":
            return "(.modeGuard %d %s)" % (t[1], "true" if t[2] else "false")
        if t[0] == "modeTest":
            return "(.modeTest %d %d %s)" % (t[1], t[2], "true" if t[3] else "false")
        if t[0] == "havoc":
            return ".havoc"
        if t[0] == "ret":
            return ".ret"
        if t[0] == "modeSet":
            return "(.modeSet %d)" % t[1]
        if t[0] == "modeOr":
            return "(.modeOr %d)" % t[1]
        raise ValueError(t)

    def bst(items, lo, hi, ind):
        """balanced decision tree on the index `n` (the kernel compares Nat literals natively: ~10 steps per lookup)"""
        if hi - lo == 1:
            return items[lo]
        mid = (lo + hi) // 2
        pad = " " * ind
        return "if n < %d then\n%s%s\n%selse\n%s%s" % (mid, pad + "  ", bst(items, lo, mid, ind + 2), pad, pad + "  ", bst(items, mid, hi, ind + 2))

    def table(name, ty, items, default, doc):
        """Two-level decision tree: the kernel instantiates the whole body of a definition at every call, so a single tree over
        1 000 entries costs ~2 ms per lookup; leaves of 32 entries under a tree of leaf functions cost ~0.1 ms."""
        o.append("/-- %s -/" % doc)
        CH = 32
        if len(items) <= 2 * CH:
            o.append("def %s (n : Nat) : %s :=\n  if n < %d then\n    %s\n  else %s\n" % (name, ty, len(items), bst(items, 0, len(items), 4), default))
            return
        leaves = []
        for ci in range(0, len(items), CH):
            hi = min(ci + CH, len(items))
            o.append("def %s_%d (n : Nat) : %s :=\n  %s\n" % (name, ci // CH, ty, bst(items, ci, hi, 2)))
            leaves.append("%s_%d n" % (name, ci // CH))
        # leaf k covers [k*CH, (k+1)*CH): a balanced tree on n over the leaf boundaries

        def top(lo, hi, ind):
            if hi - lo == 1:
                return leaves[lo]
            mid = (lo + hi) // 2
            pad = " " * ind
            return "if n < %d then\n%s%s\n%selse\n%s%s" % (mid * CH, pad + "  ", top(lo, mid, ind + 2), pad, pad + "  ", top(mid, hi, ind + 2))
        o.append("def %s (n : Nat) : %s :=\n  if n < %d then\n    %s\n  else %s\n" % (name, ty, len(items), top(0, len(leaves), 4), default))
    o.append("-- first node of each function: " + ", ".join("%s=%d" % (n, e) for n, e in zip(M.slice, M.entries_of)))
    table("nodeAt", "Node", ["⟨%d, %s, %s⟩" % (fn, op(t), _lnat_list(succ)) for fn, t, succ in M.nodes], "⟨0, .nop, []⟩",
          "node n = ⟨function, event, successors⟩ (decision tree on n)")
    table("fnEntryAt", "Nat", [str(e) for e in M.entries_of], "0", "entry node of function n")
    table("mayGrowAt", "Bool", ["true" if x in M.may_grow else "false" for x in M.mod.order], "false", "program id n ∈ mayGrowIds (decision tree)")
    o.append("abbrev graph : Graph := ⟨%d, nodeAt, fnEntryAt, entryFns⟩\n" % len(M.nodes))
    o.append("-- functions whose open(2) flags / fopen mode variable is tracked: %s; untracked (mode 3 = both capabilities required): %s" % (M.mode_tracked, M.mode_untracked))
    o.append("-- parameter-keyed functions, cloned per constant argument: %s (reviewed: %s; assert-forwarding helpers found: %s)" % (M.param_consts, sorted(M.param_modes), sorted(M.param_auto)))
    o.append("-- slice functions that call setjmp (the call is a havoc node): %s" % sorted(M.setjmp_fns))
    o.append("-- assert-mask variables tracked (bits %d.. of the word): %s; asserts on a select/phi of constants: %s" % (SHIFT, M.mask_tracked, M.assert_choices))
    o.append("-- guard variables (int locals assigned only constants, deciding a conditional branch; 8-bit fields from bit %d): %s" % (GUARD_SHIFT, M.guard_tracked))
    o.append("-- out-parameter functions (`*p = constant` only, at most one value per activation; one clone per value, %d = none): %s; "
             "call sites (caller, callee, guard variable that receives the value): %s; nodes without successors (a store of another value): %s" % (
                 OUT_NONE, {k: (v["idx"], v["vals"]) for k, v in M.out_param.items()}, sorted(set(M.out_sites), key=str), M.stop_nodes))
    o.append("/-- out-parameter functions, per (function, key constant): (nodes per clone, [(graph function, value its activations store; %d = nothing)],\n"
             "    [(node offset of a store through the parameter, constant)]) -/" % OUT_NONE_L)
    o.append("abbrev outFamilies : List (Nat × List (Nat × Nat) × List (Nat × Nat)) := [" + ", ".join(
        "(%d, [%s], [%s])" % (sz, ", ".join("(%d, %d)" % x for x in cl), ", ".join("(%d, %d)" % x for x in st)) for sz, cl, st in M.out_families) + "]\n")
    o.append("/-- calls of out-parameter functions: (fork node, family, bit offset of the guard variable that receives the value; 0 = none) -/")
    o.append("abbrev outSites : List (Nat × Nat × Nat) := [" + ", ".join("(%d, %d, %d)" % x for x in M.out_site_rows) + "]\n")
    table("certK", "List Case", ["[" + ", ".join("(%d, %s)" % (m, _lnat_list(k)) for m, k in cs) + "]" for cs in C.K], "[]",
          "UNTRUSTED certificate (checked by `certOK`): cases known on entry to node n")
    table("certPost", "List Nat", [_lnat_list(k) for k in C.post], "[]", "untrusted: postcondition of function n")
    table("certPure", "Bool", ["true" if p_ else "false" for p_ in C.pure], "false", "untrusted: function n never changes the flag word")
    o.append("abbrev cert : Cert := ⟨certK, certPost, certPure⟩\n")
    o.append("end JanetModel.Gen.Sandbox")
    return "\n".join(o) + "\n"
