"""C19 translator, stack-budget part: per-function native frame sizes -> Gen/DepthStack.lean.

Route: the core sources of the tree under test are compiled exactly as vlib/build.py compiles the `plain` (gcc -O1 -g
-DJANET_VERIF) and `nohooks` (gcc -O2 -g) variants, plus `-fstack-usage`.  gcc writes one line per emitted function
into <obj>.su:  `file:line:col:name<TAB>bytes<TAB>static|dynamic|dynamic,bounded`.  On x86-64 the figure includes the
return address (a leaf without locals is 8), so the sum along a call chain is the distance of the stack pointer
from the first frame.

  frame(f)   = max over the two variants of the SUM over all emitted bodies of f (f, f.part.N, f.isra.N,
               f.constprop.N, f.cold): a split function runs f and f.part.N at the same time, clones are alternatives,
               the sum covers both.  A function with internal linkage that has no body in a variant was inlined into
               its callers there (their figure contains it): 0 for that variant.  An external function without a body
               raises ExtractError.
  dynamic    `dynamic,bounded`: the figure is gcc's upper bound (outgoing arguments pushed around calls), used as is.
             `dynamic` (alloca / VLA, no bound): listed in `dynamicUnbounded`; raises ExtractError when such a function
             is on a call cycle (no static budget exists then).
  pot        UNTRUSTED certificate: pot(v) >= frame(v) + pot(b) for every call edge v -> b into a non-guard b.  Computed
             by longest weighted path over the non-guard subgraph; Lean re-checks it (`potOK`).
  classes    guard functions grouped by the counter they charge (tag of the guard idiom), with the limit of that
             counter, the largest pot of a guard of the class (= bytes per charged level, `unit`), and how many
             instances of the counter can be live in one call chain (see INSTANCES below).
  transit    sum of frame(f) over all functions that are NOT on a call cycle: each can occur at most once in a call
             chain (translator's SCC analysis, trusted as for the node set of Gen/Depth.lean).

Nested instances (DESIGN 3-C19 "number of simultaneously live guard frames"): the compiler's recursion_guard, the PEG
matcher's depth and quasiquote's depth are LOCAL counters; code that re-enters the interpreter from inside such a
recursion (macroexpand1 / lookup_missing -> janet_continue, peg_rule -> capture function / cfunction constant) or starts
another instance directly (janetc_quasiquote) can create a fresh instance.  `reentry_sites` recognises, on the source
text of those functions, whether the depth used so far is handed on (charged to janet_vm.stackn, or the new instance
starts from what is left).  Emitted as `reentry`; Lean's nesting model (Depth/Nest.lean) gives the bound 2*L on live
guard frames when every site hands its depth on, and exhibits L*L without.
"""
import os
import re
import subprocess
from concurrent.futures import ThreadPoolExecutor

from .csrc import ExtractError, lean_header

STACK_LIMIT = 8 * 1024 * 1024          # default RLIMIT_STACK on Linux (the verdict configuration of the sweep)
LIBC_ALLOWANCE = 64 * 1024             # frames below main + libc internals (printf/%g, qsort, malloc) at the leaf
SU_VARIANTS = ("plain", "nohooks")

# guard idiom tag (callgraph.GUARD_IDIOMS) -> counter class.  Functions of one class charge the same counter.
CLASS_OF_TAG = {
    "vm-stackn": "vm", "compile-recursion-guard": "compile", "quasiquote-depth": "quasiquote", "peg-down1": "peg",
    "peg-builder-depth": "peg-builder", "marsh-stackcheck": "marsh", "gc-depth": "gc", "pp-depth": "pp",
    "depth-param": "depth-param", "ffi-recur": "ffi-recur",
}
# `bounded` exemptions (callgraph.EXEMPT_BOUNDED): class and number of live frames the written argument allows
BOUNDED_CLASS = {
    "janet_continue_no_check": ("vm", None),            # same counter as janet_call / janet_continue: stackn
    "doarg_1": ("asm-arg", 2), "dohead_destructure": ("destructure-head", 2),
    "janet_asm_addenv": ("asm-env", "JANET_RECURSION_GUARD"),
    "janet_mark_funcdef": ("funcdef-nesting", "JANET_RECURSION_GUARD"),
    "janet_disasm_defs": ("funcdef-nesting", "JANET_RECURSION_GUARD"),
    "decode_ffi_type": ("ffi-type-walker", 0), "sysv64_classify_ext": ("ffi-type-walker", 0),   # 0 = out of scope
}
# classes that share ONE pool of 2*L charges in the interpreter SCC once every re-entry site hands its depth on
SHARED_POOL = ("vm", "compile", "quasiquote", "peg")
# bounded self-recursions that are unrolled in the stack graph: function -> depth the written argument allows
UNROLL = {"dohead_destructure": 2}

# how many instances of a class's counter can be live in one call chain, and why
#   global   : the counter is a global / thread-local variable
#   outside  : the counter is created by functions outside the SCC (checked: CREATORS not on the cycle set)
#   pool     : member of SHARED_POOL (Lean nesting model; needs every re-entry site to hand its depth on)
#   assumed  : not established mechanically (documented limit)
CREATORS = {
    "peg-builder": ["make_peg", "compile_peg"], "pp": ["janet_pretty_", "janet_pretty", "janet_jdn_", "print_jdn"],
    "depth-param": ["janet_asm"], "ffi-recur": ["janet_ffi_read_one_top", "cfun_ffi_buffer_read", "cfun_ffi_buffer_write"],
}


def su_dir(build, variant):
    return os.path.join(build.dir, "su", variant)


def emit_su(build, variant):
    """compile src/core/*.c like vlib/build.py does for `variant`, with -fstack-usage; cached per tree hash"""
    from vlib.build import VARIANTS, COMMON
    build.boot()
    cc, cflags, _ = VARIANTS[variant]
    out = su_dir(build, variant)
    done = os.path.join(out, ".done")
    if os.path.exists(done):
        return out
    tmp = out + ".tmp%d" % os.getpid()
    os.makedirs(tmp, exist_ok=True)
    srcs = sorted(s for s in os.listdir(os.path.join(build.tree, "src/core")) if s.endswith(".c"))
    flags = list(cflags) + ["-Isrc/include", "-Isrc/conf", '-DJANET_BUILD="verif"'] + COMMON + ["-fstack-usage"]

    def one(s):
        r = subprocess.run([cc] + flags + ["-c", "src/core/" + s, "-o", os.path.join(tmp, s[:-2] + ".o")], cwd=build.tree,
                           stdout=subprocess.PIPE, stderr=subprocess.STDOUT)
        return s, r.returncode, r.stdout.decode(errors="replace")
    with ThreadPoolExecutor(max_workers=int(os.environ.get("VERIF_JOBS", "16"))) as ex:
        res = list(ex.map(one, srcs))
    bad = [(s, o) for s, rc, o in res if rc]
    if bad:
        raise ExtractError("-fstack-usage compile of %s failed: %s" % (bad[0][0], bad[0][1][-300:]))
    for f in os.listdir(tmp):
        if f.endswith(".o"):
            os.unlink(os.path.join(tmp, f))
    open(os.path.join(tmp, ".done"), "w").close()
    if os.path.exists(out):
        import shutil
        shutil.rmtree(tmp, ignore_errors=True)
    else:
        try:
            os.rename(tmp, out)
        except OSError:
            import shutil
            shutil.rmtree(tmp, ignore_errors=True)
    return out


_SU = re.compile(r"^(?P<loc>.*):(?P<name>[\w.$]+)\t(?P<bytes>\d+)\t(?P<q>static|dynamic|dynamic,bounded)$")


def parse_su(dirpath):
    """-> {base function name: [(emitted name, bytes, qualifier)]}"""
    out = {}
    n = 0
    for f in sorted(os.listdir(dirpath)):
        if not f.endswith(".su"):
            continue
        with open(os.path.join(dirpath, f)) as fh:
            for line in fh:
                line = line.rstrip("\n")
                if not line:
                    continue
                m = _SU.match(line)
                if not m:
                    raise ExtractError("unparsed .su line: %r" % line[:160])
                nm = m.group("name")
                out.setdefault(nm.split(".")[0], []).append((nm, int(m.group("bytes")), m.group("q")))
                n += 1
    if n < 1000:
        raise ExtractError("only %d functions in the -fstack-usage output (expected ~1350)" % n)
    return out


def internal_functions(ll_path):
    with open(ll_path) as f:
        return set(re.findall(r"^define internal [^@]*@([\w.$]+)\(", f.read(), re.M))


class Stack:
    pass


def _body_has(bodies, fn, rx):
    b = bodies.get(fn)
    return bool(b and re.search(rx, b))


def reentry_sites(bodies):
    """the places where a locally counted recursion starts code that can create another instance of a local counter:
    (site, function, hands its depth on?)"""
    sites = []
    # compiler -> interpreter: every janet_continue / janet_call in compile.c's macroexpand1 / lookup_missing must go
    # through a helper that adds the used depth to janet_vm.stackn around the call
    helper_ok = False
    for nm, b in bodies.items():
        if b and re.search(r"janet_vm\s*\.\s*stackn\s*\+=\s*used", b) and re.search(r"recursion_guard", b) \
                and re.search(r"janet_vm\s*\.\s*stackn\s*-=\s*used", b) and re.search(r"\bjanet_continue\s*\(", b):
            if re.search(r"used\s*=\s*JANET_RECURSION_GUARD\s*-\s*c\s*->\s*recursion_guard\s*;", b):
                helper_ok = nm
    for fn in ("macroexpand1", "lookup_missing"):
        b = bodies.get(fn)
        if b is None:
            raise ExtractError("re-entry analysis: %s not found" % fn)
        direct = len(re.findall(r"\bjanet_(?:continue|continue_signal|call|pcall)\s*\(", b))
        # calls of a compile.c wrapper around janet_continue (janetc_continue): hands the depth on iff the wrapper does
        wrappers = [nm for nm, wb in bodies.items() if wb and nm.startswith("janetc_") and re.search(r"\bjanet_continue\s*\(", wb)]
        via = sum(len(re.findall(r"\b%s\s*\(" % re.escape(w), b)) for w in wrappers)
        via_ok = bool(helper_ok) and via == len(re.findall(r"\b%s\s*\(" % re.escape(helper_ok), b))
        if direct + via == 0:
            raise ExtractError("re-entry analysis: %s no longer enters the interpreter" % fn)
        sites.append(("compile->vm", fn, direct == 0 and via > 0 and via_ok))
    # peg matcher -> capture function / cfunction constant
    b = bodies.get("peg_rule")
    if b is None:
        raise ExtractError("re-entry analysis: peg_rule not found")
    calls = [m.start() for m in re.finditer(r"\bjanet_call\s*\(|janet_unwrap_cfunction\s*\(\s*constant\s*\)\s*\(", b)]
    if not calls:
        raise ExtractError("re-entry analysis: peg_rule no longer calls capture functions")
    ok = True
    for pos in calls:
        pre = b[max(0, pos - 900):pos]
        post = b[pos:pos + 700]
        charged = re.search(r"used\s*=\s*JANET_RECURSION_GUARD\s*-\s*s\s*->\s*depth\s*\+\s*1\s*;", pre) and \
            re.search(r"janet_vm\s*\.\s*stackn\s*\+\s*used\s*>\s*JANET_RECURSION_GUARD", pre) and \
            re.search(r"janet_vm\s*\.\s*stackn\s*\+=\s*used\s*;", pre) and re.search(r"janet_vm\s*\.\s*stackn\s*-=\s*used\s*;", post)
        ok = ok and bool(charged)
    sites.append(("peg->callee", "peg_rule", ok))
    # quasiquote: a new quasiquote form must start from the compiler's remaining guard, and the unquoted form must be
    # compiled with what the quasiquote levels left
    b = bodies.get("janetc_quasiquote")
    q = bodies.get("quasiquote")
    if b is None or q is None:
        raise ExtractError("re-entry analysis: quasiquote / janetc_quasiquote not found")
    m = re.search(r"\bquasiquote\s*\(\s*opts\s*,\s*argv\s*\[\s*0\s*\]\s*,\s*([^,]+),", b)
    if not m:
        raise ExtractError("re-entry analysis: janetc_quasiquote no longer calls quasiquote(opts, argv[0], depth, ..)")
    starts_shared = bool(re.search(r"recursion_guard", m.group(1)))
    unq = bool(re.search(r"recursion_guard\s*=\s*depth\s*;[^}]*janetc_value\s*\([^;]*;[^}]*recursion_guard\s*=\s*saved_guard\s*;", q))
    sites.append(("quasiquote->compile", "janetc_quasiquote", starts_shared and unq))
    return sites


def extract(build, g):
    """g: callgraph.Graph of the same build"""
    st = Stack()
    tables = {}
    for v in SU_VARIANTS:
        tables[v] = parse_su(emit_su(build, v))
    internal = internal_functions(os.path.join(build.dir, "boot", "janet.O0.ll"))
    frame, detail, inlined, unbounded = {}, {}, [], []
    for fn in g.ir.funcs:
        best = 0
        seen_any = False
        for v in SU_VARIANTS:
            ent = tables[v].get(fn)
            if not ent:
                continue
            seen_any = True
            tot = sum(b for _, b, _ in ent)
            best = max(best, tot)
            if any(q == "dynamic" for _, _, q in ent) and fn not in unbounded:
                unbounded.append(fn)
        if not seen_any:
            if fn in internal:
                inlined.append(fn)
            else:
                raise ExtractError("function %s has external linkage but no -fstack-usage entry" % fn)
        frame[fn] = best
        detail[fn] = {v: tables[v].get(fn) for v in SU_VARIANTS}
    st.frame, st.inlined, st.unbounded = frame, sorted(inlined), sorted(unbounded)
    bad_dyn = [f for f in unbounded if f in g.nodes]
    if bad_dyn:
        raise ExtractError("function(s) with an unbounded dynamic frame (alloca / VLA) on a call cycle: %s" % ", ".join(bad_dyn))
    cyc = set(g.nodes)
    st.transit = sum(b for f, b in frame.items() if f not in cyc and f not in unbounded)
    st.transit_n = sum(1 for f in frame if f not in cyc)
    st.max_outside = max((b, f) for f, b in frame.items() if f not in cyc)
    # the stack graph: guards = functions that CHARGE a counter.  janet_continue / janet_continue_signal only check
    # (their callee janet_continue_no_check charges): plain nodes here.  A self-recursion whose depth is bounded by a
    # written, re-validated argument (UNROLL) becomes one node of k times the frame without the self edge.
    RG = g.limits["JANET_RECURSION_GUARD"]
    st.demoted = sorted(fn for fn in g.guard if g.guard[fn][0].startswith("vm-stackn-via-"))
    st.unrolled = {fn: k for fn, k in UNROLL.items() if fn in g.bounded}
    for fn, k in st.unrolled.items():
        frame[fn] = k * frame[fn]
    sguard = {fn: v for fn, v in g.guard.items() if fn not in st.demoted and fn not in st.unrolled}
    sedges = sorted((a, b) for (a, b) in g.edges if not (a == b and a in st.unrolled))
    st.sguard, st.sedges = sguard, sedges
    st.funcdef_charged = _body_has(g.bodies, "janet_mark_funcdef", r"if\s*\(\s*depth\s*\)\s*\{\s*depth\s*--\s*;\s*janet_mark_funcdef\s*\([^;]*;\s*depth\s*\+\+\s*;")
    # classes
    cls_of = {}
    info = {}            # class name -> dict(limit=, fns=[])
    for fn in g.nodes:
        if fn not in sguard:
            continue
        tag, lim = g.guard[fn]
        if tag == "bounded":
            if fn not in BOUNDED_CLASS:
                raise ExtractError("bounded exemption %s has no stack class" % fn)
            cname, blim = BOUNDED_CLASS[fn]
            lim = RG if (blim is None or blim == "JANET_RECURSION_GUARD") else blim
        else:
            base = tag.split("-via-")[0]
            if base not in CLASS_OF_TAG:
                raise ExtractError("guard idiom %s has no stack class" % tag)
            cname = CLASS_OF_TAG[base]
        if cname in SHARED_POOL:
            cname = "interp-pool"
        if fn == "janet_mark_funcdef":
            # a run over def->defs is <= JANET_RECURSION_GUARD deep (nesting limited at creation, callgraph.check_defs_creators)
            # and runs alternate with janet_mark levels.  Charged: <= L frames that took a level of the marker's depth
            # plus one run at depth 0 (everything below is spilled there) = 2L.  Not charged: L runs of L.
            cname = "gc-funcdef-runs"
        d = info.setdefault(cname, dict(limit=lim, fns=[]))
        if d["limit"] != lim:
            raise ExtractError("class %s has two limits (%d, %d)" % (cname, d["limit"], lim))
        d["fns"].append(fn)
        cls_of[fn] = cname
    st.class_names = sorted(info)
    st.class_id = {c: i + 1 for i, c in enumerate(st.class_names)}
    st.cls_of = cls_of
    # potential certificate: longest weighted path in the non-guard subgraph (+ one guard at the head)
    ng = [n for n in g.nodes if n not in sguard]
    succ = {n: [] for n in g.nodes}
    for (a, b) in sedges:
        if b not in sguard:
            succ[a].append(b)
    pot = {}
    state = {}

    def visit(n):
        stack = [(n, iter(succ[n]))]
        state[n] = 1
        while stack:
            v, it = stack[-1]
            adv = False
            for w in it:
                if state.get(w) == 1:
                    return False
                if w not in state:
                    state[w] = 1
                    stack.append((w, iter(succ[w])))
                    adv = True
                    break
            if adv:
                continue
            stack.pop()
            pot[v] = frame[v] + max([pot[w] for w in succ[v]] or [0])
            state[v] = 2
        return True
    acyclic = True
    for n in ng:
        if n not in state:
            if not visit(n):
                acyclic = False
                break
    if acyclic:
        for n in g.nodes:
            if n in sguard:
                pot[n] = frame[n] + max([pot[w] for w in succ[n]] or [0])
    else:
        pot = {n: 0 for n in g.nodes}          # no certificate exists: Lean's potOK evaluates to false (with cg_rank_ok)
    st.pot = pot
    st.acyclic = acyclic
    # longest path witness per class (for the evidence / notes)
    def path_from(n):
        out = [n]
        while succ[out[-1]]:
            nx = max(succ[out[-1]], key=lambda w: pot.get(w, 0))
            out.append(nx)
            if len(out) > 300:
                break
        return out
    st.sites = reentry_sites(g.bodies)
    st.all_transfer = all(ok for _, _, ok in st.sites)
    comp_of = g.comp_of
    classes = []
    for c in st.class_names:
        d = info[c]
        unit = max(pot.get(f, 0) for f in d["fns"])
        worst = max(d["fns"], key=lambda f: pot.get(f, 0))
        comps = sorted(set(comp_of[f] for f in d["fns"]))
        if d["limit"] == 0:
            how = "out-of-scope"
        elif c == "interp-pool":
            how = "pool" if st.all_transfer else "pool-unshared"
        elif c == "gc":
            how = "global"
        elif c == "gc-funcdef-runs":
            how = "pool" if st.funcdef_charged else "pool-unshared"
        elif c in CREATORS:
            inside = [f for f in CREATORS[c] if f in cyc]
            how = "outside" if not inside else "assumed"
        elif all(len(g.comps[k]) == 1 for k in comps):
            how = "outside"        # single-function SCC: the counter comes in as an argument from a function outside the SCC
        else:
            how = "assumed"
        classes.append(dict(name=c, id=st.class_id[c], limit=d["limit"], unit=unit, fns=sorted(d["fns"]), how=how,
                            comps=comps, worst_path=path_from(worst) if acyclic else []))
    st.classes = classes
    # budget: chains stay inside one SCC (edges of Gen.cg), SCCs are entered in DAG order, at most once each; everything
    # outside the cycles at most once.  total = transit + libc + sum over SCCs (head slack + class budgets)
    head = {}
    for i, comp in enumerate(g.comps):
        head[i] = max(pot.get(f, 0) for f in comp if f not in sguard) if any(f not in sguard for f in comp) else 0
    st.head = head
    st.max_head = max(head.values())
    st.unit_of = {c["id"]: c["unit"] for c in classes}
    dag_budget(st, g)
    return st


def dag_budget(st, g):
    """session 4: compose the per-SCC budgets along the SCC DAG instead of summing all of them.
      reach      for every recursive SCC i the set R_i of ALL functions reachable from it over every call edge of the module
                 (UNTRUSTED bit masks over the function list; Lean re-checks closure: `reachOK`), and the claimed pairs
                 (i, j): some member of SCC j is in R_i
      sccLimits  per SCC and class id: live guard frames the class allows, 0 when the class has no function in the SCC
      sccBudget  maxHead + sum_c sccLimits[i][c] * unit[c]
      spot       UNTRUSTED potential over the SCC DAG: spot[i] >= sccBudget[i] + spot[j] for every claimed (i, j)"""
    allf = sorted(g.ir.funcs)
    gi = {n: k for k, n in enumerate(allf)}
    succ = {}
    for (a, b) in g.all_edges:
        succ.setdefault(a, []).append(b)
    st.all_n = len(allf)
    st.all_edges = sorted((gi[a], gi[b]) for (a, b) in g.all_edges)
    st.members = [[gi[f] for f in comp] for comp in g.comps]
    masks, reach_sets = [], []
    for comp in g.comps:
        seen, todo = set(comp), list(comp)
        while todo:
            v = todo.pop()
            for w in succ.get(v, ()):
                if w not in seen:
                    seen.add(w)
                    todo.append(w)
        reach_sets.append(seen)
        masks.append(sum(1 << gi[f] for f in seen))
    st.reach_masks = masks
    n = len(g.comps)
    st.claimed = sorted((i, j) for i in range(n) for j in range(n) if i != j and any(f in reach_sets[i] for f in g.comps[j]))
    if any((j, i) in set(st.claimed) for (i, j) in st.claimed):
        raise ExtractError("two recursive SCCs reach each other (SCC computation inconsistent)")
    K = len(st.classes) + 1
    lim = {c["id"]: class_limit(c) for c in st.classes}
    st.scc_limits = []
    for i, comp in enumerate(g.comps):
        present = set(st.class_id[st.cls_of[f]] for f in comp if f in st.cls_of)
        st.scc_limits.append([lim[c] if c in present else 0 for c in range(K)])
    unit = [0] + [c["unit"] for c in st.classes]
    st.scc_budget = [st.max_head + sum(st.scc_limits[i][c] * unit[c] for c in range(K)) for i in range(n)]
    succs = {i: [j for (a, j) in st.claimed if a == i] for i in range(n)}
    spot = {}

    def sp(i):
        if i not in spot:
            spot[i] = st.scc_budget[i] + max([sp(j) for j in succs[i]] or [0])
        return spot[i]
    st.spot = [sp(i) for i in range(n)]
    st.dag_total = st.transit + LIBC_ALLOWANCE + max(st.spot)
    # heaviest path, for the evidence
    path, i = [], max(range(n), key=lambda k: st.spot[k])
    while True:
        path.append(i)
        if not succs[i]:
            break
        i = max(succs[i], key=lambda k: st.spot[k])
    st.dag_path = [(k, g.comps[k][0], st.scc_budget[k]) for k in path]


HOW = {"global": 0, "outside": 0, "assumed": 0, "pool": 2, "pool-unshared": 3, "out-of-scope": 4}


def class_limit(c):
    h = HOW[c["how"]]
    return 2 * c["limit"] if h == 2 else c["limit"] * c["limit"] if h == 3 else 0 if h == 4 else c["limit"]


def budget(st, g):
    """python mirror of Lean's `budgetTotal` (diagnostics only; the verdict is Lean's)"""
    parts = {c["name"]: class_limit(c) * c["unit"] for c in st.classes}
    tot = st.transit + LIBC_ALLOWANCE + len(g.comps) * st.max_head + sum(parts.values())
    return tot, parts


def render(st, g, tree_desc="current tree"):
    idx = {n: i for i, n in enumerate(g.nodes)}
    L = ["import JanetModel.Depth.Stack\nimport JanetModel.Depth.StackDag",
         lean_header("tools/gen/cgstack.py; gcc -fstack-usage on src/core/*.c with the flags of the `plain` and `nohooks` variants, " + tree_desc)]
    L.append("namespace JanetModel.Gen.DepthStack\n")

    def natlist(name, doc, vals, per=16):
        L.append("/-- %s -/" % doc)
        L.append("abbrev %s : List Nat := [" % name)
        L.append(",\n".join("  " + ", ".join(str(v) for v in vals[i:i + per]) for i in range(0, len(vals), per)))
        L.append("]\n")
    L.append("abbrev nV : Nat := %d\n" % len(g.nodes))
    L.append("/-- call edges of the stack graph: those of `Gen.Depth.edges` minus the self edge of unrolled functions -/")
    L.append("abbrev edges : List (Nat × Nat) := [")
    es = [(idx[a], idx[b]) for (a, b) in st.sedges]
    L.append(",\n".join("  " + ", ".join("(%d, %d)" % e for e in es[i:i + 12]) for i in range(0, len(es), 12)))
    L.append("]\n")
    L.append("/-- functions that CHARGE a depth counter (the guards of `Gen.Depth.guard` minus pure checkers and unrolled ones) -/")
    L.append("abbrev guard : List Bool := [")
    gs = ["true" if n in st.sguard else "false" for n in g.nodes]
    L.append(",\n".join("  " + ", ".join(gs[i:i + 16]) for i in range(0, len(gs), 16)))
    L.append("]\n")
    L.append("abbrev cgS : JanetModel.Depth.CG := { n := nV, edges := edges, guard := guard }\n")
    natlist("frame", "native frame bytes per function of `Gen.Depth.names` (max over the two variants, clones summed; 0 = inlined; unrolled: k x frame)",
            [st.frame[n] for n in g.nodes])
    natlist("pot", "UNTRUSTED certificate: bytes of the heaviest chain that starts in this function and passes no further guard",
            [st.pot[n] for n in g.nodes])
    natlist("cls", "counter class per function (meaningful for guards)", [st.class_id[st.cls_of[n]] if n in st.cls_of else 0 for n in g.nodes], 32)
    K = len(st.classes) + 1
    L.append("/-- counter classes: id, name, limit of one counter instance, how instances are bounded (`Depth.ClassInfo`) -/")
    L.append("abbrev classes : List JanetModel.Depth.ClassInfo := [")
    L.append(",\n".join('  ⟨%d, "%s", %d, %d⟩' % (c["id"], c["name"], c["limit"], HOW[c["how"]]) for c in st.classes))
    L.append("]\n")
    L.append("abbrev nClasses : Nat := %d" % K)
    natlist("unit", "per class id: largest `pot` of a guard of the class = bytes per charged level", [0] + [c["unit"] for c in st.classes])
    L.append("abbrev maxHead : Nat := %d" % st.max_head)
    L.append("abbrev nSCC : Nat := %d\n" % len(g.comps))
    L.append("/-- sites where a locally counted recursion can start another counter instance: (kind, function, hands its depth on) -/")
    L.append("abbrev reentry : List (String × String × Bool) := [%s]" % ", ".join('("%s", "%s", %s)' % (a, b, "true" if ok else "false") for a, b, ok in st.sites + [("gc->funcdef", "janet_mark_funcdef", st.funcdef_charged)]))
    L.append("abbrev allTransfer : Bool := %s\n" % ("true" if st.all_transfer else "false"))
    L.append("/-- sum of the frames of the %d functions outside every call cycle (each at most once in a chain) -/" % st.transit_n)
    L.append("abbrev transitBytes : Nat := %d" % st.transit)
    L.append("abbrev libcAllowance : Nat := %d" % LIBC_ALLOWANCE)
    L.append("abbrev stackLimit : Nat := %d" % STACK_LIMIT)
    L.append("abbrev recursionGuard : Nat := %d" % g.limits["JANET_RECURSION_GUARD"])
    idxc = {n: i for i, n in enumerate(g.nodes)}
    L.append("\n/-- session 4: SCC index of every function of `Gen.Depth.names` -/")
    L.append("abbrev sccOfNode : List Nat := [%s]" % ", ".join(str(g.comp_of[n]) for n in g.nodes))
    L.append("/-- per SCC and class id: live guard frames allowed (0 = the class has no function in this SCC) -/")
    L.append("abbrev sccLimits : List (List Nat) := [%s]" % ", ".join("[%s]" % ", ".join(str(x) for x in row) for row in st.scc_limits))
    L.append("/-- per SCC: maxHead + sum over classes of sccLimits x unit -/")
    L.append("abbrev sccBudget : List Nat := [%s]" % ", ".join(str(x) for x in st.scc_budget))
    L.append("/-- UNTRUSTED potential over the SCC DAG -/")
    L.append("abbrev sccSpot : List Nat := [%s]" % ", ".join(str(x) for x in st.spot))
    L.append("/-- reachability certificate over ALL %d functions of the module (indices = position in the sorted function list) -/" % st.all_n)
    es = st.all_edges
    chunks = [es[i:i + 800] for i in range(0, len(es), 800)]
    for ci, ch in enumerate(chunks):       # one literal of 6 000+ pairs exceeds the elaborator's recursion depth
        L.append("def allEdges%d : List (Nat × Nat) := [\n" % ci + ",\n".join("    " + ", ".join("(%d, %d)" % e for e in ch[i:i + 14]) for i in range(0, len(ch), 14)) + "]")
    L.append("def reachCert : JanetModel.Depth.ReachCert := {")
    L.append("  n := %d," % st.all_n)
    L.append("  edges := %s," % " ++ ".join("allEdges%d" % ci for ci in range(len(chunks))))
    L.append("  members := [%s]," % ", ".join("[%s]" % ", ".join(str(x) for x in m) for m in st.members))
    L.append("  masks := [\n" + ",\n".join("    %d" % m for m in st.reach_masks) + "],")
    L.append("  claimed := [%s] }" % ", ".join("(%d, %d)" % e for e in st.claimed))
    L.append("/- heaviest SCC path: %s; total %d of %d -/" % (" -> ".join("%d:%s(%d)" % p for p in st.dag_path), st.dag_total, STACK_LIMIT))
    L.append("abbrev dynamicUnbounded : List String := [%s]" % ", ".join('"%s"' % f for f in st.unbounded))
    tot, parts = budget(st, g)
    L.append("\n/- classes (unit = bytes per charged level; budget = live frames allowed x unit):")
    for c in st.classes:
        L.append("   %2d %-18s limit %5d unit %6d B  %-13s budget %10d  %s" % (c["id"], c["name"], c["limit"], c["unit"], c["how"], parts[c["name"]], " ".join(c["fns"])))
        if c["worst_path"]:
            L.append("      heaviest level: " + " -> ".join("%s(%d)" % (f, st.frame[f]) for f in c["worst_path"]))
    L.append("   total %d of %d (transit %d + libc %d + %d SCC heads x %d + classes)" % (tot, STACK_LIMIT, st.transit, LIBC_ALLOWANCE, len(g.comps), st.max_head))
    L.append("   pure checkers (plain nodes here): %s;  unrolled: %s" % (", ".join(st.demoted), ", ".join("%s x%d" % kv for kv in sorted(st.unrolled.items()))))
    L.append("   inlined everywhere (frame counted in the callers): %d functions" % len(st.inlined))
    L.append("   largest frame outside the cycles: %s %d B" % (st.max_outside[1], st.max_outside[0]))
    L.append("-/")
    L.append("\nend JanetModel.Gen.DepthStack\n")
    return "\n".join(L)
