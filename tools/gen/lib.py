"""C17 translator: constants and guard facts of the string / buffer / range-decoding code, extracted from the current
capi.c, string.c, buffer.c into lean/JanetModel/Gen/Lib.lean.  Lib/Spec.lean and Lib/BufMem.lean are written against
these names, so the theorems of Props/C17 are re-checked against what the source says on every run."""
import re
from .csrc import ExtractError, read, strip_comments, func_body, match_brace


def _need(m, what):
    if not m:
        raise ExtractError("C17: cannot recognise %s" % what)
    return m


def core_fn_body(src, name):
    """body of  JANET_CORE_FN(name, "usage", "doc") { … }"""
    m = re.search(r"JANET_CORE_FN\(\s*%s\s*," % re.escape(name), src)
    if not m:
        raise ExtractError("C17: JANET_CORE_FN(%s) not found" % name)
    i, depth = m.start() + len("JANET_CORE_FN"), 0
    while i < len(src):
        c = src[i]
        if c == '"':
            j = i + 1
            while src[j] != '"':
                j += 2 if src[j] == "\\" else 1
            i = j + 1
            continue
        if c == "(":
            depth += 1
        elif c == ")":
            depth -= 1
            if depth == 0:
                break
        i += 1
    j = src.index("{", i)
    return src[j:match_brace(src, j)]


def _param_names(src, name):
    """names of the parameters of plain C function `name`, in order"""
    for m in re.finditer(r"\b%s\s*\(" % re.escape(name), src):
        i, depth = m.end() - 1, 0
        while i < len(src):
            if src[i] == "(":
                depth += 1
            elif src[i] == ")":
                depth -= 1
                if depth == 0:
                    break
            i += 1
        j = i + 1
        while j < len(src) and src[j] in " \t\r\n":
            j += 1
        if j < len(src) and src[j] == "{":
            out = []
            for piece in src[m.end():i].split(","):
                mm = re.search(r"([A-Za-z_]\w*)\s*(?:\[[^\]]*\])?\s*$", piece)
                if mm:
                    out.append(mm.group(1))
            return out
    raise ExtractError("C17: parameter list of %s not found" % name)


# The patterns below are anchored on structure, not on the names of locals: a variable is captured where it is first
# matched (`(?P<v>\w+)`) and must be the same one wherever the pattern refers to it again (`(?P=v)`); parameters are
# taken from the function's parameter list.  A harmless rename therefore changes nothing here, a change of which
# variable is tested / assigned does.
def _range_fn(src, name):
    body = func_body(src, name)
    params = _param_names(src, name)
    if len(params) < 3:
        raise ExtractError("C17: %s no longer has (argv, n, length, …) parameters" % name)
    length = re.escape(params[2])
    m = _need(re.search(r"if\s*\(\s*(?P<v>\w+)\s*<\s*0\s*\)\s*(?P=v)\s*\+=\s*" + length + r"\s*(?:\+\s*(?P<adj>\d+))?\s*;"
                        r"\s*if\s*\(\s*(?P=v)\s*<\s*0\s*\|\|\s*(?P=v)\s*(?P<op>>=|>)\s*" + length + r"\s*\)\s*janet_panicf"
                        r".*?return\s+(?P=v)\s*;", body, re.S),
              "the negative-index adjustment followed by the bounds check in %s" % name)
    return int(m.group("adj") or 0), m.group("op") == ">"


def _cstr(lit):
    """decode a C string literal body with simple escapes"""
    out, i = [], 0
    esc = {"t": 9, "n": 10, "r": 13, "v": 11, "f": 12, "0": 0, "\\": 92, '"': 34, "a": 7, "b": 8}
    while i < len(lit):
        c = lit[i]
        if c == "\\":
            i += 1
            if lit[i] == "x":
                out.append(int(lit[i + 1:i + 3], 16))
                i += 3
                continue
            if lit[i] not in esc:
                raise ExtractError("C17: escape \\%s in trim set" % lit[i])
            out.append(esc[lit[i]])
        else:
            out.append(ord(c))
        i += 1
    return out


def _format_item_step(pp, name):
    """The per-directive item step of janet_formatbv / janet_buffer_format (pp.c):
           char form[MAX_FORMAT], item[SIZE];  int nb = 0;  …  nb = snprintf(item, BOUND, form, …);  …
           if (nb >= MAX_ITEM) janet_panic("format buffer overflow");
           if (nb > 0) janet_buffer_push_bytes(b, (uint8_t *) item, nb);
       -> (SIZE macro, BOUND macro, the macro nb is compared with, True for `>=` / False for `>`).  The merged form
           if (nb > 0) { if (nb OP MAX_ITEM) janet_panic(…); janet_buffer_push_bytes(…); }
       is the same computation and is accepted too; the operator is reported, not judged, here."""
    body = func_body(pp, name)
    buf = re.escape(_param_names(pp, name)[0])
    md = _need(re.search(r"char\s+\w+\s*\[\s*MAX_FORMAT\s*\]\s*,\s*(?P<item>\w+)\s*\[\s*(?P<size>\w+)\s*\]\s*;"
                         r"\s*char\s+\w+\s*\[\s*3\s*\]\s*,\s*\w+\s*\[\s*3\s*\]\s*;\s*int\s+(?P<nb>\w+)\s*=\s*0\s*;", body),
               "the declarations `char form[MAX_FORMAT], item[…]; … int nb = 0;` in %s" % name)
    item, nb = re.escape(md.group("item")), re.escape(md.group("nb"))
    calls = re.findall(r"(\w+)\s*=\s*snprintf\s*\(\s*(\w+)\s*,\s*([^,]+?)\s*,", body)
    if len(calls) < 5:
        raise ExtractError("C17: fewer than 5 snprintf calls in %s" % name)
    bounds = set()
    for lhs, dst, bound in calls:
        if lhs != md.group("nb") or dst != md.group("item"):
            raise ExtractError("C17: a snprintf call in %s is not `nb = snprintf(item, …)`" % name)
        bounds.add(bound)
    if len(bounds) != 1 or not re.fullmatch(r"\w+", list(bounds)[0]):
        raise ExtractError("C17: the snprintf calls in %s do not share one size macro: %s" % (name, sorted(bounds)))
    if len(re.findall(r"\b%s\s*[-+*/|&^]?=[^=]" % nb, body)) != len(calls) + 1:
        raise ExtractError("C17: `nb` is assigned somewhere else than by the snprintf calls in %s" % name)
    panic = r"\{?\s*janet_panic\s*\(\s*\"format buffer overflow\"\s*\)\s*;\s*\}?"
    push = r"janet_buffer_push_bytes\s*\(\s*%s\s*,\s*\(\s*uint8_t\s*\*\s*\)\s*%s\s*,\s*%s\s*\)\s*;" % (buf, item, nb)
    test = r"if\s*\(\s*%s\s*(?P<op>>=|>)\s*(?P<lim>\w+)\s*\)\s*" % nb
    pos = r"if\s*\(\s*%s\s*>\s*0\s*\)\s*" % nb
    tail = r"\s*\}\s*\}\s*\}\s*$"          # end of the directive branch, of the loop, of the function
    m = re.search(test + panic + r"\s*" + pos + r"\{?\s*" + push + r"\s*\}?" + tail, body) or \
        re.search(pos + r"\{\s*" + test + panic + r"\s*" + push + r"\s*\}" + tail, body)
    _need(m, "the overflow test and the push that follow the conversion switch in %s" % name)
    return md.group("size"), list(bounds)[0], m.group("lim"), m.group("op") == ">="


def _define_int(src, name):
    m = _need(re.search(r"^[ \t]*#[ \t]*define[ \t]+%s[ \t]+(\d+)[ \t]*$" % re.escape(name), src, re.M), "#define %s <integer>" % name)
    return int(m.group(1))


def extract(tree):
    capi = strip_comments(read(tree, "src/core/capi.c"))
    string = strip_comments(read(tree, "src/core/string.c"))
    buffer = strip_comments(read(tree, "src/core/buffer.c"))
    d = {}
    d["halfAdj"], d["halfUpperIncl"] = _range_fn(capi, "janet_gethalfrange")
    d["argAdj"], d["argUpperIncl"] = _range_fn(capi, "janet_getargindex")
    gs = func_body(capi, "janet_getslice")
    d["sliceClamp"] = bool(re.search(r"if\s*\(\s*(?P<r>\w+)\.end\s*<\s*(?P=r)\.start\s*\)\s*(?P=r)\.end\s*=\s*(?P=r)\.start\s*;", gs))
    gp = _param_names(capi, "janet_getslice")          # (argc, argv)
    if len(gp) != 2:
        raise ExtractError("C17: janet_getslice no longer has (argc, argv) parameters")
    ms = _need(re.search(r"janet_getstartrange\s*\(\s*%s\s*,\s*%s\s*,\s*1\s*,\s*(?P<len>\w+)\s*\)" % (re.escape(gp[1]), re.escape(gp[0])), gs),
               "start decode in janet_getslice")
    _need(re.search(r"janet_getendrange\s*\(\s*%s\s*,\s*%s\s*,\s*2\s*,\s*%s\s*\)" % (re.escape(gp[1]), re.escape(gp[0]), re.escape(ms.group("len"))), gs),
          "end decode in janet_getslice")
    st = func_body(capi, "janet_getstartrange")
    _need(re.search(r"return\s+0\s*;", st), "default 0 in janet_getstartrange")
    en = func_body(capi, "janet_getendrange")
    ep = _param_names(capi, "janet_getendrange")       # (argv, argc, n, length)
    if len(ep) != 4:
        raise ExtractError("C17: janet_getendrange no longer has (argv, argc, n, length) parameters")
    _need(re.search(r"return\s+%s\s*;" % re.escape(ep[3]), en), "default length in janet_getendrange")
    # trim default set
    ta = func_body(string, "trim_help_args")
    m = _need(re.search(r'(?P<set>\w+)->bytes\s*=\s*\(\s*const\s+uint8_t\s*\*\s*\)\s*\(\s*"((?:[^"\\]|\\.)*)"\s*\)\s*;\s*(?P=set)->len\s*=\s*(\d+)\s*;', ta),
              "the default trim set")
    ts = _cstr(m.group(2))
    if len(ts) < int(m.group(3)):
        raise ExtractError("C17: default trim set shorter than its length")
    d["trimSet"] = ts[:int(m.group(3))]
    # ascii case conversion
    lo = core_fn_body(string, "cfun_string_asciilower")
    m = _need(re.search(r"if\s*\(\s*(?P<c>\w+)\s*>=\s*(\d+)\s*&&\s*(?P=c)\s*<=\s*(\d+)\s*\)\s*\{\s*\w+\[\w+\]\s*=\s*(?P=c)\s*\+\s*(\d+)\s*;", lo), "ascii-lower loop")
    d["lowerFrom"], d["lowerTo"], d["lowerAdd"] = map(int, m.groups()[1:])
    up = core_fn_body(string, "cfun_string_asciiupper")
    m = _need(re.search(r"if\s*\(\s*(?P<c>\w+)\s*>=\s*(\d+)\s*&&\s*(?P=c)\s*<=\s*(\d+)\s*\)\s*\{\s*\w+\[\w+\]\s*=\s*(?P=c)\s*-\s*(\d+)\s*;", up), "ascii-upper loop")
    d["upperFrom"], d["upperTo"], d["upperSub"] = map(int, m.groups()[1:])
    # self-alias guards in buffer.c
    # two accepted shapes of the guard: growing with janet_buffer_ensure(count + len) (pinned tree) or with
    # janet_buffer_extra(len) (which checks count + len in 64 bits); both functions must use the same one
    pre_ensure = r"janet_buffer_ensure\s*\(\s*(?P=b)\s*,\s*(?P=b)->count\s*\+\s*(?P=v)\.len\s*,\s*(\d+)\s*\)"
    pre_extra = r"janet_buffer_extra\s*\(\s*(?P=b)\s*,\s*(?P=v)\.len\s*\)"

    def guard_re(pre):
        return (r"if\s*\(\s*(?P<v>\w+)\.bytes\s*==\s*(?P<b>\w+)->data\s*\)\s*\{\s*" + pre + r"\s*;"
                r"\s*(?P=v)\.bytes\s*=\s*(?P=b)->data\s*;\s*\}\s*janet_buffer_push_bytes\s*\(\s*(?P=b)\s*,\s*(?P=v)\.bytes\s*,\s*(?P=v)\.len\s*\)")
    chars, impl = core_fn_body(buffer, "cfun_buffer_chars"), func_body(buffer, "buffer_push_impl")
    via_ensure = bool(re.search(guard_re(pre_ensure), chars) and re.search(guard_re(pre_ensure), impl))
    via_extra = bool(re.search(guard_re(pre_extra), chars) and re.search(guard_re(pre_extra), impl))
    d["pushSelfGuard"] = via_ensure or via_extra
    d["pushSelfViaExtra"] = via_extra
    bl = core_fn_body(buffer, "cfun_buffer_blit")
    d["blitSelfGuard"] = bool(re.search(
        r"int\s+(?P<sb>\w+)\s*=\s*(?P<s>\w+)\.bytes\s*==\s*(?P<d>\w+)->data\s*;"
        r".*?if\s*\(\s*(?P=sb)\s*\)\s*\{\s*(?P=s)\.bytes\s*=\s*(?P=d)->data\s*;\s*memmove\s*\(\s*(?P=d)->data\s*\+\s*\w+\s*,\s*(?P=s)\.bytes\s*\+\s*\w+\s*,\s*\w+\s*\)",
        bl, re.S))
    pb = func_body(buffer, "janet_buffer_push_bytes")
    pbp = [re.escape(x) for x in _param_names(buffer, "janet_buffer_push_bytes")]      # (buffer, string, length)
    if len(pbp) != 3:
        raise ExtractError("C17: janet_buffer_push_bytes no longer has (buffer, string, length) parameters")
    d["pushExtraBeforeCopy"] = bool(re.search(
        r"janet_buffer_extra\s*\(\s*%(b)s\s*,\s*%(l)s\s*\)\s*;\s*memcpy\s*\(\s*%(b)s->data\s*\+\s*%(b)s->count\s*,\s*%(s)s\s*,\s*%(l)s\s*\)\s*;"
        r"\s*%(b)s->count\s*\+=\s*%(l)s\s*;" % {"b": pbp[0], "s": pbp[1], "l": pbp[2]}, pb))
    if not d["pushExtraBeforeCopy"]:
        raise ExtractError("C17: janet_buffer_push_bytes no longer has the shape extra / memcpy / count += length")
    # range: is the element count still guarded by an aborting assertion, or corrected by the bump loops?
    corelib = strip_comments(read(tree, "src/core/corelib.c"))
    rg = core_fn_body(corelib, "janet_core_range")
    mc = _need(re.search(r"(?P<cnt>\w+)\s*=\s*\(\s*(?P<step>\w+)\s*>\s*0\s*\)\s*\?\s*\(\s*(?P<stop>\w+)\s*-\s*(?P<start>\w+)\s*\)\s*/\s*(?P=step)\s*:"
                         r"\s*\(\s*\(\s*(?P=step)\s*<\s*0\s*\)\s*\?\s*\(\s*(?P=stop)\s*-\s*(?P=start)\s*\)\s*/\s*(?P=step)\s*:\s*0\s*\)\s*;", rg),
               "the element count expression of range")
    nm = {k: re.escape(mc.group(k)) for k in ("cnt", "step", "stop", "start")}
    mi = _need(re.search(r"(?P<ic>\w+)\s*=\s*\(int32_t\)\s*ceil\s*\(\s*%(cnt)s\s*\)\s*;" % nm, rg), "ceil(count) in range")
    nm["ic"] = re.escape(mi.group("ic"))
    d["rangePostAssert"] = bool(re.search(r"janet_assert\s*\(\s*%(start)s\s*\+\s*%(ic)s\s*\*\s*%(step)s" % nm, rg))
    d["rangeBump"] = bool(re.search(r"while\s*\(\s*%(ic)s\s*<\s*INT32_MAX\s*&&\s*%(start)s\s*\+\s*%(ic)s\s*\*\s*%(step)s\s*<\s*%(stop)s\s*\)\s*%(ic)s\+\+\s*;" % nm, rg)
                          and re.search(r"while\s*\(\s*%(ic)s\s*<\s*INT32_MAX\s*&&\s*%(start)s\s*\+\s*%(ic)s\s*\*\s*%(step)s\s*>\s*%(stop)s\s*\)\s*%(ic)s\+\+\s*;" % nm, rg))
    # pp.c: the per-directive item step of the two printf-style formatters (mirror: Lib/FormatC.lean `itemStep`)
    pp = strip_comments(read(tree, "src/core/pp.c"))
    for fn, key in (("janet_formatbv", "formatbv"), ("janet_buffer_format", "bufferFormat")):
        size, bound, lim, ge = _format_item_step(pp, fn)
        d[key + "ItemSize"] = _define_int(pp, size)
        d[key + "SnprintfBound"] = _define_int(pp, bound)
        d[key + "OverflowLimit"] = _define_int(pp, lim)
        d[key + "OverflowGe"] = ge
    return d


def render(tree):
    d = extract(tree)
    b = lambda x: "true" if x else "false"
    L = ["-- GENERATED by /verif/tools/gen/lib.py from the current janet source tree (capi.c, string.c, buffer.c).",
         "-- Regenerated on every check run; do not edit.", "",
         "namespace JanetModel.Gen.Lib", "",
         "/-- janet_gethalfrange: `if (not_raw < 0) not_raw += length + halfAdj` -/",
         "abbrev halfAdj : Int := %d" % d["halfAdj"],
         "/-- janet_gethalfrange rejects `not_raw > length` (true) rather than `not_raw >= length` (false) -/",
         "abbrev halfUpperIncl : Bool := %s" % b(d["halfUpperIncl"]),
         "/-- janet_getargindex: `if (not_raw < 0) not_raw += length + argAdj` -/",
         "abbrev argAdj : Int := %d" % d["argAdj"],
         "abbrev argUpperIncl : Bool := %s" % b(d["argUpperIncl"]),
         "/-- janet_getslice clamps `end` up to `start` -/",
         "abbrev sliceClamp : Bool := %s" % b(d["sliceClamp"]),
         "/-- default whitespace set of string/trim* -/",
         "abbrev trimSet : List Nat := [%s]" % ", ".join(map(str, d["trimSet"])),
         "abbrev lowerFrom : Nat := %d" % d["lowerFrom"], "abbrev lowerTo : Nat := %d" % d["lowerTo"], "abbrev lowerAdd : Nat := %d" % d["lowerAdd"],
         "abbrev upperFrom : Nat := %d" % d["upperFrom"], "abbrev upperTo : Nat := %d" % d["upperTo"], "abbrev upperSub : Nat := %d" % d["upperSub"],
         "/-- buffer/push and buffer/push-string re-fetch `view.bytes = buffer->data` after `janet_buffer_ensure` when the",
         "    pushed view is the destination buffer itself -/",
         "abbrev pushSelfGuard : Bool := %s" % b(d["pushSelfGuard"]),
         "/-- the guard grows the buffer with `janet_buffer_extra(buffer, view.len)` (true) rather than with",
         "    `janet_buffer_ensure(buffer, buffer->count + view.len, 2)` (false) -/",
         "abbrev pushSelfViaExtra : Bool := %s" % b(d["pushSelfViaExtra"]),
         "/-- buffer/blit re-fetches the source pointer and uses memmove when src is dest -/",
         "abbrev blitSelfGuard : Bool := %s" % b(d["blitSelfGuard"]),
         "/-- corelib.c range: an aborting `janet_assert(start + int_count * step >=/<= stop)` follows the count computation -/",
         "abbrev rangePostAssert : Bool := %s" % b(d["rangePostAssert"]),
         "/-- corelib.c range: the count is corrected upwards while `start + int_count * step` is still before `stop` -/",
         "abbrev rangeBump : Bool := %s" % b(d["rangeBump"]),
         ]
    for key, fn in (("formatbv", "janet_formatbv"), ("bufferFormat", "janet_buffer_format")):
        L += ["/-- pp.c %s: `char item[%d]` -/" % (fn, d[key + "ItemSize"]),
              "abbrev %sItemSize : Nat := %d" % (key, d[key + "ItemSize"]),
              "/-- pp.c %s: every conversion is `nb = snprintf(item, %d, form, …)` -/" % (fn, d[key + "SnprintfBound"]),
              "abbrev %sSnprintfBound : Nat := %d" % (key, d[key + "SnprintfBound"]),
              "/-- pp.c %s: \"format buffer overflow\" is raised when `nb >= LIMIT` (OverflowGe = true) or `nb > LIMIT` (false) -/" % fn,
              "abbrev %sOverflowLimit : Nat := %d" % (key, d[key + "OverflowLimit"]),
              "abbrev %sOverflowGe : Bool := %s" % (key, b(d[key + "OverflowGe"]))]
    L += ["", "end JanetModel.Gen.Lib", ""]
    return "\n".join(L)


if __name__ == "__main__":
    import sys
    print(render(sys.argv[1] if len(sys.argv) > 1 else "/repo"))
