"""Canonical statement skeletons of the hand-modelled C bodies of C15 (cfuns.c handlers and helpers).

Replaces the text fingerprints: a function body is parsed (C subset: blocks, if / else, for, while, return, break, continue,
declarations, assignments, calls) and printed as a list of lines (depth, kind, opcode, text) after a canonicalisation that
makes the result independent of
  * whitespace, comments, `(void) x;` statements, redundant braces around single statements, redundant outer parentheses,
  * names of parameters (p0, p1, ..) and locals ($0, $1, .. in order of first definition),
  * pure single-assignment locals (`len = janet_v_count(args)`, `c = opts.compiler`, `int d = janetc_sequal(t, args[2])`; the expression
    may mention parameters and other locals that are assigned exactly once): they are substituted into their uses, so introducing /
    removing / renaming / moving such a helper variable changes nothing,
  * declarations without initialiser.
What is left is the control structure with its conditions and - in order - every emit call (kind, opcode, operands, write flag),
every other call with an effect, every assignment to state.  Lean compares that list with the one the Lean model of the function
was written against (Props.C15.skeleton_*_ok, kernel `decide`), reads the opcodes of the emit calls out of it and uses them in the
theorems about the emitted code.  Anything outside the C subset raises ExtractError (= broken tie, never skipped)."""
import re
from .csrc import ExtractError, match_brace

TOK = re.compile(r"\s*(?:(\"(?:\\.|[^\"\\])*\"|'(?:\\.|[^'\\])*')|([A-Za-z_]\w*)|(\d[\w.]*)|"
                 r"(<<=|>>=|->|\+\+|--|<<|>>|<=|>=|==|!=|&&|\|\||\+=|-=|\*=|/=|%=|\|=|&=|\^=|[-+*/%<>=!&|^~?:;,.(){}\[\]]))")
ASSIGN = {"=", "+=", "-=", "*=", "/=", "%=", "|=", "&=", "^=", "<<=", ">>="}
PURE_CALLS = {"janet_v_count", "janetc_sequal", "janet_v_last", "janet_checktype", "janet_unwrap_integer", "janet_unwrap_number",
              "janet_checkint", "janet_wrap_nil", "janet_wrap_integer", "janet_wrap_true", "janet_wrap_false"}
MUTABLE_STATE = {"buffer", "mapbuffer", "scope", "result"}      # compiler fields that emits change: never substituted through


def tokens(text):
    out, i = [], 0
    text = text.strip()
    while i < len(text):
        m = TOK.match(text, i)
        if not m:
            raise ExtractError("skeleton: cannot tokenise %r" % text[i:i + 30])
        out.append(m.group(0).strip())
        i = m.end()
    return out


def func_def(src, name):
    """(parameter names, body tokens) of the definition of `name` in comment-stripped source"""
    for m in re.finditer(r"\b%s\s*\(" % re.escape(name), src):
        i, depth = m.end() - 1, 0
        while i < len(src):
            if src[i] == "(":
                depth += 1
            elif src[i] == ")":
                depth -= 1
                if depth == 0:
                    break
            i += 1
        j = i + 1
        while j < len(src) and src[j] in " \t\r\n":
            j += 1
        if j < len(src) and src[j] == "{":
            ls = src.rfind("\n", 0, m.start()) + 1
            head = src[ls:m.start()]
            if re.match(r"^[A-Za-z_][\w\s\*]*$", head) and not re.match(r"^\s*(return|else|if|while|for|switch)\b", head):
                params = []
                for p in src[m.end():i].split(","):
                    pm = re.search(r"(\w+)\s*(?:\[\s*\])?\s*$", p.strip())
                    if not pm:
                        raise ExtractError("skeleton: parameter list of %s not recognised" % name)
                    params.append(pm.group(1))
                body = src[j:match_brace(src, j)]
                return params, tokens(body)
    raise ExtractError("function %s not found" % name)


# ------------------------------------------------------------------------------------------------ statement parser
def _until(toks, i, stops):
    """tokens from i up to (not including) the first token in `stops` at bracket depth 0 -> (list, index of the stop)"""
    depth, j = 0, i
    while j < len(toks):
        t = toks[j]
        if depth == 0 and t in stops:
            return toks[i:j], j
        if t in "([{":
            depth += 1
        elif t in ")]}":
            depth -= 1
            if depth < 0:
                break
        j += 1
    raise ExtractError("skeleton: statement not terminated near %r" % " ".join(toks[i:i + 8]))


def _paren(toks, i):
    if toks[i] != "(":
        raise ExtractError("skeleton: '(' expected near %r" % " ".join(toks[i:i + 6]))
    depth, j = 0, i
    while j < len(toks):
        if toks[j] == "(":
            depth += 1
        elif toks[j] == ")":
            depth -= 1
            if depth == 0:
                return toks[i + 1:j], j + 1
        j += 1
    raise ExtractError("skeleton: unbalanced parentheses")


def parse_stmt(toks, i):
    t = toks[i]
    if t == "{":
        out, i = [], i + 1
        while toks[i] != "}":
            s, i = parse_stmt(toks, i)
            out.append(s)
        return ("block", out), i + 1
    if t == "if":
        cond, i = _paren(toks, i + 1)
        th, i = parse_stmt(toks, i)
        el = None
        if i < len(toks) and toks[i] == "else":
            el, i = parse_stmt(toks, i + 1)
        return ("if", cond, th, el), i
    if t == "for":
        inner, i2 = _paren(toks, i + 1)
        init, a = _until(inner + [";"], 0, {";"})
        cond, b = _until(inner + [";"], a + 1, {";"})
        step = inner[b + 1:]
        body, i = parse_stmt(toks, i2)
        return ("for", init, cond, step, body), i
    if t == "while":
        cond, i = _paren(toks, i + 1)
        body, i = parse_stmt(toks, i)
        return ("while", cond, body), i
    if t in ("switch", "do", "goto"):
        raise ExtractError("skeleton: `%s` statement is outside the modelled C subset" % t)
    if t == "return":
        e, j = _until(toks, i + 1, {";"})
        return ("return", e), j + 1
    if t in ("break", "continue"):
        if toks[i + 1] != ";":
            raise ExtractError("skeleton: `%s` not followed by ';'" % t)
        return (t,), i + 2
    e, j = _until(toks, i, {";"})
    return ("expr", e), j + 1


def _split_commas(toks):
    parts, cur, depth = [], [], 0
    for t in toks:
        if t in "([{":
            depth += 1
        elif t in ")]}":
            depth -= 1
        if t == "," and depth == 0:
            parts.append(cur)
            cur = []
        else:
            cur.append(t)
    parts.append(cur)
    return parts


def _is_ident(t):
    return bool(re.match(r"^[A-Za-z_]\w*$", t))


def _decl(e):
    """declaration statement -> [(name, init tokens or None)] ; None if `e` is not a declaration"""
    k = 0
    while k < len(e) and e[k] in ("const", "static", "unsigned", "signed", "struct"):
        k += 1
    if k >= len(e) or not _is_ident(e[k]):
        return None
    k += 1
    rest = e[k:]
    if not rest:
        return None
    out = []
    for part in _split_commas(rest):
        p = list(part)
        while p and p[0] in ("*", "const"):
            p = p[1:]
        if not p or not _is_ident(p[0]):
            return None
        if len(p) == 1:
            out.append((p[0], None))
        elif p[1] == "=":
            out.append((p[0], p[2:]))
        else:
            return None
    return out


# ------------------------------------------------------------------------------------------------ canonical printing
def _strip_parens(e):
    while len(e) >= 2 and e[0] == "(":
        depth = 0
        for k, t in enumerate(e):
            if t == "(":
                depth += 1
            elif t == ")":
                depth -= 1
                if depth == 0:
                    break
        if k == len(e) - 1:
            e = e[1:-1]
        else:
            break
    return e


def _show(e):
    out = ""
    for t in e:
        if out and (re.match(r"\w", t[0]) or t[0] in "\"'") and re.match(r"[\w\"']", out[-1]):
            out += " "
        if t in ASSIGN or t in ("==", "!=", "<=", ">=", "<", ">", "&&", "||", "?", ":", "+", "-", "<<", ">>", "|", "&") and out and out[-1] not in "(":
            # binary operators spaced (unary minus after '(' / ',' / operator stays tight)
            if t in ("-", "&", "+") and (not out or out[-1] in "(,=<>!&|?:+-*/" or out.endswith(", ")):
                out += t
            else:
                out = out.rstrip() + " " + t + " "
        elif t == ",":
            out = out.rstrip() + ", "
        else:
            out += t
    return out.strip()


class Skel:
    def __init__(self, fname, params, ops):
        self.fname, self.ops = fname, ops
        self.rename = {p: "p%d" % k for k, p in enumerate(params)}
        self.nlocal = 0
        self.subst = {}
        self.lines = []
        self.locals = {}          # name -> number of definitions
        self.addr_taken = set()

    # -- analysis of locals
    def scan(self, st):
        k = st[0]
        if k == "block":
            for s in st[1]:
                self.scan(s)
        elif k == "if":
            self.scan_expr(st[1]); self.scan(st[2])
            if st[3]:
                self.scan(st[3])
        elif k == "for":
            self.scan(("expr", st[1])) if st[1] else None
            self.scan_expr(st[2])
            self.scan(("expr", st[3])) if st[3] else None
            self.scan(st[4])
        elif k == "while":
            self.scan_expr(st[1]); self.scan(st[2])
        elif k == "return":
            self.scan_expr(st[1])
        elif k == "expr":
            e = st[1]
            d = _decl(e)
            if d is not None:
                for name, init in d:
                    self.locals.setdefault(name, 0)
                    if init is not None:
                        self.locals[name] += 1
                        self.scan_expr(init)
                return
            self.scan_expr(e)
            for j, t in enumerate(e):
                if t in ASSIGN and j >= 1:
                    lhs = e[:j]
                    if len(lhs) == 1 and lhs[0] in self.locals:
                        self.locals[lhs[0]] += 1 if t == "=" else 2
                    elif lhs and lhs[0] in self.locals and not (len(lhs) > 1 and lhs[1] == "->"):
                        self.locals[lhs[0]] += 2        # field / element of a local assigned: not a pure value any more
                    break
            for j, t in enumerate(e):
                if t in ("++", "--"):
                    for nb in (e[j - 1] if j else None, e[j + 1] if j + 1 < len(e) else None):
                        if nb in self.locals:
                            self.locals[nb] += 2

    def scan_expr(self, e):
        for j, t in enumerate(e):
            # the vector macros of vector.h assign to their first argument
            if re.match(r"^janet_v_(push|free|pop|empty)$", t) and j + 2 < len(e) and e[j + 1] == "(" and e[j + 2] in self.locals:
                self.locals[e[j + 2]] += 2
            if t == "&" and j + 1 < len(e) and _is_ident(e[j + 1]) and (j == 0 or e[j - 1] in "(,"):
                self.addr_taken.add(e[j + 1])

    # -- expressions
    def pure(self, e):
        for j, t in enumerate(e):
            if _is_ident(t) and j + 1 < len(e) and e[j + 1] == "(" and t not in PURE_CALLS:
                return False
            if t in MUTABLE_STATE or t in ASSIGN or t in ("++", "--"):
                return False
            if t in self.locals and t not in self.subst and (self.locals[t] != 1 or t in self.addr_taken):
                return False            # mentions a local that is assigned more than once / through a pointer
        return True

    def expr(self, e):
        out = []
        for j, t in enumerate(e):
            prev = e[j - 1] if j else ""
            if _is_ident(t) and prev not in (".", "->"):
                if t in self.subst:
                    s = self.subst[t]
                    out += (["("] + s + [")"]) if len(s) > 1 and not (s[0] != "(" and all(x not in ASSIGN and x not in
                             ("==", "!=", "<", ">", "<=", ">=", "&&", "||", "?", "+", "-", "*", "/", "|", "&", "<<", ">>") for x in s)) else s
                    continue
                if t in self.rename:
                    out.append(self.rename[t])
                    continue
            out.append(t)
        return _strip_parens(out)

    def local(self, name):
        if name not in self.rename:
            self.rename[name] = "$%d" % self.nlocal
            self.nlocal += 1
        return self.rename[name]

    def emit_line(self, depth, kind, text, op=None):
        if op is None:
            # first literal opcode named in the line (e.g. `ret genericSSI(p0, JOP_SIGNAL, p1[0], 3)`, `if p2 == JOP_SUBTRACT`)
            m = [x for x in re.findall(r"JOP_\w+", text) if x in self.ops]
            op = m[0] if m else None
        self.lines.append((depth, kind, op, text))

    def call_or_value(self, depth, prefix, e):
        """`e` is the right-hand side of a definition or a statement: an emit call gets its own kind"""
        if e and re.match(r"^janetc_emit_\w+$", e[0]) and len(e) > 1 and e[1] == "(":
            inner, end = _paren(e, 1)
            if end != len(e):
                raise ExtractError("skeleton: %s: emit call inside a larger expression" % self.fname)
            args = [self.expr(a) for a in _split_commas(inner)]
            if len(args) < 3:
                raise ExtractError("skeleton: %s: emit call with %d arguments" % (self.fname, len(args)))
            opx = _show(args[1])
            op = opx if opx in self.ops else None
            self.emit_line(depth, "emit", "%s%s %s (%s)" % (prefix, e[0][len("janetc_emit_"):], opx, ", ".join(_show(a) for a in args[2:])), op)
            return
        self.emit_line(depth, "let" if prefix else "call", prefix + _show(self.expr(e)))

    # -- statements
    def stmt(self, st, depth):
        k = st[0]
        if k == "block":
            saved = dict(self.subst)
            for s in st[1]:
                self.stmt(s, depth)
            for name in list(self.subst):
                if name not in saved:
                    del self.subst[name]
        elif k == "if":
            self.emit_line(depth, "if", _show(self.expr(st[1])))
            self.stmt(("block", [st[2]]) if st[2][0] != "block" else st[2], depth + 1)
            if st[3]:
                if st[3][0] == "if":                          # else-if chain stays flat
                    self.emit_line(depth, "else", "")
                    self.stmt(st[3], depth + 1)
                else:
                    self.emit_line(depth, "else", "")
                    self.stmt(("block", [st[3]]) if st[3][0] != "block" else st[3], depth + 1)
        elif k == "for":
            init = self.simple(st[1]) if st[1] else ""
            step = self.simple(st[3]) if st[3] else ""
            self.emit_line(depth, "for", "%s; %s; %s" % (init, _show(self.expr(st[2])), step))
            self.stmt(("block", [st[4]]) if st[4][0] != "block" else st[4], depth + 1)
        elif k == "while":
            self.emit_line(depth, "while", _show(self.expr(st[1])))
            self.stmt(("block", [st[2]]) if st[2][0] != "block" else st[2], depth + 1)
        elif k == "return":
            self.emit_line(depth, "ret", _show(self.expr(st[1])))
        elif k in ("break", "continue"):
            self.emit_line(depth, k, "")
        elif k == "expr":
            self.expr_stmt(st[1], depth)

    def simple(self, e):
        """init / step clause of a `for`"""
        d = _decl(e)
        if d is not None:
            if len(d) != 1 or d[0][1] is None:
                raise ExtractError("skeleton: %s: for-initialiser not recognised" % self.fname)
            return "%s = %s" % (self.local(d[0][0]), _show(self.expr(d[0][1])))
        for name in e:
            if name in self.locals:
                self.local(name)
        return _show(self.expr(e))

    def define(self, name, rhs, depth, is_decl):
        single = self.locals.get(name, 0) == 1 and name not in self.addr_taken
        if single and self.pure(rhs):
            self.subst[name] = self.expr(rhs)
            return
        v = self.local(name)
        self.call_or_value(depth, "%s = " % v, rhs)

    def expr_stmt(self, e, depth):
        if len(e) >= 4 and e[0] == "(" and e[1] == "void" and e[2] == ")":
            return
        d = _decl(e)
        if d is not None:
            for name, init in d:
                if init is not None:
                    self.define(name, init, depth, True)
            return
        for j, t in enumerate(e):
            if t in ASSIGN and j >= 1 and all(x not in ("(",) or True for x in e[:j]):
                # assignment at top level (not inside a call's parentheses)
                depth0 = 0
                for x in e[:j]:
                    if x in "([":
                        depth0 += 1
                    elif x in ")]":
                        depth0 -= 1
                if depth0 != 0:
                    continue
                lhs, rhs = e[:j], e[j + 1:]
                if t == "=" and len(lhs) == 1 and lhs[0] in self.locals:
                    self.define(lhs[0], rhs, depth, False)
                    return
                for name in lhs:
                    if name in self.locals and name not in self.subst:
                        self.local(name)
                self.emit_line(depth, "set", "%s %s %s" % (_show(self.expr(lhs)), t, _show(self.expr(rhs))))
                return
        if len(e) == 2 and ("++" in e or "--" in e):
            name = e[0] if _is_ident(e[0]) else e[1]
            op = "++" if "++" in e else "--"
            self.emit_line(depth, "set", "%s%s" % (self.local(name) if name in self.locals else _show(self.expr([name])), op))
            return
        self.call_or_value(depth, "", e)


def skeleton(src, fname, ops):
    """canonical skeleton of function `fname` of comment-stripped `src`: [(depth, kind, opcode-or-None, text)]"""
    params, toks = func_def(src, fname)
    st, end = parse_stmt(toks, 0)
    if end != len(toks):
        raise ExtractError("skeleton: trailing tokens after the body of %s" % fname)
    sk = Skel(fname, params, ops)
    sk.scan(st)
    sk.stmt(st, 0)
    return sk.lines


def skeleton_of_text(text, fname, ops, params=()):
    """skeleton of a code fragment (used for the selection block of janetc_call)"""
    toks = tokens("{" + text + "}")
    st, end = parse_stmt(toks, 0)
    sk = Skel(fname, list(params), ops)
    sk.scan(st)
    sk.stmt(st, 0)
    return sk.lines


def render_lines(lines, lean_name):
    def q(s):
        return '"' + s.replace("\\", "\\\\").replace('"', '\\"') + '"'
    return "[" + ",\n    ".join("⟨%d, %s, %s, %s⟩" % (d, q(k), "none" if op is None else "some %s" % lean_name(op), q(t)) for d, k, op, t in lines) + "]"
