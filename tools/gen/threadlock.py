"""Translator for C08 (lock discipline): statement trees of the threaded-channel functions of ev.c -> lean/JanetModel/Gen/ThreadLock.lean.

Every function that takes or releases the channel mutex (`janet_chan_lock` / `janet_chan_unlock`) is parsed - on the comment-stripped
source - into the statement language `LS` of JanetModel/Thread/LockCert.lean:
    lock / unlock      a statement that calls janet_chan_lock / janet_chan_unlock
    callRel            a call of janet_channel_push_with_lock / janet_channel_pop_with_lock (entered holding the lock, releases it on
                       every way out - that contract is itself checked on those two functions, `pre = true`)
    access             a statement (or an if / loop condition: flag `acc`) that reads or writes the channel's queues, `closed`, `limit`
    ret / panic        `return ..`;  `janet_panic*(..)` / `janet_await()` / JANET_OUT_OF_MEMORY (leave the function)
    (ite false panic skip)  in front of a statement / condition that calls something that MAY panic: argument checks
                       (janet_get*, janet_fixarity, janet_arity, janet_opt*) and janet_chan_pack as long as it lets the panic of
                       janet_marshal through (no janet_try .. janet_restore around the call)
    brk / cont, seq, ite, loop, skip
The path walk itself is NOT done here: Lean's `chk` walks the tree and `chk_sound` proves what acceptance means for every path.
Branches on `janet_chan_is_threaded(..)` / `is_threaded` are resolved to the threaded side (the certificate is about thread
channels; on an unthreaded channel lock / unlock are no-ops).  Anything the parser does not understand (goto, switch, a lock call
inside a condition, two lock operations in one statement) is an ExtractError = broken tie."""
import re

from .csrc import ExtractError, func_body, lean_header, match_brace, read, strip_comments
from .thread import _corefn_body

# function -> lock held at entry?
FUNCS = [
    ("janet_thread_chan_cb", False),
    ("janet_channel_push_with_lock", True),
    ("janet_channel_pop_with_lock", True),
    ("janet_channel_push", False),
    ("janet_channel_pop", False),
    ("cfun_channel_close", False),
    ("cfun_channel_full", False),
    ("cfun_channel_capacity", False),
    ("cfun_channel_count", False),
    ("janet_chan_deinit", False),
    ("janet_loop1", False),          # supervisor event: lock; closed ? unlock : push_with_lock(.., 2)
]

_LOCK = re.compile(r"\bjanet_chan_lock\s*\(")
_UNLOCK = re.compile(r"\bjanet_chan_unlock\s*\(")
_CALLREL = re.compile(r"\bjanet_channel_(?:push|pop)_with_lock\s*\(")
_ACCESS = re.compile(r"\b(?:channel|chan)\s*->\s*(?:items|read_pending|write_pending|closed|limit)\b|\bjanet_channel_has_reader\s*\(")
_PANIC = re.compile(r"\bjanet_panic\w*\s*\(|\bjanet_await\s*\(|\bJANET_OUT_OF_MEMORY\b|\bjanet_exit\s*\(")
# argument checks and callees that may panic (longjmp out of the function) without a janet_panic in the statement itself
_MAYPANIC = re.compile(r"\bjanet_(?:get\w+|fixarity|arity|opt\w+)\s*\(")
_PACK = re.compile(r"\bjanet_chan_pack\s*\(")
MAYPANIC = "(.ite false .panic .skip)"
_THREADED = re.compile(r"^\s*(!?)\s*(?:janet_chan_is_threaded\s*\(\s*\w+\s*\)|is_threaded)\s*$")


def _skip_ws(t, i):
    while i < len(t) and t[i] in " \t\r\n":
        i += 1
    return i


def _paren(t, i):
    depth, j = 0, i
    while j < len(t):
        c = t[j]
        if c in "\"'":
            k = j + 1
            while k < len(t) and t[k] != c:
                k += 2 if t[k] == "\\" else 1
            j = k + 1
            continue
        if c == "(":
            depth += 1
        elif c == ")":
            depth -= 1
            if depth == 0:
                return t[i + 1:j], j + 1
        j += 1
    raise ExtractError("unbalanced parenthesis")


def _stmt(t, i):
    """-> (node, next index); node = ("block", [nodes]) | ("if", head, then, else) | ("loop", head, body) | ("stmt", text)"""
    i = _skip_ws(t, i)
    if i >= len(t):
        return None, i
    if t[i] == "{":
        j = match_brace(t, i)
        return ("block", _nodes(t[i + 1:j - 1])), j
    m = re.match(r"(if|for|while|switch)\b\s*\(", t[i:])
    if m:
        kw = m.group(1)
        if kw == "switch":
            raise ExtractError("switch statement in a lock-holding function")
        head, j = _paren(t, i + m.end() - 1)
        body, j = _stmt(t, j)
        if kw == "if":
            k = _skip_ws(t, j)
            if re.match(r"else\b", t[k:]):
                els, j = _stmt(t, k + 4)
                return ("if", head, body, els), j
            return ("if", head, body, None), j
        return ("loop", head, body), j
    if re.match(r"do\b", t[i:]):
        body, j = _stmt(t, i + 2)
        k = _skip_ws(t, j)
        m2 = re.match(r"while\s*\(", t[k:])
        if not m2:
            raise ExtractError("do without while")
        head, j = _paren(t, k + m2.end() - 1)
        j = t.index(";", j) + 1
        return ("loop", head, body), j
    if re.match(r"(goto\b|[A-Za-z_]\w*\s*:(?!:))", t[i:]) and not re.match(r"default\s*:", t[i:]):
        raise ExtractError("goto / label in a lock-holding function: %r" % t[i:i + 30])
    j, depth = i, 0
    while j < len(t):
        c = t[j]
        if c in "\"'":
            k = j + 1
            while k < len(t) and t[k] != c:
                k += 2 if t[k] == "\\" else 1
            j = k + 1
            continue
        if c in "([{":
            depth += 1
        elif c in ")]}":
            depth -= 1
        elif c == ";" and depth == 0:
            return ("stmt", t[i:j + 1]), j + 1
        j += 1
    return ("stmt", t[i:]), len(t)


def _nodes(t):
    out, i = [], 0
    while True:
        n, i = _stmt(t, i)
        if n is None:
            return out
        out.append(n)


def _seq(xs):
    xs = [x for x in xs if x != ".skip"]
    if not xs:
        return ".skip"
    r = xs[-1]
    for x in reversed(xs[:-1]):
        r = "(.seq %s %s)" % (x, r)
    return r


def _may(txt, stats):
    """does the statement / condition contain a call that can panic? (janet_chan_pack: only while it lets janet_marshal's panic through)"""
    if _MAYPANIC.search(txt) or (stats.get("pack_may_panic") and _PACK.search(txt)):
        stats["maypanic"] = stats.get("maypanic", 0) + 1
        return True
    return False


def _head(fn, head):
    if _LOCK.search(head) or _UNLOCK.search(head) or _CALLREL.search(head) or _PANIC.search(head):
        raise ExtractError("%s: lock operation / panic inside a condition: %r" % (fn, head[:80]))
    return "true" if _ACCESS.search(head) else "false"


def _tr(fn, n, stats):
    k = n[0]
    if k == "block":
        return _seq([_tr(fn, x, stats) for x in n[1]])
    if k == "stmt":
        txt = n[1]
        kinds = len(_LOCK.findall(txt)) + len(_UNLOCK.findall(txt)) + len(_CALLREL.findall(txt))
        if kinds > 1:
            raise ExtractError("%s: several lock operations in one statement: %r" % (fn, txt[:80]))
        parts = []
        if _may(txt, stats):
            parts.append(MAYPANIC)
        if _LOCK.search(txt):
            parts.append(".lock")
            stats["lock"] += 1
        elif _UNLOCK.search(txt):
            parts.append(".unlock")
            stats["unlock"] += 1
        elif _CALLREL.search(txt):
            parts.append(".callRel")
            stats["callRel"] += 1
        elif _ACCESS.search(txt):
            parts.append(".access")
            stats["access"] += 1
        if _PANIC.search(txt):
            parts.append(".panic")
            stats["panic"] += 1
        elif re.match(r"\s*return\b", txt):
            parts.append(".ret")
            stats["ret"] += 1
        elif re.match(r"\s*break\s*;", txt):
            parts.append(".brk")
        elif re.match(r"\s*continue\s*;", txt):
            parts.append(".cont")
        return _seq(parts)
    if k == "if":
        m = _THREADED.match(n[1])
        if m:
            stats["threaded_branches"] += 1
            side = n[3] if m.group(1) else n[2]
            return _tr(fn, side, stats) if side is not None else ".skip"
        acc = _head(fn, n[1])
        pre = [MAYPANIC] if _may(n[1], stats) else []
        t = _tr(fn, n[2], stats) if n[2] is not None else ".skip"
        e = _tr(fn, n[3], stats) if n[3] is not None else ".skip"
        if acc == "false" and t == ".skip" and e == ".skip":
            return _seq(pre)
        return _seq(pre + ["(.ite %s %s %s)" % (acc, t, e)])
    if k == "loop":
        acc = _head(fn, n[1])
        b = _tr(fn, n[2], stats) if n[2] is not None else ".skip"
        if _may(n[1], stats):
            b = _seq([MAYPANIC, b])
        if acc == "false" and b == ".skip":
            return ".skip"
        return "(.loop %s %s)" % (acc, b)
    raise ExtractError("unknown node " + k)


def extract(tree):
    ev = strip_comments(read(tree, "src/core/ev.c"))
    progs = []
    # janet_chan_pack runs janet_marshal, which panics on values it cannot marshal: unless janet_chan_pack catches that
    # (janet_try .. janet_restore around the call), every call of janet_chan_pack is a possible panic site
    pk = func_body(ev, "janet_chan_pack")
    pack_may_panic = bool(re.search(r"\bjanet_marshal\s*\(", pk)) and not (
        re.search(r"\bjanet_try\s*\(", pk) and re.search(r"\bjanet_restore\s*\(", pk)
        and pk.find("janet_try") < pk.find("janet_marshal(") < pk.find("janet_restore"))
    for fn, pre in FUNCS:
        body = _corefn_body(ev, fn) if fn.startswith("cfun_") else func_body(ev, fn)
        stats = {"lock": 0, "unlock": 0, "callRel": 0, "access": 0, "ret": 0, "panic": 0, "threaded_branches": 0, "maypanic": 0,
                 "pack_may_panic": pack_may_panic}
        term = _tr(fn, ("block", _nodes(body.strip()[1:-1])), stats)
        if stats["lock"] + stats["unlock"] + stats["callRel"] == 0:
            raise ExtractError("%s no longer contains any lock operation" % fn)
        progs.append((fn, pre, term, stats))
    # every function of ev.c that mentions janet_chan_lock / janet_chan_unlock must be in the certificate (or be one of the
    # two primitives themselves / cfun_channel_choice + chan_unlock_args, whose multi-lock protocol is outside this certificate)
    users = set()
    heads = [(m.start(), m.group(1) or m.group(2)) for m in re.finditer(
        r"\n(?:JANET_CORE_FN\s*\(\s*(\w+)|(?:static\s+)?(?:inline\s+)?[A-Za-z_][\w \*]*?\b(\w+)\s*\([^;{})]*\)\s*\{)", ev)]
    for m in re.finditer(r"\bjanet_chan_(?:un)?lock\s*\(", ev):
        prev = [name for pos, name in heads if pos < m.start()]
        if prev:
            users.add(prev[-1])
    outside = sorted(users - set(fn for fn, _ in FUNCS) - {"janet_chan_lock", "janet_chan_unlock"})
    return {"progs": progs, "outside": outside, "pack_may_panic": pack_may_panic}


def render(facts):
    o = [lean_header("src/core/ev.c: statement trees of the functions that take / release the thread-channel mutex")]
    o.append("import JanetModel.Thread.LockCert\n")
    o.append("namespace JanetModel.Gen.ThreadLock")
    o.append("open JanetModel.Thread.LockCert\n")
    o.append("/-- (function, lock held at entry, body) -/")
    o.append("abbrev lockProgs : List (String × Bool × LS) := [")
    rows = []
    for fn, pre, term, stats in facts["progs"]:
        rows.append('  -- %s: %s\n  ("%s", %s, %s)' % (fn, ", ".join("%d %s" % (v, k) for k, v in stats.items() if v and k != "pack_may_panic"), fn, "true" if pre else "false", term))
    o.append(",\n".join(rows))
    o.append("]\n")
    o.append("/-- functions that call janet_chan_lock / janet_chan_unlock but are NOT covered by the certificate -/")
    o.append("abbrev outsideCertificate : List String := [%s]" % ", ".join('"%s"' % x for x in facts["outside"]))
    o.append("\nend JanetModel.Gen.ThreadLock")
    return "\n".join(o) + "\n"
