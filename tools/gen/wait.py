"""Translator for C07: which generation-counter / status checks exist at which site of ev.c / os.c  ->  Gen/Wait.lean.

Each site is located by the function it lives in and recognised by the shape of the statement; when the enclosing function
or the statement that is being guarded can no longer be found, ExtractError is raised (broken tie).  When the guarded
statement is found but the guard is not, the flag is False: the Lean model then behaves like the code without that check
and the theorems (which assume `cfg.allChecked`) no longer apply to the tree."""
import re
from . import csrc
from .csrc import ExtractError

ORDER = ["runFilter", "timerCheck", "pushSkipsStale", "popSkipsStale", "closeChecks", "procCheck", "deadlineChecks",
         "didResumeDetaches", "scheduleBumps", "canceledGuard", "sleepRounds", "hasReaderChecks", "timeoutAfterValidation",
         "didResumeFirst", "procErrCheck", "threadCheck", "resumeBumps"]


def body(src, name):
    i = src.find("JANET_CORE_FN(%s," % name)
    if i >= 0:
        j = src.find(") {", i)
        if j < 0:
            raise ExtractError("core function %s: body not found" % name)
        k = j + 2
        return src[k:csrc.match_brace(src, k)]
    try:
        return csrc.func_body(src, name)
    except Exception as e:
        raise ExtractError("function %s not found: %s" % (name, e))


def sq(s):
    return re.sub(r"\s+", "", s)


def path_conditions(src, pos):
    """Conditions of the `if (...) {` / `else if (...) {` blocks of the whitespace-free text `src` that enclose offset `pos`,
    outermost first; a plain `else {` contributes "!(" + condition of its `if` + ")".  Only braces are followed, so the
    guarded statement must sit in a braced block (checked by the callers through the shapes they accept)."""
    conds = []
    stack = []          # (open brace offset, condition text or None)
    i = 0
    last_if_cond = {}   # nesting depth -> condition of the most recent `if` closed at that depth
    while i < pos:
        ch = src[i]
        if ch == "{":
            head = src[:i]
            m = re.search(r"(?:elseif|if)\(", head)
            cond = None
            # condition = the parenthesised text that ends directly before this brace
            if head.endswith(")"):
                depth, j = 0, len(head) - 1
                while j >= 0:
                    if head[j] == ")":
                        depth += 1
                    elif head[j] == "(":
                        depth -= 1
                        if depth == 0:
                            break
                    j -= 1
                kw = head[:j]
                if kw.endswith("if"):
                    cond = head[j + 1:-1]
            elif head.endswith("else"):
                cond = "!(" + last_if_cond.get(len(stack), "?") + ")"
            stack.append((i, cond))
        elif ch == "}":
            if stack:
                o, cond = stack.pop()
                if cond is not None and not cond.startswith("!("):
                    last_if_cond[len(stack)] = cond
        i += 1
    return [c for _, c in stack if c is not None]


def close_checks(ev):
    """cfun_channel_close (and the file-static helpers it calls that schedule fibers, e.g. a shared drain loop): EVERY
    janet_schedule of a pending entry `X` is guarded by the generation test `X.sched_id == X.fiber->sched_id` — as a conjunct of an
    enclosing `if (...) {` condition, or as an early `if (X.sched_id != X.fiber->sched_id) continue;` before it in the same loop
    body.  Structure, not text position: how the two drain loops are laid out (inline, one helper, two helpers) does not matter."""
    texts = [("cfun_channel_close", sq(body(ev, "cfun_channel_close")))]
    seen = {"cfun_channel_close"}
    k = 0
    while k < len(texts):
        for callee in sorted(set(re.findall(r"\b([A-Za-z_]\w*)\(", texts[k][1]))):
            if callee in seen or callee.startswith(("janet_schedule", "janet_cancel", "janet_ev_post_event")):
                continue
            seen.add(callee)
            try:
                b = csrc.func_body(ev, callee)
            except ExtractError:
                continue
            if "janet_schedule(" in b and re.search(r"(?m)^static\b[^;{}()]*\b%s\s*\(" % re.escape(callee), ev):
                texts.append((callee, sq(b)))
        k += 1
    nsites, ok = 0, True
    for name, t in texts:
        for m in re.finditer(r"janet_schedule\((\w+)(\.|->)fiber,", t):
            nsites += 1
            v, acc = re.escape(m.group(1)), re.escape(m.group(2))
            eq = r"(?:%s%ssched_id==%s%sfiber->sched_id|%s%sfiber->sched_id==%s%ssched_id)" % (v, acc, v, acc, v, acc, v, acc)
            ne = eq.replace("==", "!=")
            conds = path_conditions(t, m.start())
            pos = [cd for cd in conds if not cd.startswith("!(") and "||" not in cd]
            if not any("janet_fiber_can_resume(%s%sfiber)" % (m.group(1), m.group(2)) in cd for cd in pos) and \
                    not re.search(r"if\(!janet_fiber_can_resume\(%s%sfiber\)\)continue;" % (v, acc), t[:m.start()]):
                raise ExtractError("%s: janet_schedule of a pending entry without a janet_fiber_can_resume test" % name)
            guarded = any(re.search(r"(?:^|&&)\(?%s\)?(?:&&|$)" % eq, cd) for cd in pos)
            if not guarded:
                # early continue in the enclosing loop body
                lo = t.rfind("while(", 0, m.start())
                guarded = lo >= 0 and bool(re.search(r"if\(%s\)continue;" % ne, t[lo:m.start()]))
            ok = ok and guarded
    if nsites < 1 or not all(q in "".join(t for _, t in texts) for q in ("channel->write_pending", "channel->read_pending")):
        raise ExtractError("cfun_channel_close: draining of write_pending / read_pending with janet_schedule not recognised (%d calls)" % nsites)
    return ok


# Every place that can make a suspended fiber runnable, by enclosing function.  A janet_schedule / janet_cancel call in a function
# that is neither a listener callback (signature `(JanetFiber *fiber, JanetAsyncEvent event)`: reached only through
# `stream->read_fiber / write_fiber` of a fiber that still listens) nor named here is a wake-up source the model does not know.
WAKE_SITES = {
    "janet_channel_push_with_lock": "channel (reader woken by a give): pushSkipsStale",
    "janet_channel_pop_with_lock": "channel (writer woken by a take): popSkipsStale",
    "janet_channel_pop": "channel (immediate take, the running fiber itself)",
    "cfun_channel_pop": "channel (immediate take, the running fiber itself)",
    "cfun_channel_close": "channel close: closeChecks",
    "janet_thread_chan_cb": "thread channel (property C08; compares the generation)",
    "janet_loop1": "timers: timerCheck / deadlineChecks",
    "janet_loop": "re-schedule of an interrupted task (not a wait)",
    "janet_ev_default_threaded_callback": "threaded await (os/shell, ev/thread): threadCheck",
    "cfun_ev_go": "request: ev/go", "cfun_ev_thread": "request", "janet_go_thread_subr": "request: first run of a thread's main fiber",
    "cfun_ev_cancel": "request: ev/cancel",
    "janet_proc_wait_cb": "process wait: procCheck / procErrCheck",
    "janet_signal_callback": "os/sigaction handler: runs in a fresh fiber, no waiter involved",
}


def wake_sites(tree):
    """-> {function name: (category, number of call sites)} ; ExtractError for an unclassified function"""
    out = {}
    for rel in ("src/core/ev.c", "src/core/net.c", "src/core/os.c", "src/core/filewatch.c", "src/core/io.c"):
        try:
            src = csrc.strip_comments(csrc.read(tree, rel))
        except Exception:
            continue
        # top-level function definitions: name, parameter text, body span
        funcs = []
        for m in re.finditer(r"(?m)^(?:[A-Za-z_][\w \t\*]*?[ \*])?([A-Za-z_]\w*)\s*\(([^;{}]*?)\)\s*\{", src):
            # JANET_CORE_FN(name, "usage", "doc") { ... }
            name, params = m.group(1), m.group(2)
            if name in ("if", "while", "for", "switch"):
                continue
            if name == "JANET_CORE_FN":
                name = params.split(",")[0].strip()
            o = m.end() - 1
            try:
                e = csrc.match_brace(src, o)
            except Exception:
                continue
            funcs.append((o, e, name, params))
        for m in re.finditer(r"\bjanet_(?:schedule|schedule_soon|schedule_signal|cancel)\s*\(", src):
            encl = [f for f in funcs if f[0] < m.start() < f[1]]
            if not encl:
                continue                      # a prototype / the definition itself
            o, e, name, params = min(encl, key=lambda f: f[1] - f[0])
            if name in ("janet_schedule", "janet_cancel", "janet_schedule_signal", "janet_schedule_soon", "janet_schedule_general"):
                continue
            if re.search(r"JanetFiber\s*\*\s*\w+\s*,\s*JanetAsyncEvent\s+\w+", params):
                cat = "listener callback: didResumeDetaches / didResumeFirst"
            elif name in WAKE_SITES:
                cat = WAKE_SITES[name]
            else:
                raise ExtractError("%s: %s() makes a fiber runnable (janet_schedule / janet_cancel) but is not a wake-up source the "
                                   "C07 model knows" % (rel, name))
            k = rel.split("/")[-1] + ":" + name
            out[k] = (cat, out.get(k, (cat, 0))[1] + 1)
    if len(out) < 15:
        raise ExtractError("expected >= 15 functions with wake-up sites, found %d" % len(out))
    return out


def extract(tree):
    ev = csrc.strip_comments(csrc.read(tree, "src/core/ev.c"))
    osc = csrc.strip_comments(csrc.read(tree, "src/core/os.c"))
    c = {}
    loop1 = sq(body(ev, "janet_loop1"))
    if "janet_continue_signal(task.fiber,task.value,&res,task.sig)" not in loop1:
        raise ExtractError("janet_loop1: run phase not recognised")
    c["runFilter"] = bool(re.search(r"if\(task\.expected_sched_id!=task\.fiber->sched_id\)continue;.*janet_continue_signal", loop1))
    # the popped timer's local may have any name (`to` today)
    m = re.search(r"while\(peek_timeout\(&(\w+)\)&&\1\.when<=(\w+)\)\{pop_timeout\(0\);(.*?)\}while\(janet_vm\.spawn", loop1)
    if not m:
        raise ExtractError("janet_loop1: timer phase `while (peek_timeout(&to) && to.when <= now)` not recognised")
    tv, tp = re.escape(m.group(1)), m.group(3)
    if "deadlineexpired" not in tp or not re.search(r"janet_cancel\(%s\.fiber," % tv, tp):
        raise ExtractError("janet_loop1: deadline cancellation not recognised")
    c["deadlineChecks"] = bool(re.search(r"if\(%s\.curr_fiber!=NULL\)\{if\(janet_fiber_can_resume\(%s\.curr_fiber\)\)\{janet_cancel\(%s\.fiber" % (tv, tv, tv), tp))
    if not re.search(r"janet_schedule\(%s\.fiber,janet_wrap_nil\(\)\)" % tv, tp):
        raise ExtractError("janet_loop1: timeout scheduling not recognised")
    c["timerCheck"] = bool(re.search(r"else\{if\((?:%s\.fiber->sched_id==%s\.sched_id|%s\.sched_id==%s\.fiber->sched_id)\)\{if\(%s\.is_error\)\{janet_cancel\(%s\.fiber,.*?\}else\{janet_schedule\(%s\.fiber,janet_wrap_nil\(\)\);\}\}\}" % ((tv,) * 7), tp))
    push = sq(body(ev, "janet_channel_push_with_lock"))
    if "janet_q_pop(&channel->read_pending,&reader,sizeof(reader))" not in push:
        raise ExtractError("janet_channel_push_with_lock: pop of read_pending not recognised")
    c["pushSkipsStale"] = bool(re.search(r"do\{is_empty=janet_q_pop\(&channel->read_pending,&reader,sizeof\(reader\)\);\}while\(!is_empty&&\(reader\.sched_id!=reader\.fiber->sched_id\)\);", push))
    pop = sq(body(ev, "janet_channel_pop_with_lock"))
    if "janet_q_pop(&channel->write_pending,&writer,sizeof(writer))" not in pop:
        raise ExtractError("janet_channel_pop_with_lock: pop of write_pending not recognised")
    c["popSkipsStale"] = bool(re.search(r"do\{(\w+)=janet_q_pop\(&channel->write_pending,&writer,sizeof\(writer\)\);\}while\(!\1&&\(writer\.sched_id!=writer\.fiber->sched_id\)\);", pop))
    c["closeChecks"] = close_checks(ev)
    pcb = sq(body(osc, "janet_proc_wait_cb"))
    msched = re.search(r"janet_schedule\(args\.fiber,janet_wrap_integer\(\w+\)\)", pcb)
    if not msched:
        raise ExtractError("janet_proc_wait_cb: schedule not recognised")
    if "uint32_tsched_id=(uint32_t)args.argi;" not in pcb:
        raise ExtractError("janet_proc_wait_cb: the recorded generation is no longer read from args.argi")
    gen_test = "args.fiber->sched_id==sched_id"

    def guarded(stmt):
        k = pcb.find(stmt)
        if k < 0:
            raise ExtractError("janet_proc_wait_cb: `%s` not recognised" % stmt)
        conds = path_conditions(pcb, k)
        return any(gen_test in cd and not cd.startswith("!(") and "||" not in cd for cd in conds)
    c["procCheck"] = guarded(msched.group(0))
    c["procErrCheck"] = guarded("janet_cancel(args.fiber,")
    if "targs.argi=(uint32_t)targs.fiber->sched_id;" not in sq(osc):
        raise ExtractError("os_proc_wait_impl: generation not recorded in the threaded call")
    dr = sq(body(ev, "janet_fiber_did_resume"))
    c["didResumeDetaches"] = dr.strip("{}") == "janet_async_end(fiber);"
    ae = sq(body(ev, "janet_async_end"))
    if "fiber->ev_stream->read_fiber=NULL;" not in ae or "fiber->ev_callback=NULL;" not in ae:
        c["didResumeDetaches"] = False
    vm = sq(csrc.strip_comments(csrc.read(tree, "src/core/vm.c")))
    m = re.search(r"janet_continue_no_check\(JanetFiber\*fiber,Janetin,Janet\*out\)\{(.*?)JanetTryStatetstate;", vm)
    if not m or "if(fiber->child){" not in m.group(1):
        raise ExtractError("vm.c janet_continue_no_check: `if (fiber->child)` block not recognised")
    cnc = m.group(1)
    k = cnc.find("janet_fiber_did_resume(fiber);")
    if k < 0:
        c["didResumeDetaches"] = False
        c["didResumeFirst"] = False
    else:
        # first: unconditionally (no enclosing brace) and before the child block, i.e. before anything can return early
        c["didResumeFirst"] = k < cnc.find("if(fiber->child){") and "return" not in cnc[:k] and cnc[:k].count("{") == cnc[:k].count("}")
    # threaded awaits (os/shell, ev/thread): the generation travels in the message and the default callback compares it
    ta = sq(body(ev, "janet_ev_threaded_await"))
    if "arguments.fiber=janet_root_fiber();" not in ta or "janet_ev_threaded_call(fp,arguments,janet_ev_default_threaded_callback);" not in ta:
        raise ExtractError("janet_ev_threaded_await: not recognised")
    tcb = sq(body(ev, "janet_ev_default_threaded_callback"))
    k = tcb.find("switch(return_value.tag){")
    if k < 0 or "janet_schedule(return_value.fiber," not in tcb[k:] or "janet_cancel(return_value.fiber," not in tcb[k:]:
        raise ExtractError("janet_ev_default_threaded_callback: dispatch on the result tag not recognised")
    recorded = "arguments.argj=janet_wrap_number((double)arguments.fiber->sched_id);" in ta and \
        ta.find("arguments.argj=") < ta.find("janet_ev_threaded_call(")
    m = re.search(r"intis_current=(.*?);", tcb[:k])
    cond_ok = False
    if m:
        cond_ok = m.group(1) == "!janet_checktype(return_value.argj,JANET_NUMBER)||(uint32_t)janet_unwrap_number(return_value.argj)==return_value.fiber->sched_id"
    conds = path_conditions(tcb, k + len("switch(return_value.tag){") + 1)
    c["threadCheck"] = recorded and cond_ok and any(re.match(r"is_current&&", cd) or cd.endswith("&&is_current") or cd == "is_current" for cd in conds)
    # run phase: the generation is bumped again when the task is resumed
    c["resumeBumps"] = bool(re.search(r"if\(task\.expected_sched_id!=task\.fiber->sched_id\)continue;(?:[^;{}]*;)?task\.fiber->sched_id\+\+;"
                                      r"(?:[^;{}]*;)?JanetSignalsig=janet_continue_signal\(task\.fiber,task\.value,&res,task\.sig\);", loop1)) or \
        bool(re.search(r"if\(task\.expected_sched_id!=task\.fiber->sched_id\)continue;\+\+task\.fiber->sched_id;", loop1))
    sg = sq(body(ev, "janet_schedule_general"))
    if "JanetTaskt={fiber,value,sig," not in sg:
        raise ExtractError("janet_schedule_general: task construction not recognised")
    c["scheduleBumps"] = "JanetTaskt={fiber,value,sig,++fiber->sched_id};" in sg
    c["canceledGuard"] = sg.lstrip("{").startswith("if(fiber->gc.flags&JANET_FIBER_EV_FLAG_CANCELED)return;")
    td = sq(body(ev, "ts_delta"))
    if "ts+=" not in td:
        raise ExtractError("ts_delta: not recognised")
    c["sleepRounds"] = "ts+=(int64_t)round(delta*1000);" in td
    # select: the "give can complete now" decision
    choice = sq(body(ev, "cfun_channel_choice"))
    if "janet_channel_push_with_lock(chan,data[1],1);chan_unlock_args(argv,i);returnmake_write_result(chan);" not in choice:
        raise ExtractError("cfun_channel_choice: immediate give path not recognised")
    m = re.search(r"if\(janet_q_count\(&chan->items\)<chan->limit(.*?)\)\{janet_channel_push_with_lock\(chan,data\[1\],1\);", choice)
    if not m:
        raise ExtractError("cfun_channel_choice: readiness test of the give clause not recognised")
    extra_cond = m.group(1)
    if extra_cond == "":
        c["hasReaderChecks"] = True          # only "room in the channel" counts as ready: nothing to check
    elif extra_cond == "||janet_channel_has_reader(chan)":
        hr = sq(body(ev, "janet_channel_has_reader"))
        c["hasReaderChecks"] = bool(re.search(
            r"if\(janet_chan_is_threaded\(channel\)\)returnq->head!=q->tail;for\(int32_ti=q->head;i!=q->tail;i=\(i\+1<q->capacity\)\?i\+1:0\)"
            r"\{if\(pending\[i\]\.sched_id==pending\[i\]\.fiber->sched_id\)return1;\}return0;\}$", hr))
    else:
        raise ExtractError("cfun_channel_choice: unknown readiness condition `%s`" % extra_cond)
    # timeouts of stream cfuns are armed only after every argument check, directly before the wait starts
    c["timeoutAfterValidation"] = True
    nsites = 0
    for rel in ("src/core/ev.c", "src/core/net.c"):
        src = csrc.strip_comments(csrc.read(tree, rel))
        for mm in re.finditer(r"janet_addtimeout(?:_nil)?\s*\(", src):
            # skip the definitions themselves
            line_start = src.rfind("\n", 0, mm.start()) + 1
            if src[line_start:mm.start()].strip().startswith("void"):
                continue
            nsites += 1
            # enclosing block: walk back to the unmatched '{'
            depth, i = 0, mm.start()
            while i > 0:
                i -= 1
                if src[i] == "}":
                    depth += 1
                elif src[i] == "{":
                    if depth == 0:
                        break
                    depth -= 1
            end = csrc.match_brace(src, i)
            rest = sq(src[mm.end():end])
            before = sq(src[max(0, i - 3000):mm.start()])
            # janet_getbuffer(argv,K) cannot fail after janet_checktype(argv[K],JANET_BUFFER)
            for k in re.findall(r"janet_checktype\(argv\[(\d+)\],JANET_BUFFER\)", before):
                rest = rest.replace("janet_getbuffer(argv,%s)" % k, "")
            if re.search(r"janet_(get|opt)\w*\(|janet_(fix)?arity\(|janet_stream_flags\(|janet_panic\w*\(|janet_keyeq\(", rest):
                c["timeoutAfterValidation"] = False
    if nsites < 10:
        raise ExtractError("expected >= 10 janet_addtimeout call sites in ev.c / net.c, found %d" % nsites)
    # registrations record the current generation (shape facts the model relies on unconditionally)
    need = [("janet_sleep_await", "to.sched_id=to.fiber->sched_id;"), ("janet_addtimeout", "to.sched_id=fiber->sched_id;"),
            ("janet_channel_push_with_lock", "pending.sched_id=janet_vm.root_fiber->sched_id"),
            ("janet_channel_pop_with_lock", "pending.sched_id=janet_vm.root_fiber->sched_id;")]
    for fn, pat in need:
        if pat not in sq(body(ev, fn)):
            raise ExtractError("%s: registration no longer records the current generation (`%s`)" % (fn, pat))
    if "to.when=ts_delta(ts_now(),sec);" not in sq(body(ev, "janet_sleep_await")):
        raise ExtractError("janet_sleep_await: `to.when = ts_delta(ts_now(), sec)` not recognised")
    # completeness of the wake-up sources: tools/gen/waitcb.py lists every call site, Lean classifies them
    # (Props/C07 every_wake_site_classified); `wake_sites` above is kept for reference only
    return c


def render(c):
    vals = ", ".join("true" if c[k] else "false" for k in ORDER)
    return ("import JanetModel.Wait.Model\n-- GENERATED by tools/gen/wait.py from src/core/ev.c, src/core/os.c, src/core/vm.c — do not edit\n"
            "-- fields: %s\nnamespace JanetModel.Gen.Wait\nopen JanetModel.Wait\nabbrev cfg : Cfg := ⟨%s⟩\nend JanetModel.Gen.Wait\n" % (" ".join(ORDER), vals))
