"""Translator for C07 (listener callbacks + wake-up call sites)  ->  lean/JanetModel/Gen/WaitCb.lean.

Regenerated on every run of ./check C07 from the PREPROCESSED posix branch of every src/core/*.c (`cc -E -P`: comments, layout and
the #ifdef JANET_WINDOWS variants do not matter).  What is extracted is structure, no verdict — every verdict is a Lean `decide`
over this data (lean/JanetModel/Wait/Callback.lean, Props/C07.lean):

  * `callbacks`: every function with the listener signature `(JanetFiber *f, JanetAsyncEvent e)`: the statements before
    `switch (e)`, the case groups of the switch in source order (labels, goto labels, the wake-relevant calls that occur in the
    group in source order, whether control can leave the group by `break` / by falling into the next group, goto targets) and
    the statements after the switch.  A wake-relevant call is janet_schedule* / janet_cancel / janet_async_end (with its
    target: the callback's own fiber parameter, a fiber created by janet_fiber() inside the callback, anything else),
    janet_mark* (the collector's business), or a call of any function of the scanned files that (transitively) contains
    one of the former (`callsWaker`: the Lean side treats it as unknown).
  * `deliveries`: every call through an `ev_callback` function pointer in src/core/*.c: (file, enclosing function, event).
  * `registrations`: the callback argument of every janet_async_start / janet_async_start_fiber call.
  * `sites`: every janet_schedule / janet_schedule_soon / janet_schedule_signal / janet_cancel call site of ev.c, net.c, os.c,
    filewatch.c, io.c (comment-stripped RAW text, so that the windows branches are listed too): (file, enclosing function,
    callee, enclosing function has the listener signature).

ExtractError: a callback without `switch (<event parameter>)` at the top level of its body, a case label that is not a
JANET_ASYNC_EVENT_* constant, a goto to an unknown label, a delivery whose event argument is neither a constant nor one of the
known variables, fewer callbacks / sites than the tree is known to have.
"""
import os
import re
import subprocess

from . import csrc
from .csrc import ExtractError, match_brace

EVENTS = ["INIT", "MARK", "DEINIT", "CLOSE", "ERR", "HUP", "READ", "WRITE", "COMPLETE", "FAILED"]
LEAN_EV = {e: e.lower() for e in EVENTS}
WAKE_FNS = ("janet_schedule", "janet_schedule_soon", "janet_schedule_signal", "janet_cancel")
PRIMS = WAKE_FNS + ("janet_async_end", "janet_schedule_general")
SITE_FILES = ("src/core/ev.c", "src/core/net.c", "src/core/os.c", "src/core/filewatch.c", "src/core/io.c")

_FUNC_RX = re.compile(r"(?m)^[ \t]*(?:[A-Za-z_][\w \t\*]*?[ \*])([A-Za-z_]\w*)\s*\(([^;{}()]*(?:\([^()]*\)[^;{}()]*)*)\)\s*\{")
_KEYWORDS = {"if", "while", "for", "switch", "return", "sizeof", "do", "else"}


def preprocess(tree, rel):
    """cc -E -P of one file of the tree, posix configuration (src/core is NOT on the include path: its features.h would shadow libc's)"""
    r = subprocess.run(["gcc", "-E", "-P", "-std=c99", "-Isrc/include", "-Isrc/conf", "-DJANET_VERIF", rel], cwd=tree,
                       stdout=subprocess.PIPE, stderr=subprocess.PIPE)
    if r.returncode != 0:
        raise ExtractError("cc -E %s failed: %s" % (rel, r.stderr.decode(errors="replace")[-300:]))
    return r.stdout.decode(errors="replace")


def functions(src):
    """top-level function definitions of preprocessed / comment-stripped C: [(name, params, body start, body end)].
    Found by structure: a `{` at brace depth 0 directly preceded by a parenthesised parameter list that is preceded by a name."""
    out, i, n = [], 0, len(src)
    while i < n:
        c = src[i]
        if c in "\"'":
            j = i + 1
            while j < n and src[j] != c and src[j] != "\n":
                j += 2 if src[j] == "\\" else 1
            i = j + 1
            continue
        if c == "#":                       # a directive line of raw text
            j = src.find("\n", i)
            i = n if j < 0 else j + 1
            continue
        if c == "{":
            try:
                e = match_brace(src, i)
            except ExtractError:
                i += 1
                continue
            k = i - 1
            while k >= 0 and src[k].isspace():
                k -= 1
            if k >= 0 and src[k] == ")":
                depth, j = 0, k
                while j >= 0:
                    if src[j] == ")":
                        depth += 1
                    elif src[j] == "(":
                        depth -= 1
                        if depth == 0:
                            break
                    j -= 1
                m = re.search(r"([A-Za-z_]\w*)\s*$", src[max(0, j - 200):j])
                if m and m.group(1) not in _KEYWORDS and m.group(1) != "__attribute__":
                    nm, params = m.group(1), src[j + 1:k]
                    if nm == "JANET_CORE_FN":          # JANET_CORE_FN(name, "usage", "doc") { ... }
                        nm, params = params.split(",")[0].strip(), "int32_t argc, Janet *argv"
                    out.append((nm, params, i, e))
            i = e
            continue
        i += 1
    return out


def _first_arg(text, i):
    """text[i] == '(' -> first argument of the call, whitespace removed"""
    depth, j, start = 0, i, i + 1
    while j < len(text):
        c = text[j]
        if c == "(":
            depth += 1
        elif c == ")":
            depth -= 1
            if depth == 0:
                return re.sub(r"\s+", "", text[start:j])
        elif c == "," and depth == 1:
            return re.sub(r"\s+", "", text[start:j])
        j += 1
    raise ExtractError("unbalanced call")


_CALL_RX = re.compile(r"\b([A-Za-z_]\w*)\s*\(")


def acts_of(text, fparam, fresh, wakers):
    """wake-relevant calls in source order -> [lean Act term]"""
    out = []
    for m in _CALL_RX.finditer(text):
        fn = m.group(1)
        if fn in WAKE_FNS or fn == "janet_async_end":
            a = _first_arg(text, m.end() - 1)
            tgt = ".self" if a == fparam else (".fresh" if a in fresh else ".other")
            kind = "cancel" if fn == "janet_cancel" else ("asyncEnd" if fn == "janet_async_end" else "schedule")
            out.append("(.%s %s)" % (kind, tgt))
        elif fn.startswith("janet_mark"):
            out.append(".mark")
        elif fn in ("janet_channel_give", "janet_channel_push"):
            out.append(".chanGive")
        elif fn in wakers:
            out.append(".callsWaker")
    return out


def _strip_braces(t):
    t = t.strip()
    while t.startswith("{") and match_brace(t, 0) == len(t):
        t = t[1:-1].strip()
    return t


def _top_statements_tail(t):
    """last statement at brace depth 0 of `t` (text), '' when the text ends with a block"""
    t = t.strip()
    if not t:
        return ""
    if t.endswith("}"):
        return ""
    depth, last = 0, 0
    for i, c in enumerate(t[:-1]):
        if c == "{":
            depth += 1
        elif c == "}":
            depth -= 1
            if depth == 0:
                last = i + 1
        elif c == ";" and depth == 0:
            last = i + 1
    return t[last:].strip()


def parse_callback(name, params, body, wakers, where):
    pm = re.match(r"\s*JanetFiber\s*\*\s*(\w+)\s*,\s*JanetAsyncEvent\s+(\w+)\s*$", params)
    fparam, eparam = pm.group(1), pm.group(2)
    inner = body[1:-1]
    # switch (event) at depth 0 of the function body
    sw = None
    depth = 0
    for m in re.finditer(r"[{}]|\bswitch\s*\(\s*%s\s*\)\s*\{" % re.escape(eparam), inner):
        tok = m.group(0)
        if tok == "{":
            depth += 1
        elif tok == "}":
            depth -= 1
        elif depth == 0:
            sw = m
            break
        else:
            depth += 1          # the switch's own brace
    if sw is None:
        raise ExtractError("%s: %s has no `switch (%s)` at the top level of its body" % (where, name, eparam))
    o = sw.end() - 1
    e = match_brace(inner, o)
    pre, swb, post = inner[:sw.start()], inner[o + 1:e - 1], inner[e:]
    fresh = set(re.findall(r"JanetFiber\s*\*\s*(\w+)\s*=\s*janet_fiber\s*\(", inner))
    # labels at depth 0 of the switch body
    lab_rx = re.compile(r"(?:case\s+([A-Za-z_]\w*)\s*:|(default)\s*:|([A-Za-z_]\w*)\s*:(?!:))")
    marks, depth, k = [], 0, 0
    stmt_start = True
    while k < len(swb):
        c = swb[k]
        if c in "\"'":
            j = k + 1
            while j < len(swb) and swb[j] != c:
                j += 2 if swb[j] == "\\" else 1
            k = j + 1
            stmt_start = False
            continue
        if c == "{":
            depth += 1
            stmt_start = True
        elif c == "}":
            depth -= 1
            stmt_start = True
        elif c == ";":
            stmt_start = True
        elif c.isspace():
            pass
        else:
            if depth == 0 and stmt_start:
                mm = lab_rx.match(swb, k)
                if mm and not (mm.group(3) in _KEYWORDS if mm.group(3) else False):
                    # `x ? a : b` cannot start a statement, so an identifier followed by ':' here is a label
                    marks.append((k, mm.end(), mm))
                    k = mm.end()
                    stmt_start = True
                    continue
            elif depth > 0 and stmt_start and re.match(r"(case\b|default\s*:)", swb[k:]):
                # a nested switch: its labels are not ours; nothing to do
                pass
            stmt_start = False
        k += 1
    if not marks:
        raise ExtractError("%s: %s: no case labels in switch (%s)" % (where, name, eparam))
    if _strip_braces(swb[:marks[0][0]]):
        raise ExtractError("%s: %s: statements before the first case label" % (where, name))
    groups, cur_ev, cur_def, cur_goto = [], [], False, []
    goto_label_group = {}
    for n, (a, b, mm) in enumerate(marks):
        end = marks[n + 1][0] if n + 1 < len(marks) else len(swb)
        if mm.group(1):
            cn = mm.group(1)
            if not cn.startswith("JANET_ASYNC_EVENT_") or cn[len("JANET_ASYNC_EVENT_"):] not in EVENTS:
                raise ExtractError("%s: %s: case label %s is not a JANET_ASYNC_EVENT_* constant" % (where, name, cn))
            cur_ev.append(cn[len("JANET_ASYNC_EVENT_"):])
        elif mm.group(2):
            cur_def = True
        else:
            cur_goto.append(mm.group(3))
        text = swb[b:end].strip()
        if text:
            for g in cur_goto:
                goto_label_group[g] = len(groups)
            stext = _strip_braces(text)
            tail = _top_statements_tail(text)
            # the group body may be `{ ... } break;` : the tail is then `break;`
            ends_jump = bool(re.match(r"^(break|return\b[^;]*|goto\s+\w+)\s*;$", tail)) or \
                (not tail and bool(re.match(r"^(break|return\b[^;]*|goto\s+\w+)\s*;$", _top_statements_tail(stext))) and text.endswith("}"))
            groups.append({"ev": cur_ev, "default": cur_def, "text": stext, "fall": not ends_jump,
                           "brk": bool(re.search(r"\bbreak\s*;", stext)) or bool(re.search(r"\bbreak\s*;", tail)),
                           "gotos": re.findall(r"\bgoto\s+(\w+)\s*;", stext)})
            cur_ev, cur_def, cur_goto = [], False, []
    if cur_ev or cur_def or cur_goto:
        # trailing labels without statements: they leave the switch
        groups.append({"ev": cur_ev, "default": cur_def, "text": "", "fall": False, "brk": True, "gotos": []})
    seen = [x for g in groups for x in g["ev"]]
    if len(seen) != len(set(seen)) or sum(1 for g in groups if g["default"]) > 1:
        raise ExtractError("%s: %s: duplicate case label" % (where, name))
    for g in groups:
        tg = []
        for lab in g["gotos"]:
            if lab not in goto_label_group:
                raise ExtractError("%s: %s: goto %s leaves the switch / label not found" % (where, name, lab))
            tg.append(goto_label_group[lab])
        g["goto_idx"] = sorted(set(tg))
        g["acts"] = acts_of(g["text"], fparam, fresh, wakers)
    return {"name": name, "file": where, "pre": acts_of(pre, fparam, fresh, wakers), "groups": groups,
            "post": acts_of(post, fparam, fresh, wakers), "post_nonempty": bool(post.strip())}


def extract(tree):
    core = os.path.join(tree, "src/core")
    files = sorted(f for f in os.listdir(core) if f.endswith(".c"))
    pp = {}
    for f in files:
        if f in ("ev.c", "net.c", "os.c", "filewatch.c", "io.c", "gc.c"):
            pp[f] = preprocess(tree, "src/core/" + f)
        else:
            raw = csrc.read(tree, "src/core/" + f)
            if "ev_callback" in raw or "JanetAsyncEvent" in raw or "janet_async_start" in raw:
                pp[f] = preprocess(tree, "src/core/" + f)
    # the part of each preprocessed file that stems from the file itself: everything from its first function that mentions janet_
    allfuncs = {}
    for f, src in pp.items():
        for name, params, o, e in functions(src):
            allfuncs.setdefault(name, (f, params, src[o:e]))
    # functions that (transitively) wake a fiber or end a listener
    wakers = set()
    calls = {n: set(m.group(1) for m in _CALL_RX.finditer(b)) for n, (_, _, b) in allfuncs.items()}
    changed = True
    while changed:
        changed = False
        for n, cs in calls.items():
            if n in wakers or n in PRIMS:
                continue
            if cs & set(PRIMS) or cs & wakers:
                wakers.add(n)
                changed = True
    cbs = []
    for name, (f, params, body) in sorted(allfuncs.items(), key=lambda kv: (kv[1][0], kv[0])):
        if re.match(r"\s*JanetFiber\s*\*\s*\w+\s*,\s*JanetAsyncEvent\s+\w+\s*$", params):
            cbs.append(parse_callback(name, params, body, wakers - {name}, f))
    if len(cbs) < 5:
        raise ExtractError("expected >= 5 listener callbacks (read, write, connect, accept, filewatch), found %d: %s" % (len(cbs), [c["name"] for c in cbs]))
    # deliveries: calls through the ev_callback pointer
    deliveries = []
    for f, src in sorted(pp.items()):
        fl = functions(src)
        for m in re.finditer(r"->\s*ev_callback\s*\(", src):
            encl = [x for x in fl if x[2] < m.start() < x[3]]
            if not encl:
                raise ExtractError("%s: call through ev_callback outside a function" % f)
            fname = encl[0][0]
            call_end = src.index(")", m.end())
            args = [a.strip() for a in src[m.end():call_end].split(",")]
            if len(args) != 2:
                raise ExtractError("%s: %s: call through ev_callback with %d arguments" % (f, fname, len(args)))
            ev = args[1]
            if ev.startswith("JANET_ASYNC_EVENT_") and ev[len("JANET_ASYNC_EVENT_"):] in EVENTS:
                deliveries.append((f, fname, [ev[len("JANET_ASYNC_EVENT_"):]]))
            else:
                raise ExtractError("%s: %s delivers a computed event `%s` to a listener callback" % (f, fname, ev))
    if not any(d[2] == ["MARK"] for d in deliveries):
        raise ExtractError("no delivery of JANET_ASYNC_EVENT_MARK found (gc.c janet_mark_fiber)")
    regs = []
    for f, src in sorted(pp.items()):
        fl = functions(src)
        for m in re.finditer(r"\b(janet_async_start(?:_fiber)?)\s*\(", src):
            encl = [x for x in fl if x[2] < m.start() < x[3]]
            if not encl:
                continue
            # argument list
            i, depth, args, cur = m.end(), 1, [], ""
            while depth:
                c = src[i]
                if c == "(":
                    depth += 1
                elif c == ")":
                    depth -= 1
                    if depth == 0:
                        break
                if c == "," and depth == 1:
                    args.append(cur.strip())
                    cur = ""
                else:
                    cur += c
                i += 1
            args.append(cur.strip())
            cbarg = args[3] if m.group(1) == "janet_async_start_fiber" else args[2]
            regs.append((f, encl[0][0], cbarg))
    if len(regs) < 5:
        raise ExtractError("expected >= 5 janet_async_start call sites, found %d" % len(regs))
    # wake-up call sites (raw text, all #ifdef branches)
    sites = []
    for rel in SITE_FILES:
        try:
            src = csrc.strip_comments(csrc.read(tree, rel))
        except OSError:
            continue
        # #if / #else branches may define a function twice and leave braces unbalanced inside a body; work per definition
        fl = functions(src)

        def attributed(name, hops=3):
            """a file-static helper that is called from exactly one function (and never used as a function pointer) is part of
            that function: the site is attributed to the caller, so folding code into a helper does not create a new source"""
            while hops:
                hops -= 1
                defs = [x for x in fl if x[0] == name]

                def is_static(x):
                    k = src.rfind(name, 0, x[2])              # the name in the definition's head
                    st = max(src.rfind(";", 0, k), src.rfind("}", 0, k), src.rfind("\n#", 0, k))
                    return bool(re.search(r"\bstatic\b", src[st + 1:k]))
                if not defs or not all(is_static(x) for x in defs):
                    return name
                callers, pointer_use = set(), False
                for mm in re.finditer(r"\b%s\b" % re.escape(name), src):
                    encl2 = [x for x in fl if x[2] < mm.start() < x[3]]
                    if not encl2:
                        continue               # the definition / a prototype
                    if not re.match(r"\s*\(", src[mm.end():]):
                        pointer_use = True
                    callers.add(encl2[0][0])
                callers.discard(name)
                if pointer_use or len(callers) != 1:
                    return name
                name = callers.pop()
            return name
        for m in re.finditer(r"\b(janet_schedule|janet_schedule_soon|janet_schedule_signal|janet_cancel)\s*\(", src):
            encl = [x for x in fl if x[2] < m.start() < x[3]]
            if not encl:
                continue
            name, params, o, e = min(encl, key=lambda x: x[3] - x[2])
            if name in WAKE_FNS or name == "janet_schedule_general":
                continue
            lis = bool(re.match(r"\s*JanetFiber\s*\*\s*\w+\s*,\s*JanetAsyncEvent\s+\w+\s*$", params))
            sites.append((rel.split("/")[-1], name, m.group(1), lis, name if lis else attributed(name)))
    if len(sites) < 50:
        raise ExtractError("expected >= 50 janet_schedule / janet_cancel call sites, found %d" % len(sites))
    return {"callbacks": cbs, "deliveries": deliveries, "registrations": regs, "sites": sites, "wakers": sorted(wakers)}


def _b(x):
    return "true" if x else "false"


def _s(x):
    return '"%s"' % x.replace("\\", "\\\\").replace('"', '\\"')


def render(d):
    L = ["import JanetModel.Wait.Callback",
         "-- GENERATED by tools/gen/waitcb.py from the preprocessed src/core/*.c — do not edit",
         "namespace JanetModel.Gen.WaitCb", "open JanetModel.Wait.Callback", ""]
    names = []
    for cb in d["callbacks"]:
        cn = "cb_" + cb["name"]
        names.append(cn)
        L.append("abbrev %s : Callback :=" % cn)
        L.append("  { name := %s, file := %s," % (_s(cb["name"]), _s(cb["file"])))
        L.append("    pre := [%s]," % ", ".join(cb["pre"]))
        L.append("    groups := [")
        gl = []
        for g in cb["groups"]:
            gl.append("      { labels := [%s], isDefault := %s, acts := [%s], canBreak := %s, canFall := %s, gotos := [%s] }" % (
                ", ".join("." + LEAN_EV[e] for e in g["ev"]), _b(g["default"]), ", ".join(g["acts"]), _b(g["brk"]), _b(g["fall"]),
                ", ".join(str(i) for i in g["goto_idx"])))
        L.append(",\n".join(gl) + "],")
        L.append("    post := [%s] }" % ", ".join(cb["post"]))
        L.append("")
    L.append("abbrev callbacks : List Callback := [%s]" % ", ".join(names))
    L.append("")
    L.append("/-- every call through an `ev_callback` pointer: (file, enclosing function, event) -/")
    L.append("abbrev deliveries : List (String × String × Ev) := [")
    L.append(",\n".join("  (%s, %s, .%s)" % (_s(f), _s(fn), LEAN_EV[ev[0]]) for f, fn, ev in d["deliveries"]) + "]")
    L.append("")
    L.append("/-- the callback argument of every janet_async_start / janet_async_start_fiber call: (file, enclosing function, argument) -/")
    L.append("abbrev registrations : List (String × String × String) := [")
    L.append(",\n".join("  (%s, %s, %s)" % (_s(f), _s(fn), _s(a)) for f, fn, a in d["registrations"]) + "]")
    L.append("")
    L.append("/-- every janet_schedule* / janet_cancel call site: (file, enclosing function, callee, listener signature, function the site is attributed to) -/")
    L.append("abbrev sites : List Site := [")
    L.append(",\n".join("  ⟨%s, %s, %s, %s, %s⟩" % (_s(f), _s(fn), _s(c), _b(l), _s(a)) for f, fn, c, l, a in d["sites"]) + "]")
    L.append("")
    L.append("end JanetModel.Gen.WaitCb")
    return "\n".join(L) + "\n"


if __name__ == "__main__":
    import sys
    d = extract(sys.argv[1] if len(sys.argv) > 1 else "/repo")
    sys.stdout.write(render(d))
