"""Translator: ALL 37 `case RULE_*:` bodies of peg_rule (peg.c)  ->  programs of the IR `Peg/Skel.lean`
(`Gen/PegSkel.lean`), plus a canonical form of EVERY case body that is insensitive to comments, whitespace, names of locals,
`(void)` casts and `const` qualifiers (compared by checks/C12.py with harness/C12/case_canon.json instead of a raw text hash).

IR extraction: every statement of the case must be understood (else `Unsupported`, the rule gets `Prog.fall` and the check
reports the statement); locals are numbered by first definition, so renaming one gives the same program; pure operand aliases
(`uint32_t tag = rule[2];`, `const uint32_t *rule_a = s->bytecode + rule[1];`) are substituted, so their order does not matter;
`if (c) A else B; REST` becomes `ite c (A; REST) (B; REST)` with `c` normalised (`!!x` = `x`, `x != NULL`, `NULL == x` ...).
`Peg/TieSkel.lean` then proves `Skel.run (extracted program) = Op.step (that opcode)` - the comparison is semantic.
"""
import re
from . import csrc
from .csrc import ExtractError

# rules whose case body is translated into the IR and proved equal to the Op.step case in Peg/TieSkel.lean
IR_RULES = ["RULE_IF", "RULE_IFNOT", "RULE_NOT", "RULE_DROP", "RULE_ONLY_TAGS", "RULE_SUB", "RULE_ACCUMULATE", "RULE_CAPTURE",
            "RULE_POSITION", "RULE_CONSTANT", "RULE_GROUP", "RULE_NTH", "RULE_ERROR", "RULE_BETWEEN", "RULE_TO", "RULE_THRU", "RULE_TIL", "RULE_CHOICE", "RULE_SEQUENCE", "RULE_LENPREFIX", "RULE_SPLIT", "RULE_REPLACE", "RULE_MATCHTIME", "RULE_NCHAR", "RULE_NOTNCHAR", "RULE_LINE", "RULE_COLUMN", "RULE_ARGUMENT",
            "RULE_LITERAL", "RULE_RANGE", "RULE_SET", "RULE_LOOK", "RULE_GETTAG", "RULE_BACKMATCH", "RULE_CAPTURE_NUM", "RULE_UNREF", "RULE_READINT"]


class Unsupported(Exception):
    pass


# ------------------------------------------------------------------------------------------------ C statement parser
_TOK = re.compile(r"\s*(->|\+\+|--|<<|>>|<=|>=|==|!=|&&|\|\||[A-Za-z_]\w*|0[xX][0-9a-fA-F]+|\d+|'(?:\\.|[^'])*'|\"(?:\\.|[^\"])*\"|.)", re.S)


def tokens(text):
    out, i, n = [], 0, len(text)
    while i < n:
        m = _TOK.match(text, i)
        if not m:
            break
        if m.group(1).strip():
            out.append(m.group(1))
        i = m.end()
    return out


class Parser:
    """statements of a case body as a tree: ('block', [..]) ('if', cond_tokens, then, else|None) ('return', toks)
    ('goto', label) ('loop', kind) ('simple', toks)"""

    def __init__(self, toks):
        self.t, self.i = toks, 0

    def peek(self):
        return self.t[self.i] if self.i < len(self.t) else None

    def take(self):
        x = self.t[self.i]
        self.i += 1
        return x

    def parens(self):
        if self.take() != "(":
            raise Unsupported("expected (")
        depth, out = 1, []
        while True:
            x = self.take()
            if x == "(":
                depth += 1
            elif x == ")":
                depth -= 1
                if depth == 0:
                    return out
            out.append(x)

    def stmt(self):
        x = self.peek()
        if x == "{":
            self.take()
            items = []
            while self.peek() != "}":
                items.append(self.stmt())
            self.take()
            return ('block', items)
        if x == "if":
            self.take()
            c = self.parens()
            a = self.stmt()
            b = None
            if self.peek() == "else":
                self.take()
                b = self.stmt()
            return ('if', c, a, b)
        if x == "while":
            self.take()
            c = self.parens()
            return ('while', c, self.stmt())
        if x == "for":
            self.take()
            hdr = self.parens()
            parts, cur, depth = [], [], 0
            for t in hdr:
                if t in "([":
                    depth += 1
                elif t in ")]":
                    depth -= 1
                if t == ";" and depth == 0:
                    parts.append(cur)
                    cur = []
                else:
                    cur.append(t)
            parts.append(cur)
            if len(parts) != 3:
                raise Unsupported("for header")
            return ('for', parts[0], parts[1], parts[2], self.stmt())
        if x == "switch":
            self.take()
            c = self.parens()
            if self.take() != "{":
                raise Unsupported("switch body")
            depth, body = 1, []
            while True:
                y = self.take()
                if y == "{":
                    depth += 1
                elif y == "}":
                    depth -= 1
                    if depth == 0:
                        break
                body.append(y)
            return ('switch', c, body)
        if x == "do":
            raise Unsupported("loop / switch statement (%s)" % x)
        toks, depth = [], 0
        while True:
            y = self.take()
            if y in "([":
                depth += 1
            elif y in ")]":
                depth -= 1
            elif y == ";" and depth == 0:
                break
            toks.append(y)
        if toks and toks[0] == "return":
            return ('return', toks[1:])
        if toks and toks[0] == "goto":
            return ('goto', toks[1])
        if toks == ["break"]:
            return ('break',)
        if toks == ["continue"]:
            return ('continue',)
        return ('simple', toks)

    def all(self):
        items = []
        while self.peek() is not None:
            items.append(self.stmt())
        return items


def parse_case(text):
    toks = tokens(text)
    try:
        items = Parser(toks).all()
    except IndexError:
        raise Unsupported("unbalanced case body")
    # a case body is usually one block
    if len(items) == 1 and items[0][0] == 'block':
        return items[0][1]
    return items


OPCODES = {}          # RULE_x -> number, set by extract() from the current janet.h

# the value computation of RULE_REPLACE / RULE_MATCHTIME, recognised as ONE idiom (roles: $cap = the result, $const = the constant,
# $cs = the saved capture state); its meaning is `VE.replaceOf` of Peg/Skel.lean (callGuard + Op.replaceValue)
REPLACE_SWITCH = (
    "janet_type ( $const ) { default : $cap = $const ; break ; case JANET_STRUCT : if ( s -> captures -> count ) { $cap = "
    "janet_struct_get ( janet_unwrap_struct ( $const ) , s -> captures -> data [ s -> captures -> count - 1 ] ) ; } break ; case "
    "JANET_TABLE : if ( s -> captures -> count ) { $cap = janet_table_get ( janet_unwrap_table ( $const ) , s -> captures -> data "
    "[ s -> captures -> count - 1 ] ) ; } break ; case JANET_CFUNCTION : case JANET_FUNCTION : { int32_t used = "
    "JANET_RECURSION_GUARD - s -> depth + 1 ; if ( janet_vm . stackn + used > JANET_RECURSION_GUARD ) janet_panic ( "
    "\"C stack recursed too deeply\" ) ; janet_vm . stackn + = used ; if ( janet_checktype ( $const , JANET_CFUNCTION ) ) { $cap = "
    "janet_unwrap_cfunction ( $const ) ( s -> captures -> count - $cs . cap , s -> captures -> data + $cs . cap ) ; } else { $cap = "
    "janet_call ( janet_unwrap_function ( $const ) , s -> captures -> count - $cs . cap , s -> captures -> data + $cs . cap ) ; } "
    "janet_vm . stackn - = used ; break ; } }")

# rules in whose value switch the C-function call was found bracketed by janet_gclock / janet_gcunlock (filled by gc_bracket,
# reported as a comment in Gen/PegSkel.lean and in the tie info of checks/C12.py)
GC_BRACKETED = []


def gc_bracket(toks):
    """`int H = janet_gclock(); X = janet_unwrap_cfunction(C)(ARGS); janet_gcunlock(H);` -> the call alone.
    The pair suspends the collector while the C function runs (janet fix b91ad64); it reads and writes nothing of the modelled
    match state, so it is dropped - but only in exactly this shape: lock and unlock on the SAME handle, a handle used nowhere
    else, ONE statement between them, and that statement the direct call of the C-function constant.  Anything else that
    mentions janet_gclock / janet_gcunlock (unlock missing, another handle, more statements inside the bracket, a lock around the
    janet_call branch or around the whole switch) is outside the statement language.  -> (tokens, number of brackets dropped)"""
    out, i, n, dropped = [], 0, len(toks), 0
    while i < n:
        if toks[i] == "janet_gclock" and i >= 3 and toks[i - 3] == "int" and toks[i - 1] == "=" and \
                re.fullmatch(r"[A-Za-z_]\w*", toks[i - 2]) and toks[i + 1:i + 4] == ["(", ")", ";"] and out[-3:] == toks[i - 3:i]:
            h = toks[i - 2]
            j = i + 4
            # the one statement inside the bracket: up to the first `;` at parenthesis depth 0, no braces
            k, d = j, 0
            while k < n and not (toks[k] == ";" and d == 0):
                if toks[k] in ("{", "}"):
                    k = n
                    break
                d += toks[k] == "("
                d -= toks[k] == ")"
                k += 1
            inner = toks[j:k]
            unlock = ["janet_gcunlock", "(", h, ")", ";"]
            if k < n and toks[k + 1:k + 6] == unlock and len(inner) > 4 and re.fullmatch(r"[A-Za-z_]\w*", inner[0]) and \
                    inner[1:4] == ["=", "janet_unwrap_cfunction", "("] and h not in inner and \
                    sum(1 for t in toks if t == h) == 2:
                del out[-3:]
                out += inner + [";"]
                i = k + 6
                dropped += 1
                continue
        out.append(toks[i])
        i += 1
    if any(t in ("janet_gclock", "janet_gcunlock") for t in out):
        raise Unsupported("janet_gclock / janet_gcunlock in the RULE_REPLACE value computation are not ONE pair on the same handle "
                          "around exactly the direct call of the C-function constant (`int h = janet_gclock(); cap = "
                          "janet_unwrap_cfunction(constant)(..); janet_gcunlock(h);`): `%s`" % " ".join(
                              t for idx, t in enumerate(out)
                              if any(x in ("janet_gclock", "janet_gcunlock") for x in out[max(0, idx - 8):idx + 9]))[:300])
    return out, dropped


# ------------------------------------------------------------------------------------------------ IR extraction
_CASTS = {"int32_t", "uint32_t", "int", "double", "size_t", "int64_t", "uint64_t", "void"}
_TYPES = {"uint32_t", "int32_t", "int", "uint8_t", "Janet", "CapState", "double", "size_t", "uint64_t", "int64_t", "JanetArray",
          "LineCol"}


def strip_casts(toks):
    """drop `const`, and casts `( T )` / `( T * )` for scalar T"""
    out, i = [], 0
    while i < len(toks):
        if toks[i] == "const":
            i += 1
            continue
        if toks[i] == "(" and i + 2 < len(toks) and toks[i + 1] in _CASTS:
            if toks[i + 2] == ")":
                i += 3
                continue
            if toks[i + 2] == "*" and i + 3 < len(toks) and toks[i + 3] == ")":
                i += 4
                continue
        out.append(toks[i])
        i += 1
    return out


def unparen(toks):
    """remove redundant outer parentheses"""
    while len(toks) >= 2 and toks[0] == "(" and toks[-1] == ")":
        depth, ok = 0, True
        for j, x in enumerate(toks):
            if x == "(":
                depth += 1
            elif x == ")":
                depth -= 1
                if depth == 0 and j != len(toks) - 1:
                    ok = False
                    break
        if not ok:
            break
        toks = toks[1:-1]
    return toks


def split_args(toks):
    out, cur, depth = [], [], 0
    for x in toks:
        if x in "([":
            depth += 1
        elif x in ")]":
            depth -= 1
        if x == "," and depth == 0:
            out.append(cur)
            cur = []
        else:
            cur.append(x)
    out.append(cur)
    return [unparen(a) for a in out]


class Extract:
    def __init__(self):
        self.ptr = {"text": 0}        # pointer locals -> index
        self.cs = {}
        self.val = {}
        self.word = {}                # alias -> k  (rule[k] as a number)
        self.rule = {}                # alias -> k  (s->bytecode + rule[k])
        self.oldmode = None
        self.pending_rule = None      # `rule = s->bytecode + rule[k];` waiting for `goto tail`
        self.argsbase = {}            # `const uint32_t *args = rule + B`  -> B
        self.valdef = {}              # Janet local -> the value expression of its definition
        self.numdef = {}              # numeric local -> how it was defined (for the lenprefix idiom)
        self.lencap = {}              # Janet local assigned s->captures->data[cs.cap] inside the lenprefix condition -> cs
        self.num = {}                 # int32_t locals -> index
        self.clamped = set()          # word aliases clamped to INT32_MAX
        self.arr = {}                 # JanetArray under construction: name -> dict(n=, cs=)
        self.posalias = {}            # int32_t x = PTR - s->text_start  -> pointer index
        self.lc = {}                  # LineCol x = get_linecol_from_position(s, posalias) -> pointer index
        self.wexpr = {}               # alias -> WE source for masked operand words (`uint8_t lo = rule[1] & 0xFF`)
        self.ptroff = {}              # pointer local -> k while `p += ((int32_t *)rule)[k]` is in force (undone by `p -= ...[k]`)
        self.bitword = {}             # `uint32_t word = rule[B + (P[O] >> 5)]`   -> (B, P, O)
        self.bitmask = {}             # `uint32_t mask = (uint32_t)1 << (P[O] & 0x1F)` -> (P, O)
        self.strof = {}               # `const uint8_t *bytes = janet_unwrap_string(v)` -> val index
        self.dbl = set()              # `double x` out-parameters of janet_scan_number_base (kept as value locals)
        self.wbit = {}                # `uint32_t signedness = rule[1] & 0x10` -> (k, bit)

    def clone(self):
        e = Extract()
        e.ptr, e.cs, e.val, e.word, e.rule = dict(self.ptr), dict(self.cs), dict(self.val), dict(self.word), dict(self.rule)
        e.oldmode, e.pending_rule = self.oldmode, self.pending_rule
        e.num, e.clamped, e.posalias, e.lc = dict(self.num), set(self.clamped), dict(self.posalias), dict(self.lc)
        e.argsbase = dict(self.argsbase)
        e.numdef, e.lencap, e.valdef = dict(self.numdef), dict(self.lencap), dict(self.valdef)
        e.arr = {k: dict(v) for k, v in self.arr.items()}
        e.wexpr, e.ptroff, e.bitword, e.bitmask = dict(self.wexpr), dict(self.ptroff), dict(self.bitword), dict(self.bitmask)
        e.strof, e.dbl, e.wbit = dict(self.strof), set(self.dbl), dict(self.wbit)
        if hasattr(self, "signed_word"):
            e.signed_word = set(self.signed_word)
        return e

    # -- expressions
    def rule_e(self, toks):
        """rule operand expression -> RE source"""
        toks = unparen(toks)
        s = " ".join(toks)
        m = re.fullmatch(r"s -> bytecode \+ (\w+) \[ (\w+) \]", s)
        if m and m.group(1) in self.argsbase and m.group(2) in self.num:
            return "(.argsAt %d %d)" % (self.argsbase[m.group(1)], self.num[m.group(2)])
        m = re.fullmatch(r"s -> bytecode \+ (\w+) \[ (\w+) - 1 \]", s)
        if m and m.group(1) in self.argsbase and m.group(2) in self.word and m.group(2) not in self.clamped:
            return "(.argsLast %d %d)" % (self.argsbase[m.group(1)], self.word[m.group(2)])
        return "(.op %d)" % self.rule_k(toks)

    def rule_k(self, toks):
        toks = unparen(toks)
        if len(toks) == 1 and toks[0] in self.rule:
            return self.rule[toks[0]]
        s = " ".join(toks)
        m = re.fullmatch(r"s -> bytecode \+ rule \[ (\d+) \]", s)
        if m:
            return int(m.group(1))
        raise Unsupported("rule expression `%s`" % s)

    def word_k(self, toks):
        toks = unparen(toks)
        if len(toks) == 1 and toks[0] in self.clamped:
            raise Unsupported("clamped operand `%s` used as a plain operand" % toks[0])
        if len(toks) == 1 and toks[0] in self.word:
            return self.word[toks[0]]
        m = re.fullmatch(r"rule \[ (\d+) \]", " ".join(toks))
        if m:
            return int(m.group(1))
        raise Unsupported("operand expression `%s`" % " ".join(toks))

    def we(self, toks):
        """operand word expression -> WE source"""
        toks = unparen(toks)
        if len(toks) == 1 and toks[0] in self.clamped:
            return "(.clamp %d)" % self.word[toks[0]]
        if len(toks) == 1 and toks[0] in self.wexpr:
            return self.wexpr[toks[0]]
        s = " ".join(toks)
        if re.fullmatch(r"\d+", s):
            return "(.lit %s)" % s
        m = re.fullmatch(r"rule \[ (\d+) \] & 0[xX][fF][fF]", s) or re.fullmatch(r"0[xX][fF][fF] & rule \[ (\d+) \]", s)
        if m:
            return "(.byteOf %s 0)" % m.group(1)
        m = re.fullmatch(r"\( rule \[ (\d+) \] >> (\d+) \) & 0[xX][fF][fF]", s)
        if m:
            return "(.byteOf %s %s)" % (m.group(1), m.group(2))
        m = re.fullmatch(r"rule \[ (\d+) \] & 0[xX]([137fF])", s)
        if m:
            return "(.lowBits %s %d)" % (m.group(1), {"1": 1, "3": 2, "7": 3, "f": 4, "F": 4}[m.group(2)])
        return "(.op %d)" % self.word_k(toks)

    def is_word(self, name):
        return name in self.word or name in self.wexpr

    def tmp_num(self, key):
        """numeric temporary holding a value read inside a condition (one per distinct read expression)"""
        name = "%rd:" + key
        if name not in self.num:
            self.num[name] = len(self.num)
        return self.num[name]

    def ptr_of(self, toks):
        toks = unparen(toks)
        if len(toks) == 1 and toks[0] in self.ptr:
            if toks[0] in self.ptroff:
                raise Unsupported("pointer `%s` used while displaced by a signed operand" % toks[0])
            return self.ptr[toks[0]]
        raise Unsupported("pointer expression `%s`" % " ".join(toks))

    def new_ptr(self, name):
        if name not in self.ptr:
            self.ptr[name] = len(self.ptr)
        return self.ptr[name]

    def vexpr(self, toks):
        toks = unparen(toks)
        s = " ".join(toks)
        m = re.fullmatch(r"janet_stringv \( (.*) \)", s)
        if m:
            a, b = split_args(toks[2:-1])
            sa, sb = " ".join(a), " ".join(b)
            m2 = re.fullmatch(r"s -> scratch -> data \+ (\w+) \. scratch", sa)
            if m2 and m2.group(1) in self.cs and sb == "s -> scratch -> count - %s . scratch" % m2.group(1):
                return "(.scratchFrom %d)" % self.cs[m2.group(1)]
            if len(a) == 1 and a[0] in self.ptr:
                m3 = re.fullmatch(r"(\w+) - (\w+)", sb)
                if m3 and m3.group(2) == a[0] and m3.group(1) in self.ptr:
                    return "(.slice %d %d)" % (self.ptr[a[0]], self.ptr[m3.group(1)])
        m = re.fullmatch(r"janet_wrap_number \( (.*) \)", s)
        if m:
            inner = unparen(toks[2:-1])
            m2 = re.fullmatch(r"(\w+) - s -> text_start", " ".join(inner))
            if m2 and m2.group(1) in self.ptr:
                return "(.posOf %d)" % self.ptr[m2.group(1)]
        m = re.fullmatch(r"janet_wrap_number \( \(? ?(\w+) \. (line|col) ?\)? \)", s)
        if m and m.group(1) in self.lc:
            return "(.%s %d)" % ("lineOf" if m.group(2) == "line" else "colOf", self.lc[m.group(1)])
        m = re.fullmatch(r"s -> constants \[ (.*) \]", s)
        if m:
            return "(.const %d)" % self.word_k(toks[4:-1])
        m = re.fullmatch(r"s -> captures -> data \[ (\w+) \. cap \+ (\w+) \]", s)
        if m and m.group(1) in self.cs:
            return "(.capAt %d %s)" % (self.cs[m.group(1)], self.we([m.group(2)]))
        m = re.fullmatch(r"s -> tagged_captures -> data \[ (\w+) \]", s)
        if m and m.group(1) in self.num:
            return "(.taggedAt %d)" % self.num[m.group(1)]
        m = re.fullmatch(r"(janet_wrap_s64 \( )?peg_convert_u64_s64 \( (\w+) , (\w+) \)( \))?", s)
        if m and bool(m.group(1)) == bool(m.group(4)) and m.group(2) in self.num and self.is_word(m.group(3)):
            return "(.%s %d %s)" % ("s64Of" if m.group(1) else "numSigned", self.num[m.group(2)], self.we([m.group(3)]))
        m = re.fullmatch(r"janet_wrap_u64 \( (\w+) \)", s)
        if m and m.group(1) in self.num:
            return "(.u64Of %d)" % self.num[m.group(1)]
        m = re.fullmatch(r"janet_wrap_number \( (\w+) \)", s)
        if m and m.group(1) in self.dbl:
            return "(.copy %d)" % self.val[m.group(1)]
        if len(toks) == 1 and toks[0] in self.num and not toks[0].startswith("%"):
            return "(.numOf %d)" % self.num[toks[0]]
        raise Unsupported("value expression `%s`" % s)

    def cond(self, toks):
        """-> nested tuples ('not', c) ('and', a, b) ('or', a, b) or an atom string"""
        toks = strip_casts(toks)
        m = re.fullmatch(r"(\w+) <= 0 \|\| \( (\w+) = s -> captures -> data \[ (\w+) \. cap \] , ! janet_checkint \( (\w+) \) \)",
                         " ".join(toks))
        if m and m.group(2) == m.group(4) and m.group(2) in self.val and m.group(3) in self.cs and m.group(1) in self.num \
                and self.numdef.get(m.group(1)) == ("capsAbove", m.group(3)):
            self.lencap[m.group(2)] = m.group(3)
            return ".lenCapBad %d" % self.cs[m.group(3)]
        pos = [0]

        def peek():
            return toks[pos[0]] if pos[0] < len(toks) else None

        def take():
            pos[0] += 1
            return toks[pos[0] - 1]

        def p_or():
            a = p_and()
            while peek() == "||":
                take()
                a = ('or', a, p_and())
            return a

        def p_and():
            a = p_not()
            while peek() == "&&":
                take()
                a = ('and', a, p_not())
            return a

        def p_not():
            if peek() == "!":
                take()
                return neg(p_not())
            return p_atom()

        def p_atom():
            if peek() == "(":
                take()
                a = p_or()
                if take() != ")":
                    raise Unsupported("condition")
                return a
            # operand up to && || )
            depth, cur = 0, []
            while peek() is not None and not (depth == 0 and peek() in ("&&", "||", ")")):
                x = take()
                if x in "([":
                    depth += 1
                elif x in ")]":
                    depth -= 1
                cur.append(x)
            return self.atom(cur)
        r = p_or()
        if pos[0] != len(toks):
            raise Unsupported("condition `%s`" % " ".join(toks))
        return r

    def atom(self, toks):
        """one comparison; text reads / memcmp / number scanning inside it become statements executed just before it
        (`('pre', [stmts], atom)`), at the place where C evaluates them (the caller splits `&&` / `||` into nested ifs)"""
        pre = []
        toks = unparen(list(toks))
        # byte reads `P[d]`
        out, i = [], 0
        while i < len(toks):
            if (toks[i] in self.ptr and toks[i] not in self.ptroff and i + 3 < len(toks) and toks[i + 1] == "[" and
                    re.fullmatch(r"\d+", toks[i + 2]) and toks[i + 3] == "]" and not (i > 0 and toks[i - 1] in (".", "->"))):
                n = self.tmp_num("%d[%s]" % (self.ptr[toks[i]], toks[i + 2]))
                pre.append(".readByte %d %d %s" % (n, self.ptr[toks[i]], toks[i + 2]))
                out.append("%rd:" + "%d[%s]" % (self.ptr[toks[i]], toks[i + 2]))
                i += 4
            else:
                out.append(toks[i])
                i += 1
        toks = out
        npre = len(pre)
        try:
            r = self.atom0(toks, pre)
        except Unsupported as first:
            # the same comparison written the other way round (`NULL == x` style: `s->text_end <= text`, `hi < c`), or a call
            # compared with 0 (`memcmp(..) != 0`)
            del pre[npre:]
            mirror = {"==": "==", "!=": "!=", "<": ">", ">": "<", "<=": ">=", ">=": "<="}
            depth, at = 0, None
            for j, t in enumerate(toks):
                if t in "([":
                    depth += 1
                elif t in ")]":
                    depth -= 1
                elif depth == 0 and t in mirror:
                    if at is not None:
                        raise first
                    at = j
            if at is None:
                raise first
            lhs, op, rhs = toks[:at], toks[at], toks[at + 1:]
            try:
                if rhs == ["0"] and op in ("==", "!=") and len(lhs) > 2 and lhs[1] == "(":
                    r = self.atom0(lhs, pre)
                    if op == "==":
                        r = neg(r)
                else:
                    r = self.atom0(rhs + [mirror[op]] + lhs, pre)
            except Unsupported:
                raise first
        return ('pre', pre, r) if pre else r

    def atom0(self, toks, pre):
        if len(toks) > 3 and toks[0] in ("memcmp", "janet_scan_number_base") and toks[1] == "(" and toks[-1] == ")":
            # normalise redundant parentheses around the arguments
            toks = [toks[0], "("] + [t for j, a in enumerate(split_args(toks[2:-1])) for t in ([","] if j else []) + a] + [")"]
        s = " ".join(toks)
        W = r"([%\w:\[\]]+)"
        # memcmp(P, rule + B, LEN) / memcmp(P, BYTES, LEN) as a truth value
        m = re.fullmatch(r"memcmp \( (\w+) , rule \+ (\d+) , (\w+) \)", s)
        if m and m.group(1) in self.ptr and m.group(1) not in self.ptroff and self.is_word(m.group(3)):
            n = self.tmp_num("memcmp")
            pre.append(".cmpLit %d %d %s %s" % (n, self.ptr[m.group(1)], m.group(2), self.we([m.group(3)])))
            return ".numNZ %d" % n
        m = re.fullmatch(r"memcmp \( (\w+) , (\w+) , (\w+) \)", s)
        if m and m.group(1) in self.ptr and m.group(1) not in self.ptroff and m.group(2) in self.strof and m.group(3) in self.num \
                and self.numdef.get(m.group(3)) == ("strLen", self.strof[m.group(2)]):
            n = self.tmp_num("memcmp")
            pre.append(".cmpVal %d %d %d %d" % (n, self.ptr[m.group(1)], self.strof[m.group(2)], self.num[m.group(3)]))
            return ".numNZ %d" % n
        m = re.fullmatch(r"janet_scan_number_base \( (\w+) , (\w+) - (\w+) , (\w+) , & (\w+) \)", s)
        if m and m.group(1) == m.group(3) and m.group(1) in self.ptr and m.group(2) in self.ptr and m.group(4) in self.word \
                and m.group(5) in self.dbl and m.group(1) not in self.ptroff:
            n = self.tmp_num("scan")
            pre.append(".scanNum %d %d %d %d %d" % (n, self.val[m.group(5)], self.ptr[m.group(1)], self.ptr[m.group(2)],
                                                      self.word[m.group(4)]))
            return ".numNZ %d" % n
        m = re.fullmatch(r"(\w+) & (\w+)", s)
        if m and m.group(1) in self.bitword and m.group(2) in self.bitmask and self.bitword[m.group(1)][1:] == self.bitmask[m.group(2)]:
            b, p_, o = self.bitword[m.group(1)]
            if p_ in self.ptroff:
                raise Unsupported("condition `%s`" % s)
            n = self.tmp_num("%d[%s]" % (self.ptr[p_], o))
            pre.append(".readByte %d %d %s" % (n, self.ptr[p_], o))
            return ".bitSet %d %d" % (b, n)
        if len(toks) == 1 and toks[0] in self.wbit:
            return ".wordBit %d %d" % self.wbit[toks[0]]
        m = re.fullmatch(r"(\w+) > (\d+)", s)
        if m and m.group(1) in self.wexpr:
            return ".weGt %s (.lit %s)" % (self.wexpr[m.group(1)], m.group(2))
        m = re.fullmatch(r"(\w+) \+ (\w+) > s -> text_end", s)
        if m and m.group(1) in self.ptr and m.group(1) not in self.ptroff and m.group(2) in self.wexpr:
            return ".ptrPlusGtEnd %d %s" % (self.ptr[m.group(1)], self.wexpr[m.group(2)])
        m = re.fullmatch(r"(\w+) (<|>=) s -> text_end", s)
        if m and m.group(1) in self.ptr and m.group(1) not in self.ptroff:
            c = ".ptrLtEnd %d" % self.ptr[m.group(1)]
            return c if m.group(2) == "<" else ('not', c)
        m = re.fullmatch(r"(\w+) (<|>) s -> (text_start|text_end)", s)
        if m and m.group(1) in self.ptroff and (m.group(2), m.group(3)) in (("<", "text_start"), (">", "text_end")):
            return ".%s %d %d" % ("offLtStart" if m.group(2) == "<" else "offGtEnd", self.ptr[m.group(1)], self.ptroff[m.group(1)])
        m = re.fullmatch(W + r" (>=|<=|>|<) (\w+)", s)
        if m and m.group(1) in self.num and self.is_word(m.group(3)):
            n, w, op = self.num[m.group(1)], self.we([m.group(3)]), m.group(2)
            if op == ">":
                return ".numGtWord %d %s" % (n, w)
            if op == "<":
                return ".numLtWord %d %s" % (n, w)
            if op == ">=":
                return ('not', ".numLtWord %d %s" % (n, w))
            return ('not', ".numGtWord %d %s" % (n, w))
        m = re.fullmatch(r"s -> tags -> data \[ (\w+) \] (==|!=) (.*)", s)
        if m and m.group(1) in self.num:
            c = ".tagAtEq %d %s" % (self.num[m.group(1)], self.we(m.group(3).split(" ")))
            return c if m.group(2) == "==" else ('not', c)
        m = re.fullmatch(r"janet_checktype \( (\w+) , JANET_STRING \)", s)
        if m and m.group(1) in self.val:
            return ".valIsString %d" % self.val[m.group(1)]
        m = re.fullmatch(r"(\w+) \+ (\w+) > s -> text_end", s)
        if m and m.group(1) in self.ptr and m.group(1) not in self.ptroff and m.group(2) in self.num:
            return ".ptrPlusNumGtEnd %d %d" % (self.ptr[m.group(1)], self.num[m.group(2)])
        if any(t in self.ptroff for t in toks):
            raise Unsupported("condition `%s` on a displaced pointer" % s)
        for pat, neg_ in ((r"(\w+) == NULL", False), (r"NULL == (\w+)", False), (r"(\w+) != NULL", True), (r"NULL != (\w+)", True)):
            m = re.fullmatch(pat, s)
            if m and m.group(1) in self.ptr:
                c = ".isNull %d" % self.ptr[m.group(1)]
                return ('not', c) if neg_ else c
        if len(toks) == 1 and toks[0] in self.ptr:
            return ('not', ".isNull %d" % self.ptr[toks[0]])
        if (len(toks) == 1 and toks[0] in self.word) or re.fullmatch(r"rule \[ \d+ \]", s):
            return ('not', ".tagZero %d" % self.word_k(toks))
        m = re.fullmatch(r"(\w+) (==|!=) PEG_MODE_(ACCUMULATE|NORMAL)", s) or None
        if m and self.oldmode is not None and m.group(1) == self.oldmode:
            positive = (m.group(2) == "==") == (m.group(3) == "ACCUMULATE")
            return ".oldAcc" if positive else ('not', ".oldAcc")
        m = re.fullmatch(r"s -> mode (==|!=) PEG_MODE_(ACCUMULATE|NORMAL)", s)
        if m:
            positive = (m.group(1) == "==") == (m.group(2) == "ACCUMULATE")
            return ".curAcc" if positive else ('not', ".curAcc")
        if s == "s -> has_backref":
            return ".hasBackref"
        m = re.fullmatch(r"janet_truthy \( (\w+) \)", s)
        if m and m.group(1) in self.val:
            return ".valTruthy %d" % self.val[m.group(1)]
        m = re.fullmatch(r"(\w+) > (\w+)", s)
        if m and m.group(1) in self.num and m.group(2) in self.word:
            return ".numGtWord %d %s" % (self.num[m.group(1)], self.we([m.group(2)]))
        m = re.fullmatch(r"(\w+) < (\w+)", s)
        if m and m.group(1) in self.num and m.group(2) in self.word:
            return ".numLtWord %d %s" % (self.num[m.group(1)], self.we([m.group(2)]))
        m = re.fullmatch(r"(\w+) <= (\w+)", s)
        if m and m.group(1) in self.ptr and m.group(2) in self.ptr:
            return ".ptrLe %d %d" % (self.ptr[m.group(1)], self.ptr[m.group(2)])
        m = re.fullmatch(r"(\w+) == (\w+)", s)
        if m and m.group(1) in self.ptr and m.group(2) in self.ptr:
            return ".ptrEq %d %d" % (self.ptr[m.group(1)], self.ptr[m.group(2)])
        m = re.fullmatch(r"(\w+) == 0", s)
        if m and m.group(1) in self.word and m.group(1) not in self.clamped:
            return ".tagZero %d" % self.word[m.group(1)]
        m = re.fullmatch(r"(\w+) < (\w+)", s)
        if m and m.group(1) in self.num and m.group(2) in self.num:
            return ".numLtNum %d %d" % (self.num[m.group(1)], self.num[m.group(2)])
        m = re.fullmatch(r"(\w+) < (\w+) - 1", s)
        if m and m.group(1) in self.num and m.group(2) in self.word:
            return ".numLtWordPred %d %s" % (self.num[m.group(1)], self.we([m.group(2)]))
        m = re.fullmatch(r"(\w+) \+ (\w+) > s -> text_end", s)
        if m and m.group(1) in self.ptr and m.group(2) in self.word:
            return ".ptrPlusGtEnd %d %s" % (self.ptr[m.group(1)], self.we([m.group(2)]))
        m = re.fullmatch(r"(\w+) (<=|>) s -> text_end", s)
        if m and m.group(1) in self.ptr:
            return ".%s %d" % ("ptrLeEnd" if m.group(2) == "<=" else "ptrGtEnd", self.ptr[m.group(1)])
        m = re.fullmatch(r"rule \[ 0 \] == (RULE_\w+)", s)
        if m and m.group(1) in OPCODES:
            return ".opIs %d" % OPCODES[m.group(1)]
        m = re.fullmatch(r"(\w+) == UINT32_MAX", s)
        if m and m.group(1) in self.word:
            return ".wordIsMax %s" % self.we([m.group(1)])
        m = re.fullmatch(r"s -> captures -> count > (\w+)", s)
        if m and m.group(1) in self.num:
            return ".countGtNum %d" % self.num[m.group(1)]
        raise Unsupported("condition `%s`" % s)

    # -- statements
    def simple(self, toks):
        """-> list of IR statement strings"""
        raw = " ".join(t for t in toks if t != "const")
        m = re.fullmatch(r"(\w+) (\+|-) = \( \( int32_t \* \) rule \) \[ (\d+) \]", raw)
        if m and m.group(1) in self.ptr:
            # `p += off; ... ; p -= off;` with the same signed operand: the pointer is tracked as (p, pending offset)
            name, k_ = m.group(1), int(m.group(3))
            if m.group(2) == "+" and name not in self.ptroff:
                self.ptroff[name] = k_
                return []
            if m.group(2) == "-" and self.ptroff.get(name) == k_:
                del self.ptroff[name]
                return []
            raise Unsupported("statement `%s`" % raw)
        toks = strip_casts(toks)
        s = " ".join(toks)
        if not toks:
            return []
        m = re.fullmatch(r"(uint8_t|uint32_t|int32_t|int) (\w+) = (.*&.*)", s)
        if m:
            try:
                e = self.we(m.group(3).split(" "))
            except Unsupported:
                e = None
            if e is not None and (e.startswith("(.byteOf") or (e.startswith("(.lowBits") and m.group(1) != "uint8_t")):
                self.wexpr[m.group(2)] = e
                return []
        m = re.fullmatch(r"(?:uint8_t|uint32_t|int32_t|int) (\w+) = (\w+) \[ (\d+) \]", s)
        if m and m.group(2) in self.ptr and m.group(2) not in self.ptroff:          # `uint8_t c = text[0];`
            if m.group(1) not in self.num:
                self.num[m.group(1)] = len(self.num)
            self.numdef.pop(m.group(1), None)
            return [".readByte %d %d %s" % (self.num[m.group(1)], self.ptr[m.group(2)], m.group(3))]
        m = re.fullmatch(r"uint32_t (\w+) = rule \[ (\d+) \+ \( (\w+) \[ (\d+) \] >> 5 \) \]", s)
        if m and m.group(3) in self.ptr:
            self.bitword[m.group(1)] = (int(m.group(2)), m.group(3), m.group(4))
            return []
        m = re.fullmatch(r"uint32_t (\w+) = 1 << \( (\w+) \[ (\d+) \] & 0[xX]1[fF] \)", s)
        if m and m.group(2) in self.ptr:
            self.bitmask[m.group(1)] = (m.group(2), m.group(3))
            return []
        m = re.fullmatch(r"(?:uint32_t|int32_t|int) (\w+) = rule \[ (\d+) \] & 0[xX]([0-9a-fA-F]+)", " ".join(unparen(toks[:3] + unparen(toks[3:]))) if len(toks) > 3 else s)
        if m and bin(int(m.group(3), 16)).count("1") == 1:
            self.wbit[m.group(1)] = (int(m.group(2)), int(m.group(3), 16).bit_length() - 1)
            return []
        m = re.fullmatch(r"(\w+) = \( (\w+) << 8 \) \| (\w+) \[ (\w+) \]", s)
        if m and m.group(1) == m.group(2) and m.group(1) in self.num and self.numdef.get(m.group(1)) == ("u64",) and m.group(3) in self.ptr \
                and m.group(3) not in self.ptroff and m.group(4) in self.num:
            return [".accByte %d %d %d" % (self.num[m.group(1)], self.ptr[m.group(3)], self.num[m.group(4)])]
        m = re.fullmatch(r"uint64_t (\w+) = 0", s)
        if m:
            if m.group(1) not in self.num:
                self.num[m.group(1)] = len(self.num)
            self.numdef[m.group(1)] = ("u64",)
            return [".numDef %d (.lit 0)" % self.num[m.group(1)]]
        m = re.fullmatch(r"double (\w+)(?: = 0(?: \. 0)?)?", s)
        if m:
            if m.group(1) not in self.val:
                self.val[m.group(1)] = len(self.val)
            self.dbl.add(m.group(1))
            return []
        m = re.fullmatch(r"uint8_t \* (\w+) = janet_unwrap_string \( (\w+) \)", s)
        if m and m.group(2) in self.val:
            self.strof[m.group(1)] = self.val[m.group(2)]
            return []
        m = re.fullmatch(r"int32_t (\w+) = janet_string_length \( (\w+) \)", s)
        if m and m.group(2) in self.strof:
            if m.group(1) not in self.num:
                self.num[m.group(1)] = len(self.num)
            self.numdef[m.group(1)] = ("strLen", self.strof[m.group(2)])
            return [".numDef %d (.strLen %d)" % (self.num[m.group(1)], self.strof[m.group(2)])]
        m = re.fullmatch(r"int32_t (\w+) = s -> tags -> count", s)
        if m:
            if m.group(1) not in self.num:
                self.num[m.group(1)] = len(self.num)
            self.numdef[m.group(1)] = ("tagCount",)
            return [".numDef %d .tagCount" % self.num[m.group(1)]]
        m = re.fullmatch(r"int32_t (\w+) = (\w+)", s)
        if m and m.group(2) in self.num and not m.group(2).startswith("%"):
            if m.group(1) not in self.num:
                self.num[m.group(1)] = len(self.num)
            self.numdef.pop(m.group(1), None)
            return [".numDef %d (.copy %d)" % (self.num[m.group(1)], self.num[m.group(2)])]
        if s == "down1 ( s )":
            return [".down"]
        if s in ("up1 ( s )", "( up1 ( s ) )"):
            return [".up"]
        if len(toks) == 1:            # `(void) x;`
            return []
        if len(toks) == 3 and toks[0] == "uint8_t" and toks[1] == "*" and re.fullmatch(r"\w+", toks[2]):   # `const uint8_t *p;`
            self.new_ptr(toks[2])
            return []
        if len(toks) == 2 and toks[1] == "++" and toks[0] in self.ptr:
            if toks[0] in self.ptroff:
                raise Unsupported("statement `%s`" % s)
            self.bitword.clear()
            self.bitmask.clear()
            return [".ptrInc %d" % self.ptr[toks[0]]]
        if len(toks) == 2 and toks[1] == "++" and toks[0] in self.num:
            return [".numDef %d (.succ %d)" % (self.num[toks[0]], self.num[toks[0]])]
        if len(toks) == 2 and toks[0] == "Janet" and re.fullmatch(r"\w+", toks[1]):      # `Janet cap;`
            if toks[1] not in self.val:
                self.val[toks[1]] = len(self.val)
            return []
        if s == "janet_panicv ( s -> captures -> data [ s -> captures -> count - 1 ] )":
            return ["!.panicLast"]
        m = re.fullmatch(r'janet_panicf \( "match error at line %d, column %d" , (\w+) \. line , (\w+) \. col \)', s)
        if m and m.group(1) == m.group(2) and m.group(1) in self.lc:
            return ["!(.panicMatchErr %d)" % self.lc[m.group(1)]]
        m = re.fullmatch(r"LineCol (\w+) = get_linecol_from_position \( s , (\w+) \)", s)
        if m and m.group(2) in self.posalias:
            self.lc[m.group(1)] = self.posalias[m.group(2)]
            return []
        m = re.fullmatch(r"LineCol (\w+) = get_linecol_from_position \( s , \( (\w+) - s -> text_start \) \)", s)
        if m and m.group(2) in self.ptr:
            self.lc[m.group(1)] = self.ptr[m.group(2)]
            return []
        # RULE_ARGUMENT: int32_t index = ((int32_t *)rule)[k];  Janet capture = (index >= s->extrac) ? janet_wrap_nil() : s->extrav[index];
        m = re.fullmatch(r"int32_t (\w+) = \( rule \) \[ (\d+) \]", s)
        if m:
            self.word[m.group(1)] = int(m.group(2))
            self.signed_word = getattr(self, "signed_word", set()) | {m.group(1)}
            return []
        m = re.fullmatch(r"Janet (\w+) = \( (\w+) >= s -> extrac \) \? janet_wrap_nil \( \) : s -> extrav \[ (\w+) \]", s)
        if m and m.group(2) == m.group(3) and m.group(2) in getattr(self, "signed_word", set()):
            if m.group(1) not in self.val:
                self.val[m.group(1)] = len(self.val)
            return [".valDef %d (.argAt %d)" % (self.val[m.group(1)], self.word[m.group(2)])]
        m = re.fullmatch(r"int32_t (\w+) = (?:\( )?(\w+) - s -> text_start(?: \))?", s)
        if m and m.group(2) in self.ptr:
            self.posalias[m.group(1)] = self.ptr[m.group(2)]
            return []
        m = re.fullmatch(r"int32_t (\w+) = s -> captures -> count(?: - (\w+) \. cap)?", s)
        if m and (m.group(2) is None or m.group(2) in self.cs):
            if m.group(1) not in self.num:
                self.num[m.group(1)] = len(self.num)
            self.numdef[m.group(1)] = ("capCount",) if m.group(2) is None else ("capsAbove", m.group(2))
            return [".numDef %d %s" % (self.num[m.group(1)], ".capCount" if m.group(2) is None else "(.capsAbove %d)" % self.cs[m.group(2)])]
        m = re.fullmatch(r"int32_t (\w+) = janet_unwrap_integer \( (\w+) \)", s)
        if m and m.group(2) in self.lencap:
            if m.group(1) not in self.num:
                self.num[m.group(1)] = len(self.num)
            return [".numDef %d (.capIntAt %d)" % (self.num[m.group(1)], self.cs[self.lencap[m.group(2)]])]
        # the array idiom of RULE_GROUP: janet_array(n); safe_memcpy(a->data, s->captures->data + cs.cap, sizeof(Janet) * n); a->count = n
        m = re.fullmatch(r"JanetArray \* (\w+) = janet_array \( (\w+) \)", s)
        if m and m.group(2) in self.num:
            self.arr[m.group(1)] = dict(n=m.group(2), cs=None)
            return []
        m = re.fullmatch(r"safe_memcpy \( (\w+) -> data , s -> captures -> data \+ (\w+) \. cap , sizeof \( Janet \) \* (\w+) \)", s)
        if m and m.group(1) in self.arr and self.arr[m.group(1)]["n"] == m.group(3) and m.group(2) in self.cs:
            self.arr[m.group(1)]["cs"] = m.group(2)
            return []
        m = re.fullmatch(r"(\w+) -> count = (\w+)", s)
        if m and m.group(1) in self.arr and self.arr[m.group(1)]["n"] == m.group(2) and self.arr[m.group(1)]["cs"] is not None:
            a = self.arr.pop(m.group(1))
            self.val[m.group(1)] = len(self.val)
            return [".valDef %d (.arrOf %d %d)" % (self.val[m.group(1)], self.cs[a["cs"]], self.num[a["n"]])]
        # declarations / assignments
        m = re.fullmatch(r"(?:(\w+) )?(\* )?(\w+) = (.*)", s)
        if m and (m.group(1) is None or m.group(1) in _TYPES):
            ty, star, name = m.group(1), bool(m.group(2)), m.group(3)
            rhs = toks[toks.index("=") + 1:]
            rs = " ".join(rhs)
            if ty is None and star:
                raise Unsupported("statement `%s`" % s)
            if ty in ("uint32_t", "int32_t", "int") and not star and re.fullmatch(r"\d+", rs):
                if name not in self.num:
                    self.num[name] = len(self.num)
                return [".numDef %d (.lit %s)" % (self.num[name], rs)]
            if ty in ("uint32_t", "int32_t", "int") and not star:
                m2 = re.fullmatch(r"rule \[ (\d+) \]", rs)
                if m2:
                    self.word[name] = int(m2.group(1))
                    return []
                if rs == "s -> mode" and ty == "int":
                    self.oldmode = name
                    return [".modeSave"]
            if ty == "uint32_t" and star:
                m2 = re.fullmatch(r"rule \+ (\d+)", rs)
                if m2:
                    self.argsbase[name] = int(m2.group(1))
                    return []
                self.rule[name] = self.rule_k(rhs)
                return []
            if ty == "CapState" and rs == "cap_save ( s )":
                if name not in self.cs:
                    self.cs[name] = len(self.cs)
                return [".capSave %d" % self.cs[name]]
            if ty == "Janet" and not star:
                e = ".nil" if rs == "janet_wrap_nil ( )" else self.vexpr(rhs)
                if name not in self.val:
                    self.val[name] = len(self.val)
                self.valdef[name] = e
                return [".valDef %d %s" % (self.val[name], e)]
            if (ty == "uint8_t" and star) or (ty is None and name in self.ptr):
                self.bitword.clear()
                self.bitmask.clear()
                if name in self.ptroff:
                    raise Unsupported("statement `%s`" % s)
                if rs == "NULL":
                    return [".ptrNull %d" % self.new_ptr(name)]
                if rs == "s -> text_end":
                    return [".endSave %d" % self.new_ptr(name)]
                m2 = re.fullmatch(r"peg_rule \( (.*) \)", rs)
                if m2:
                    args = split_args(rhs[2:-1])
                    if len(args) != 3 or args[0] != ["s"]:
                        raise Unsupported("call `%s`" % rs)
                    if len(args[2]) == 1 and args[2][0] in self.ptroff:
                        return [".callOff %d %s %d %d" % (self.new_ptr(name), self.rule_e(args[1]), self.ptr[args[2][0]],
                                                          self.ptroff[args[2][0]])]
                    re_, at = self.rule_e(args[1]), self.ptr_of(args[2])
                    m3 = re.fullmatch(r"\(\.op (\d+)\)", re_)
                    if m3:
                        return [".call %d %s %d" % (self.new_ptr(name), m3.group(1), at)]
                    return [".callE %d %s %d" % (self.new_ptr(name), re_, at)]
                src = self.ptr_of(rhs)
                return [".ptrCopy %d %d" % (self.new_ptr(name), src)]
            if ty is None and not star and name in self.val:
                return [".valDef %d %s" % (self.val[name], self.vexpr(rhs))]
            if ty is None and not star and name in self.num and self.numdef.get(name) == ("u64",):
                raise Unsupported("statement `%s`" % s)
            if ty is None and name == "rule":
                self.pending_rule = self.rule_e(rhs)
                return []
        m = re.fullmatch(r"s -> mode = (\w+)", s)
        if m:
            if m.group(1) == "PEG_MODE_ACCUMULATE":
                return [".modeSet true"]
            if m.group(1) == "PEG_MODE_NORMAL":
                return [".modeSet false"]
            if m.group(1) == self.oldmode:
                return [".modeRestore"]
        m = re.fullmatch(r"s -> text_end = (\w+)", s)
        if m and m.group(1) in self.ptr:
            return [".endSet %d" % self.ptr[m.group(1)]]
        m = re.fullmatch(r"(cap_load|cap_load_keept) \( s , (\w+) \)", s)
        if m and m.group(2) in self.cs:
            return [".%s %d" % ("capLoad" if m.group(1) == "cap_load" else "capLoadKeept", self.cs[m.group(2)])]
        m = re.fullmatch(r"pushcap \( (.*) \)", s)
        if m:
            args = split_args(toks[2:-1])
            if len(args) != 3 or args[0] != ["s"]:
                raise Unsupported("statement `%s`" % s)
            out = []
            wrapped = re.fullmatch(r"janet_wrap_array \( (\w+) \)", " ".join(args[1]))
            if wrapped and wrapped.group(1) in self.val:
                v = self.val[wrapped.group(1)]
            elif len(args[1]) == 1 and args[1][0] in self.val:
                v = self.val[args[1][0]]
            elif re.fullmatch(r"janet_wrap_number \( (\w+) \)", " ".join(args[1])) and args[1][2] in self.dbl:
                v = self.val[args[1][2]]
            else:
                v = len(self.val)
                self.val["%tmp" + str(v)] = v
                out.append(".valDef %d %s" % (v, self.vexpr(args[1])))
            out.append(".push %d %d" % (v, self.word_k(args[2])))
            return out
        m = re.fullmatch(r"janet_buffer_push_bytes \( (.*) \)", s)
        if m:
            args = split_args(toks[2:-1])
            if len(args) == 3 and " ".join(args[0]) == "s -> scratch" and len(args[1]) == 1 and args[1][0] in self.ptr:
                m3 = re.fullmatch(r"(\w+) - (\w+)", " ".join(args[2]))
                if m3 and m3.group(2) == args[1][0] and m3.group(1) in self.ptr:
                    return [".scratchPush %d %d" % (self.ptr[args[1][0]], self.ptr[m3.group(1)])]
        raise Unsupported("statement `%s`" % s)


def neg(c):
    if isinstance(c, tuple) and c[0] == 'not':
        return c[1]
    return ('not', c)


def cond_lean(c):
    if isinstance(c, tuple):
        if c[0] == 'not':
            return "(.not %s)" % cond_lean(c[1])
        return "(.%s %s %s)" % (c[0], cond_lean(c[1]), cond_lean(c[2]))
    return "(%s)" % c


def has_pre(c):
    return isinstance(c, tuple) and (c[0] == 'pre' or any(has_pre(x) for x in c[1:]))


def branch(c, a, b):
    """`if (c) a else b`.  A condition that reads the text (or calls memcmp / the number scanner) is split along `&&` / `||` / `!`
    into nested ifs with the read placed right before the comparison that needs it (C's evaluation order); any other condition
    stays one `.ite` with no negation at the top."""
    if not has_pre(c):
        if isinstance(c, tuple) and c[0] == 'not':
            c, a, b = c[1], b, a
        return "(.ite %s %s %s)" % (cond_lean(c), a, b)
    if isinstance(c, tuple):
        if c[0] == 'not':
            return branch(c[1], b, a)
        if c[0] == 'and':
            return branch(c[1], branch(c[2], a, b), b)
        if c[0] == 'or':
            return branch(c[1], a, branch(c[2], a, b))
        if c[0] == 'pre':
            out = branch(c[2], a, b)
            for st in reversed(c[1]):
                out = "(.seq (%s) %s)" % (st, out)
            return out
    return "(.ite %s %s %s)" % (cond_lean(c), a, b)


_PAIRS = (
    (r"s -> tags -> data \[ (\w+) \] = s -> tags -> data \[ (\w+) \]",
     r"s -> tagged_captures -> data \[ (\w+) \] = s -> tagged_captures -> data \[ (\w+) \]", ".tagMove %d %d"),
    (r"s -> tags -> count = (\w+)", r"s -> tagged_captures -> count = (\w+)", ".tagSetCount %d"),
)


def tag_pair(st, nxt, ex):
    """the tags buffer and the tagged-captures array are ONE list of pairs in the model: an assignment to one must be followed
    (or preceded) by the same assignment to the other"""
    if st[0] != 'simple':
        return None
    s = " ".join(strip_casts(st[1]))
    for pa, pb, fmt in _PAIRS:
        for x, y in ((pa, pb), (pb, pa)):
            m = re.fullmatch(x, s)
            if m:
                if nxt is None or nxt[0] != 'simple':
                    raise Unsupported("statement `%s` without its counterpart on the other tag array" % s)
                m2 = re.fullmatch(y, " ".join(strip_casts(nxt[1])))
                if not m2 or m2.groups() != m.groups() or any(g not in ex.num for g in m.groups()):
                    raise Unsupported("statement `%s` without its counterpart on the other tag array" % s)
                return fmt % tuple(ex.num[g] for g in m.groups())
    return None


def conv(stmts, ex, end=".fall", loops=None):
    """statement list (+ the rest of the case / of the loop body) -> Prog source; `end` = the leaf reached when the list runs
    out (`.fall` at the end of a case, `.cont` at the end of a loop body); `loops` collects (body, rest) of every loop"""
    loops = [] if loops is None else loops
    if not stmts:
        return end
    st, rest = stmts[0], stmts[1:]
    k = st[0]
    if k == 'block':
        return conv(list(st[1]) + rest, ex, end, loops)
    tp = tag_pair(st, rest[0] if rest else None, ex)
    if tp is not None:
        return "(.seq (%s) %s)" % (tp, conv(rest[1:], ex, end, loops))
    if k == 'break':
        if end != ".cont":
            raise Unsupported("break outside a loop")
        return ".brk"
    if k == 'continue':
        if end != ".cont":
            raise Unsupported("continue outside a loop")
        return ".cont"
    if k == 'switch':
        toks, gc_pairs = gc_bracket(st[1] + ["{"] + st[2] + ["}"])
        # roles: the constant = a Janet local defined as s->constants[rule[k]]; the result = the Janet local assigned in the body;
        # the capture state = the CapState local mentioned as `X . cap`
        consts = [n for n in ex.val if re.fullmatch(r"\(\.const \d+\)", ex.valdef.get(n, ""))]
        css = sorted(set(toks[i] for i in range(len(toks) - 2) if toks[i] in ex.cs and toks[i + 1] == "." and toks[i + 2] == "cap"))
        caps = sorted(set(toks[i] for i in range(len(toks) - 1) if toks[i] in ex.val and toks[i + 1] == "=" and toks[i] not in consts))
        if len(consts) != 1 or len(css) != 1 or len(caps) != 1:
            raise Unsupported("switch statement (roles not recognised)")
        role = {consts[0]: "$const", css[0]: "$cs", caps[0]: "$cap"}
        canon_ = " ".join(role.get(t, t) if not (i > 0 and toks[i - 1] in (".", "->")) else t for i, t in enumerate(toks))
        if canon_ != REPLACE_SWITCH:
            raise Unsupported("switch statement differs from the RULE_REPLACE value computation the IR knows: " +
                              token_diff(REPLACE_SWITCH, canon_))
        kk = int(re.fullmatch(r"\(\.const (\d+)\)", ex.valdef[consts[0]]).group(1))
        if gc_pairs:
            GC_BRACKETED.append(gc_pairs)
        tail = conv(rest, ex, end, loops)
        return "(.seq (.valDef %d (.replaceOf %d %d)) %s)" % (ex.val[caps[0]], kk, ex.cs[css[0]], tail)
    if k == 'for' and " ".join(st[3]) in ("%s --" % st[1][1] if len(st[1]) > 1 else "", "-- %s" % st[1][1] if len(st[1]) > 1 else ""):
        # for (int32_t i = BOUND - 1; i >= 0; i--) body      ->  .downLoop i BOUND body rest
        init, cnd, fbody = " ".join(strip_casts(st[1])), " ".join(strip_casts(st[2])), st[4]
        m = re.fullmatch(r"int32_t (\w+) = s -> tags -> count - 1", init)
        bound, ctor = ".tagCount", "downLoop"
        if not m:
            m = re.fullmatch(r"(?:int32_t|int) (\w+) = (\w+) - 1", init)
            if m and m.group(2) in ex.wexpr:
                bound, ctor = ex.wexpr[m.group(2)], "downLoopW"
            else:
                m = None
        if not m or cnd != "%s >= 0" % m.group(1):
            raise Unsupported("descending for header `%s ; %s`" % (init, cnd))
        i = m.group(1)

        def assigns(x):
            if isinstance(x, tuple) and x and x[0] == 'simple':
                t = x[1]
                return any(t[j] == i and ((j + 1 < len(t) and t[j + 1] in ("=", "++", "--") and not (j + 2 < len(t) and t[j + 1] == "=" and t[j + 2] == "=")) or
                                          (j > 0 and t[j - 1] in ("++", "--", "&"))) for j in range(len(t)))
            if isinstance(x, (tuple, list)):
                return any(assigns(y) for y in x if isinstance(y, (tuple, list)))
            return False
        if assigns(fbody):
            raise Unsupported("loop counter `%s` assigned inside the loop" % i)
        if i not in ex.num:
            ex.num[i] = len(ex.num)
        exb = ex.clone()
        body = conv([fbody], exb, ".cont", loops)
        after = conv(rest, exb, end, loops)
        loops.append((body, after))
        return "(.%s %d %s LOOPBODY%d LOOPREST%d)" % (ctor, ex.num[i], bound, len(loops) - 1, len(loops) - 1)
    if k == 'for':
        init, cnd, inc, fbody = st[1], st[2], st[3], st[4]
        pre = ex.simple(init)
        inc_ir = ex.simple(inc)
        if len(pre) != 1 or len(inc_ir) != 1 or not inc_ir[0].startswith(".numDef"):
            raise Unsupported("for header `%s`" % " ".join(init + [";"] + cnd + [";"] + inc))
        c = ex.cond(cnd)
        if isinstance(c, tuple) and c[0] == 'not':
            raise Unsupported("negated loop condition")
        exb = ex.clone()

        def no_continue(x):
            if isinstance(x, tuple):
                if x and x[0] == 'continue':
                    raise Unsupported("continue inside a for loop")
                for y in x:
                    no_continue(y)
            elif isinstance(x, list):
                for y in x:
                    no_continue(y)
        no_continue(fbody)
        # the body ends with the increment; `.cont` marks the end of an iteration
        body = conv([fbody, ('simple', inc)], exb, ".cont", loops)
        after = conv(rest, exb, end, loops)
        loops.append((body, after))
        return "(.seq (%s) (.loop %s LOOPBODY%d LOOPREST%d))" % (pre[0], cond_lean(c), len(loops) - 1, len(loops) - 1)
    if k == 'while':
        c = ex.cond(st[1])
        if isinstance(c, tuple) and c[0] == 'not':
            raise Unsupported("negated loop condition")
        exb = ex.clone()
        body = conv([st[2]], exb, ".cont", loops)
        # names first defined inside the body keep their numbers after the loop
        after = conv(rest, exb, end, loops)
        loops.append((body, after))
        return "(.loop %s LOOPBODY%d LOOPREST%d)" % (cond_lean(c), len(loops) - 1, len(loops) - 1)
    if k == 'return':
        toks = unparen(strip_casts(st[1]))
        if toks == ["NULL"]:
            return ".retNull"
        if len(toks) == 1 and toks[0] in ex.ptr:
            return "(.ret %d)" % ex.ptr[toks[0]]
        if len(toks) == 1 and toks[0] in ex.ptroff:
            raise Unsupported("return of a displaced pointer")
        m = re.fullmatch(r"(\w+) \+ (\w+)", " ".join(toks))
        if m and m.group(1) in ex.ptr and m.group(1) not in ex.ptroff and (ex.is_word(m.group(2)) or re.fullmatch(r"\d+", m.group(2))):
            return "(.retPlus %d %s)" % (ex.ptr[m.group(1)], ex.we([m.group(2)]))
        if m and m.group(1) in ex.ptr and m.group(1) not in ex.ptroff and m.group(2) in ex.num:
            return "(.retPlusNum %d %d)" % (ex.ptr[m.group(1)], ex.num[m.group(2)])
        if toks == ["s", "->", "text_end"]:          # return s->text_end
            t = ex.new_ptr("%ret" + str(len(ex.ptr)))
            return "(.seq (.endSave %d) (.ret %d))" % (t, t)
        if "?" in toks and ":" in toks:          # return c ? a : b
            qi, ci = toks.index("?"), len(toks) - 1 - toks[::-1].index(":")
            c = ex.cond(toks[:qi])
            a = conv([('return', toks[qi + 1:ci])], ex.clone(), end, loops)
            b = conv([('return', toks[ci + 1:])], ex.clone(), end, loops)
            return branch(c, a, b)
        raise Unsupported("return expression `%s`" % " ".join(toks))
    if k == 'goto':
        if st[1] != "tail" or ex.pending_rule is None:
            raise Unsupported("goto %s" % st[1])
        m = re.fullmatch(r"\(\.op (\d+)\)", ex.pending_rule)
        return "(.tail %s)" % m.group(1) if m else "(.tailE %s)" % ex.pending_rule
    if k == 'if' and False:
        pass
    if k == 'if':
        cs_ = " ".join(strip_casts(st[1]))
        m = re.fullmatch(r"(\w+) > INT32_MAX", cs_)
        if m and m.group(1) in ex.word and st[3] is None:
            body = st[2][1] if st[2][0] == 'block' else [st[2]]
            if len(body) == 1 and body[0][0] == 'simple' and " ".join(strip_casts(body[0][1])) == "%s = INT32_MAX" % m.group(1):
                ex.clamped.add(m.group(1))
                return conv(rest, ex, end, loops)
        c = ex.cond(st[1])
        a = conv([st[2]] + rest, ex.clone(), end, loops)
        b = conv(([st[3]] if st[3] is not None else []) + rest, ex.clone(), end, loops)
        return branch(c, a, b)          # no negation at the top of a condition
    out = ex.simple(st[1])
    if out and out[-1].startswith("!"):
        tail = out[-1][1:]
        out = out[:-1]
    else:
        tail = conv(rest, ex, end, loops)
    for s in reversed(out):
        tail = "(.seq (%s) %s)" % (s, tail)
    return tail


INT_TYPES = [True]          # set by extract(): is JANET_INT_TYPES defined in the configuration that is built


def extract_ir(case_text):
    """-> (program source with LOOPBODYn / LOOPRESTn placeholders, [(body, rest)])"""
    if "#" in case_text:
        # `#ifdef JANET_INT_TYPES ... #endif` (no #else): kept as it is compiled in the default configuration
        if not INT_TYPES[0] or re.search(r"^[ \t]*#[ \t]*(?!ifdef JANET_INT_TYPES\b|endif\b)", case_text, re.M):
            raise Unsupported("preprocessor conditional other than `#ifdef JANET_INT_TYPES ... #endif`")
        case_text = re.sub(r"^[ \t]*#[ \t]*(ifdef JANET_INT_TYPES|endif)[ \t]*$", "", case_text, flags=re.M)
    loops = []
    del GC_BRACKETED[:]
    return conv(parse_case(case_text), Extract(), ".fall", loops), loops


# ------------------------------------------------------------------------------------------------ canonical form of a case body
_DECL = re.compile(r"^(?:const )?(?:uint32_t|int32_t|uint8_t|uint64_t|int64_t|int|double|Janet|CapState|JanetArray|LineCol|size_t) (?:\* )?(?:const )?(\w+)$")


def canon(case_text):
    """token string of the case with locals renamed v0, v1, ... in order of declaration, `(void)` casts / statements and
    `const` dropped"""
    toks = tokens(case_text)
    # drop (void) casts
    out, i = [], 0
    while i < len(toks):
        if toks[i] == "(" and i + 2 < len(toks) and toks[i + 1] == "void" and toks[i + 2] == ")":
            i += 3
            continue
        out.append(toks[i])
        i += 1
    toks = out
    names = {}
    # declarations: TYPE [*] NAME followed by = ; or ,   (also inside `for (`)
    for i in range(1, len(toks) - 1):
        if toks[i + 1] in ("=", ";", ",") and re.fullmatch(r"[A-Za-z_]\w*", toks[i]):
            j = i - 1
            while j >= 0 and toks[j] in ("*", "const"):
                j -= 1
            if j >= 0 and toks[j] in ("uint32_t", "int32_t", "uint8_t", "uint64_t", "int64_t", "int", "double", "Janet", "CapState",
                                       "JanetArray", "LineCol", "size_t") and toks[i] not in names:
                names[toks[i]] = "v%d" % len(names)
    out = []
    for i, x in enumerate(toks):
        if x == "const":
            continue
        if x in names and not (i > 0 and toks[i - 1] in (".", "->")):
            out.append(names[x])
        else:
            out.append(x)
    # `v3 ;` alone (from `(void) x;`) is dropped
    res, i = [], 0
    while i < len(out):
        if re.fullmatch(r"v\d+", out[i]) and i + 1 < len(out) and out[i + 1] == ";" and (i == 0 or out[i - 1] in (";", "{", "}")):
            i += 2
            continue
        res.append(out[i])
        i += 1
    return " ".join(res)


def token_diff(a, b):
    """short description of where two canonical forms differ"""
    ta, tb = a.split(" "), b.split(" ")
    i = 0
    while i < min(len(ta), len(tb)) and ta[i] == tb[i]:
        i += 1
    j = 0
    while j < min(len(ta), len(tb)) - i and ta[-1 - j] == tb[-1 - j]:
        j += 1
    ctx = " ".join(ta[max(0, i - 6):i])
    return "after `%s`: model was written against `%s`, current source has `%s`" % (
        ctx, " ".join(ta[i:len(ta) - j])[:160], " ".join(tb[i:len(tb) - j])[:160])


# ------------------------------------------------------------------------------------------------ entry points
def extract(tree):
    from . import peg as gen_peg
    src = csrc.strip_comments(csrc.read(tree, "src/core/peg.c"))
    OPCODES.clear()
    OPCODES.update(csrc.enum_values(csrc.strip_comments(csrc.read(tree, "src/include/janet.h")), "RULE_LITERAL"))
    conf = csrc.strip_comments(csrc.read(tree, "src/conf/janetconf.h"))
    INT_TYPES[0] = not re.search(r"^[ \t]*#[ \t]*define[ \t]+JANET_NO_INT_TYPES\b", conf, re.M)
    body = csrc.func_body(src, "peg_rule")
    progs, problems, canons, loops, gc_locked = {}, {}, {}, {}, []
    for labels, text in gen_peg.split_cases(body):
        if labels == ("default",):
            continue
        c = canon(text)
        for lab in labels:
            canons[lab] = c
        for lab in labels:
            if lab in IR_RULES:
                try:
                    progs[lab], loops[lab] = extract_ir(text)
                    if GC_BRACKETED:
                        gc_locked.append(lab)
                except Unsupported as e:
                    progs[lab], loops[lab] = ".fall", []
                    problems[lab] = str(e)
    missing = [r for r in IR_RULES if r not in progs]
    if missing:
        raise ExtractError("peg_rule has no case for %s" % missing)
    return dict(progs=progs, problems=problems, canons=canons, loops=loops, gc_locked=sorted(gc_locked))


def render(tree):
    x = extract(tree)
    out = [csrc.lean_header("src/core/peg.c peg_rule: statement structure of the simpler opcode cases"),
           "import JanetModel.Peg.Skel\n", "namespace JanetModel.Gen.PegSkel", "open JanetModel.Peg.Skel\n"]
    for r in IR_RULES:
        if r in x["problems"]:
            out.append("-- NOT TRANSLATED: %s" % x["problems"][r].replace("\n", " "))
        if r in x["gc_locked"]:
            out.append("-- %s: the direct call of a C-function constant is bracketed by `int h = janet_gclock(); .. janet_gcunlock(h);`"
                       " (collector suspended during the callback; paired on one handle around exactly that call, no effect on the"
                       " modelled match state: dropped)" % r)
        src = x["progs"][r]
        # loops: body and rest as definitions of their own (inner loops first), so that Peg/TieSkel.lean can name them
        for i, (b, a) in enumerate(x["loops"][r]):
            for j in range(i):
                b = b.replace("LOOPBODY%d" % j, "%s_body%d" % (r, j)).replace("LOOPREST%d" % j, "%s_rest%d" % (r, j))
                a = a.replace("LOOPBODY%d" % j, "%s_body%d" % (r, j)).replace("LOOPREST%d" % j, "%s_rest%d" % (r, j))
            out.append("def %s_body%d : Prog :=\n  %s\n" % (r, i, b))
            out.append("def %s_rest%d : Prog :=\n  %s\n" % (r, i, a))
            src = src.replace("LOOPBODY%d" % i, "%s_body%d" % (r, i)).replace("LOOPREST%d" % i, "%s_rest%d" % (r, i))
        out.append("def %s : Prog :=\n  %s\n" % (r, src))
    out.append("end JanetModel.Gen.PegSkel\n")
    return "\n".join(out)
