"""Translator for C15: cfuns.c `optimizers[]` + every `do_*` handler, corelib.c generic templates / fixed asm arrays,
bytecode.c movopt read / removable tables  ->  Gen/Cfuns.lean.

Every extractor asserts the shape it expects.  Code that is modelled by hand in Lean (opreduce, compreduce, opfunction,
genericSS/SSI, reduce_target, can_be_imm, can_slot_be_imm, janetc_funopt, the special do_* bodies, janet_quick_asm, the selection block
of janetc_call, janetc_check_nil_form) is no longer accepted by a text fingerprint: tools/gen/cfuns_skel.py parses each body into a
canonical statement skeleton (control structure, conditions, every emit call with its opcode / operands / write flag, every other
effect; independent of whitespace, comments, names of parameters and locals, pure helper variables, `(void)` casts) that is
regenerated into Gen/Cfuns.lean (`skeletons`) and compared in Lean with the skeleton the model was written against
(Props.C15.skeleton_*_ok, one theorem per function, so a changed body is named); the opcodes of the emit calls are read out of it by
the theorems about the emitted code (Spec/FixedEmit.lean).  Fingerprints are still printed (informational)."""
import hashlib
import re
from . import csrc
from . import cfuns_skel
from . import cfuns_guard
from . import bytecode as gbc
from .csrc import ExtractError


def norm(body):
    return re.sub(r"\s+", " ", body).strip()


def fp(body):
    return hashlib.sha256(norm(body).encode()).hexdigest()[:12]


# (until session 3 this was a table of accepted text fingerprints; the tie is now the regenerated skeleton, see extract_skeletons)
MODELLED = {}


def check_fp(key, body, found):
    h = fp(body)
    found[key] = h
    # informational only since session 4: the tie is the regenerated skeleton (extract_skeletons), checked in Lean


def jconst(s):
    s = s.strip()
    if s == "janet_wrap_nil()":
        return None
    m = re.match(r"^janet_wrap_integer\(\s*(-?\d+)\s*\)$", s)
    if m:
        return int(m.group(1))
    raise ExtractError("constant argument not recognised: %r" % s)


def jop(s):
    s = s.strip()
    if s == "0":
        return None
    if not re.match(r"^JOP_\w+$", s):
        raise ExtractError("opcode argument not recognised: %r" % s)
    return s


def parse_guard(src, name, ops):
    """arity predicate from its skeleton (independent of parameter / local names): one `ret` line over janet_v_count(args)"""
    sk = cfuns_skel.skeleton(src, name, ops)
    if len(sk) != 1 or sk[0][1] != "ret":
        raise ExtractError("arity predicate %s is not a single return: %r" % (name, sk))
    body = sk[0][3]
    m = re.match(r"^janet_v_count\(p1\) (==|<=|>=) (\d+)$", body)
    if m:
        return (m.group(1), [int(m.group(2))])
    m = re.match(r"^janet_v_count\(p1\) == (\d+) \|\| janet_v_count\(p1\) == (\d+)$", body)
    if m:
        return ("==", [int(m.group(1)), int(m.group(2))])
    raise ExtractError("arity predicate %s not recognised: %r" % (name, body))


def extract_cfuns(tree, found):
    src = csrc.strip_comments(csrc.read(tree, "src/core/cfuns.c"))
    hdr = csrc.strip_comments(csrc.read(tree, "src/core/compile.h"))
    tags = [(m.group(1), int(m.group(2))) for m in re.finditer(r"#define\s+JANET_FUN_(\w+)\s+(\d+)", hdr)]
    if [t[1] for t in tags] != list(range(1, len(tags) + 1)):
        raise ExtractError("JANET_FUN_* tags are not dense 1..n")
    m = re.search(r"static const JanetFunOptimizer optimizers\[\]\s*=\s*\{", src)
    if not m:
        raise ExtractError("optimizers[] not found")
    i = src.index("{", m.start())
    body = src[i + 1:csrc.match_brace(src, i) - 1]
    rows = re.findall(r"\{\s*(\w+)\s*,\s*(\w+)\s*\}", body)
    if norm(re.sub(r"\{\s*\w+\s*,\s*\w+\s*\}\s*,?", "", body)) != "":
        raise ExtractError("optimizers[] has rows of unexpected shape")
    if len(rows) != len(tags):
        raise ExtractError("optimizers[] has %d rows, compile.h defines %d tags" % (len(rows), len(tags)))
    for k in ("opreduce", "compreduce", "opfunction", "genericSS", "genericSSI", "can_be_imm", "can_slot_be_imm", "janetc_funopt"):
        check_fp("cfuns.c:" + k, csrc.func_body(src, k), found)
    out = []
    guards = {}
    ops = dict(gbc.extract(tree)[0])
    for (tagname, tag), (guard, handler) in zip(tags, rows):
        if guard != "NULL" and guard not in guards:
            guards[guard] = parse_guard(src, guard, ops)
        b = norm(csrc.func_body(src, handler))
        # classification through the canonical skeleton: a handler that only forwards to one of the generic emitters is one `ret` line
        sk = cfuns_skel.skeleton(src, handler, ops)
        inner = sk[0][3] if len(sk) == 1 and sk[0][1] == "ret" else ""
        h = None
        m1 = re.match(r"^opreduce\(p0, p1, ([^,]+), ([^,]+), (.+\)), (.+\))\)$", inner)
        m2 = re.match(r"^compreduce\(p0, p1, ([^,]+), ([^,]+), ([01])\)$", inner)
        m3 = re.match(r"^opfunction\(p0, p1, ([^,]+), (.+\))\)$", inner)
        m4 = re.match(r"^genericSS\(p0, ([^,]+), p1\[0\]\)$", inner)
        if m1:
            h = ("opreduce", jop(m1.group(1)), jop(m1.group(2)), jconst(m1.group(3)), jconst(m1.group(4)))
        elif m2:
            h = ("compreduce", jop(m2.group(1)), jop(m2.group(2)), m2.group(3) == "1")
        elif m3:
            h = ("opfunction", jop(m3.group(1)), jconst(m3.group(2)))
        elif m4:
            h = ("genericSS", jop(m4.group(1)))
        else:
            check_fp("cfuns.c:" + handler, b, found)
            h = ("special", handler)
        out.append(dict(tag=tag, tagname=tagname, guard=guard, handler=handler, h=h))
    # the one hard-coded special case inside opreduce: which op, which replacement (read from the skeleton)
    osk = cfuns_skel.skeleton(src, "opreduce", ops)
    special_unary = None
    for k, (d, kind, op, text) in enumerate(osk):
        m = re.match(r"^p2 == (JOP_\w+)$", text) if kind == "if" else None
        if m and k + 3 < len(osk) and osk[k + 1][1] == "emit" and osk[k + 2][1] == "else" and osk[k + 3][1] == "emit":
            m2 = re.match(r"^ssi (JOP_\w+) \((\$\d+), p1\[0\], (-?\d+), 1\)$", osk[k + 1][3])
            m3 = re.match(r"^sss p2 \((\$\d+), janetc_cslot\(p5\), p1\[0\], 1\)$", osk[k + 3][3])
            if not (m2 and m3 and m2.group(2) == m3.group(1)):
                raise ExtractError("unary case of opreduce not recognised")
            special_unary = (m.group(1), m2.group(1), int(m2.group(3)))
    if special_unary is None and not any(kind == "emit" and re.match(r"^sss p2 \(\$\d+, janetc_cslot\(p5\), p1\[0\], 1\)$", text) for d, kind, op, text in osk):
        raise ExtractError("unary case of opreduce not recognised")
    # immediate range
    csk = cfuns_skel.skeleton(src, "can_be_imm", ops)
    if not any(kind == "if" and text == "janet_unwrap_integer(p0) > INT8_MAX || janet_unwrap_integer(p0) < INT8_MIN" for d, kind, op, text in csk):
        raise ExtractError("can_be_imm range test not recognised")
    return out, guards, special_unary


# ------------------------------------------------------------------------------------------------ corelib.c
def _pyexpr(e):
    e = re.sub(r"\(\s*uint32_t\s*\)", "", e)
    e = re.sub(r"(\w+)\s*\?\s*(\w+)\s*:\s*(\w+)", r"(\2 if \1 else \3)", e)
    return e


def _split_top(s):
    out, depth, cur = [], 0, ""
    for ch in s:
        if ch in "([{":
            depth += 1
        elif ch in ")]}":
            depth -= 1
        if ch == "," and depth == 0:
            out.append(cur)
            cur = ""
        else:
            cur += ch
    if cur.strip():
        out.append(cur)
    return [x.strip() for x in out if x.strip()]


def eval_array(text, env):
    M = 0xFFFFFFFF
    e = dict(env)
    e.update(SSS=lambda op, a, b, c: (op | (a << 8) | (b << 16) | (c << 24)) & M,
             SS=lambda op, a, b: (op | (a << 8) | (b << 16)) & M,
             SSI=lambda op, a, b, i: (op | (a << 8) | (b << 16) | ((i & M) << 24)) & M,
             S=lambda op, a: (op | (a << 8)) & M,
             SI=lambda op, a, i: (op | (a << 8) | ((i & M) << 16)) & M)
    words = []
    for item in _split_top(text):
        try:
            words.append(int(eval(_pyexpr(item), {"__builtins__": {}}, e)) & M)
        except Exception as ex:
            raise ExtractError("cannot evaluate asm word %r: %s" % (item, ex))
    return words


def array_text(src, name):
    m = re.search(r"uint32_t\s+%s\s*\[\s*\]\s*=\s*\{" % re.escape(name), src)
    if not m:
        raise ExtractError("asm array %s not found" % name)
    i = src.index("{", m.start())
    return src[i + 1:csrc.match_brace(src, i) - 1]


def extract_corelib(tree, ops, found):
    src = csrc.strip_comments(csrc.read(tree, "src/core/corelib.c"))
    hdr = csrc.strip_comments(csrc.read(tree, "src/core/compile.h"))
    env = dict(ops)
    for m in re.finditer(r"#define\s+(JANET_FUN_\w+)\s+(\d+)", hdr):
        env[m.group(1)] = int(m.group(2))
    check_fp("corelib.c:janet_quick_asm", csrc.func_body(src, "janet_quick_asm"), found)
    vb = csrc.func_body(src, "templatize_varop")
    cb = csrc.func_body(src, "templatize_comparator")
    ab = csrc.func_body(src, "make_apply")
    for nm, b in (("templatize_varop", vb), ("templatize_comparator", cb)):
        if not re.search(r"janet_quick_asm\(\s*env,\s*flags \| JANET_FUNCDEF_FLAG_VARARG,\s*name,\s*0,\s*0,\s*INT32_MAX,\s*6,", b):
            raise ExtractError("%s: janet_quick_asm call not of the expected shape (vararg, arity 0, 6 slots)" % nm)
    varop_text = array_text(vb, "varop_asm")
    comp_text = array_text(cb, "comparator_asm")
    apply_text = array_text(ab, "apply_asm")
    funs = []
    core = csrc.func_body(src[src.index("#ifdef JANET_BOOTSTRAP", src.index("janet_load_libs")):], "janet_core_env")
    for m in re.finditer(r"templatize_varop\(env,\s*(JANET_FUN_\w+),\s*\"([^\"]+)\",\s*(-?\d+),\s*(-?\d+),\s*(JOP_\w+),", core):
        tag, name, nullary, unary, op = m.group(1), m.group(2), int(m.group(3)), int(m.group(4)), m.group(5)
        words = eval_array(varop_text, dict(env, nullary=nullary, unary=unary, op=env[op]))
        funs.append(dict(kind="varop", tag=env[tag], name=name, nullary=nullary, unary=unary, op=op, words=words, arity=0, min=0, max=2**31 - 1, slots=6, vararg=True))
    for m in re.finditer(r"templatize_comparator\(env,\s*(JANET_FUN_\w+),\s*\"([^\"]+)\",\s*([01]),\s*(JOP_\w+),", core):
        tag, name, invert, op = m.group(1), m.group(2), int(m.group(3)), m.group(4)
        words = eval_array(comp_text, dict(env, invert=invert, op=env[op]))
        funs.append(dict(kind="comparator", tag=env[tag], name=name, invert=bool(invert), op=op, words=words, arity=0, min=0, max=2**31 - 1, slots=6, vararg=True))
    for m in re.finditer(r"janet_quick_asm\(env,\s*(JANET_FUN_\w+),\s*\"([^\"]+)\",\s*(\d+),\s*(\d+),\s*(\d+),\s*(\d+),\s*(\w+),\s*sizeof\((\w+)\)", core):
        tag, name, arity, mn, mx, slots, arr, szarr = m.groups()
        words = eval_array(array_text(src, arr), env)
        szwords = eval_array(array_text(src, szarr), env)
        if len(szwords) != len(words):
            raise ExtractError("%s: sizeof(%s) does not match %s" % (name, szarr, arr))
        funs.append(dict(kind="asm", tag=env[tag], name=name, words=words, arity=int(arity), min=int(mn), max=int(mx), slots=int(slots), vararg=False))
    ma = re.search(r"janet_quick_asm\(env,\s*JANET_FUN_APPLY \| JANET_FUNCDEF_FLAG_VARARG,\s*\"apply\",\s*(\d+),\s*(\d+),\s*INT32_MAX,\s*(\d+),\s*apply_asm,", ab)
    if not ma:
        raise ExtractError("make_apply: janet_quick_asm call not recognised")
    funs.append(dict(kind="apply", tag=env["JANET_FUN_APPLY"], name="apply", words=eval_array(apply_text, env), arity=int(ma.group(1)), min=int(ma.group(2)),
                     max=2**31 - 1, slots=int(ma.group(3)), vararg=True))
    if "make_apply(env);" not in core:
        raise ExtractError("make_apply not called from janet_core_env")
    n_v = len(re.findall(r"templatize_varop\(", core))
    n_c = len(re.findall(r"templatize_comparator\(", core))
    n_q = len(re.findall(r"janet_quick_asm\(", core))
    if (n_v, n_c, n_q) != (len([f for f in funs if f["kind"] == "varop"]), len([f for f in funs if f["kind"] == "comparator"]),
                           len([f for f in funs if f["kind"] == "asm"])):
        raise ExtractError("some templatize_* / janet_quick_asm calls in janet_core_env were not recognised")
    return sorted(funs, key=lambda f: f["tag"])


# ------------------------------------------------------------------------------------------------ bytecode.c
FIELD = {"AA": "a", "BB": "b", "CC": "c", "DD": "d", "EE": "e"}


def _switch_groups(text, opnames):
    """[(labels, body)] for a `switch (instr & 0x7F) { ... }` text (inside braces)"""
    groups, labels, body = [], [], ""
    for line in text.splitlines():
        l = line.strip()
        if not l:
            continue
        m = re.match(r"^(case (JOP_\w+)|default)\s*:\s*(\{)?\s*$", l)
        if m:
            if body.strip() and labels:
                groups.append((labels, body))
                labels, body = [], ""
            labels.append(m.group(2) or "default")
            continue
        body += l + "\n"
        if re.match(r"^break;$", l) and labels:
            groups.append((labels, body))
            labels, body = [], ""
    if labels:
        groups.append((labels, body))
    return groups


def canon_locals(body, expected, what):
    """rename the locals of a C body (identifiers declared with an integer / pointer type, in order of first declaration) to the names the
    extractor's patterns are written with, so that a renamed local is not a shape change; a different NUMBER of locals is"""
    seen = []
    for m in re.finditer(r"\b(?:u?int(?:32|8|64)?_t|int|JanetcRegisterAllocator|JanetSymbolMap)\s*\*?\s*([A-Za-z_]\w*)\s*(?==|;)", body):
        if m.group(1) not in seen:
            seen.append(m.group(1))
    if len(seen) != len(expected):
        raise ExtractError("%s: declares the locals %s, the model of it has %s" % (what, seen, expected))
    if seen == expected:
        return body
    tmp = {name: "__L%d__" % k for k, name in enumerate(seen)}
    out = re.sub(r"(?<![\w>.])([A-Za-z_]\w*)\b", lambda m: tmp.get(m.group(1), m.group(1)), body)
    for k, name in enumerate(expected):
        out = out.replace("__L%d__" % k, name)
    return out


def extract_movopt(tree, ops, found):
    src = csrc.strip_comments(csrc.read(tree, "src/core/bytecode.c"))
    check_fp("bytecode.c:janet_bytecode_remove_noops", csrc.func_body(src, "janet_bytecode_remove_noops"), found)
    b = canon_locals(csrc.func_body(src, "janet_bytecode_movopt"), ["ra", "recur", "i", "index", "mask", "instr"], "janet_bytecode_movopt")
    nb = norm(b)
    # operand-field macros the two switches are written with
    for name, rx in (("AA", r"\(\(instr >> 8\) & 0xFF\)"), ("BB", r"\(\(instr >> 16\) & 0xFF\)"), ("CC", r"\(instr >> 24\)"),
                     ("DD", r"\(instr >> 8\)"), ("EE", r"\(instr >> 16\)")):
        if not re.search(r"#define %s %s(?= |$)" % (name, rx), nb):
            raise ExtractError("movopt: operand-field macro %s is not the expected shift / mask of the instruction word" % name)
    # slots of the closure bitset count as read (what `movopt_preserves_x` needs: dead slots disjoint from captured slots); passes repeat
    if not re.search(r"while \(recur\) \{ janetc_regalloc_init\(&ra\); if \(def->closure_bitset != NULL\) \{ for \(int32_t i = 0; i < def->slotcount; i\+\+\) \{ "
                     r"int32_t index = i >> 5; uint32_t mask = 1U << \(\(\(uint32_t\) ?i\) & 31\); if \(def->closure_bitset\[index\] & mask\) \{ "
                     r"janetc_regalloc_touch\(&ra, i\); \} \} \}", nb):
        raise ExtractError("movopt: the slots of the closure bitset are no longer marked as read before the scan")
    sw = [m.start() for m in re.finditer(r"switch \(instr & 0x7F\) \{", b)]
    if len(sw) != 2:
        raise ExtractError("movopt: expected two switches over the opcode")
    texts = []
    for s in sw:
        i = b.index("{", s)
        texts.append(b[i + 1:csrc.match_brace(b, i) - 1])
    reads = {}
    for labels, body in _switch_groups(texts[0], ops):
        touched = re.findall(r"janetc_regalloc_touch\(&ra, (\w\w)\);", body)
        rest = re.sub(r"janetc_regalloc_touch\(&ra, \w\w\);|break;|janet_assert\(0, \"unhandled instruction\"\);", "", body).strip()
        if rest:
            raise ExtractError("movopt read switch: unexpected statement %r" % rest)
        for l in labels:
            if l == "default":
                continue
            if l in reads:
                raise ExtractError("movopt: opcode %s listed twice" % l)
            reads[l] = [FIELD[t] for t in touched]
    missing = [o for o in ops if o not in reads]
    if missing:
        raise ExtractError("movopt read switch does not list %s" % missing)
    removable = {}
    for labels, body in _switch_groups(texts[1], ops):
        if labels == ["default"]:
            continue
        m = re.search(r"if \(!janetc_regalloc_check\(&ra, (\w\w)\)\) \{\s*def->bytecode\[i\] = JOP_NOOP;\s*recur = 1;\s*\}", body)
        if not m:
            raise ExtractError("movopt removal switch: group %s not recognised" % labels)
        for l in labels:
            removable[l] = FIELD[m.group(1)]
    return reads, removable



# ------------------------------------------------------------------------------------------------ call-site selection
def selection_block(src):
    """text of the block of janetc_call that decides whether a call is specialised: from the declaration of its flag variable
    (`int <flag> = 0;`, the last such declaration before the first use of janetc_funopt) to the `if (!<flag>)` that starts the generic route"""
    b = csrc.func_body(src, "janetc_call")
    k = b.find("janetc_funopt")
    decls = [m for m in re.finditer(r"\bint (\w+) = 0;", b) if m.start() < k] if k >= 0 else []
    if not decls:
        raise ExtractError("janetc_call: selection block not found")
    m = decls[-1]
    j = b.find("if (!%s)" % m.group(1), m.end())
    if j < 0:
        raise ExtractError("janetc_call: selection block not found")
    return b[m.start():j]


def extract_selection(tree, found):
    """compile.c janetc_call: when the specialisation is applied (the block's canonical skeleton is compared in Lean:
    Props.C15.skeleton_janetc_call_selection_ok); specials.c: the nil fast paths of if / while, read from the canonical skeletons of
    janetc_if / janetc_while (independent of the names of their locals)"""
    src = csrc.strip_comments(csrc.read(tree, "src/core/compile.c"))
    check_fp("compile.c:janetc_call.selection", norm(selection_block(src)), found)
    sp = csrc.strip_comments(csrc.read(tree, "src/core/specials.c"))
    check_fp("specials.c:janetc_check_nil_form", csrc.func_body(sp, "janetc_check_nil_form"), found)
    ops = dict(gbc.extract(tree)[0])
    paths = {}

    def nil_lets(sk, k):
        """the `let $v = JOP_X` lines directly inside the `if janetc_check_nil_form(..)` at line k -> {var: opcode}"""
        out, d = {}, sk[k][0]
        for dd, kind, op, text in sk[k + 1:]:
            if dd <= d:
                break
            m = re.match(r"^(\$\d+) = (JOP_\w+)$", text) if (kind == "let" and dd == d + 1) else None
            if m:
                out[m.group(1)] = m.group(2)
        return out

    for form, fname in (("if", "janetc_if"), ("while", "janetc_while")):
        sk = cfuns_skel.skeleton(sp, fname, ops)
        # the variable holding the opcode of the jump that LEAVES the then-branch / the loop is the one initialised to JOP_JUMP_IF_NOT
        leave = [re.match(r"^(\$\d+) = JOP_JUMP_IF_NOT$", text).group(1) for d, kind, op, text in sk
                 if kind == "let" and d == 0 and re.match(r"^(\$\d+) = JOP_JUMP_IF_NOT$", text)]
        if len(leave) != 1:
            raise ExtractError("%s: the jump that leaves on a false condition is not initialised to JOP_JUMP_IF_NOT exactly once" % fname)
        for k, (d, kind, op, text) in enumerate(sk):
            m = re.match(r"^janetc_check_nil_form\((\$\d+), &\1, JANET_FUN_(\w+)\)$", text) if kind == "if" else None
            if m:
                lets = nil_lets(sk, k)
                if leave[0] not in lets:
                    raise ExtractError("%s: nil fast path %s does not set the leaving jump" % (fname, m.group(2)))
                paths[(form, m.group(2))] = lets[leave[0]]
        if form == "if":
            v = re.escape(leave[0])
            want = [r"^%s == JOP_JUMP_IF_NOT && !janet_truthy\((\$\d+)\.constant\)$" % v,
                    r"^%s == JOP_JUMP_IF_NIL && janet_checktype\((\$\d+)\.constant, JANET_NIL\)$" % v,
                    r"^%s == JOP_JUMP_IF_NOT_NIL && !janet_checktype\((\$\d+)\.constant, JANET_NIL\)$" % v]
            ifs = [text for d, kind, op, text in sk if kind == "if"]
            pos = [next((n for n, t in enumerate(ifs) if re.match(w, t)), None) for w in want]
            if None in pos or pos != sorted(pos):
                raise ExtractError("janetc_if: constant-condition polarity test not of the expected shape")
    if len(paths) != 4:
        raise ExtractError("nil fast paths of if / while not recognised (found %s)" % sorted(paths))
    return paths


def extract_guards(tree):
    """specials.c janetc_if / janetc_while: EVERY conditional jump emitted for the condition (also the guard of the while loop that is
    recompiled as a closure) and the predicate applied to a constant condition, per combination of stripped `(= nil x)` / `(not= nil x)`
    heads - by symbolic execution of the canonical skeletons (tools/gen/cfuns_guard.py).  Lean: Props.C15.nil_guard_sites_ok,
    nil_const_folds_ok and the same-branch theorems over these rows."""
    sp = csrc.strip_comments(csrc.read(tree, "src/core/specials.c"))
    ops = dict(gbc.extract(tree)[0])
    return cfuns_guard.extract(sp, ops, cfuns_skel.skeleton)


# ------------------------------------------------------------------------------------------------ apply / call site / remove_noops structure
def extract_apply(tree, found):
    """structure of cfuns.c do_apply: the push loop (start, bound offset, stride, opcode), the two remainder cases, the push-array
    opcode, the tail / non-tail call opcodes.  Lean checks it against the modelled `Spec.emitApply` (Props.C15.apply_row_ok)."""
    src = csrc.strip_comments(csrc.read(tree, "src/core/cfuns.c"))
    b = norm(csrc.func_body(src, "do_apply"))
    m1 = re.search(r"for \(i = (\d+); i < janet_v_count\(args\) - (\d+); i \+= (\d+)\) "
                   r"janetc_emit_sss\(c, (JOP_\w+), args\[i\], args\[i \+ 1\], args\[i \+ 2\], 0\);", b)
    m2 = re.search(r"if \(i == janet_v_count\(args\) - (\d+)\) janetc_emit_ss\(c, (JOP_\w+), args\[i\], args\[i \+ 1\], 0\); "
                   r"else if \(i == janet_v_count\(args\) - (\d+)\) janetc_emit_s\(c, (JOP_\w+), args\[i\], 0\);", b)
    m3 = re.search(r"janetc_emit_s\(c, (JOP_\w+), janet_v_last\(args\), 0\);", b)
    m4 = re.search(r"if \(opts\.flags & JANET_FOPTS_TAIL\) \{ janetc_emit_s\(c, (JOP_\w+), args\[0\], 0\); "
                   r"target = janetc_cslot\(janet_wrap_nil\(\)\); target\.flags \|= JANET_SLOT_RETURNED; \} "
                   r"else \{ target = janetc_gettarget\(opts\); janetc_emit_ss\(c, (JOP_\w+), target, args\[0\], 1\); \} return target;", b)
    if not (m1 and m2 and m3 and m4):
        raise ExtractError("do_apply: push loop / remainder cases / push-array / call phase not of the expected shape")
    if not (m1.end() <= m2.start() and m2.end() <= m3.start() and m3.end() <= m4.start()):
        raise ExtractError("do_apply: phases out of order")
    emitted = re.findall(r"janetc_emit_\w+\(", b)
    if len(emitted) != 6:
        raise ExtractError("do_apply: %d emit calls, 6 expected" % len(emitted))
    return dict(loopStart=int(m1.group(1)), loopBound=int(m1.group(2)), loopStride=int(m1.group(3)), loopOp=m1.group(4),
                rem2At=int(m2.group(1)), rem2Op=m2.group(2), rem1At=int(m2.group(3)), rem1Op=m2.group(4),
                lastOp=m3.group(1), tailOp=m4.group(1), callOp=m4.group(2))


def extract_callsite(tree, found):
    """compile.c: branches of janetc_pushslots (condition, emitted opcodes, how far `i` advances), has_spliced, and the emit at the end
    of the generic route of janetc_call"""
    src = csrc.strip_comments(csrc.read(tree, "src/core/compile.c"))
    b = norm(csrc.func_body(src, "janetc_pushslots"))
    found["compile.c:janetc_pushslots"] = fp(b)
    m = re.search(r"for \(i = 0; i < count;\) \{ (.*) \} return has_splice \? \(-1 - min_arity\) : min_arity;", b)
    if not m:
        raise ExtractError("janetc_pushslots: loop / return not of the expected shape")
    body = m.group(1)
    parts = re.split(r"\} else if \(|\} else \{", body)
    branches = []
    for k, part in enumerate(parts):
        part = part.strip()
        if k == 0:
            if not part.startswith("if ("):
                raise ExtractError("janetc_pushslots: first branch is not an if")
            part = part[4:]
        if "{" in part:
            cond, stmts = part.split("{", 1)
            cond = cond.strip()
            cond = cond[:-1].strip() if cond.endswith(")") else cond
        else:
            cond, stmts = "", part
        stmts = stmts.strip().rstrip("}").strip()
        ops = re.findall(r"janetc_emit_\w+\(c, (JOP_\w+),", stmts)
        regs = re.findall(r"slots\[(i(?: \+ \d)?)\]", stmts)
        adv = re.search(r"\bi(\+\+| \+= (\d+));", stmts)
        rest = re.sub(r"janetc_emit_\w+\(c, JOP_\w+, [^;]*\);|\bi\+\+;|\bi \+= \d+;|min_arity\+\+;|min_arity \+= \d+;|has_splice = 1;", "", stmts).strip()
        if rest or not adv or not ops:
            raise ExtractError("janetc_pushslots: branch %d not recognised (%r)" % (k, stmts))
        n = 1 if adv.group(1) == "++" else int(adv.group(2))
        if regs != ["i", "i + 1", "i + 2"][:n]:
            raise ExtractError("janetc_pushslots: branch %d pushes slots %s but advances by %d" % (k, regs, n))
        ma = re.search(r"min_arity(\+\+| \+= (\d+));", stmts)
        plain = 0 if not ma else (1 if ma.group(1) == "++" else int(ma.group(2)))
        if ("has_splice = 1;" in stmts) != ("JOP_PUSH_ARRAY" in ops) or plain != n - (1 if "JOP_PUSH_ARRAY" in ops else 0):
            raise ExtractError("janetc_pushslots: branch %d arity bookkeeping does not match what it pushes" % k)
        branches.append((cond, ops, n))
    hs = norm(csrc.func_body(src, "has_spliced"))
    found["compile.c:has_spliced"] = fp(hs)
    if not re.search(r"for \(i = 0; i < janet_v_count\(slots\); i\+\+\) \{ if \(slots\[i\]\.flags & JANET_SLOT_SPLICED\) return 1; \} return 0;", hs):
        raise ExtractError("has_spliced: not a scan for JANET_SLOT_SPLICED over all slots")
    cb = norm(csrc.func_body(src, "janetc_call"))
    mg = re.search(r"!\(c->scope->flags & JANET_SCOPE_TOP\)\) \{ janetc_emit_s\(c, (JOP_\w+), fun, 0\); .*? \} else \{ retslot = janetc_gettarget\(opts\); "
                   r"janetc_emit_ss\(c, (JOP_\w+), retslot, fun, 1\); \}", cb)
    if not mg or not re.search(r"if \(!\w+\) \{ int32_t \w+ = janetc_pushslots\(c, slots\);", cb):
        raise ExtractError("janetc_call: generic route (pushslots, then tail call / call of `fun`) not of the expected shape")
    return branches, (mg.group(1), mg.group(2))


def extract_noops(tree, ops):
    """bytecode.c janet_bytecode_remove_noops: which opcodes have their jump operand rewritten, and in which field (shift 8 = D, 16 = E)"""
    src = csrc.strip_comments(csrc.read(tree, "src/core/bytecode.c"))
    b = canon_locals(csrc.func_body(src, "janet_bytecode_remove_noops"),
                     ["pc_map", "new_bytecode_length", "i", "instr", "opcode", "j", "old_jump_target", "new_jump_target", "sm"], "janet_bytecode_remove_noops")
    nb_all = norm(b)
    if not re.search(r"for \(int32_t i = 0; i < def->bytecode_length; i\+\+\) \{ uint32_t instr = def->bytecode\[i\]; uint32_t opcode = instr & 0x7F; "
                     r"pc_map\[i\] = new_bytecode_length; if \(opcode != JOP_NOOP\) \{ new_bytecode_length\+\+; \} \} "
                     r"pc_map\[def->bytecode_length\] = new_bytecode_length;", nb_all):
        raise ExtractError("remove_noops: first loop (pc_map = number of non-noop instructions before i) not of the expected shape")
    if not re.search(r"int32_t j = 0; for \(int32_t i = 0; i < def->bytecode_length; i\+\+\) \{ uint32_t instr = def->bytecode\[i\]; "
                     r"uint32_t opcode = instr & 0x7F; int32_t old_jump_target = 0; int32_t new_jump_target = 0; switch \(opcode\) \{", nb_all) or \
            not re.search(r"\} def->bytecode\[j\] = instr; if \(def->sourcemap != NULL\) \{ def->sourcemap\[j\] = def->sourcemap\[i\]; \} j\+\+; \}", nb_all):
        raise ExtractError("remove_noops: second loop (copy kept instructions and their sourcemap rows to index j) not of the expected shape")
    sw = [m.start() for m in re.finditer(r"switch \(opcode\) \{", b)]
    if len(sw) != 1:
        raise ExtractError("remove_noops: expected one switch over the opcode")
    i = b.index("{", sw[0])
    text = b[i + 1:csrc.match_brace(b, i) - 1]
    table, dropped = [], []
    for labels, body in _switch_groups(text, ops):
        nb = norm(body)
        if labels == ["default"]:
            if nb != "break;":
                raise ExtractError("remove_noops: default case does something")
            continue
        if nb == "continue;":
            dropped += labels
            continue
        m = re.match(r"^old_jump_target = i \+ \(\(\(int32_t\)instr\) >> (\d+)\); new_jump_target = pc_map\[old_jump_target\]; "
                     r"instr \+= \(uint32_t\)\(new_jump_target - old_jump_target \+ \(i - j\)\) << (\d+); break;$", nb)
        if not m or m.group(1) != m.group(2) or m.group(1) not in ("8", "16"):
            raise ExtractError("remove_noops: case %s is not a jump rewrite of the expected form" % labels)
        for l in labels:
            table.append((l, "d" if m.group(1) == "8" else "e"))
    if dropped != ["JOP_NOOP"]:
        raise ExtractError("remove_noops: the dropped opcodes are %s, expected only JOP_NOOP" % dropped)
    return table

# ------------------------------------------------------------------------------------------------ skeletons of hand-modelled bodies
SKELETON_FUNCS = {
    "src/core/cfuns.c": ["genericSS", "genericSSI", "opfunction", "can_be_imm", "can_slot_be_imm", "reduce_target", "opreduce", "compreduce",
                         "janetc_funopt"],
    "src/core/corelib.c": ["janet_quick_asm"],
    # janetc_varset: the one place that writes a NAMED variable's slot refuses a slot without JANET_SLOT_MUTABLE - hypothesis `himmune`
    # of Spec.opreduce_snapshot_chain_computes (an operand that was not snapshotted cannot be assigned by an operator method)
    "src/core/specials.c": ["janetc_check_nil_form", "janetc_varset"],
    # operand loads of emit.c (model: Spec/Operand.lean `regnear` / `loadInstr`; theorem `operands_loaded`)
    "src/core/emit.c": ["janetc_movenear", "janetc_regnear", "janetc_emit_sss", "emit2s"],
}


def extract_skeletons(tree, ops, rows):
    """[(name, [(depth, kind, opcode or None, text)])] for every hand-modelled body + every `special` handler of optimizers[]"""
    out = []
    for rel, names in SKELETON_FUNCS.items():
        src = csrc.strip_comments(csrc.read(tree, rel))
        names = list(names)
        if rel.endswith("cfuns.c"):
            names += sorted(set(r["handler"] for r in rows if r["h"][0] == "special"))
        for n in names:
            out.append((n, cfuns_skel.skeleton(src, n, ops)))
    src = csrc.strip_comments(csrc.read(tree, "src/core/compile.c"))
    params, _ = cfuns_skel.func_def(src, "janetc_call")
    out.append(("janetc_call.selection", cfuns_skel.skeleton_of_text(selection_block(src), "janetc_call.selection", ops, params)))
    return out


# ------------------------------------------------------------------------------------------------ render
def lname(c):
    return "." + gbc.lean_name(c)


def lconst(c):
    return ".nil" if c is None else "(.int (%d))" % c


def lopt(o):
    return "none" if o is None else "(some %s)" % lname(o)


def render(tree):
    opsl, types, jint = gbc.extract(tree)
    ops = dict(opsl)
    found = {}
    rows, guards, special_unary = extract_cfuns(tree, found)
    funs = extract_corelib(tree, ops, found)
    reads, removable = extract_movopt(tree, ops, found)
    paths = extract_selection(tree, found)
    gsites, gfolds = extract_guards(tree)
    ash = extract_apply(tree, found)
    branches, generic_ops = extract_callsite(tree, found)
    noop_table = extract_noops(tree, ops)
    skels = extract_skeletons(tree, ops, rows)
    o = [csrc.lean_header("src/core/cfuns.c, src/core/corelib.c, src/core/bytecode.c, src/core/compile.h"),
         "import JanetModel.Gen.Bytecode\n", "namespace JanetModel.Gen.Cfuns", "open JanetModel.Gen.Bytecode\n"]
    o.append("/-- constant argument of a specialisation (`janet_wrap_nil()` / `janet_wrap_integer(n)`) -/\ninductive Const where\n  | nil\n  | int (n : Int)\n  deriving DecidableEq, Repr, Inhabited\n")
    o.append("/-- what a `do_*` handler of cfuns.c does -/\ninductive Handler where\n"
             "  | opreduce (op : Op) (opim : Option Op) (nullary unary : Const)\n"
             "  | compreduce (op : Op) (opim : Option Op) (invert : Bool)\n"
             "  | opfunction (op : Op) (dflt : Const)\n"
             "  | genericSS (op : Op)\n"
             "  | special (name : String)\n  deriving DecidableEq, Repr, Inhabited\n")
    o.append("/-- arity predicate `can_optimize` (NULL = always) as a list of admitted comparisons -/\ninductive Guard where\n"
             "  | always\n  | eq (ns : List Nat)\n  | le (n : Nat)\n  | ge (n : Nat)\n  deriving DecidableEq, Repr, Inhabited\n")
    o.append("structure OptRow where\n  tag : Nat\n  tagName : String\n  guard : Guard\n  handlerName : String\n  handler : Handler\n  deriving DecidableEq, Repr, Inhabited\n")

    def lguard(g):
        if g == "NULL":
            return ".always"
        op, ns = guards[g]
        if op == "==":
            return "(.eq [%s])" % ", ".join(map(str, ns))
        return "(.%s %d)" % ("le" if op == "<=" else "ge", ns[0])

    def lhandler(h):
        if h[0] == "opreduce":
            return "(.opreduce %s %s %s %s)" % (lname(h[1]), lopt(h[2]), lconst(h[3]), lconst(h[4]))
        if h[0] == "compreduce":
            return "(.compreduce %s %s %s)" % (lname(h[1]), lopt(h[2]), "true" if h[3] else "false")
        if h[0] == "opfunction":
            return "(.opfunction %s %s)" % (lname(h[1]), lconst(h[2]))
        if h[0] == "genericSS":
            return "(.genericSS %s)" % lname(h[1])
        return '(.special "%s")' % h[1]
    o.append("/-- `optimizers[]` of cfuns.c, arranged by tag (tag = index + 1) -/\nabbrev optimizers : List OptRow := [")
    o.append(",\n".join('  ⟨%d, "%s", %s, "%s", %s⟩' % (r["tag"], r["tagname"], lguard(r["guard"]), r["handler"], lhandler(r["h"])) for r in rows))
    o.append("]\n")
    if special_unary:
        o.append("/-- the hard-coded unary special case inside `opreduce`: `if (op == %s) emit %s t, args[0], %d` -/" % special_unary)
        o.append("abbrev opreduceUnarySpecial : Option (Op × Op × Int) := some (%s, %s, %d)\n" % (lname(special_unary[0]), lname(special_unary[1]), special_unary[2]))
    else:
        o.append("abbrev opreduceUnarySpecial : Option (Op × Op × Int) := none\n")
    o.append("abbrev immMin : Int := -128\nabbrev immMax : Int := 127\n")
    o.append("/-- how corelib.c builds the generic (first-class) version of a tagged core function -/\ninductive TemplateKind where\n"
             "  | varop (nullary unary : Int) (op : Op)\n  | comparator (invert : Bool) (op : Op)\n  | asm\n  | apply\n  deriving DecidableEq, Repr, Inhabited\n")
    o.append("structure CoreFun where\n  tag : Nat\n  name : String\n  kind : TemplateKind\n  arity : Nat\n  minArity : Nat\n  maxArity : Nat\n  slots : Nat\n  vararg : Bool\n"
             "  words : List Nat\n  deriving DecidableEq, Repr, Inhabited\n")

    def lkind(f):
        if f["kind"] == "varop":
            return "(.varop (%d) (%d) %s)" % (f["nullary"], f["unary"], lname(f["op"]))
        if f["kind"] == "comparator":
            return "(.comparator %s %s)" % ("true" if f["invert"] else "false", lname(f["op"]))
        return "." + f["kind"]
    o.append("/-- the tagged core functions as `janet_core_env` assembles them (bytecode words evaluated from the C initialisers) -/\nabbrev templates : List CoreFun := [")
    o.append(",\n".join('  ⟨%d, "%s", %s, %d, %d, %d, %d, %s, [%s]⟩' % (f["tag"], f["name"], lkind(f), f["arity"], f["min"], f["max"], f["slots"],
                                                                 "true" if f["vararg"] else "false", ", ".join(map(str, f["words"]))) for f in funs))
    o.append("]\n")
    o.append("/-- operand fields an instruction word can name: A = bits 8-15, B = 16-23, C = 24-31, D = 8-31, E = 16-31 -/\ninductive Field where\n  | a | b | c | d | e\n  deriving DecidableEq, Repr, Inhabited\n")
    o.append("/-- first switch of `janet_bytecode_movopt`: the slots (by operand field) each opcode is taken to read -/\ndef movoptReads : Op → List Field")
    for name, val in opsl:
        o.append("  | %s => [%s]" % (lname(name), ", ".join("." + x for x in reads[name])))
    o.append("\n/-- second switch of `janet_bytecode_movopt`: opcodes that may be turned into a noop, with the field they write -/\ndef movoptRemovable : Op → Option Field")
    for name, val in opsl:
        if name in removable:
            o.append("  | %s => some .%s" % (lname(name), removable[name]))
    o.append("  | _ => none\n")
    o.append("/-- `(= nil x)` / `(not= nil x)` conditions of `if` / `while` (specials.c `janetc_check_nil_form`): special form, tag name of the\n"
             "    head function, opcode of the jump that LEAVES the then-branch / the loop -/\nabbrev nilFastPaths : List (String × String × Op) := [")
    o.append(",\n".join('  ("%s", "%s", %s)' % (k[0], k[1], lname(v)) for k, v in sorted(paths.items())))
    o.append("]\n")
    lpath = lambda p: "[%s]" % ", ".join('"%s"' % x for x in p)
    o.append("/-- one conditional jump that specials.c `janetc_if` / `janetc_while` emit for the condition (tools/gen/cfuns_guard.py: symbolic\n"
             "    execution of the canonical skeleton, one row per emission site and per list of `(= nil x)` / `(not= nil x)` heads that\n"
             "    `janetc_check_nil_form` stripped, outermost first): site `main` = the jump that leaves the then-branch / the loop (offset patched\n"
             "    later), `iife` = guard of the while loop recompiled as a tail-recursive closure; `offset` = the literal offset argument;\n"
             "    `nextOp` = opcode emitted right after it in the same block -/\n"
             "structure GuardSite where\n  form : String\n  path : List String\n  site : String\n  op : Op\n  offset : Nat\n  nextOp : Option Op\n"
             "  deriving DecidableEq, Repr, Inhabited\n")
    o.append("abbrev nilGuardSites : List GuardSite := [")
    o.append(",\n".join('  ⟨"%s", %s, "%s", %s, %d, %s⟩' % (f, lpath(p), st, lname(op), off, lopt(nx)) for f, p, st, op, off, nx in gsites))
    o.append("]\n")
    o.append("/-- constant condition of `if` / `while`: the predicate of the constant (`falsy` / `truthy` / `isNil` / `notNil`) under which the\n"
             "    bodies of `if` are exchanged (`swap`) / the loop is not compiled at all (`never`), per list of stripped heads -/\n"
             "structure ConstFold where\n  form : String\n  path : List String\n  pred : String\n  role : String\n  deriving DecidableEq, Repr, Inhabited\n")
    o.append("abbrev nilConstFolds : List ConstFold := [")
    o.append(",\n".join('  ⟨"%s", %s, "%s", "%s"⟩' % (f, lpath(p), pr, role) for f, p, pr, role in gfolds))
    o.append("]\n")
    o.append("/-- structure of cfuns.c `do_apply`: `for (i = loopStart; i < n - loopBound; i += loopStride) loopOp`, `if (i == n - rem2At) rem2Op else if\n"
             "    (i == n - rem1At) rem1Op`, `lastOp` on the last argument, `tailOp` / `callOp` on `args[0]` -/\nstructure ApplyShape where\n  loopStart : Nat\n  loopBound : Nat\n"
             "  loopStride : Nat\n  loopOp : Op\n  rem2At : Nat\n  rem2Op : Op\n  rem1At : Nat\n  rem1Op : Op\n  lastOp : Op\n  tailOp : Op\n  callOp : Op\n  deriving DecidableEq, Repr, Inhabited\n")
    o.append("abbrev applyShape : ApplyShape := ⟨%d, %d, %d, %s, %d, %s, %d, %s, %s, %s, %s⟩\n" % (
        ash["loopStart"], ash["loopBound"], ash["loopStride"], lname(ash["loopOp"]), ash["rem2At"], lname(ash["rem2Op"]), ash["rem1At"],
        lname(ash["rem1Op"]), lname(ash["lastOp"]), lname(ash["tailOp"]), lname(ash["callOp"])))
    o.append("/-- branches of compile.c `janetc_pushslots`, in order: condition, opcodes emitted, how many slots the branch consumes -/\n"
             "abbrev pushSlotsBranches : List (String × List Op × Nat) := [")
    o.append(",\n".join('  ("%s", [%s], %d)' % (c, ", ".join(lname(x) for x in opl), n) for c, opl, n in branches))
    o.append("]\n")
    o.append("/-- the generic route of `janetc_call` ends with this opcode on the function slot: (tail position, otherwise) -/\n"
             "abbrev genericCallOps : Op × Op := (%s, %s)\n" % (lname(generic_ops[0]), lname(generic_ops[1])))
    o.append("/-- bytecode.c `janet_bytecode_remove_noops`: the opcodes whose jump operand is rewritten, with the field that holds it -/\n"
             "abbrev removeNoopsRetargets : List (Op × Field) := [")
    o.append(",\n".join("  (%s, .%s)" % (lname(x), f) for x, f in noop_table))
    o.append("]\n")
    o.append("/-- one line of the canonical statement skeleton of a C body (tools/gen/cfuns_skel.py): nesting depth, kind (if / else / for / while /\n"
             "    let / set / call / emit / ret / break / continue), first literal `JOP_*` opcode named in the line, canonical text -/\n"
             "structure SkLine where\n  depth : Nat\n  kind : String\n  op : Option Op\n  text : String\n  deriving DecidableEq, Repr, Inhabited\n")
    o.append("/-- skeletons of the C bodies that the Lean model mirrors by hand (compared with `Spec.Skeleton.*` in Props.C15.skeleton_*_ok) -/\n"
             "abbrev skeletons : List (String × List SkLine) := [")
    o.append(",\n".join('  ("%s", %s)' % (n, cfuns_skel.render_lines(ls, lname)) for n, ls in skels))
    o.append("]\n")
    o.append("/-- fingerprints of the C bodies that are modelled by hand (informational) -/\ndef fingerprints : List (String × String) := [")
    o.append(",\n".join('  ("%s", "%s")' % kv for kv in sorted(found.items())))
    o.append("]\n")
    o.append("end JanetModel.Gen.Cfuns\n")
    return "\n".join(o), found


def expected_skeletons_lean(tree):
    """text of lean/JanetModel/Spec/Skeleton.lean for the given tree (run once when the model is (re)validated against a body):
       python3 -c "from tools.gen import cfuns; print(cfuns.expected_skeletons_lean('/repo'))" """
    opsl, types, jint = gbc.extract(tree)
    found = {}
    rows, guards, special = extract_cfuns(tree, found)
    skels = extract_skeletons(tree, dict(opsl), rows)
    o = ["import JanetModel.Gen.Cfuns\n",
         "/-!\nC15: the statement skeletons of the C bodies the Lean model of the specialisations mirrors by hand, as they were when the model was\n"
         "written / last validated (generated once by `tools.gen.cfuns.expected_skeletons_lean`, then kept by hand).  `Props.C15.skeleton_*_ok`\n"
         "compare them with the skeletons regenerated from the tree under test.\n-/\n",
         "namespace JanetModel.Spec.Skeleton\nopen JanetModel.Gen.Bytecode JanetModel.Gen.Cfuns\n"]
    for n, ls in skels:
        o.append("def %s : List SkLine :=\n   %s\n" % (n.replace(".", "_"), cfuns_skel.render_lines(ls, lname)))
    o.append("end JanetModel.Spec.Skeleton\n")
    return "\n".join(o)


def fingerprints(tree):
    """helper used once to (re)compute the accepted fingerprints"""
    saved = {k: (set(v) if v is not None else None) for k, v in MODELLED.items()}
    out = {}
    try:
        for k in MODELLED:
            MODELLED[k] = None
        opsl, types, jint = gbc.extract(tree)
        ops = dict(opsl)
        extract_cfuns(tree, out)
        extract_corelib(tree, ops, out)
        extract_movopt(tree, ops, out)
        extract_selection(tree, out)
        extract_callsite(tree, out)
    finally:
        MODELLED.update(saved)
    return out


def variadic_names(tree):
    """{tagName: janet name} of the variadic families (for the C15 model correspondence)"""
    opsl, types, jint = gbc.extract(tree)
    found = {}
    rows, guards, special = extract_cfuns(tree, found)
    funs = extract_corelib(tree, dict(opsl), found)
    byt = {f["tag"]: f for f in funs}
    return {r["tagname"]: byt[r["tag"]]["name"] for r in rows
            if r["h"][0] in ("opreduce", "compreduce") and r["guard"] == "NULL" and r["tag"] in byt}


def mnemonics(tree):
    """{disasm mnemonic: (JOP name, JINT type)} from asm.c janet_ops[] + bytecode.c"""
    opsl, types, jint = gbc.extract(tree)
    ty = {name: t for (name, val), t in zip(opsl, types)}
    src = csrc.strip_comments(csrc.read(tree, "src/core/asm.c"))
    m = re.search(r"janet_ops\[\]\s*=\s*\{", src)
    if not m:
        raise ExtractError("asm.c janet_ops[] not found")
    i = src.index("{", m.start())
    body = src[i + 1:csrc.match_brace(src, i) - 1]
    rows = re.findall(r"\{\s*\"(\w+)\"\s*,\s*(JOP_\w+)\s*\}", body)
    if len(rows) != len(opsl):
        raise ExtractError("janet_ops[] has %d rows, %d opcodes" % (len(rows), len(opsl)))
    return {mn: (jop, ty[jop]) for mn, jop in rows}
