"""C10 translator: the NaN-boxing constants and the re-boxing of unmarshalled reals -> lean/JanetModel/Gen/NanBox.lean.

janet.h (JANET_NANBOX_64 section): JANET_NANBOX_TAGBITS, JANET_NANBOX_PAYLOADBITS, janet_nanbox_lowtag / janet_nanbox_tag,
janet_type, janet_nanbox_checkauxtype, janet_nanbox_isnumber, janet_checktype (shapes asserted, constants extracted), the
JanetType enum; wrap.c: the body of janet_wrap_number_safe in the JANET_NANBOX_64 arm; marsh.c: which wrapper the LB_REAL case
of unmarshal_one uses.  The bit pattern of the C constant NAN is not in the source: harness/C10/nanbox.c prints it for the
current build and checks/C10.py compares it with the value the obligation is stated for."""
import re

from .csrc import ExtractError, read, strip_comments, func_body, enum_values, lean_header


def extract(tree):
    h = strip_comments(read(tree, "src/include/janet.h"))
    m = re.search(r"#ifdef\s+JANET_NANBOX_64\s+#include\s*<math\.h>(.*?)#elif\s+defined\(JANET_NANBOX_32\)", h, re.S)
    if not m:
        raise ExtractError("janet.h: JANET_NANBOX_64 macro section not found")
    sec = m.group(1)

    def const(name):
        mm = re.search(r"#define\s+%s\s+(0x[0-9A-Fa-f]+)(?:llu|ull|LLU|ULL)?\b" % name, sec)
        if not mm:
            raise ExtractError("janet.h: %s is not a hex literal" % name)
        return int(mm.group(1), 16)
    out = {"tagBits": const("JANET_NANBOX_TAGBITS"), "payloadBits": const("JANET_NANBOX_PAYLOADBITS")}
    mm = re.search(r"#define\s+janet_nanbox_lowtag\(type\)\s+\(\(uint64_t\)\(type\)\s*\|\s*(0x[0-9A-Fa-f]+)\)", sec)
    if not mm:
        raise ExtractError("janet.h: janet_nanbox_lowtag changed shape")
    out["lowtagOr"] = int(mm.group(1), 16)
    mm = re.search(r"#define\s+janet_nanbox_tag\(type\)\s+\(janet_nanbox_lowtag\(type\)\s*<<\s*(\d+)\)", sec)
    if not mm:
        raise ExtractError("janet.h: janet_nanbox_tag changed shape")
    out["tagShift"] = int(mm.group(1))
    flat = re.sub(r"\\\n", " ", sec)
    flat = re.sub(r"\s+", " ", flat)
    mm = re.search(r"#define janet_type\(x\) \(isnan\(\(x\)\.number\) \? \(JanetType\) \(\(\(x\)\.u64 >> (\d+)\) & (0x[0-9A-Fa-f]+)\) : JANET_NUMBER\)", flat)
    if not mm:
        raise ExtractError("janet.h: janet_type (nanbox 64) changed shape")
    out["typeShift"], out["typeMask"] = int(mm.group(1)), int(mm.group(2), 16)
    if not re.search(r"#define janet_nanbox_checkauxtype\(x, type\) \(\(\(x\)\.u64 & JANET_NANBOX_TAGBITS\) == janet_nanbox_tag\(\(type\)\)\)", flat):
        raise ExtractError("janet.h: janet_nanbox_checkauxtype changed shape")
    mm = re.search(r"#define janet_nanbox_isnumber\(x\) \(!isnan\(\(x\)\.number\) \|\| \(\(\(\(x\)\.u64 >> (\d+)\) & (0x[0-9A-Fa-f]+)\) == JANET_NUMBER\)\)", flat)
    if not mm or (int(mm.group(1)), int(mm.group(2), 16)) != (out["typeShift"], out["typeMask"]):
        raise ExtractError("janet.h: janet_nanbox_isnumber changed shape")
    if not re.search(r"#define janet_checktype\(x, t\) \(\(\(t\) == JANET_NUMBER\) \? janet_nanbox_isnumber\(x\) : janet_nanbox_checkauxtype\(\(x\), \(t\)\)\)", flat):
        raise ExtractError("janet.h: janet_checktype (nanbox 64) changed shape")
    # the arithmetic reading used by the Lean model: `& TAGBITS` = the bits from tagShift upwards, `| lowtagOr` = `+ lowtagOr` below typeMask
    if out["tagBits"] != ((1 << 64) - (1 << out["tagShift"])) or out["payloadBits"] != (1 << out["tagShift"]) - 1:
        raise ExtractError("JANET_NANBOX_TAGBITS / PAYLOADBITS are not the bits above / below bit %d" % out["tagShift"])
    if out["typeShift"] != out["tagShift"] or out["typeMask"] & (out["typeMask"] + 1) or out["lowtagOr"] & out["typeMask"]:
        raise ExtractError("type field of the nanbox is not the low bits of the tag")
    en = enum_values(h, "JANET_NUMBER")
    names = ["JANET_NUMBER", "JANET_NIL", "JANET_BOOLEAN", "JANET_FIBER", "JANET_STRING", "JANET_SYMBOL", "JANET_KEYWORD", "JANET_ARRAY", "JANET_TUPLE",
             "JANET_TABLE", "JANET_STRUCT", "JANET_BUFFER", "JANET_FUNCTION", "JANET_CFUNCTION", "JANET_ABSTRACT", "JANET_POINTER"]
    if sorted(en.values()) != list(range(len(en))) or max(en.values()) > out["typeMask"]:
        raise ExtractError("JanetType enum does not fit the type field")
    out["types"] = [(n, en[n]) for n in names if n in en]
    if len(out["types"]) != len(en):
        raise ExtractError("JanetType enum has members the model does not know: %s" % sorted(set(en) - set(names)))
    out["numberTag"] = en["JANET_NUMBER"]
    # wrap.c: janet_wrap_number_safe of the JANET_NANBOX_64 arm
    w = strip_comments(read(tree, "src/core/wrap.c"))
    mm = re.search(r"#ifdef\s+JANET_NANBOX_64(.*?)#elif\s+defined\(JANET_NANBOX_32\)", w, re.S)
    if not mm:
        raise ExtractError("wrap.c: JANET_NANBOX_64 arm not found")
    body = re.sub(r"\s+", " ", func_body(mm.group(1), "janet_wrap_number_safe"))
    flatb = re.sub(r"[\s()]", "", body)
    # `ret.number = isnan(d) ? NAN : d;`  or  `if (isnan(d)) d = NAN; ret.number = d;`  (spaces / parentheses / braces ignored)
    shapes = [r"\{Janetret;ret\.number=isnand\?NAN:d;returnret;\}",
              r"\{Janetret;ifisnand\{?d=NAN;\}?ret\.number=d;returnret;\}",
              r"\{doublex=isnand\?NAN:d;returnjanet_nanbox_from_doublex;\}"]
    out["safeReboxes"] = any(re.fullmatch(sh, flatb) for sh in shapes)
    if not out["safeReboxes"] and not re.fullmatch(r"\{Janetret;ret\.number=d;returnret;\}", flatb) and "janet_wrap_numberd" not in flatb \
            and "janet_nanbox_from_doubled" not in flatb:
        raise ExtractError("wrap.c: janet_wrap_number_safe has an unknown body: %s" % body)
    # marsh.c: the LB_REAL case
    ms = strip_comments(read(tree, "src/core/marsh.c"))
    one = func_body(ms, "unmarshal_one")
    mm = re.search(r"case\s+LB_REAL\s*:(.*?)return\s+data\s*\+\s*9\s*;", one, re.S)
    if not mm:
        raise ExtractError("marsh.c: LB_REAL case of unmarshal_one not found")
    wr = re.findall(r"\*out\s*=\s*(\w+)\s*\(\s*u\.d\s*\)\s*;", mm.group(1))
    if len(wr) != 1 or wr[0] not in ("janet_wrap_number_safe", "janet_wrap_number"):
        raise ExtractError("marsh.c: LB_REAL no longer wraps u.d with janet_wrap_number[_safe]: %s" % wr)
    out["realUsesSafe"] = wr[0] == "janet_wrap_number_safe"
    return out


NAN_BITS = 0x7FF8000000000000   # quiet NaN of the build (printed by harness/C10/nanbox.c, compared on every run)


def render(tree):
    x = extract(tree)
    L = [lean_header("src/include/janet.h (JANET_NANBOX_64), src/core/wrap.c, src/core/marsh.c") + "import JanetModel.Unmarsh.NanBox",
         "namespace JanetModel.Gen.NanBox", "open JanetModel.Unmarsh.NanBox", "",
         "abbrev nb : NB := { tagShift := %d, typeMod := %d, lowtagOr := %d, numberTag := %d, nanBits := %d, safe := %s }" % (
             x["tagShift"], x["typeMask"] + 1, x["lowtagOr"], x["numberTag"], NAN_BITS, "true" if (x["safeReboxes"] and x["realUsesSafe"]) else "false"),
         "def typeNames : List (String × Nat) := [" + ", ".join('("%s", %d)' % (n, v) for n, v in x["types"]) + "]",
         "", "end JanetModel.Gen.NanBox"]
    return "\n".join(L) + "\n"
