"""Translator for C20: event-loop liveness bookkeeping  ->  Gen/Loop.lean

Extracted from the *preprocessed* (cc -E, this platform's configuration) src/core/*.c of the current tree:
  * the expression of janet_loop_done (negated disjunction, list of disjuncts),
  * the guard of janet_loop1's poll phase and the text of its "drop stale timeouts" loop,
  * every site that increments / decrements  listener_count  (janet_ev_inc_refcount / janet_ev_dec_refcount /
    janet_atomic_inc|dec(&...listener_count)) with its enclosing function (the chain of enclosing conditions is kept for the
    report only; the conditions are checked path by path, see tools/gen/ctrpaths.py),
  * every janet_gcroot / janet_gcunroot made by event-loop operations (ev.c, os.c, net.c) with function and argument,
  * whether the pending-fiber root taken on threaded channels has its unroot sites.
The Lean side (Props/C20.lean) proves these tables equal to the ones the hand-written model mirrors, so any added,
removed or re-guarded site breaks a proof obligation.
"""
import os
import re
from . import csrc
from .csrc import ExtractError

FILES_COUNTER = None  # all of src/core/*.c
FILES_ROOTS = ["ev.c", "os.c", "net.c", "filewatch.c"]


def preprocess(tree, rel):
    """cc -E -P with the include paths the build uses (src/core only for quoted includes, so that <features.h> stays libc's)"""
    import subprocess
    cmd = ["gcc", "-E", "-P", "-std=c99", "-I" + os.path.join(tree, "src/include"), "-I" + os.path.join(tree, "src/conf"),
           "-iquote", os.path.join(tree, "src/core"), os.path.join(tree, rel)]
    r = subprocess.run(cmd, stdout=subprocess.PIPE, stderr=subprocess.PIPE)
    if r.returncode:
        raise ExtractError("preprocess %s failed: %s" % (rel, r.stderr.decode(errors="replace")[-300:]))
    return r.stdout.decode(errors="replace")


def _ws(s):
    return re.sub(r"\s+", "", s)


def functions(src):
    """yield (name, body) for every top-level function definition in preprocessed C"""
    i, n, depth = 0, len(src), 0
    last_end = 0
    while i < n:
        c = src[i]
        if c == '"' or c == "'":
            j = i + 1
            while j < n and src[j] != c:
                j += 2 if src[j] == "\\" else 1
            i = j + 1
            continue
        if c == "{":
            if depth == 0:
                head = src[last_end:i]
                end = csrc.match_brace(src, i)
                hs = head.rstrip()
                if hs.endswith(")"):
                    # name = identifier before the parenthesis matching the last ')'
                    k, d = len(hs) - 1, 0
                    while k >= 0:
                        if hs[k] == ")":
                            d += 1
                        elif hs[k] == "(":
                            d -= 1
                            if d == 0:
                                break
                        k -= 1
                    m = re.search(r"([A-Za-z_]\w*)\s*$", hs[:k])
                    if m and m.group(1) not in ("__attribute__", "__asm__", "__declspec"):
                        yield m.group(1), src[i:end]
                i = end
                last_end = end
                continue
            depth += 1
        elif c == "}":
            depth -= 1
        elif c == ";" and depth == 0:
            last_end = i + 1
        i += 1


def _ctrl_header(text):
    """control header governing a '{' or an unbraced statement: text since the previous ; { }"""
    t = text.strip()
    m = re.match(r"^(else\s+if|if|while|for|switch)\s*\(", t)
    if m:
        # condition = balanced parens
        i, d = t.index("(", m.start()), 0
        j = i
        while j < len(t):
            if t[j] == "(":
                d += 1
            elif t[j] == ")":
                d -= 1
                if d == 0:
                    break
            j += 1
        return _ws(re.sub(r"\s+", " ", m.group(1)) + t[i:j + 1]), t[j + 1:]
    if re.match(r"^else\b", t):
        return "else", t[4:]
    if re.match(r"^do\b", t):
        return "do", t[2:]
    m = re.match(r"^(case\s+[^:]+|default)\s*:", t)
    if m:
        return _ws(m.group(1)), t[m.end():]
    return None, t


def sites(body, pattern):
    """occurrences of regex `pattern` in a function body with their chain of enclosing control headers"""
    out = []
    stack = []          # one entry per open '{': list of headers it contributes
    stmt_start = 1      # start of current statement text (after the opening brace of the function)
    i, n = 1, len(body)
    rx = re.compile(pattern)
    while i < n:
        c = body[i]
        if c == '"' or c == "'":
            j = i + 1
            while j < n and body[j] != c:
                j += 2 if body[j] == "\\" else 1
            i = j + 1
            continue
        m = rx.match(body, i)
        if m:
            # unbraced headers in the current statement prefix (e.g. `if (x) f();`, `else if (y) f();`)
            pre = body[stmt_start:i]
            guards = [h for fr in stack for h in fr]
            while True:
                h, rest = _ctrl_header(pre)
                if h is None:
                    break
                guards.append(h)
                pre = rest
            out.append((m, guards))
            i = m.end()
            continue
        if c == "{":
            pre = body[stmt_start:i]
            hs = []
            while True:
                h, rest = _ctrl_header(pre)
                if h is None:
                    break
                hs.append(h)
                pre = rest
            stack.append(hs)
            stmt_start = i + 1
        elif c == "}":
            if stack:
                stack.pop()
            stmt_start = i + 1
        elif c == ";":
            stmt_start = i + 1
        i += 1
    return out


def _balanced_arg(s, i):
    """s[i] == '(' -> text of the balanced parenthesised argument"""
    d, j = 0, i
    while j < len(s):
        if s[j] == "(":
            d += 1
        elif s[j] == ")":
            d -= 1
            if d == 0:
                return s[i + 1:j]
        j += 1
    raise ExtractError("unbalanced call")


def extract(tree):
    core = os.path.join(tree, "src/core")
    res = {"counter": [], "roots": []}
    files = sorted(f for f in os.listdir(core) if f.endswith(".c"))
    pre = {}
    for f in files:
        raw = csrc.read(tree, "src/core/" + f)
        if not re.search(r"listener_count|janet_ev_(inc|dec)_refcount|janet_gc(un)?root", raw):
            continue
        pre[f] = preprocess(tree, "src/core/" + f)
    if "ev.c" not in pre:
        raise ExtractError("ev.c no longer mentions listener_count")
    for f, src in sorted(pre.items()):
        for name, body in functions(src):
            for m, guards in sites(body, r"janet_ev_(inc|dec)_refcount\s*\(\s*\)|janet_atomic_(inc|dec)\s*\(\s*&\s*[\w.>-]*listener_count\s*\)"):
                kind = m.group(1) or m.group(2)
                if name in ("janet_ev_inc_refcount", "janet_ev_dec_refcount"):
                    continue    # the API wrappers themselves
                res["counter"].append((f, name, "+" if kind == "inc" else "-", guards))
            if f in FILES_ROOTS:
                for m, guards in sites(body, r"janet_gc(un)?root\s*\("):
                    arg = _ws(_balanced_arg(body, m.end() - 1))
                    mm = re.match(r"^janet_nanbox_from_pointer\(\(\((.*)\)\),\(\(\(uint64_t\)\(JANET_(\w+)\)\|0x1FFF0\)<<47\)\)$", arg)
                    if mm:
                        arg = mm.group(2) + ":" + mm.group(1)     # janet_wrap_<type>(expr)
                    res["roots"].append((f, name, "unroot" if m.group(1) else "root", arg))
    ev = pre["ev.c"]
    fn = dict(functions(ev))
    for need in ("janet_loop_done", "janet_loop1", "janet_loop", "janet_ev_handle_selfpipe", "janet_async_end", "janet_async_start_fiber",
                 "janet_ev_threaded_call", "janet_ev_post_event", "janet_thread_chan_cb", "janet_ev_init"):
        if need not in fn:
            raise ExtractError("ev.c: function %s not found" % need)
    m = re.match(r"^\{\s*return\s*!\s*\((.*)\)\s*;\s*\}$", fn["janet_loop_done"].strip(), re.S)
    if not m:
        raise ExtractError("janet_loop_done is no longer `return !(a || b || c);`: %r" % _ws(fn["janet_loop_done"]))
    # split top-level ||
    terms, d, cur = [], 0, ""
    e = m.group(1)
    k = 0
    while k < len(e):
        if e[k] == "(":
            d += 1
        elif e[k] == ")":
            d -= 1
        if d == 0 and e.startswith("||", k):
            terms.append(cur)
            cur = ""
            k += 2
            continue
        cur += e[k]
        k += 1
    terms.append(cur)

    def unparen(t):
        t = _ws(t)
        while t.startswith("(") and t.endswith(")"):
            # strip only if the parens match each other
            d = 0
            ok = True
            for q, ch in enumerate(t):
                if ch == "(":
                    d += 1
                elif ch == ")":
                    d -= 1
                    if d == 0 and q != len(t) - 1:
                        ok = False
                        break
            if not ok:
                break
            t = t[1:-1]
        return t
    res["done_terms"] = [unparen(t) for t in terms]
    l1 = fn["janet_loop1"]
    m = re.search(r"if\s*\(([^{}]*?)\)\s*\{\s*JanetTimeout\s+to\s*;", l1)
    if not m:
        raise ExtractError("janet_loop1: poll-phase guard not recognised")
    res["poll_guard"] = _ws(m.group(1))
    m = re.search(r"while\s*\(\s*\(\s*has_timeout\s*=\s*peek_timeout\s*\(\s*&to\s*\)\s*\)\s*\)\s*\{", l1)
    if not m:
        raise ExtractError("janet_loop1: stale-timeout drop loop not recognised")
    b = l1.index("{", m.start())
    res["stale_loop"] = _ws(l1[m.start():csrc.match_brace(l1, b)])
    m = re.search(r"if\s*\(([^{}]*?)\)\s*\{\s*janet_loop1_impl\s*\(", l1)
    if not m:
        raise ExtractError("janet_loop1: second poll guard not recognised")
    res["poll_guard2"] = _ws(m.group(1))
    m = re.search(r"while\s*\(\s*peek_timeout\s*\(\s*&to\s*\)\s*&&\s*to\.when\s*<=\s*now\s*\)\s*\{", l1)
    if not m:
        raise ExtractError("janet_loop1: expired-timer loop not recognised")
    b = l1.index("{", m.start())
    res["expire_loop"] = _ws(l1[m.start():csrc.match_brace(l1, b)])
    lp = fn["janet_loop"]
    if not re.search(r"while\s*\(\s*!\s*janet_loop_done\s*\(\s*\)\s*\)", lp):
        raise ExtractError("janet_loop is no longer `while (!janet_loop_done())`")
    # pending-fiber root on threaded channels: where is it released?
    unroot_fns = set(fnname for f, fnname, kind, arg in res["roots"] if kind == "unroot" and f == "ev.c")
    res["tchan_unroot"] = {"cb": "janet_thread_chan_cb" in unroot_fns, "close": "cfun_channel_close" in unroot_fns,
                           "deinit": "janet_chan_deinit" in unroot_fns}
    # janet_stream_close: which parked fibers get the CLOSE notification, under which conditions
    if "janet_stream_close" not in fn:
        raise ExtractError("ev.c: function janet_stream_close not found")
    sc = sites(fn["janet_stream_close"], r"(rf|wf)\s*->\s*ev_callback\s*\(\s*(rf|wf)\s*,\s*JANET_ASYNC_EVENT_CLOSE")
    res["stream_close_notify"] = [(m.group(1), guards) for m, guards in sc]
    who = [w for w, g in res["stream_close_notify"]]
    res["close_notifies_both"] = (sorted(who) == ["rf", "wf"] and
                                  all(len(g) == 1 and g[0] == "if(%s&&%s->ev_callback)" % (w, w) for w, g in res["stream_close_notify"]))
    # janet_proc_gc (finaliser of a process handle): kill + waitpid; with which options?
    osfn = dict(functions(pre["os.c"])) if "os.c" in pre else {}
    if "janet_proc_gc" not in osfn:
        raise ExtractError("os.c: function janet_proc_gc not found")
    pg = osfn["janet_proc_gc"]
    mm = re.search(r"kill\s*\(\s*proc->pid\s*,[^;]*;.*?waitpid\s*\(\s*proc->pid\s*,\s*&status\s*,\s*([^)]*)\)", pg, re.S)
    if not mm:
        raise ExtractError("janet_proc_gc: kill(proc->pid, ...) followed by waitpid(proc->pid, &status, opts) not recognised")
    res["proc_gc_wait_options"] = _ws(mm.group(1))
    sp = [gs for f, fnname, k, gs in res["counter"] if fnname == "janet_ev_handle_selfpipe" and k == "-"]
    if len(sp) != 1:
        raise ExtractError("janet_ev_handle_selfpipe: expected exactly one decrement of listener_count, found %d" % len(sp))
    # does the reader un-count only events that have a callback?  Read off the extracted paths (tools/gen/ctrpaths.py: a path that
    # reads an event without callback and does not decrement), not off the text of the enclosing conditions
    from . import ctrpaths
    res["selfpipe_dec_needs_cb"] = ctrpaths.selfpipe_dec_needs_cb(tree)
    res.update(selfpipe_shape(fn, tree))
    return res


def selfpipe_shape(fn, tree):
    """Structure of the self-pipe reader and of its epoll registration (what Loop/SelfPipe.lean depends on):
      batch = whole JanetSelfPipeEvent records fetched by one read(2) (1 for `JanetSelfPipeEvent x; read(fd, &x, sizeof(x))`,
              N for `JanetSelfPipeEvent xs[N]; read(fd, xs, sizeof(xs))`),
      recur = after a successful read the handler reads again (until read fails with EAGAIN): `L: … read … if (status > 0) { … goto L; }`
              or the read sits in an endless loop that is left only through break / return,
      edge  = the read end is registered with EPOLLET."""
    hs = fn["janet_ev_handle_selfpipe"]
    rd = sites(hs, r"\bread\s*\(")
    if len(rd) != 1:
        raise ExtractError("janet_ev_handle_selfpipe: expected exactly one read(2) call, found %d" % len(rd))
    m, guards = rd[0]
    args = [a.strip() for a in _split_args(_balanced_arg(hs, m.end() - 1))]
    if len(args) != 3 or _ws(args[0]) != "janet_vm.selfpipe[0]":
        raise ExtractError("janet_ev_handle_selfpipe: read(janet_vm.selfpipe[0], buf, size) not recognised: %r" % args)
    buf, size = _ws(args[1]), _ws(args[2])
    var = buf[1:] if buf.startswith("&") else buf
    if not re.match(r"^[A-Za-z_]\w*$", var) or size != "sizeof(%s)" % var:
        raise ExtractError("janet_ev_handle_selfpipe: buffer / size of the read not recognised: %r %r" % (buf, size))
    dm = re.search(r"\bJanetSelfPipeEvent\s+%s\s*(\[\s*(\d+)\s*\])?\s*;" % re.escape(var), hs)
    if not dm or bool(dm.group(1)) == buf.startswith("&"):
        raise ExtractError("janet_ev_handle_selfpipe: declaration of the read buffer %s not recognised" % var)
    batch = int(dm.group(2)) if dm.group(1) else 1
    # recur: read off the control-flow paths (tools/gen/ctrpaths.py): every path on which an event was read comes back to a loop head
    # from which the read is executed again - whatever the loop is written with (goto, for (;;) … break, while (1), do … while)
    from . import ctrpaths
    recur = ctrpaths.selfpipe_recur(tree)
    if "janet_ev_init" not in fn:
        raise ExtractError("ev.c: function janet_ev_init not found")
    ini = _ws(fn["janet_ev_init"])
    em = re.search(r"ev\.events=([^;]*);ev\.data\.ptr=janet_vm\.selfpipe;", ini)
    if not em:
        raise ExtractError("janet_ev_init: registration of the self pipe (ev.events = …; ev.data.ptr = janet_vm.selfpipe;) not recognised")
    flags = em.group(1).split("|")
    if "EPOLLIN" not in flags:
        raise ExtractError("janet_ev_init: self pipe is not registered for EPOLLIN: %r" % em.group(1))
    return {"selfpipe_batch": batch, "selfpipe_recur": recur, "selfpipe_edge": "EPOLLET" in flags}


def _split_args(s):
    out, d, cur = [], 0, ""
    for ch in s:
        if ch in "([{":
            d += 1
        elif ch in ")]}":
            d -= 1
        if ch == "," and d == 0:
            out.append(cur)
            cur = ""
        else:
            cur += ch
    out.append(cur)
    return out


def _lstr(s):
    return '"' + s.replace("\\", "\\\\").replace('"', '\\"') + '"'


def render(tree):
    r = extract(tree)
    o = [csrc.lean_header("src/core/ev.c, gc.c, os.c, net.c (preprocessed for this platform)"), "", "namespace JanetModel.Gen.Loop", ""]
    o.append("/-- janet_loop_done returns `!(t₁ || t₂ || …)`; the disjuncts, whitespace removed -/")
    o.append("abbrev doneTerms : List String := [" + ", ".join(_lstr(t) for t in r["done_terms"]) + "]")
    o.append("")
    o.append("/-- janet_loop1: the poll phase is entered under this condition, and janet_loop1_impl is called under the second -/")
    o.append("abbrev pollGuard : String := " + _lstr(r["poll_guard"]))
    o.append("abbrev pollGuard2 : String := " + _lstr(r["poll_guard2"]))
    o.append("/-- janet_loop1: loop scheduling expired timeouts (phase 1) -/")
    o.append("abbrev expireLoop : String := " + _lstr(r["expire_loop"]))
    o.append("/-- janet_loop1: loop dropping stale timeouts before polling (phase 3) -/")
    o.append("abbrev staleLoop : String := " + _lstr(r["stale_loop"]))
    o.append("")
    o.append("/-- every site that changes `listener_count`: (file, function, \"+\" | \"-\", enclosing conditions outermost first; informative only: "
             "the conditions are checked on the paths of Gen/CounterPaths.lean) -/")
    o.append("abbrev counterSites : List (String × String × String × List String) := [")
    o.append(",\n".join("  (%s, %s, %s, [%s])" % (_lstr(f), _lstr(fn), _lstr(k), ", ".join(_lstr(g) for g in gs)) for f, fn, k, gs in r["counter"]))
    o.append("]")
    o.append("")
    o.append("/-- every janet_gcroot / janet_gcunroot in ev.c, os.c, net.c: (file, function, kind, argument) -/")
    o.append("abbrev rootSites : List (String × String × String × String) := [")
    o.append(",\n".join("  (%s, %s, %s, %s)" % (_lstr(f), _lstr(fn), _lstr(k), _lstr(a)) for f, fn, k, a in r["roots"]))
    o.append("]")
    o.append("")
    t = r["tchan_unroot"]
    o.append("/-- is the root taken for a fiber queued on a threaded channel released when the entry is consumed (callback), on close, on finalisation? -/")
    o.append("abbrev tchanUnrootCb : Bool := %s" % ("true" if t["cb"] else "false"))
    o.append("abbrev tchanUnrootClose : Bool := %s" % ("true" if t["close"] else "false"))
    o.append("abbrev tchanUnrootDeinit : Bool := %s" % ("true" if t["deinit"] else "false"))
    o.append("/-- janet_stream_close: (fiber slot, enclosing conditions) of every JANET_ASYNC_EVENT_CLOSE notification -/")
    o.append("abbrev streamCloseNotify : List (String × List String) := [" +
             ", ".join("(%s, [%s])" % (_lstr(w), ", ".join(_lstr(g) for g in gs)) for w, gs in r["stream_close_notify"]) + "]")
    o.append("/-- are the read-side and the write-side fiber notified independently of each other? -/")
    o.append("abbrev closeNotifiesBoth : Bool := %s" % ("true" if r["close_notifies_both"] else "false"))
    o.append("")
    o.append("/-- janet_proc_gc: options of the waitpid that follows the SIGKILL (\"0\" = blocking) -/")
    o.append("abbrev procGcWaitOptions : String := " + _lstr(r["proc_gc_wait_options"]))
    o.append("abbrev procGcBlockingWait : Bool := %s" % ("true" if r["proc_gc_wait_options"] == "0" else "false"))
    o.append("")
    o.append("/-- does janet_ev_handle_selfpipe decrement listener_count only for events with a callback? -/")
    o.append("abbrev selfpipeDecNeedsCb : Bool := %s" % ("true" if r["selfpipe_dec_needs_cb"] else "false"))
    o.append("")
    o.append("/-- janet_ev_handle_selfpipe / janet_ev_init: whole events fetched by one read(2); does the handler read again after every successful read "
             "(until EAGAIN)?; is the read end registered edge-triggered (EPOLLET)? -/")
    o.append("abbrev selfpipeBatch : Nat := %d" % r["selfpipe_batch"])
    o.append("abbrev selfpipeRecur : Bool := %s" % ("true" if r["selfpipe_recur"] else "false"))
    o.append("abbrev selfpipeEdge : Bool := %s" % ("true" if r["selfpipe_edge"] else "false"))
    o.append("")
    o.append("end JanetModel.Gen.Loop")
    return "\n".join(o) + "\n"


if __name__ == "__main__":
    import sys
    print(render(sys.argv[1] if len(sys.argv) > 1 else "/repo"))
