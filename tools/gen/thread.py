"""Translator for C08: shape facts of the threaded-channel / thread-call code -> lean/JanetModel/Gen/Thread.lean.

The Lean model (JanetModel/Thread/Model.lean) is parametrised by a configuration record; the facts below fix that
configuration for the *current* source, so that `Thread/Current.lean` (full theorems instantiated at this configuration)
is re-checked by the kernel against what the code does today.

Facts (each one is the presence / order of statements, checked on comment-stripped source):
  requeueOnNoReader    janet_thread_chan_cb, stale read message, no other pending reader: item goes back into channel->items
  requeueAtHead        ... with janet_q_push_head (front of the queue)
  redispatchToNext     janet_thread_chan_cb, stale read message: pops the next pending reader and posts the item to it
  cbChecksSchedId      janet_thread_chan_cb delivers only if fiber->sched_id == sched_id
  forwardOwnSchedId    a forwarded (re-dispatched) message takes fiber, mode AND sched_id from the next pending entry
  increfBeforeSend     marshal_one_abstract: janet_abstract_incref before the pointer of a threaded abstract is written
  unmarshalAccounts    unmarshal LB_THREADED_ABSTRACT: new table entry takes over the in-transit reference, else decref
  unmarshalKnownTestIsAbsent  ... and "new" means the key is absent (janet_checktype(check, JANET_NIL)), not "value is false"
  sweepDecrefFrees     gc sweep: unvisited threaded abstract -> decref, finalize+free at 0, entry removed
  completionAfterBody  janet_thread_body: subr(msg) is evaluated before the completion record is written to the pipe
plus lock-discipline counts (critical sections are atomic steps in the model): any change there is an ExtractError
(= broken tie; the check then searches harder on the implementation)."""
import re

from .csrc import ExtractError, func_body, lean_header, match_brace, read, strip_comments


def _block_after(src, start_pat, what):
    m = re.search(start_pat, src)
    if not m:
        raise ExtractError("%s: pattern %r not found" % (what, start_pat))
    i = src.index("{", m.end() - 1) if src[m.end() - 1] != "{" else m.end() - 1
    return src[i:match_brace(src, i)], match_brace(src, i)


def _corefn_body(src, name):
    """body of JANET_CORE_FN(name, "sig", "doc") { ... }"""
    m = re.search(r"JANET_CORE_FN\s*\(\s*%s\s*," % re.escape(name), src)
    if not m:
        raise ExtractError("JANET_CORE_FN(%s, ...) not found" % name)
    i, depth, n = m.start() + len("JANET_CORE_FN"), 0, len(src)
    while src[i] != "(":
        i += 1
    while i < n:
        c = src[i]
        if c == '"':
            j = i + 1
            while src[j] != '"':
                j += 2 if src[j] == "\\" else 1
            i = j + 1
            continue
        if c == "(":
            depth += 1
        elif c == ")":
            depth -= 1
            if depth == 0:
                break
        i += 1
    j = src.index("{", i)
    return src[j:match_brace(src, j)]


def _body(src, name):
    return _corefn_body(src, name) if name.startswith("cfun_") else func_body(src, name)


def extract(tree):
    ev = strip_comments(read(tree, "src/core/ev.c"))
    marsh = strip_comments(read(tree, "src/core/marsh.c"))
    gc = strip_comments(read(tree, "src/core/gc.c"))
    flags = {}
    # ---- janet_thread_chan_cb
    cb = func_body(ev, "janet_thread_chan_cb")
    flags["cbChecksSchedId"] = bool(re.search(r"if\s*\(\s*fiber->sched_id\s*==\s*sched_id\s*\)", cb))
    m = re.search(r"if\s*\(\s*is_read\s*\)\s*\{", cb)
    if not m:
        raise ExtractError("janet_thread_chan_cb: `if (is_read) {` branch not found")
    i = m.end() - 1
    rd = cb[i:match_brace(cb, i)]
    mpop = re.search(r"if\s*\(\s*!\s*janet_q_pop\s*\(\s*&channel->read_pending\s*,\s*&reader", rd)
    flags["redispatchToNext"] = bool(mpop and re.search(r"msg\.argj\s*=\s*x\s*;[^}]*janet_ev_post_event\s*\(\s*vm\s*,\s*janet_thread_chan_cb", rd, re.S))
    # the forwarded message must carry the NEXT waiter's own sched_id (reader.sched_id / writer.sched_id)
    wr_m = re.search(r"if\s*\(\s*!\s*janet_q_pop\s*\(\s*&channel->write_pending\s*,\s*&writer[^{]*\{", cb)
    own_w = False
    if wr_m:
        wb = cb[wr_m.end() - 1:match_brace(cb, wr_m.end() - 1)]
        own_w = bool(re.search(r"msg\.argi\s*=\s*\(\s*int32_t\s*\)\s*writer\.sched_id\s*;", wb) and re.search(r"msg\.fiber\s*=\s*writer\.fiber\s*;", wb)
                     and re.search(r"msg\.tag\s*=\s*writer\.mode\s*;", wb))
    own_r = False
    if mpop:
        j0 = rd.index("{", mpop.end())
        rb = rd[j0:match_brace(rd, j0)]
        own_r = bool(re.search(r"msg\.argi\s*=\s*\(\s*int32_t\s*\)\s*reader\.sched_id\s*;", rb) and re.search(r"msg\.fiber\s*=\s*reader\.fiber\s*;", rb)
                     and re.search(r"msg\.tag\s*=\s*reader\.mode\s*;", rb))
    flags["forwardOwnSchedId"] = own_w and own_r
    requeue, head = False, False
    if mpop:
        j = rd.index("{", mpop.end())
        k = match_brace(rd, j)
        rest = rd[k:]
        me = re.match(r"\s*else\s*\{", rest)
        if me:
            eb = rest[me.end() - 1:match_brace(rest, me.end() - 1)]
            mq = re.search(r"janet_q_push(_head)?\s*\(\s*&channel->items\s*,\s*&x\b", eb)
            requeue = bool(mq)
            head = bool(mq and mq.group(1))
    else:
        mq = re.search(r"janet_q_push(_head)?\s*\(\s*&channel->items\s*,\s*&x\b", rd)
        requeue, head = bool(mq), bool(mq and mq.group(1))
    flags["requeueOnNoReader"] = requeue
    flags["requeueAtHead"] = head
    locks = {}
    for fn in ("janet_thread_chan_cb", "janet_channel_push_with_lock", "janet_channel_pop_with_lock", "janet_channel_push",
               "janet_channel_pop", "cfun_channel_close", "cfun_channel_choice", "cfun_channel_count", "janet_chan_deinit"):
        b = _body(ev, fn)
        locks[fn] = [len(re.findall(r"\bjanet_chan_lock\s*\(", b)), len(re.findall(r"\bjanet_chan_unlock\s*\(", b))]
    expect_min = {"janet_thread_chan_cb": [1, 1], "janet_channel_push_with_lock": [0, 6], "janet_channel_pop_with_lock": [0, 3],
                  "janet_channel_push": [1, 0], "janet_channel_pop": [1, 0], "cfun_channel_close": [1, 1], "cfun_channel_choice": [2, 2],
                  "cfun_channel_count": [1, 1], "janet_chan_deinit": [1, 1]}
    for fn, (a, b) in expect_min.items():
        if locks[fn][0] < a or locks[fn][1] < b:
            raise ExtractError("lock discipline changed in %s: %d lock / %d unlock calls (expected at least %d / %d); "
                               "critical sections are atomic steps of the model" % (fn, locks[fn][0], locks[fn][1], a, b))
    # lock must come before the first queue access in the callback
    il = cb.find("janet_chan_lock")
    iq = min([x for x in (cb.find("fiber->sched_id"), cb.find("janet_q_pop")) if x >= 0] or [-1])
    if il < 0 or iq < il:
        raise ExtractError("janet_thread_chan_cb touches fiber/queues before taking the channel lock")
    for fn in ("janet_os_mutex_lock", "janet_os_mutex_unlock"):
        for holder, pat in (("janet_chan_lock", "janet_os_mutex_lock"), ("janet_chan_unlock", "janet_os_mutex_unlock")):
            if pat not in func_body(ev, holder):
                raise ExtractError("%s no longer calls %s" % (holder, pat))
    # push: threaded path pops exactly one reader and posts
    push = func_body(ev, "janet_channel_push_with_lock")
    if not re.search(r"msg\.argj\s*=\s*x\s*;\s*janet_ev_post_event\s*\(\s*vm\s*,\s*janet_thread_chan_cb", push):
        raise ExtractError("janet_channel_push_with_lock: threaded hand-off (post x to the reader's loop) not recognised")
    if not re.search(r"janet_q_push\s*\(\s*&channel->items\s*,\s*&x", push):
        raise ExtractError("janet_channel_push_with_lock: push to items not recognised")
    pop = func_body(ev, "janet_channel_pop_with_lock")
    if not re.search(r"janet_q_pop\s*\(\s*&channel->items\s*,\s*item", pop):
        raise ExtractError("janet_channel_pop_with_lock: pop from items not recognised")
    post = func_body(ev, "janet_ev_post_event")
    if not re.search(r"write\s*\(\s*fd\s*,\s*&event\s*,\s*sizeof\s*\(\s*event\s*\)\s*\)", post):
        raise ExtractError("janet_ev_post_event: write of the event record not recognised")
    hs = func_body(ev, "janet_ev_handle_selfpipe")
    if not re.search(r"response\.cb\s*\(\s*response\.msg\s*\)", hs):
        raise ExtractError("janet_ev_handle_selfpipe: callback invocation not recognised")
    # ---- thread body: completion after body
    tb = None
    for m in re.finditer(r"static\s+void\s*\*\s*janet_thread_body\s*\(", ev):
        j = ev.index("{", m.end())
        tb = ev[j:match_brace(ev, j)]
    if tb is None:
        raise ExtractError("posix janet_thread_body not found")
    isub = tb.find("subr(msg)")
    iw = tb.find("write(fd")
    if isub < 0 or iw < 0:
        raise ExtractError("janet_thread_body: subr(msg) / write(fd, ...) not recognised")
    flags["completionAfterBody"] = bool(isub < iw and re.search(r"response\.msg\s*=\s*subr\s*\(\s*msg\s*\)", tb))
    go = func_body(ev, "janet_go_thread_subr")
    il2, id2 = go.find("janet_loop()"), go.find("janet_deinit()")
    if il2 < 0 or id2 < il2 or go.rfind("return args") < id2:
        flags["completionAfterBody"] = False
    # ---- reference counts
    ma = func_body(marsh, "marshal_one_abstract")
    ii, ip = ma.find("janet_abstract_incref(abstract)"), ma.find("pushbytes(st, (uint8_t *) &abstract")
    flags["increfBeforeSend"] = bool(0 <= ii < ip)
    mu = re.search(r"case\s+LB_THREADED_ABSTRACT\s*:\s*\{", marsh)
    if not mu:
        raise ExtractError("unmarshal case LB_THREADED_ABSTRACT not found")
    ub = marsh[mu.end() - 1:match_brace(marsh, mu.end() - 1)]
    flags["unmarshalAccounts"] = bool(re.search(r"janet_table_get\s*\(\s*&janet_vm\.threaded_abstracts", ub)
                                      and re.search(r"janet_table_put\s*\(\s*&janet_vm\.threaded_abstracts[^;]*janet_wrap_false", ub)
                                      and re.search(r"else\s*\{\s*janet_abstract_decref\s*\(\s*u\.ptr\s*\)", ub))
    # the "already registered?" test must be the ABSENCE of the key: entries hold `false` between mark phases
    mg = re.search(r"Janet\s+(\w+)\s*=\s*janet_table_get\s*\(\s*&janet_vm\.threaded_abstracts\s*,\s*\*out\s*\)\s*;", ub)
    flags["unmarshalKnownTestIsAbsent"] = bool(mg and re.search(r"if\s*\(\s*janet_checktype\s*\(\s*%s\s*,\s*JANET_NIL\s*\)\s*\)\s*\{[^}]*janet_table_put" % mg.group(1), ub, re.S))
    # ---- run queue / wait discipline (Session 3: Model.lean `take`, `runTask`, `resume`, `handle`)
    popf = _corefn_body(ev, "cfun_channel_pop")
    flags["takeSchedulesSelf"] = bool(re.search(
        r"if\s*\(\s*janet_channel_pop\s*\(\s*channel\s*,\s*&item\s*,\s*0\s*\)\s*\)\s*\{\s*janet_schedule\s*\(\s*janet_vm\.root_fiber\s*,\s*item\s*\)\s*;\s*\}\s*janet_await\s*\(\s*\)\s*;", popf))
    pushf = _corefn_body(ev, "cfun_channel_push")
    flags["giveAwaitsWhenParked"] = bool(re.search(
        r"if\s*\(\s*janet_channel_push\s*\(\s*channel\s*,\s*argv\[1\]\s*,\s*0\s*\)\s*\)\s*\{\s*janet_await\s*\(\s*\)\s*;\s*\}", pushf))
    sg = func_body(ev, "janet_schedule_general")
    flags["scheduleBumpsPushesTail"] = bool(
        re.search(r"JanetTask\s+t\s*=\s*\{\s*fiber\s*,\s*value\s*,\s*sig\s*,\s*\+\+fiber->sched_id\s*\}\s*;", sg)
        and re.search(r"if\s*\(\s*soon\s*\)\s*\{\s*janet_q_push_head\s*\(\s*&janet_vm\.spawn\s*,\s*&t\s*,[^;]*;\s*\}\s*else\s*\{\s*janet_q_push\s*\(\s*&janet_vm\.spawn\s*,\s*&t\s*,", sg)
        and re.search(r"janet_schedule_general\s*\(\s*fiber\s*,\s*value\s*,\s*sig\s*,\s*0\s*\)", func_body(ev, "janet_schedule_signal"))
        and re.search(r"janet_schedule_signal\s*\(\s*fiber\s*,\s*value\s*,\s*JANET_SIGNAL_OK\s*\)", func_body(ev, "janet_schedule")))
    l1 = func_body(ev, "janet_loop1")
    ipop = l1.find("janet_q_pop(&janet_vm.spawn, &task, sizeof(task))")
    mchk = re.search(r"if\s*\(\s*task\.expected_sched_id\s*!=\s*task\.fiber->sched_id\s*\)\s*continue\s*;", l1)
    icont = l1.find("janet_continue_signal(task.fiber")
    flags["loopPopsHeadChecksExpected"] = bool(ipop >= 0 and mchk and ipop < mchk.start() < icont
                                               and re.search(r"while\s*\(\s*janet_vm\.spawn\.head\s*!=\s*janet_vm\.spawn\.tail\s*\)", l1))
    # janet_loop1 bumps the fiber's generation when it resumes a task: after the filter, before janet_continue_signal
    mb = re.search(r"task\.fiber->sched_id\s*\+\+\s*;|\+\+\s*task\.fiber->sched_id\s*;", l1)
    flags["loopBumpsSchedAtResume"] = bool(mb and mchk and mchk.end() <= mb.start() < icont)
    if mb and not flags["loopBumpsSchedAtResume"]:
        raise ExtractError("janet_loop1: `task.fiber->sched_id++` is not between the expected_sched_id filter and janet_continue_signal")
    # the pipe is read ONE event per read(), in order, until it is empty (edge-triggered registration: what is left is not reported again)
    flags["selfpipeOneEventPerReadUntilEmpty"] = bool(
        re.search(r"JanetSelfPipeEvent\s+response\s*;", hs)
        and re.search(r"status\s*=\s*read\s*\(\s*janet_vm\.selfpipe\[0\]\s*,\s*&response\s*,\s*sizeof\s*\(\s*response\s*\)\s*\)", hs)
        and re.search(r"if\s*\(\s*status\s*>\s*0\s*\)\s*\{.*response\.cb\s*\(\s*response\.msg\s*\).*goto\s+recur\s*;", hs, re.S)
        and re.search(r"recur\s*:", hs))
    # a pending entry carries the waiting fiber's CURRENT sched_id (ticket invariant of Thread/Order.lean)
    flags["pendingCarriesCurrentSchedId"] = bool(
        re.search(r"pending\.fiber\s*=\s*janet_vm\.root_fiber\s*,\s*pending\.sched_id\s*=\s*janet_vm\.root_fiber->sched_id\s*;", pop)
        and re.search(r"pending\.fiber\s*=\s*janet_vm\.root_fiber\s*,\s*pending\.sched_id\s*=\s*janet_vm\.root_fiber->sched_id\s*,", push))
    # the accepting branch of the callback schedules the fiber with the unpacked item (READ) / the channel (WRITE)
    flags["cbSchedulesFiber"] = bool(
        re.search(r"mode\s*==\s*JANET_CP_MODE_READ\s*\)\s*\{\s*janet_assert\s*\(\s*!\s*janet_chan_unpack\s*\(\s*channel\s*,\s*&x\s*,\s*0\s*\)[^;]*;\s*janet_schedule\s*\(\s*fiber\s*,\s*x\s*\)\s*;", cb)
        and re.search(r"mode\s*==\s*JANET_CP_MODE_WRITE\s*\)\s*\{\s*janet_schedule\s*\(\s*fiber\s*,\s*janet_wrap_channel\s*\(\s*channel\s*\)\s*\)\s*;", cb))
    sw = func_body(gc, "janet_sweep")
    flags["sweepDecrefFrees"] = bool(re.search(r"if\s*\(\s*!\s*janet_truthy\s*\(\s*items\[i\]\.value\s*\)\s*\)\s*\{[^}]*if\s*\(\s*0\s*==\s*janet_abstract_decref\s*\(\s*abst\s*\)\s*\)", sw, re.S)
                                     and "janet_free(janet_abstract_head(abst))" in sw)
    mk = func_body(gc, "janet_mark_abstract")
    flags["markSetsVisited"] = bool(re.search(r"janet_table_put\s*\(\s*&janet_vm\.threaded_abstracts\s*,[^;]*janet_wrap_true", mk))
    return {"flags": flags, "locks": locks, "hook_present": "janet_verif_sched_point" in ev}


def render(facts):
    f = facts["flags"]
    o = [lean_header("src/core/ev.c janet_thread_chan_cb / janet_thread_body, marsh.c threaded abstracts, gc.c sweep")]
    o.append("namespace JanetModel.Gen.Thread\n")
    for k in sorted(f):
        o.append("abbrev %s : Bool := %s" % (k, "true" if f[k] else "false"))
    o.append("\n-- janet_chan_lock / janet_chan_unlock call counts per function (lock discipline; informational)")
    for k in sorted(facts["locks"]):
        o.append("-- %s: %d lock, %d unlock" % (k, facts["locks"][k][0], facts["locks"][k][1]))
    o.append("\nend JanetModel.Gen.Thread")
    return "\n".join(o) + "\n"
