"""Translator for C08: shape facts of the threaded-channel / thread-call code -> lean/JanetModel/Gen/Thread.lean.

The Lean model (JanetModel/Thread/Model.lean) is parametrised by a configuration record; the facts below fix that
configuration for the *current* source, so that `Thread/Current.lean` (full theorems instantiated at this configuration)
is re-checked by the kernel against what the code does today.

Facts (each one is the presence / order of statements, checked on comment-stripped source):
  requeueOnNoReader    janet_thread_chan_cb, stale read message, no other pending reader: item goes back into channel->items
  requeueAtHead        ... with janet_q_push_head (front of the queue)
  redispatchToNext     janet_thread_chan_cb, stale read message: pops the next pending reader and posts the item to it
  cbChecksSchedId      janet_thread_chan_cb delivers only if fiber->sched_id == sched_id
  forwardOwnSchedId    a forwarded (re-dispatched) message takes fiber, mode AND sched_id from the next pending entry
  increfBeforeSend     marshal_one_abstract: janet_abstract_incref before the pointer of a threaded abstract is written
  unmarshalAccounts    unmarshal LB_THREADED_ABSTRACT: new table entry takes over the in-transit reference, else decref
  unmarshalKnownTestIsAbsent  ... and "new" means the key is absent (janet_checktype(check, JANET_NIL)), not "value is false"
  sweepDecrefFrees     gc sweep: unvisited threaded abstract -> decref, finalize+free at 0, entry removed
  chanDeinitDecrefsUndelivered  janet_chan_deinit hands every undelivered item to janet_chan_unpack(.., 1) = DECREF unmarshal,
                       whose LB_THREADED_ABSTRACT case gives the in-transit reference back (no table entry)
  decrefCleanupFreesAtZero  ... and finalizes + frees the object when that decrement reaches 0
  packFailureReturnsTransitRefs  janet_chan_pack's failure branch runs the same clean-up unmarshal on the partial buffer
  completionAfterBody  janet_thread_body: subr(msg) is evaluated before the completion record is written to the pipe
plus lock-discipline counts (critical sections are atomic steps in the model): any change there is an ExtractError
(= broken tie; the check then searches harder on the implementation)."""
import re

from .csrc import ExtractError, func_body, lean_header, match_brace, read, strip_comments


def _block_after(src, start_pat, what):
    m = re.search(start_pat, src)
    if not m:
        raise ExtractError("%s: pattern %r not found" % (what, start_pat))
    i = src.index("{", m.end() - 1) if src[m.end() - 1] != "{" else m.end() - 1
    return src[i:match_brace(src, i)], match_brace(src, i)


def _corefn_body(src, name):
    """body of JANET_CORE_FN(name, "sig", "doc") { ... }"""
    m = re.search(r"JANET_CORE_FN\s*\(\s*%s\s*," % re.escape(name), src)
    if not m:
        raise ExtractError("JANET_CORE_FN(%s, ...) not found" % name)
    i, depth, n = m.start() + len("JANET_CORE_FN"), 0, len(src)
    while src[i] != "(":
        i += 1
    while i < n:
        c = src[i]
        if c == '"':
            j = i + 1
            while src[j] != '"':
                j += 2 if src[j] == "\\" else 1
            i = j + 1
            continue
        if c == "(":
            depth += 1
        elif c == ")":
            depth -= 1
            if depth == 0:
                break
        i += 1
    j = src.index("{", i)
    return src[j:match_brace(src, j)]


def _body(src, name):
    return _corefn_body(src, name) if name.startswith("cfun_") else func_body(src, name)


_MASKS = {"0x1": 1, "0x2": 2, "0x4": 4, "0x8": 8, "JANET_THREAD_SUPERVISOR_FLAG": 256}


def _plan(body, what, write):
    """ordered list of (always, mask, wantSet, kind): the segments cfun_ev_thread writes / janet_go_thread_subr reads.
    A segment is recognised by what is marshalled / unmarshalled; its guard is the innermost enclosing `if ((!)(flags & M))`."""
    if write:
        pats = [("registry", r"janet_marshal\s*\(\s*buffer\s*,\s*janet_wrap_table\s*\(\s*janet_vm\.abstract_registry\s*\)"),
                ("supervisor", r"janet_marshal\s*\(\s*buffer\s*,\s*janet_wrap_abstract\s*\(\s*supervisor\s*\)"),
                ("cfuns", r"janet_buffer_push_bytes\s*\(\s*buffer\s*,\s*\(\s*uint8_t\s*\*\s*\)\s*janet_vm\.registry\s*,"),
                ("main", r"janet_marshal\s*\(\s*buffer\s*,\s*argv\[0\]\s*,"),
                ("value", r"janet_marshal\s*\(\s*buffer\s*,\s*value\s*,")]
    else:
        pats = [("registry", r"Janet\s+aregv\s*=\s*janet_unmarshal\s*\("),
                ("supervisor", r"Janet\s+sup\s*=\s*janet_unmarshal\s*\("),
                ("cfuns", r"memcpy\s*\(\s*janet_vm\.registry\s*,\s*nextbytes\s*,"),
                ("main", r"Janet\s+fiberv\s*=\s*janet_unmarshal\s*\("),
                ("value", r"Janet\s+value\s*=\s*janet_unmarshal\s*\(")]
    guards = []
    for m in re.finditer(r"if\s*\(\s*(!?)\s*\(?\s*flags\s*&\s*(0x[0-9a-fA-F]+|JANET_THREAD_SUPERVISOR_FLAG)\s*\)?\s*\)\s*\{", body):
        j = m.end() - 1
        if m.group(2) not in _MASKS:
            raise ExtractError("%s: unknown flag mask %s" % (what, m.group(2)))
        guards.append((j, match_brace(body, j), _MASKS[m.group(2)], m.group(1) != "!"))
    steps = []
    for kind, pat in pats:
        ms = list(re.finditer(pat, body))
        if len(ms) != 1:
            raise ExtractError("%s: expected exactly one %s of the %s segment, found %d" % (what, "write" if write else "read", kind, len(ms)))
        pos = ms[0].start()
        enc = [g for g in guards if g[0] < pos < g[1]]
        if len(enc) > 1:
            raise ExtractError("%s: %s segment under nested flag tests" % (what, kind))
        steps.append((pos, (False, enc[0][2], enc[0][3], kind) if enc else (True, 0, True, kind)))
    # nothing else may be written to / read from the buffer
    n_io = len(re.findall(r"janet_marshal\s*\(\s*buffer\s*,|janet_buffer_push_bytes\s*\(\s*buffer\s*,", body)) if write else \
        len(re.findall(r"janet_unmarshal\s*\(|memcpy\s*\(\s*[^,]*,\s*nextbytes\s*,", body))
    if n_io != (6 if write else 6):
        raise ExtractError("%s: %d buffer %s operations, expected 6 (5 segments; the cfunction registry is count + table)" % (what, n_io, "write" if write else "read"))
    return [st for _, st in sorted(steps)]


def extract(tree):
    ev = strip_comments(read(tree, "src/core/ev.c"))
    marsh = strip_comments(read(tree, "src/core/marsh.c"))
    gc = strip_comments(read(tree, "src/core/gc.c"))
    flags = {}
    # ---- janet_thread_chan_cb
    cb = func_body(ev, "janet_thread_chan_cb")
    # the local that holds the (still packed) item: `Janet x = msg.argj;` - whatever it is called
    mxv = re.search(r"\bJanet\s+(\w+)\s*=\s*msg\.argj\s*;", cb)
    if not mxv:
        raise ExtractError("janet_thread_chan_cb: `Janet <x> = msg.argj;` not found")
    xv = re.escape(mxv.group(1))
    flags["cbChecksSchedId"] = bool(re.search(r"if\s*\(\s*fiber->sched_id\s*==\s*sched_id\s*\)", cb))
    m = re.search(r"if\s*\(\s*is_read\s*\)\s*\{", cb)
    if not m:
        raise ExtractError("janet_thread_chan_cb: `if (is_read) {` branch not found")
    i = m.end() - 1
    rd = cb[i:match_brace(cb, i)]
    mpop = re.search(r"if\s*\(\s*!\s*janet_q_pop\s*\(\s*&channel->read_pending\s*,\s*&reader", rd)
    flags["redispatchToNext"] = bool(mpop and re.search(r"msg\.argj\s*=\s*%s\s*;[^}]*janet_ev_post_event\s*\(\s*vm\s*,\s*janet_thread_chan_cb" % xv, rd, re.S))
    # the forwarded message must carry the NEXT waiter's own sched_id (reader.sched_id / writer.sched_id)
    wr_m = re.search(r"if\s*\(\s*!\s*janet_q_pop\s*\(\s*&channel->write_pending\s*,\s*&writer[^{]*\{", cb)
    own_w = False
    if wr_m:
        wb = cb[wr_m.end() - 1:match_brace(cb, wr_m.end() - 1)]
        own_w = bool(re.search(r"msg\.argi\s*=\s*\(\s*int32_t\s*\)\s*writer\.sched_id\s*;", wb) and re.search(r"msg\.fiber\s*=\s*writer\.fiber\s*;", wb)
                     and re.search(r"msg\.tag\s*=\s*writer\.mode\s*;", wb))
    own_r = False
    if mpop:
        j0 = rd.index("{", mpop.end())
        rb = rd[j0:match_brace(rd, j0)]
        own_r = bool(re.search(r"msg\.argi\s*=\s*\(\s*int32_t\s*\)\s*reader\.sched_id\s*;", rb) and re.search(r"msg\.fiber\s*=\s*reader\.fiber\s*;", rb)
                     and re.search(r"msg\.tag\s*=\s*reader\.mode\s*;", rb))
    flags["forwardOwnSchedId"] = own_w and own_r
    requeue, head = False, False
    if mpop:
        j = rd.index("{", mpop.end())
        k = match_brace(rd, j)
        rest = rd[k:]
        me = re.match(r"\s*else\s*\{", rest)
        if me:
            eb = rest[me.end() - 1:match_brace(rest, me.end() - 1)]
            mq = re.search(r"janet_q_push(_head)?\s*\(\s*&channel->items\s*,\s*&%s\b" % xv, eb)
            requeue = bool(mq)
            head = bool(mq and mq.group(1))
    else:
        mq = re.search(r"janet_q_push(_head)?\s*\(\s*&channel->items\s*,\s*&%s\b" % xv, rd)
        requeue, head = bool(mq), bool(mq and mq.group(1))
    flags["requeueOnNoReader"] = requeue
    flags["requeueAtHead"] = head
    locks = {}
    for fn in ("janet_thread_chan_cb", "janet_channel_push_with_lock", "janet_channel_pop_with_lock", "janet_channel_push",
               "janet_channel_pop", "cfun_channel_close", "cfun_channel_choice", "cfun_channel_count", "janet_chan_deinit"):
        b = _body(ev, fn)
        locks[fn] = [len(re.findall(r"\bjanet_chan_lock\s*\(", b)), len(re.findall(r"\bjanet_chan_unlock\s*\(", b))]
    expect_min = {"janet_thread_chan_cb": [1, 1], "janet_channel_push_with_lock": [0, 6], "janet_channel_pop_with_lock": [0, 3],
                  "janet_channel_push": [1, 0], "janet_channel_pop": [1, 0], "cfun_channel_close": [1, 1], "cfun_channel_choice": [2, 2],
                  "cfun_channel_count": [1, 1], "janet_chan_deinit": [1, 1]}
    for fn, (a, b) in expect_min.items():
        if locks[fn][0] < a or locks[fn][1] < b:
            raise ExtractError("lock discipline changed in %s: %d lock / %d unlock calls (expected at least %d / %d); "
                               "critical sections are atomic steps of the model" % (fn, locks[fn][0], locks[fn][1], a, b))
    # lock must come before the first queue access in the callback
    il = cb.find("janet_chan_lock")
    iq = min([x for x in (cb.find("fiber->sched_id"), cb.find("janet_q_pop")) if x >= 0] or [-1])
    if il < 0 or iq < il:
        raise ExtractError("janet_thread_chan_cb touches fiber/queues before taking the channel lock")
    for fn in ("janet_os_mutex_lock", "janet_os_mutex_unlock"):
        for holder, pat in (("janet_chan_lock", "janet_os_mutex_lock"), ("janet_chan_unlock", "janet_os_mutex_unlock")):
            if pat not in func_body(ev, holder):
                raise ExtractError("%s no longer calls %s" % (holder, pat))
    # push: threaded path pops exactly one reader and posts
    push = func_body(ev, "janet_channel_push_with_lock")
    if not re.search(r"msg\.argj\s*=\s*x\s*;\s*janet_ev_post_event\s*\(\s*vm\s*,\s*janet_thread_chan_cb", push):
        raise ExtractError("janet_channel_push_with_lock: threaded hand-off (post x to the reader's loop) not recognised")
    if not re.search(r"janet_q_push\s*\(\s*&channel->items\s*,\s*&x", push):
        raise ExtractError("janet_channel_push_with_lock: push to items not recognised")
    pop = func_body(ev, "janet_channel_pop_with_lock")
    if not re.search(r"janet_q_pop\s*\(\s*&channel->items\s*,\s*item", pop):
        raise ExtractError("janet_channel_pop_with_lock: pop from items not recognised")
    post = func_body(ev, "janet_ev_post_event")
    if not re.search(r"write\s*\(\s*fd\s*,\s*&event\s*,\s*sizeof\s*\(\s*event\s*\)\s*\)", post):
        raise ExtractError("janet_ev_post_event: write of the event record not recognised")
    hs = func_body(ev, "janet_ev_handle_selfpipe")
    if not re.search(r"response\.cb\s*\(\s*response\.msg\s*\)", hs):
        raise ExtractError("janet_ev_handle_selfpipe: callback invocation not recognised")
    # ---- thread body: completion after body
    tb = None
    for m in re.finditer(r"static\s+void\s*\*\s*janet_thread_body\s*\(", ev):
        j = ev.index("{", m.end())
        tb = ev[j:match_brace(ev, j)]
    if tb is None:
        raise ExtractError("posix janet_thread_body not found")
    isub = tb.find("subr(msg)")
    iw = tb.find("write(fd")
    if isub < 0 or iw < 0:
        raise ExtractError("janet_thread_body: subr(msg) / write(fd, ...) not recognised")
    flags["completionAfterBody"] = bool(isub < iw and re.search(r"response\.msg\s*=\s*subr\s*\(\s*msg\s*\)", tb))
    go = func_body(ev, "janet_go_thread_subr")
    il2, id2 = go.find("janet_loop()"), go.find("janet_deinit()")
    if il2 < 0 or id2 < il2 or go.rfind("return args") < id2:
        flags["completionAfterBody"] = False
    # ---- reference counts
    ma = func_body(marsh, "marshal_one_abstract")
    ii, ip = ma.find("janet_abstract_incref(abstract)"), ma.find("pushbytes(st, (uint8_t *) &abstract")
    flags["increfBeforeSend"] = bool(0 <= ii < ip)
    mu = re.search(r"case\s+LB_THREADED_ABSTRACT\s*:\s*\{", marsh)
    if not mu:
        raise ExtractError("unmarshal case LB_THREADED_ABSTRACT not found")
    ub = marsh[mu.end() - 1:match_brace(marsh, mu.end() - 1)]
    flags["unmarshalAccounts"] = bool(re.search(r"janet_table_get\s*\(\s*&janet_vm\.threaded_abstracts", ub)
                                      and re.search(r"janet_table_put\s*\(\s*&janet_vm\.threaded_abstracts[^;]*janet_wrap_false", ub)
                                      and re.search(r"else\s*\{\s*janet_abstract_decref\s*\(\s*u\.ptr\s*\)", ub))
    # the "already registered?" test must be the ABSENCE of the key: entries hold `false` between mark phases
    mg = re.search(r"Janet\s+(\w+)\s*=\s*janet_table_get\s*\(\s*&janet_vm\.threaded_abstracts\s*,\s*\*out\s*\)\s*;", ub)
    flags["unmarshalKnownTestIsAbsent"] = bool(mg and re.search(r"if\s*\(\s*janet_checktype\s*\(\s*%s\s*,\s*JANET_NIL\s*\)\s*\)\s*\{[^}]*janet_table_put" % mg.group(1), ub, re.S))
    # ---- undelivered items of a collected thread channel (Model.lean `RAct.discard`):
    # janet_chan_deinit pops every item and hands it to janet_chan_unpack(.., is_cleanup = 1); janet_chan_unpack passes
    # JANET_MARSHAL_DECREF when is_cleanup (checked below as part of unpackUsesUnmarshalUnsafe's pattern, repeated here);
    # the DECREF branch of the LB_THREADED_ABSTRACT case decrements u.ptr and creates no table entry
    dei = func_body(ev, "janet_chan_deinit")
    # structural: the drain loop is a DIRECT child statement of the threaded branch (not under a further condition), its body is
    # exactly one call janet_chan_unpack(chan, &<item>, 1)
    from . import threadlock as _tl
    loop_ok = False
    top = _tl._nodes(dei.strip()[1:-1])
    thr = [n for n in top if n[0] == "if" and re.fullmatch(r"\s*janet_chan_is_threaded\s*\(\s*chan\s*\)\s*", n[1])]
    if len(thr) == 1 and thr[0][2] is not None and thr[0][2][0] == "block":
        loops = [n for n in thr[0][2][1] if n[0] == "loop" and re.search(r"janet_q_pop\s*\(\s*&chan->items\b", n[1])]
        if len(loops) == 1:
            mh = re.fullmatch(r"\s*!\s*janet_q_pop\s*\(\s*&chan->items\s*,\s*&(\w+)\s*,\s*sizeof\s*\(\s*(?:\1|Janet)\s*\)\s*\)\s*", loops[0][1])
            body = loops[0][2]
            stmts = body[1] if body is not None and body[0] == "block" else ([body] if body is not None else [])
            if mh and len(stmts) == 1 and stmts[0][0] == "stmt":
                loop_ok = bool(re.fullmatch(r"(?:\(\s*void\s*\)\s*)?janet_chan_unpack\s*\(\s*chan\s*,\s*&%s\s*,\s*1\s*\)\s*;" % mh.group(1), stmts[0][1].strip()))
    upk = func_body(ev, "janet_chan_unpack")
    cleanup_flag = bool(re.search(r"is_cleanup\s*\?\s*\(\s*JANET_MARSHAL_UNSAFE\s*\|\s*JANET_MARSHAL_DECREF\s*\)\s*:\s*JANET_MARSHAL_UNSAFE", upk)
                        and re.search(r"janet_unmarshal\s*\(\s*buf->data\s*,\s*buf->count\s*,\s*flags\s*,", upk))
    mdec = re.search(r"if\s*\(\s*flags\s*&\s*JANET_MARSHAL_DECREF\s*\)\s*\{", ub)
    dec_branch = ub[mdec.end() - 1:match_brace(ub, mdec.end() - 1)] if mdec else ""
    n_dec = len(re.findall(r"janet_abstract_decref\s*\(\s*u\.ptr\s*\)", dec_branch))
    flags["chanDeinitDecrefsUndelivered"] = bool(loop_ok and cleanup_flag and n_dec == 1 and "janet_table_put" not in dec_branch
                                                 and re.search(r"\*out\s*=\s*janet_wrap_nil\s*\(\s*\)\s*;", dec_branch))
    # ... and finalizes + frees when that decrement reaches 0 (as the sweep does)
    mz = re.search(r"if\s*\(\s*(?:0\s*==\s*janet_abstract_decref\s*\(\s*u\.ptr\s*\)|janet_abstract_decref\s*\(\s*u\.ptr\s*\)\s*==\s*0|!\s*janet_abstract_decref\s*\(\s*u\.ptr\s*\))\s*\)\s*\{", dec_branch)
    zb = dec_branch[mz.end() - 1:match_brace(dec_branch, mz.end() - 1)] if mz else ""
    flags["decrefCleanupFreesAtZero"] = bool(mz and re.search(r"->type->gc\s*\(", zb) and re.search(r"janet_free\s*\(", zb))
    # ---- a give that fails to pack (Model.lean `RAct.failSend`): janet_chan_pack catches the panic of janet_marshal and, before it
    # discards the partial buffer, gives back the references taken for the transit (clean-up unmarshal with DECREF)
    pkb = func_body(ev, "janet_chan_pack")
    mf = re.search(r"if\s*\(\s*sig\s*\)\s*\{", pkb)
    fb = pkb[mf.end() - 1:match_brace(pkb, mf.end() - 1)] if mf else ""
    idec, idis = fb.find("JANET_MARSHAL_DECREF"), fb.find("janet_buffer_deinit")
    flags["packFailureReturnsTransitRefs"] = bool(
        mf and re.search(r"\bjanet_try\s*\(", pkb)
        and re.search(r"janet_unmarshal\s*\(\s*buf->data\s*,\s*buf->count\s*,\s*JANET_MARSHAL_UNSAFE\s*\|\s*JANET_MARSHAL_DECREF\s*,", fb)
        and 0 <= idec < idis and re.search(r"return\s+1\s*;", fb))
    # ---- run queue / wait discipline (Session 3: Model.lean `take`, `runTask`, `resume`, `handle`)
    popf = _corefn_body(ev, "cfun_channel_pop")
    flags["takeSchedulesSelf"] = bool(re.search(
        r"if\s*\(\s*janet_channel_pop\s*\(\s*channel\s*,\s*&item\s*,\s*0\s*\)\s*\)\s*\{\s*janet_schedule\s*\(\s*janet_vm\.root_fiber\s*,\s*item\s*\)\s*;\s*\}\s*janet_await\s*\(\s*\)\s*;", popf))
    pushf = _corefn_body(ev, "cfun_channel_push")
    flags["giveAwaitsWhenParked"] = bool(re.search(
        r"if\s*\(\s*janet_channel_push\s*\(\s*channel\s*,\s*argv\[1\]\s*,\s*0\s*\)\s*\)\s*\{\s*janet_await\s*\(\s*\)\s*;\s*\}", pushf))
    sg = func_body(ev, "janet_schedule_general")
    flags["scheduleBumpsPushesTail"] = bool(
        re.search(r"JanetTask\s+t\s*=\s*\{\s*fiber\s*,\s*value\s*,\s*sig\s*,\s*\+\+fiber->sched_id\s*\}\s*;", sg)
        and re.search(r"if\s*\(\s*soon\s*\)\s*\{\s*janet_q_push_head\s*\(\s*&janet_vm\.spawn\s*,\s*&t\s*,[^;]*;\s*\}\s*else\s*\{\s*janet_q_push\s*\(\s*&janet_vm\.spawn\s*,\s*&t\s*,", sg)
        and re.search(r"janet_schedule_general\s*\(\s*fiber\s*,\s*value\s*,\s*sig\s*,\s*0\s*\)", func_body(ev, "janet_schedule_signal"))
        and re.search(r"janet_schedule_signal\s*\(\s*fiber\s*,\s*value\s*,\s*JANET_SIGNAL_OK\s*\)", func_body(ev, "janet_schedule")))
    l1 = func_body(ev, "janet_loop1")
    ipop = l1.find("janet_q_pop(&janet_vm.spawn, &task, sizeof(task))")
    mchk = re.search(r"if\s*\(\s*task\.expected_sched_id\s*!=\s*task\.fiber->sched_id\s*\)\s*continue\s*;", l1)
    icont = l1.find("janet_continue_signal(task.fiber")
    flags["loopPopsHeadChecksExpected"] = bool(ipop >= 0 and mchk and ipop < mchk.start() < icont
                                               and re.search(r"while\s*\(\s*janet_vm\.spawn\.head\s*!=\s*janet_vm\.spawn\.tail\s*\)", l1))
    # janet_loop1 bumps the fiber's generation when it resumes a task: after the filter, before janet_continue_signal
    mb = re.search(r"task\.fiber->sched_id\s*\+\+\s*;|\+\+\s*task\.fiber->sched_id\s*;", l1)
    flags["loopBumpsSchedAtResume"] = bool(mb and mchk and mchk.end() <= mb.start() < icont)
    if mb and not flags["loopBumpsSchedAtResume"]:
        raise ExtractError("janet_loop1: `task.fiber->sched_id++` is not between the expected_sched_id filter and janet_continue_signal")
    # the pipe is read ONE event per read(), in order, until it is empty (edge-triggered registration: what is left is not reported again)
    flags["selfpipeOneEventPerReadUntilEmpty"] = bool(
        re.search(r"JanetSelfPipeEvent\s+response\s*;", hs)
        and re.search(r"status\s*=\s*read\s*\(\s*janet_vm\.selfpipe\[0\]\s*,\s*&response\s*,\s*sizeof\s*\(\s*response\s*\)\s*\)", hs)
        and re.search(r"if\s*\(\s*status\s*>\s*0\s*\)\s*\{.*response\.cb\s*\(\s*response\.msg\s*\).*goto\s+recur\s*;", hs, re.S)
        and re.search(r"recur\s*:", hs))
    # a pending entry carries the waiting fiber's CURRENT sched_id (ticket invariant of Thread/Order.lean)
    flags["pendingCarriesCurrentSchedId"] = bool(
        re.search(r"pending\.fiber\s*=\s*janet_vm\.root_fiber\s*,\s*pending\.sched_id\s*=\s*janet_vm\.root_fiber->sched_id\s*;", pop)
        and re.search(r"pending\.fiber\s*=\s*janet_vm\.root_fiber\s*,\s*pending\.sched_id\s*=\s*janet_vm\.root_fiber->sched_id\s*,", push))
    # the accepting branch of the callback schedules the fiber with the unpacked item (READ) / the channel (WRITE)
    flags["cbSchedulesFiber"] = bool(
        re.search(r"mode\s*==\s*JANET_CP_MODE_READ\s*\)\s*\{\s*janet_assert\s*\(\s*!\s*janet_chan_unpack\s*\(\s*channel\s*,\s*&%s\s*,\s*0\s*\)[^;]*;\s*janet_schedule\s*\(\s*fiber\s*,\s*%s\s*\)\s*;" % (xv, xv), cb)
        and re.search(r"mode\s*==\s*JANET_CP_MODE_WRITE\s*\)\s*\{\s*janet_schedule\s*\(\s*fiber\s*,\s*janet_wrap_channel\s*\(\s*channel\s*\)\s*\)\s*;", cb))
    # ---- ev/thread hand-over (Thread/Spawn.lean): write plan of cfun_ev_thread, read plan of janet_go_thread_subr
    evt = _corefn_body(ev, "cfun_ev_thread")
    wplan = _plan(evt, "cfun_ev_thread", write=True)
    rplan = _plan(go, "janet_go_thread_subr", write=False)
    n_unsafe_w = len(re.findall(r"janet_marshal\s*\(\s*buffer\s*,[^;]*JANET_MARSHAL_UNSAFE\s*\)", evt))
    n_marsh_w = len(re.findall(r"janet_marshal\s*\(\s*buffer\s*,", evt))
    n_unsafe_r = len(re.findall(r"janet_unmarshal\s*\([^;]*JANET_MARSHAL_UNSAFE\s*,\s*NULL\s*,\s*&nextbytes\s*\)", go))
    n_unm_r = len(re.findall(r"janet_unmarshal\s*\(", go))
    flags["threadArgsUnsafeBothSides"] = bool(n_marsh_w == n_unsafe_w >= 2 and n_unm_r == n_unsafe_r >= 2)
    # the same flag word on both sides (msg.tag), the buffer travels in msg.argp of exactly one threaded call and is freed once by the subroutine
    flags["threadFlagsInTag"] = bool(re.search(r"arguments\.tag\s*=\s*\(\s*uint32_t\s*\)\s*flags\s*;", evt)
                                     and re.search(r"janet_ev_threaded_await\s*\(\s*janet_go_thread_subr\s*,\s*\(\s*uint32_t\s*\)\s*flags\s*,", evt)
                                     and re.search(r"uint32_t\s+flags\s*=\s*args\.tag\s*;", go))
    flags["threadBufferOneThreadFreedOnce"] = bool(
        len(re.findall(r"janet_ev_threaded_call\s*\(|janet_ev_threaded_await\s*\(", evt)) == 2
        and re.search(r"arguments\.argp\s*=\s*buffer\s*;", evt) and re.search(r"janet_ev_threaded_await\s*\([^;]*,\s*buffer\s*\)\s*;", evt)
        and len(re.findall(r"janet_free\s*\(\s*buffer\s*\)", go)) == 1 and len(re.findall(r"janet_buffer_deinit\s*\(\s*buffer\s*\)", go)) == 1
        and len(re.findall(r"pthread_create\s*\(", func_body(ev, "janet_ev_threaded_call"))) == 1
        and re.search(r"init->msg\s*=\s*arguments\s*;", func_body(ev, "janet_ev_threaded_call")))
    # the new thread resumes `main` with `value` and supervises it with the unmarshalled channel
    flags["threadSchedulesMainWithValue"] = bool(re.search(r"fiber->supervisor_channel\s*=\s*janet_vm\.user\s*;\s*janet_schedule\s*\(\s*fiber\s*,\s*value\s*\)\s*;\s*janet_loop\s*\(\s*\)\s*;", go))
    # ---- supervisor events are mode-2 pushes (Model.lean `giveNB`); ev/give-supervisor is an ordinary give
    flags["supervisorEventIsMode2Push"] = bool(
        # either the plain mode-2 push, or (since repo 046c08b) lock; closed -> no push (the model's `giveNB` on a closed
        # channel is a no-op); else push_with_lock mode 2
        (re.search(r"janet_channel_push\s*\(\s*chan\s*,\s*make_supervisor_event\s*\(\s*janet_signal_names\[sig\]\s*,\s*task\.fiber\s*,\s*chan->is_threaded\s*\)\s*,\s*2\s*\)", l1)
         or re.search(r"janet_chan_lock\s*\(\s*chan\s*\)\s*;\s*if\s*\(\s*chan->closed\s*\)\s*\{\s*janet_chan_unlock\s*\(\s*chan\s*\)\s*;.*?\}\s*else\s*\{\s*"
                      r"janet_channel_push_with_lock\s*\(\s*chan\s*,\s*make_supervisor_event\s*\(\s*janet_signal_names\[sig\]\s*,\s*task\.fiber\s*,\s*chan->is_threaded\s*\)\s*,\s*2\s*\)\s*;\s*\}", l1, re.S))
        and re.search(r"janet_channel_push\s*\(\s*\(\s*JanetChannel\s*\*\s*\)\s*supervisor\s*,[^;]*,\s*2\s*\)\s*;", go))
    # informational (not an obligation): a supervisor event for a CLOSED channel is skipped instead of panicking outside any fiber
    flags["supervisorPushClosedSafe"] = bool(re.search(r"janet_chan_lock\s*\(\s*chan\s*\)\s*;\s*if\s*\(\s*chan->closed\s*\)\s*\{\s*janet_chan_unlock\s*\(\s*chan\s*\)", l1))
    gs = _corefn_body(ev, "cfun_ev_give_supervisor")
    flags["giveSupervisorIsGive"] = bool(re.search(r"if\s*\(\s*janet_channel_push\s*\(\s*chan\s*,[^;]*,\s*0\s*\)\s*\)\s*\{\s*janet_await\s*\(\s*\)\s*;", gs))
    # mode 2 never registers a pending writer: the early return sits before the write_pending push
    im2 = re.search(r"if\s*\(\s*mode\s*==\s*2\s*\)\s*\{\s*janet_chan_unlock\s*\(\s*channel\s*\)\s*;\s*return\s+1\s*;\s*\}", push)
    iwp = push.find("janet_q_push(&channel->write_pending")
    flags["mode2NeverParks"] = bool(im2 and iwp >= 0 and im2.end() <= iwp)
    # ---- message payload codec (Thread/Payload.lean): pack = janet_marshal UNSAFE, unpack = janet_unmarshal UNSAFE, same passthrough set
    pk, up = func_body(ev, "janet_chan_pack"), func_body(ev, "janet_chan_unpack")
    flags["packUsesMarshalUnsafe"] = bool(re.search(r"default\s*:\s*\{.*?janet_marshal\s*\(\s*buf\s*,\s*\*x\s*,\s*NULL\s*,\s*JANET_MARSHAL_UNSAFE\s*\)\s*;.*?\*x\s*=\s*janet_wrap_buffer\s*\(\s*buf\s*\)", pk, re.S)
                                          and len(re.findall(r"\bjanet_marshal\s*\(", pk)) == 1)
    flags["unpackUsesUnmarshalUnsafe"] = bool(
        re.search(r"case\s+JANET_BUFFER\s*:\s*\{[^}]*int\s+flags\s*=\s*is_cleanup\s*\?\s*\(\s*JANET_MARSHAL_UNSAFE\s*\|\s*JANET_MARSHAL_DECREF\s*\)\s*:\s*JANET_MARSHAL_UNSAFE\s*;\s*"
                  r"\*x\s*=\s*janet_unmarshal\s*\(\s*buf->data\s*,\s*buf->count\s*,\s*flags\s*,\s*NULL\s*,\s*NULL\s*\)", up, re.S)
        and re.search(r"default\s*:\s*return\s+1\s*;", up))

    def raw_cases(b):
        return sorted(set(re.findall(r"case\s+(JANET_[A-Z]+)\s*:", b)) - {"JANET_BUFFER"})
    flags["packUnpackSamePassthrough"] = bool(raw_cases(pk) == raw_cases(up) == ["JANET_BOOLEAN", "JANET_CFUNCTION", "JANET_NIL", "JANET_NUMBER", "JANET_POINTER"])
    # JANET_MARSHAL_UNSAFE is consulted in pointer-like cases only (C09's data-graph theorem is flag independent)
    ctxs = []
    for m in re.finditer(r"JANET_MARSHAL_UNSAFE", marsh):
        if re.match(r"\s+0x", marsh[m.end():m.end() + 8]):
            continue
        back = marsh[:m.start()]
        c1 = list(re.finditer(r"case\s+(\w+)\s*:", back))
        f1 = list(re.finditer(r"\n(?:static\s+)?[\w \*]+?\b(\w+)\s*\([^;{)]*\)\s*\{", back))
        ci, fi = (c1[-1].start() if c1 else -1), (f1[-1].start() if f1 else -1)
        name = c1[-1].group(1) if ci > fi else (f1[-1].group(1) if f1 else "?")
        ctxs.append(name)
    allowed = {"janet_marshal_ptr", "marshal_one_abstract", "JANET_BUFFER", "JANET_CFUNCTION", "JANET_POINTER", "janet_unmarshal_ptr",
               "LB_UNSAFE_POINTER", "LB_POINTER_BUFFER", "LB_UNSAFE_CFUNCTION", "LB_THREADED_ABSTRACT"}
    flags["unsafeFlagOnlyPointerLike"] = bool(ctxs and set(ctxs) <= allowed)
    if not flags["unsafeFlagOnlyPointerLike"]:
        flags["unsafeFlagOnlyPointerLike"] = False
    unsafe_ctxs = sorted(set(ctxs))
    # ---- lock types (ev/lock, ev/rwlock): threaded abstracts without marshal hooks, finalizer = deinit of the OS primitive,
    # every operation locks / unlocks the primitive inside the abstract's memory (RAct.use)
    def type_init(name):
        m = re.search(r"const\s+JanetAbstractType\s+%s\s*=\s*\{([^}]*)\}" % name, ev)
        if not m:
            raise ExtractError("abstract type %s not found" % name)
        return [x.strip() for x in m.group(1).split(",") if x.strip()]
    mt, rt = type_init("janet_mutex_type"), type_init("janet_rwlock_type")
    flags["lockTypesNoMarshalHook"] = bool(mt == ['"core/lock"', "mutexgc", "JANET_ATEND_GC"] and rt == ['"core/rwlock"', "rwlockgc", "JANET_ATEND_GC"])
    flags["lockTypesThreaded"] = bool(
        re.search(r"janet_abstract_threaded\s*\(\s*&janet_mutex_type\s*,\s*janet_os_mutex_size\s*\(\s*\)\s*\)\s*;\s*janet_os_mutex_init\s*\(\s*mutex\s*\)", _corefn_body(ev, "janet_cfun_mutex"))
        and re.search(r"janet_abstract_threaded\s*\(\s*&janet_rwlock_type\s*,\s*janet_os_rwlock_size\s*\(\s*\)\s*\)\s*;\s*janet_os_rwlock_init\s*\(\s*rwlock\s*\)", _corefn_body(ev, "janet_cfun_rwlock")))
    flags["lockFinalizerDeinitsOnly"] = bool(
        re.fullmatch(r"\{\s*\(void\)\s*size\s*;\s*janet_os_mutex_deinit\s*\(\s*p\s*\)\s*;\s*return\s+0\s*;\s*\}", func_body(ev, "mutexgc").strip())
        and re.fullmatch(r"\{\s*\(void\)\s*size\s*;\s*janet_os_rwlock_deinit\s*\(\s*p\s*\)\s*;\s*return\s+0\s*;\s*\}", func_body(ev, "rwlockgc").strip()))
    ops = [("janet_cfun_mutex_acquire", "janet_mutex_type", "janet_os_mutex_lock"), ("janet_cfun_mutex_release", "janet_mutex_type", "janet_os_mutex_unlock"),
           ("janet_cfun_rwlock_read_lock", "janet_rwlock_type", "janet_os_rwlock_rlock"), ("janet_cfun_rwlock_write_lock", "janet_rwlock_type", "janet_os_rwlock_wlock"),
           ("janet_cfun_rwlock_read_release", "janet_rwlock_type", "janet_os_rwlock_runlock"), ("janet_cfun_rwlock_write_release", "janet_rwlock_type", "janet_os_rwlock_wunlock")]
    flags["lockOpsUseAbstractMemory"] = all(
        re.search(r"void\s*\*\s*(\w+)\s*=\s*janet_getabstract\s*\(\s*argv\s*,\s*0\s*,\s*&%s\s*\)\s*;\s*%s\s*\(\s*\1\s*\)\s*;\s*return\s+argv\[0\]\s*;" % (ty, fn), _corefn_body(ev, cf))
        for cf, ty, fn in ops)
    # in marshal_one_abstract the threaded (pointer + incref) path is taken before any type hook is consulted
    ithr, ihook = ma.find("LB_THREADED_ABSTRACT"), ma.find("at->marshal")
    flags["threadedPathBeforeTypeHook"] = bool(0 <= ithr < ihook and re.search(r"MARK_SEEN\s*\(\s*\)\s*;\s*return\s*;", ma[ithr:ihook]))
    sw = func_body(gc, "janet_sweep")
    flags["sweepDecrefFrees"] = bool(re.search(r"if\s*\(\s*!\s*janet_truthy\s*\(\s*items\[i\]\.value\s*\)\s*\)\s*\{[^}]*if\s*\(\s*0\s*==\s*janet_abstract_decref\s*\(\s*abst\s*\)\s*\)", sw, re.S)
                                     and "janet_free(janet_abstract_head(abst))" in sw)
    mk = func_body(gc, "janet_mark_abstract")
    flags["markSetsVisited"] = bool(re.search(r"janet_table_put\s*\(\s*&janet_vm\.threaded_abstracts\s*,[^;]*janet_wrap_true", mk))
    return {"flags": flags, "locks": locks, "hook_present": "janet_verif_sched_point" in ev, "wplan": wplan, "rplan": rplan, "unsafe_ctxs": unsafe_ctxs}


def render(facts):
    f = facts["flags"]
    o = [lean_header("src/core/ev.c janet_thread_chan_cb / janet_thread_body, marsh.c threaded abstracts, gc.c sweep")]
    o.append("import JanetModel.Thread.Spawn\n")
    o.append("namespace JanetModel.Gen.Thread\n")
    for k in sorted(f):
        o.append("abbrev %s : Bool := %s" % (k, "true" if f[k] else "false"))

    def plan(name, steps, doc):
        o.append("\n/-- %s -/" % doc)
        o.append("abbrev %s : List JanetModel.Thread.Spawn.PStep := [%s]" % (name, ", ".join(
            "⟨%s, %d, %s, .%s⟩" % ("true" if a else "false", m, "true" if w else "false", k) for a, m, w, k in steps)))
    plan("threadWritePlan", facts["wplan"], "cfun_ev_thread: segments marshalled into the start-up buffer, in order (always, mask, wantSet, kind)")
    plan("threadReadPlan", facts["rplan"], "janet_go_thread_subr: segments read back from the buffer, in order")
    o.append("\n-- JANET_MARSHAL_UNSAFE is consulted in: %s" % ", ".join(facts.get("unsafe_ctxs", [])))
    o.append("\n-- janet_chan_lock / janet_chan_unlock call counts per function (lock discipline; informational)")
    for k in sorted(facts["locks"]):
        o.append("-- %s: %d lock, %d unlock" % (k, facts["locks"][k][0], facts["locks"][k][1]))
    o.append("\nend JanetModel.Gen.Thread")
    return "\n".join(o) + "\n"
