"""Translator for C20: path-level guards of the listener_count sites  ->  Gen/CounterPaths.lean

Every function that increments / decrements `janet_vm.listener_count` (janet_ev_inc_refcount / janet_ev_dec_refcount /
janet_atomic_inc|dec(&…listener_count)) is walked path by path with the statement parser of tools/gen/fdpaths.py.  What is
emitted per path is NOT the text of the enclosing conditions (that was `Gen.Loop.counterSites`, compared literally until
session 4) but the *branches taken*, as literals over a small vocabulary of atoms declared below per function:

    assume a b     the path took the branch on which atom number a of the function's vocabulary has truth value b
    inc k / dec k  counter site number k of the function (source order) is executed

Conditions are decomposed first: `a && b`, `a || b`, `!a` fork with short-circuit semantics, so `if (a && b) X` and
`if (a) { if (b) X }` and `if (!a) goto out; if (!b) goto out; X; out:` give the same literals; a leaf is brought to a
normal form (`x != NULL`, `NULL != x`, `x` ; `x > 0`, `0 < x`, `!(x <= 0)` ; `a != b`, `!(a == b)`, operands in either order)
and then matched against the vocabulary (regular expressions in which the names of C locals are wildcards); a local
`int x = e;` that is assigned nowhere else is replaced by `e` when it is used as a condition.  A leaf that matches no atom forks
without a literal.  A literal dies when something its text mentions is assigned later on the path (the atom then means the value
at its first test; later tests fork without a literal); a branch that contradicts a live literal is not followed.

Loops: a loop (while / for / do-while, or a top-level label that is the target of a later `goto`) is a CUT POINT: a path runs from
the function entry or from a loop head to the next arrival at a loop head (exit kind `loop`), a return / end of the function, a
raise, or a call that ends the process (abort / exit).  Loops that contain no counter site are unrolled twice as in fdpaths.py.
So a `goto`-loop and the same loop written `for (;;) { … break; … }` produce the same set of (literals, sites) per iteration.

Lean (`Loop/CounterPaths.lean`, `Props/C20.lean`) checks, for every emitted path and EVERY truth assignment of the function's
atoms that is consistent with the path's literals (truth table by `decide`), that the number of increments / decrements on the
path is exactly what the event-loop model's transition for that operation does under that assignment (`counter_paths_ok`); a
condition that matters but is not in the vocabulary therefore breaks the obligation (two paths with the same literals, one
with and one without the site).  The enumeration of the paths is this script's; Lean checks each emitted path, that every site
of `Gen.Loop.counterSites` lies on some path and vice versa.
"""
import re
from .csrc import ExtractError, lean_header
from .loop import preprocess, functions, _ws, _lstr
from .fds import RAISE_RX
from . import fdpaths
from .fdpaths import Walker, _paren, _parse_nodes, _uniq, _strip_parens, _split_top, PANIC_RX

SITE_RX = r"janet_ev_(inc|dec)_refcount\s*\(\s*\)|janet_atomic_(inc|dec)\s*\(\s*&\s*[\w.>-]*listener_count\s*\)"
NORETURN_RX = r"abort|exit|_exit|_Exit"
NULLS = ("((void*)0)", "(void*)0", "0")

# (file, function, [(tag, regular expression for the normal form of the leaf condition)]) — ORDER MATTERS: the position of a tag is
# the atom number the Lean specification (Loop/CounterPaths.lean `vocab`) uses; Lean checks the emitted table against its own.
# `case:<switch head regex>:<label>` = the switch on that head is entered at the group of labels containing <label>.
FUNCS = [
    ("ev.c", "janet_async_end", [("listening", r"\w+->ev_callback"), ("in-flight", r"\w+->flags&0x1")]),
    ("ev.c", "janet_async_start_fiber", []),
    ("ev.c", "janet_loop1", [("runnable", r"janet_vm\.spawn\.head==janet_vm\.spawn\.tail"),       # literal polarity: see INVERT
                             ("interrupted", r"janet_vm\.auto_suspend"),
                             ("was-suspended", r"\w+\.fiber->gc\.flags&0x20000"),
                             ("task-current", r"(\w+)\.expected_sched_id==\1\.fiber->sched_id|(\w+)\.fiber->sched_id==\2\.expected_sched_id"),
                             ("sig-event", r"JANET_SIGNAL_EVENT==\w+|\w+==JANET_SIGNAL_EVENT"),
                             ("sig-yield", r"JANET_SIGNAL_YIELD==\w+|\w+==JANET_SIGNAL_YIELD"),
                             ("sig-interrupt", r"JANET_SIGNAL_INTERRUPT==\w+|\w+==JANET_SIGNAL_INTERRUPT")]),
    ("ev.c", "janet_ev_handle_selfpipe", [("got-event", r"\w+>0"), ("has-cb", r"\w+\.cb")]),
    ("ev.c", "janet_ev_post_event", []),
    ("ev.c", "janet_ev_threaded_call", []),
    ("gc.c", "janet_deinit_block", [("is-fiber", r"case:\w+->flags&0xFF:JANET_MEMORY_FIBER"), ("has-ev-state", r"\w+->ev_state"),
                                    ("in-flight", r"\w+->flags&0x1")]),
]
# atoms whose regular expression describes the NEGATION of what the tag says (equalities are normalised to `==`)
INVERT = {("janet_loop1", "runnable")}


# ------------------------------------------------------------------------------------------------ leaf normal form

def _bin(c, op):
    """c == `a op b` at top level with exactly one occurrence, neither side ending / starting in an operator character"""
    parts = _split_top(c, op)
    if len(parts) != 2 or not parts[0] or not parts[1]:
        return None
    a, b = parts
    if a[-1] in "<>!=+-*/&|^%" or b[0] in "=<>":
        return None
    return _strip_parens(a), _strip_parens(b)


def norm_leaf(c):
    """-> (text, polarity): the leaf condition holds  <=>  (text holds) == polarity"""
    c = _strip_parens(c)
    neg = False
    while c.startswith("!") and not c.startswith("!="):
        c = _strip_parens(c[1:])
        neg = not neg
    pol = not neg
    for op, eq in (("==", True), ("!=", False)):
        ab = _bin(c, op)
        if ab:
            a, b = ab
            if a in NULLS or b in NULLS:
                x = b if a in NULLS else a
                t, p = norm_leaf(x)
                return t, (p != eq) == pol
            return "==".join(sorted([a, b])), eq == pol
    # x > 0 and its spellings
    for op, swap, k, p in ((">", False, "0", True), ("<=", False, "0", False), (">=", False, "1", True), ("<", False, "1", False),
                           ("<", True, "0", True), (">=", True, "0", False), ("<=", True, "1", True), (">", True, "1", False)):
        ab = _bin(c, op)
        if ab:
            a, b = (ab[1], ab[0]) if swap else ab
            if b == k and re.match(r"^[A-Za-z_][\w.\->\[\]]*$", a):
                return a + ">0", p == pol
    return c, pol


class CState:
    __slots__ = ("start", "events", "lits", "dead")

    def __init__(self, start="entry", events=(), lits=(), dead=()):
        self.start, self.events, self.lits, self.dead = start, tuple(events), tuple(sorted(lits)), tuple(sorted(dead))

    def key(self):
        return (self.start, self.events, self.lits, self.dead)

    def with_event(self, ev):
        return CState(self.start, self.events + (ev,), self.lits, self.dead)

    def assume(self, tag, text, val):
        """None if this contradicts a live literal; unchanged (no literal) if the atom is dead; else the extended state"""
        if tag in self.dead:
            return self
        for t, _x, v in self.lits:
            if t == tag:
                return self if v == val else None
        return CState(self.start, self.events + (("assume", tag, val),), self.lits + ((tag, text, val),), self.dead)

    def kill(self, lvalue):
        hit = [t for t, x, _v in self.lits if re.search(r"(?<![\w.>])" + re.escape(lvalue) + r"(?![\w\[])", x)]
        if not hit:
            return self
        return CState(self.start, self.events, [l for l in self.lits if l[0] not in hit], set(self.dead) | set(hit))


class CounterWalker(Walker):
    def __init__(self, fn, top, atoms, body):
        Walker.__init__(self, fn, top)
        self.atoms = atoms
        self.seen = set()
        self.rx = re.compile(r"(?<![\w.>])(__ctr_site_(\d+)_(inc|dec|mark)|" + NORETURN_RX + "|" + PANIC_RX + "|" + RAISE_RX + r")\s*\(")
        # locals `int x = e;` assigned nowhere else
        self.defs = {}
        for m in re.finditer(r"(?<![\w.>])(?:int|_Bool|bool)\s+([A-Za-z_]\w*)\s*=(?!=)\s*([^;{}]+);", body):
            x = m.group(1)
            others = [o for o in re.finditer(r"(?<![\w.>])%s\s*(?:(?:[-+*/|&^%%]|<<|>>)?=(?!=)|\+\+|--)" % re.escape(x), body) if o.start() != m.start(1)]
            pre = re.search(r"(?:\+\+|--)\s*%s\b" % re.escape(x), body)
            if not others and not pre and not re.search(r"&\s*%s\b" % re.escape(x), body.replace("&&", "  ")):
                self.defs[x] = m.group(2)
        # top-level labels that are the target of a goto placed after them: loop heads
        self.loop_labels = set()
        for i, n in enumerate(top):
            if n[0] == "label" and not n[1].startswith("case") and n[1] != "default":
                if any(re.search(r"\bgoto\s+%s\s*;" % re.escape(n[1]), t) for x in top[i + 1:] for t in _texts(x)):
                    self.loop_labels.add(n[1])

    # ---- events ---------------------------------------------------------------------------------------------------
    def expr(self, text, states):
        pos = 0
        while states:
            m = self.rx.search(text, pos)
            if not m:
                break
            callee = m.group(1)
            inside, end = _paren(text, m.end() - 1)
            states = self.expr(inside, states)
            if m.group(2) is not None:
                states = [s.with_event((m.group(3), int(m.group(2)))) for s in states]
            elif re.fullmatch(NORETURN_RX, callee):
                for s in states:
                    self.exits.append(("abort", s.start, s.events))
                return []
            elif re.fullmatch(PANIC_RX, callee):
                for s in states:
                    self.exits.append(("raise", s.start, s.events))
                return []
            else:
                for s in states:
                    self.exits.append(("raise", s.start, s.events))
            pos = end
        return states

    def kills(self, text, states):
        """assignments made by a statement / expression kill the literals that mention the assigned lvalue"""
        lv = set(_ws(m.group(1)) for m in re.finditer(r"([A-Za-z_][\w.\[\]]*(?:\s*->\s*[\w.\[\]]+)*)\s*(?:(?:[-+*/|&^%]|<<|>>)?=(?!=)|\+\+|--)", text))
        lv |= set(_ws(m.group(1)) for m in re.finditer(r"(?:\+\+|--)\s*([A-Za-z_][\w.\[\]]*(?:\s*->\s*[\w.\[\]]+)*)", text))
        if not lv:
            return states
        out = []
        for s in states:
            for l in lv:
                s = s.kill(l)
            out.append(s)
        return _uniq(out)

    # ---- conditions -----------------------------------------------------------------------------------------------
    def atom_of(self, text):
        for tag, rx in self.atoms:
            if not rx.startswith("case:") and re.fullmatch(rx, text):
                return tag
        return None

    def branch(self, cond, states):
        c = _strip_parens(fdpaths._unmark(cond))
        if not states:
            return [], []
        parts = _split_top(c, "||")
        if len(parts) > 1:
            t_all, cur = [], states
            for p in parts:
                t, cur = self.branch(p, cur)
                t_all += t
            return _uniq(t_all), _uniq(cur)
        parts = _split_top(c, "&&")
        if len(parts) > 1:
            f_all, cur = [], states
            for p in parts:
                cur, f = self.branch(p, cur)
                f_all += f
            return _uniq(cur), _uniq(f_all)
        if c.startswith("!") and not c.startswith("!="):
            t, f = self.branch(c[1:], states)
            return f, t
        if c in ("1", ""):
            return list(states), []
        if c == "0":
            return [], list(states)
        if re.fullmatch(r"[A-Za-z_]\w*", c) and c in self.defs:
            return self.branch(self.defs[c], states)
        ab = None
        for op in ("==", "!="):
            ab = ab or (op if _bin(c, op) else None)
        text, pol = norm_leaf(c)
        if text != c and (_split_top(text, "||")[1:] or _split_top(text, "&&")[1:] or text in self.defs):
            # `(a || b) != 0`, `x != NULL` with x a defined local: decompose the inner condition
            t, f = self.branch(text, states)
            return (t, f) if pol else (f, t)
        states = self.kills(c, self.expr(c, states))
        tag = self.atom_of(text)
        if tag is None:
            return list(states), list(states)
        self.seen.add(tag)
        if (self.fn, tag) in INVERT:
            pol = not pol
        t = [x for x in (s.assume(tag, text, pol) for s in states) if x is not None]
        f = [x for x in (s.assume(tag, text, not pol) for s in states) if x is not None]
        return _uniq(t), _uniq(f)

    # ---- statements -----------------------------------------------------------------------------------------------
    def fresh(self):
        return CState("head")

    def back_edge(self, states):
        for s in states:
            self.exits.append(("loop", s.start, s.events))

    def goto(self, label, states):
        if label in self.loop_labels:
            self.back_edge(states)
            return
        Walker.goto(self, label, states)

    def ret(self, expr, states):
        q = _split_top(_strip_parens(expr), "?")
        if len(q) > 1:
            return Walker.ret(self, expr, states)
        for s in self.expr(expr, states):
            self.exits.append(("return", s.start, s.events))

    def node(self, n, cur):
        k = n[0]
        if k == "label" and n[1] in self.loop_labels:
            return _uniq(list(cur) + [self.fresh()]), [], []
        if k == "stmt":
            txt = n[1].strip()
            if not re.match(r"(break|continue|goto|return)\b", txt):
                return self.kills(txt, _uniq(self.expr(txt, cur))), [], []
            return Walker.node(self, n, cur)
        if k in ("while", "dowhile") and any("__ctr_site_" in t for t in _texts(n)):
            head = n[1]
            step = ""
            if ";" in head:
                parts = _split_top(head, ";")
                if len(parts) != 3:
                    raise ExtractError("%s: for header not understood" % self.fn)
                cur = self.kills(parts[0], self.expr(parts[0], cur))
                head, step = parts[1] or "1", parts[2]
            states = _uniq(list(cur) + [self.fresh()])
            out = []
            if k == "while":
                states, f = self.branch(head, states)
                out += f
            fall, b, c = self.node(n[2], states) if n[2] else (states, [], [])
            out += b
            again = _uniq(fall + c)
            if step:
                again = self.kills(step, self.expr(step, again))
            if k == "dowhile":
                # the condition is evaluated at the end of the body: it belongs to this iteration
                again, f = self.branch(head, again)
                out += f
            self.back_edge(again)
            return _uniq(out), [], []
        if k == "switch":
            head = _strip_parens(n[1])
            cases = [(tag, rx.split(":", 2)) for tag, rx in self.atoms if rx.startswith("case:")]
            cases = [(tag, p[2]) for tag, p in cases if re.fullmatch(p[1], head)]
            if not cases:
                return Walker.node(self, n, cur)
            cur = self.kills(n[1], self.expr(n[1], cur))
            body = n[2]
            out = []
            starts = [i for i, x in enumerate(body) if x[0] == "label" and (i == 0 or body[i - 1][0] != "label")]
            has_default = any(x[0] == "label" and x[1] == "default" for x in body)

            def enter(labels):
                sts = list(cur)
                for tag, lab in cases:
                    self.seen.add(tag)
                    sts = [x for x in (s.assume(tag, head, ("case" + lab) in labels) for s in sts) if x is not None]
                return sts
            for i in starts:
                labels, j = [], i
                while j < len(body) and body[j][0] == "label":
                    labels.append(body[j][1])
                    j += 1
                f, b, c = self.nodes(body[i:], enter(labels))
                if c:
                    raise ExtractError("%s: continue inside switch not supported" % self.fn)
                out += f + b
            if not has_default:
                out += enter([])
            return _uniq(out), [], []
        return Walker.node(self, n, cur)


def _texts(n):
    """all statement / condition texts below a parsed node"""
    k = n[0]
    if k == "stmt":
        yield n[1]
    elif k == "block":
        for x in n[1]:
            yield from _texts(x)
    elif k == "if":
        yield n[1]
        for x in (n[2], n[3]):
            if x is not None:
                yield from _texts(x)
    elif k in ("while", "dowhile"):
        yield n[1]
        if n[2] is not None:
            yield from _texts(n[2])
    elif k == "switch":
        yield n[1]
        for x in n[2]:
            yield from _texts(x)


def _number_sites(body):
    """replace the k-th counter site (source order) by `__ctr_site_k_inc()` / `__ctr_site_k_dec()`; -> (text, [sign])"""
    signs = []

    def rep(m):
        kind = m.group(1) or m.group(2)
        signs.append("+" if kind == "inc" else "-")
        return "__ctr_site_%d_%s()" % (len(signs) - 1, kind)
    return re.sub(SITE_RX, rep, body), signs


def walk(fn, body, atoms, mark_rx=None):
    """mark_rx: calls to record as ("mark", 0) events (used by this script only, never emitted to Lean)"""
    text, signs = _number_sites(body)
    if mark_rx:
        text = re.sub(mark_rx, lambda m: "__ctr_site_0_mark(), " + m.group(0), text)
    top = _parse_nodes(text.strip()[1:-1])
    w = CounterWalker(fn, top, atoms, text)
    fall, b, c = w.nodes(top, [CState()])
    if b or c:
        raise ExtractError("%s: break / continue outside a loop" % fn)
    for s in fall:
        w.exits.append(("end", s.start, s.events))
    ex = sorted(set(w.exits), key=lambda e: (e[1], e[0], [tuple(map(str, x)) for x in e[2]]))
    if len(ex) > 600:
        raise ExtractError("counter path walk: %s has %d distinct paths" % (fn, len(ex)))
    return ex, signs, w.seen


def extract(tree):
    pre, paths, sites = {}, [], []
    for f, fn, atoms in FUNCS:
        if f not in pre:
            pre[f] = dict(functions(preprocess(tree, "src/core/" + f)))
        body = pre[f].get(fn)
        if body is None:
            raise ExtractError("counter path walk: function %s not found in %s" % (fn, f))
        ex, signs, seen = walk(fn, body, atoms)
        if not signs:
            raise ExtractError("counter path walk: %s no longer changes listener_count" % fn)
        tags = [t for t, _ in atoms]
        for kind, start, evs in ex:
            paths.append((fn, start, kind, [(e[0], tags.index(e[1]), e[2]) if e[0] == "assume" else (e[0], e[1], True) for e in evs]))
        sites.append((fn, signs))
    return {"paths": paths, "functions": [fn for _, fn, _ in FUNCS], "atoms": [(fn, [t for t, _ in a]) for _, fn, a in FUNCS], "sites": sites}


def selfpipe_recur(tree):
    """does janet_ev_handle_selfpipe read again after every successful read?  Every path on which an event was read (`got-event`)
    returns to a loop head, and every path that starts at a loop head performs the read(2) before it tests anything."""
    f, fn, atoms = [x for x in FUNCS if x[1] == "janet_ev_handle_selfpipe"][0]
    body = dict(functions(preprocess(tree, "src/core/" + f))).get(fn)
    if body is None:
        raise ExtractError("counter path walk: function %s not found" % fn)
    ex, _signs, _seen = walk(fn, body, atoms, mark_rx=r"(?<![\w.>])read\s*\(")
    got = [(kind, start, evs) for kind, start, evs in ex if ("assume", "got-event", True) in evs]
    heads = [(kind, start, evs) for kind, start, evs in ex if start == "head"]
    if not got:
        raise ExtractError("janet_ev_handle_selfpipe: no path on which an event was read (`status > 0`)")
    return (all(kind == "loop" for kind, _s, _e in got) and bool(heads) and
            all(evs and evs[0][0] == "mark" for _k, _s, evs in heads))


def selfpipe_dec_needs_cb(tree_or_facts):
    """does some path of janet_ev_handle_selfpipe read an event without a callback and NOT decrement?"""
    r = tree_or_facts if isinstance(tree_or_facts, dict) else extract(tree_or_facts)
    tags = dict(r["atoms"])["janet_ev_handle_selfpipe"]
    got, cb = tags.index("got-event"), tags.index("has-cb")
    for fn, start, kind, evs in r["paths"]:
        if fn != "janet_ev_handle_selfpipe":
            continue
        lits = dict((a, v) for k, a, v in evs if k == "assume")
        if lits.get(got) is True and lits.get(cb) is False and not any(k == "dec" for k, _a, _v in evs):
            return True
    return False


def diagnose(r):
    """re-evaluation of Loop/CounterPaths.lean `pathOk` in Python, only to NAME the offending paths in the report"""
    def spec(fn, s, raised):
        if fn == "janet_async_end":
            return 0, int(s[0] and not s[1])
        if fn in ("janet_async_start_fiber", "janet_ev_threaded_call"):
            return int(not raised), 0
        if fn == "janet_ev_post_event":
            return 1, 0
        if fn == "janet_loop1":
            return int(s[0] and not s[1] and s[3] and (s[4] or s[5] or s[6])), int(s[0] and not s[1] and s[2])
        if fn == "janet_ev_handle_selfpipe":
            return 0, int(s[0] and (s[1] or not NEEDS_CB[0]))
        if fn == "janet_deinit_block":
            return 0, int(s[0] and s[1] and not s[2])
        return 0, 0
    NEEDS_CB = [selfpipe_dec_needs_cb(r)]
    atoms = dict(r["atoms"])
    bad = []
    for fn, start, kind, evs in r["paths"]:
        if kind == "abort":
            continue
        n = len(atoms[fn])
        lits = dict((a, v) for k, a, v in evs if k == "assume")
        inc = sum(1 for k, _a, _v in evs if k == "inc")
        dec = sum(1 for k, _a, _v in evs if k == "dec")
        for mask in range(1 << n):
            s = [bool(mask >> i & 1) for i in range(n)]
            if any(s[a] != v for a, v in lits.items()):
                continue
            if spec(fn, s, kind == "raise") != (inc, dec):
                bad.append("%s: path from %s to `%s` taking %s performs %d increment(s) / %d decrement(s) of listener_count; the model's transition does %s under %s"
                           % (fn, start, kind, ["%s=%s" % (atoms[fn][a], v) for a, v in sorted(lits.items())] or "no tracked branch", inc, dec,
                              "+%d / -%d" % spec(fn, s, kind == "raise"), dict(zip(atoms[fn], s))))
                break
    return bad


def render(tree):
    r = extract(tree)
    o = [lean_header("src/core/ev.c, gc.c (preprocessed for this platform)"), "", "namespace JanetModel.Gen.CounterPaths", ""]
    o.append("/-- event of a path: the branch taken on atom number `a` of the function's vocabulary; counter site number `k` of the function executed -/")
    o.append("inductive CEv where")
    o.append("  | assume (a : Nat) (b : Bool)")
    o.append("  | inc (k : Nat)")
    o.append("  | dec (k : Nat)")
    o.append("  deriving DecidableEq, Repr")
    o.append("")
    o.append("abbrev functions : List String := [" + ", ".join(_lstr(f) for f in r["functions"]) + "]")
    o.append("")
    o.append("/-- the vocabulary: (function, names of its atoms; the position is the atom number) -/")
    o.append("abbrev atoms : List (String × List String) := [")
    o.append(",\n".join("  (%s, [%s])" % (_lstr(fn), ", ".join(_lstr(t) for t in ts)) for fn, ts in r["atoms"]))
    o.append("]")
    o.append("")
    o.append("/-- the counter sites of each function in source order: \"+\" | \"-\" -/")
    o.append("abbrev sites : List (String × List String) := [")
    o.append(",\n".join("  (%s, [%s])" % (_lstr(fn), ", ".join(_lstr(t) for t in ss)) for fn, ss in r["sites"]))
    o.append("]")
    o.append("")
    o.append("/-- every distinct path: (function, start \"entry\" | \"head\" (of a loop), exit \"return\" | \"end\" | \"loop\" | \"raise\" | \"abort\", events) -/")
    o.append("abbrev paths : List (String × String × String × List CEv) := [")

    def ev(e):
        k, a, v = e
        return ".assume %d %s" % (a, "true" if v else "false") if k == "assume" else ".%s %d" % (k, a)
    o.append(",\n".join("  (%s, %s, %s, [%s])" % (_lstr(fn), _lstr(st), _lstr(k), ", ".join(ev(e) for e in evs)) for fn, st, k, evs in r["paths"]))
    o.append("]")
    o.append("")
    o.append("end JanetModel.Gen.CounterPaths")
    return "\n".join(o) + "\n"


if __name__ == "__main__":
    import sys
    print(render(sys.argv[1] if len(sys.argv) > 1 else "/repo"))
