"""Translator: strtod.c  ->  Gen/Strtod.lean (digit table, BigNat digit width, convert/extract constants, scanner limits,
libm log2 table used by the size estimate)."""
import ctypes
import re
import struct
from . import csrc
from .csrc import ExtractError


def _need(rx, src, what, flags=re.S):
    m = re.search(rx, src, flags)
    if not m:
        raise ExtractError("strtod.c: %s not recognised" % what)
    return m


# ---------------------------------------------------------------------------------------------------------------------
# Tolerance for behaviour-preserving rewrites.  The shape assertions below are regular expressions over the source text;
# before they are applied every modelled function is ALPHA-RENAMED to the identifier names of the pinned tree (parameters
# and locals in declaration order), `(void) x;` statements and comments are dropped and `{ stmt; }` around a single
# `ee = ...` style statement is left as is.  A consistent bijective renaming of a function's parameters/locals never
# changes its meaning, so a match on the renamed text is a true statement about the current code.  NOT tolerated (the
# patterns then fail and the check reports the broken tie with `no-failing-input-found` unless the sweep finds a failing
# input): reordered statements, added/removed temporaries, refactored helpers, extra parentheses.
TYPE = (r"(?:(?:const|unsigned|signed|static|register)\s+)*(?:struct\s+\w+|u?int(?:8|16|32|64)_t|int|double|float|size_t|char|long|short|Janet\w*)\b"
        r"(?:\s+(?:const|long|int))*")

CANON = {
    "bignat_extra": ['mant', 'n', 'oldn', 'newn', 'newcap', 'mem'],
    "bignat_append": ['mant', 'dig'],
    "bignat_muladd": ['mant', 'factor', 'term', 'i', 'carry'],
    "bignat_div": ['mant', 'divisor', 'i', 'quotient', 'remainder', 'dividend'],
    "bignat_lshift_n": ['mant', 'n', 'oldn'],
    "bignat_extract": ['mant', 'exponent2', 'top53', 'n', 'd1', 'd2', 'd3', 'lz', 'nbits'],
    "convert": ['negative', 'mant', 'base', 'exponent', 'exponent2', 'mant_exp2_approx', 'exp_exp2_approx', 'exp2_approx', 'shamt'],
    "janet_scan_number_base": ['str', 'len', 'base', 'out', 'end', 'seenadigit', 'ex', 'seenpoint', 'foundexp', 'neg', 'mant',
                               'exp_base', 'digit', 'eneg', 'ee', 'digit'],
    "scan_uint64": ['str', 'len', 'out', 'neg', 'end', 'seenadigit', 'base', 'accum', 'digit'],
    "janet_scan_int64": ['str', 'len', 'out', 'neg', 'bi'],
    "janet_scan_uint64": ['str', 'len', 'out', 'neg', 'bi'],
    "janet_buffer_dtostr": ['buffer', 'x', 'count', 'i', 'c'],
    "janet_scan_number": ['str', 'len', 'out'],
}
CANON_PP = {"number_to_string_b": ['buffer', 'x', 'fmt', 'count']}


def _func_span(src, name):
    for m in re.finditer(r"\b%s\s*\(" % re.escape(name), src):
        i, depth = m.end() - 1, 0
        p0 = i
        while i < len(src):
            if src[i] == "(":
                depth += 1
            elif src[i] == ")":
                depth -= 1
                if depth == 0:
                    break
            i += 1
        j = i + 1
        while j < len(src) and src[j] in " \t\r\n":
            j += 1
        if j < len(src) and src[j] == "{":
            ls = src.rfind("\n", 0, m.start()) + 1
            head = src[ls:m.start()]
            if re.match(r"^[A-Za-z_][\w\s\*]*$", head) and not re.match(r"^\s*(return|else|if|while|for|switch)\b", head):
                return p0, i, j, csrc.match_brace(src, j)
    return None


def _split_top(s):
    out, depth, cur = [], 0, ""
    for ch in s:
        if ch in "([{":
            depth += 1
        elif ch in ")]}":
            depth -= 1
        if ch == "," and depth == 0:
            out.append(cur)
            cur = ""
        else:
            cur += ch
    out.append(cur)
    return out


def declared_names(src, name):
    """(span, [parameter and local names in declaration order]) of the definition of `name`, or None"""
    sp = _func_span(src, name)
    if not sp:
        return None
    p0, p1, b0, b1 = sp
    names = []
    for prm in _split_top(src[p0 + 1:p1]):
        ids = re.findall(r"[A-Za-z_]\w*", prm)
        if ids and ids != ["void"]:
            names.append(ids[-1])
    body = src[b0:b1]
    for m in re.finditer(r"(?:(?<=[;{}])|(?<=for \()|(?<=for\())\s*(" + TYPE + r")(?=[\s\*])", body):
        i, depth = m.end(), 0
        while i < len(body) and not (body[i] == ";" and depth == 0):
            if body[i] in "([{":
                depth += 1
            elif body[i] in ")]}":
                depth -= 1
            i += 1
        for d in _split_top(body[m.end():i]):
            mm = re.match(r"\s*\**\s*([A-Za-z_]\w*)", d)
            if mm:
                names.append(mm.group(1))
    return sp, names


def canonicalise(src, canon):
    """alpha-rename parameters/locals of the functions in `canon` to the canonical names; drop `(void) x;` statements"""
    src = re.sub(r"(?<=[;{}])(\s*)\(\s*void\s*\)\s*[A-Za-z_]\w*\s*;", r"\1", src)
    # `T x; x = e;`  ->  `T x = e;`   (a declaration split from its initialiser)
    src = re.sub(r"(?<=[;{}])(\s*)(" + TYPE + r"\s+)([A-Za-z_]\w*)\s*;\s*\3\s*=(?!=)", r"\1\2\3 =", src)
    for fn, want in canon.items():
        r = declared_names(src, fn)
        if not r:
            continue
        (p0, p1, b0, b1), cur = r
        if len(cur) != len(want) or cur == want:
            continue
        fwd, bwd, ok = {}, {}, True
        for a, b in zip(cur, want):
            if fwd.setdefault(a, b) != b or bwd.setdefault(b, a) != a:
                ok = False
        text = src[p0:b1]
        # no capture: a new name must not already be used (as a non-field identifier) by something that is not renamed
        for a, b in fwd.items():
            if a != b and b not in fwd and re.search(r"(?<![>.\w])%s\b" % re.escape(b), text):
                ok = False
        if not ok:
            continue
        ren = {a: b for a, b in fwd.items() if a != b}
        if not ren:
            continue
        rx = re.compile(r"(?<![>.\w])(?:%s)\b" % "|".join(re.escape(a) for a in sorted(ren, key=len, reverse=True)))
        src = src[:p0] + rx.sub(lambda m: ren[m.group(0)], text) + src[b1:]
    return src


def libm_log2_table():
    """log2((double) b) for b = 1..36 as computed by the libm the implementation links against, as (mantissa, exponent)
    with value = mantissa * 2^exponent exactly (mantissa < 2^53)."""
    libm = ctypes.CDLL("libm.so.6")
    libm.log2.restype = ctypes.c_double
    libm.log2.argtypes = [ctypes.c_double]
    out = []
    for b in range(1, 37):
        x = libm.log2(float(b))
        bits = struct.unpack(">Q", struct.pack(">d", x))[0]
        e = (bits >> 52) & 0x7FF
        f = bits & ((1 << 52) - 1)
        if bits >> 63 or e == 0x7FF:
            raise ExtractError("log2(%d) is not a finite non-negative double" % b)
        if e == 0:
            m, ex = f, -1074
        else:
            m, ex = f | (1 << 52), e - 1075
        out.append((b, m, ex))
    return out


def extract(tree):
    raw = csrc.read(tree, "src/core/strtod.c")
    src = canonicalise(csrc.strip_comments(raw), CANON)
    c = {}
    # --- digit table
    m = _need(r"static\s+uint8_t\s+digit_lookup\s*\[\s*128\s*\]\s*=\s*\{([^}]*)\}", src, "digit_lookup[128]")
    tab = [csrc.cint(t) for t in m.group(1).replace("\n", " ").split(",") if t.strip()]
    if len(tab) != 128 or any(not (0 <= v <= 255) for v in tab):
        raise ExtractError("digit_lookup: expected 128 byte entries, got %d" % len(tab))
    # --- digit width
    c["nbit"] = csrc.cint(_need(r"#define\s+BIGNAT_NBIT\s+(\w+)", src, "BIGNAT_NBIT").group(1))
    c["bigBase"] = csrc.cint(_need(r"#define\s+BIGNAT_BASE\s+(\w+)", src, "BIGNAT_BASE").group(1))
    if c["bigBase"] != 1 << c["nbit"]:
        raise ExtractError("BIGNAT_BASE != 2^BIGNAT_NBIT")
    # --- bignat_muladd / bignat_div / bignat_lshift_n : shape assertions (the model mirrors these statements)
    mul = csrc.func_body(src, "bignat_muladd")
    # the width in which `digit * factor` is evaluated: 64 with the `(uint64_t)` cast on the operand, else that of the digit type
    OPND = r"(\(\s*\(\s*(\w+)\s*\)\s*%s\s*\)|\(\s*(\w+)\s*\)\s*%s|%s)"
    mh = _need(r"carry\s*=\s*" + OPND % (("mant->first_digit",) * 3) + r"\s*\*\s*factor\s*\+\s*term\s*;\s*mant->first_digit\s*=\s*carry\s*%\s*BIGNAT_BASE\s*;\s*carry\s*/=\s*BIGNAT_BASE\s*;", mul, "bignat_muladd head")
    ml = _need(r"carry\s*\+=\s*" + OPND % ((r"mant->digits\[i\]",) * 3) + r"\s*\*\s*factor\s*;\s*mant->digits\[i\]\s*=\s*carry\s*%\s*BIGNAT_BASE\s*;\s*carry\s*/=\s*BIGNAT_BASE\s*;", mul, "bignat_muladd loop")
    c["_mul_casts"] = [mh.group(2) or mh.group(3), ml.group(2) or ml.group(3)]
    _need(r"if\s*\(\s*carry\s*\)\s*bignat_append\s*\(\s*mant\s*,\s*\(uint32_t\)\s*carry\s*\)\s*;", mul, "bignat_muladd append")
    div = csrc.func_body(src, "bignat_div")
    DOP = r"(?:\(\s*(\w+)\s*\)\s*)?remainder"
    md1 = _need(r"for\s*\(\s*i\s*=\s*mant->n\s*-\s*1\s*;\s*i\s*>=\s*0\s*;\s*i--\s*\)\s*\{\s*dividend\s*=\s*\(" + DOP + r"\s*\*\s*BIGNAT_BASE\)\s*\+\s*mant->digits\[i\]\s*;"
          r"\s*if\s*\(\s*i\s*<\s*mant->n\s*-\s*1\s*\)\s*mant->digits\[i\s*\+\s*1\]\s*=\s*quotient\s*;"
          r"\s*quotient\s*=\s*\(uint32_t\)\s*\(dividend\s*/\s*divisor\)\s*;\s*remainder\s*=\s*\(uint32_t\)\s*\(dividend\s*%\s*divisor\)\s*;"
          r"\s*mant->digits\[i\]\s*=\s*remainder\s*;\s*\}", div, "bignat_div loop")
    md2 = _need(r"dividend\s*=\s*\(" + DOP + r"\s*\*\s*BIGNAT_BASE\)\s*\+\s*mant->first_digit\s*;"
          r"\s*if\s*\(\s*mant->n\s*&&\s*mant->digits\[mant->n\s*-\s*1\]\s*==\s*0\s*\)\s*mant->n--\s*;"
          r"\s*mant->first_digit\s*=\s*\(uint32_t\)\s*\(dividend\s*/\s*divisor\)\s*;", div, "bignat_div tail")
    sh = csrc.func_body(src, "bignat_lshift_n")
    # bignat_lshift_n: the statements after the early return may come in any order that respects the data dependences
    # (digits[n-1] must be written from first_digit before first_digit is cleared; memmove before both writes into digits)
    _need(r"^\{\s*if\s*\(\s*!n\s*\)\s*return\s*;", sh, "bignat_lshift_n: early return")
    pos = {}
    for key, rx in (("oldn", r"int32_t\s+oldn\s*=\s*mant->n\s*;"),
                    ("extra", r"bignat_extra\s*\(\s*mant\s*,\s*n\s*\)\s*;"),
                    ("move", r"memmove\s*\(\s*mant->digits\s*\+\s*n\s*,\s*mant->digits\s*,\s*sizeof\s*\(uint32_t\)\s*\*\s*oldn\s*\)\s*;"),
                    ("zero", r"memset\s*\(\s*mant->digits\s*,\s*0\s*,\s*sizeof\s*\(uint32_t\)\s*\*\s*\(n\s*-\s*1\)\s*\)\s*;"),
                    ("put", r"mant->digits\[n\s*-\s*1\]\s*=\s*mant->first_digit\s*;"),
                    ("clr", r"mant->first_digit\s*=\s*0\s*;")):
        ms = list(re.finditer(rx, sh))
        if len(ms) != 1:
            raise ExtractError("strtod.c: bignat_lshift_n: statement %s not recognised" % key)
        pos[key] = ms[0].span()
    for a, b in (("oldn", "extra"), ("extra", "move"), ("move", "zero"), ("move", "put"), ("put", "clr")):
        if not pos[a][1] <= pos[b][0]:
            raise ExtractError("strtod.c: bignat_lshift_n: %s must precede %s" % (a, b))
    rest = sh
    for k in sorted(pos.values(), reverse=True):
        rest = rest[:k[0]] + rest[k[1]:]
    if re.sub(r"\s+", "", rest) != "{if(!n)return;}":
        raise ExtractError("strtod.c: bignat_lshift_n has statements the model does not mirror: %r" % re.sub(r"\s+", " ", rest)[:120])
    # --- bignat_extract
    ex = csrc.func_body(src, "bignat_extract")
    m = _need(r"top53\s*=\s*\(d2\s*<<\s*\((\w+)\s*-\s*BIGNAT_NBIT\)\)\s*\+\s*\(d3\s*>>\s*\((\w+)\s*\*\s*BIGNAT_NBIT\s*-\s*(\w+)\)\)\s*;"
              r"\s*top53\s*>>=\s*nbits\s*;\s*top53\s*\|=\s*\(d1\s*<<\s*\((\w+)\s*-\s*nbits\)\)\s*;", ex, "bignat_extract: 54-bit window")
    w = [csrc.cint(g) for g in m.groups()]
    if not (w[0] == w[2] == w[3] and w[1] == 2):
        raise ExtractError("bignat_extract: window constants disagree %r" % (w,))
    c["window"] = w[0]
    _need(r"int\s+lz\s*=\s*clz\s*\(\s*\(uint32_t\)\s*d1\s*\)\s*;\s*int\s+nbits\s*=\s*32\s*-\s*lz\s*;", ex, "bignat_extract: nbits = 32 - clz(d1)")
    _need(r"if\s*\(\s*top53\s*&\s*1\s*\)\s*top53\+\+\s*;\s*top53\s*>>=\s*1\s*;", ex, "bignat_extract: rounding step")
    m = _need(r"if\s*\(\s*top53\s*>\s*(\w+)\s*\)\s*\{\s*top53\s*>>=\s*1\s*;\s*exponent2\+\+\s*;\s*\}", ex, "bignat_extract: renormalise")
    c["mantMax"] = csrc.cint(m.group(1))
    m = _need(r"exponent2\s*\+=\s*\(nbits\s*-\s*(\w+)\)\s*\+\s*BIGNAT_NBIT\s*\*\s*n\s*;", ex, "bignat_extract: exponent correction")
    c["mantBits"] = csrc.cint(m.group(1))
    if c["mantMax"] != (1 << c["mantBits"]) - 1 or c["window"] != c["mantBits"] + 1:
        raise ExtractError("bignat_extract: window %d / mantissa bits %d / max 0x%x inconsistent" % (c["window"], c["mantBits"], c["mantMax"]))
    _need(r"uint64_t\s+d1\s*=\s*mant->digits\[n\s*-\s*1\]\s*;\s*uint64_t\s+d2\s*=\s*\(n\s*==\s*1\)\s*\?\s*mant->first_digit\s*:\s*mant->digits\[n\s*-\s*2\]\s*;"
          r"\s*uint64_t\s+d3\s*=\s*\(n\s*>\s*2\)\s*\?\s*mant->digits\[n\s*-\s*3\]\s*:\s*\(n\s*==\s*2\)\s*\?\s*mant->first_digit\s*:\s*0\s*;", ex, "bignat_extract: d1 d2 d3")
    _need(r"return\s+ldexp\s*\(\s*\(double\)\s*top53\s*,\s*exponent2\s*\)\s*;", ex, "bignat_extract: ldexp")
    # --- convert
    cv = csrc.func_body(src, "convert")
    m = _need(r"mant_exp2_approx\s*=\s*mant->n\s*\*\s*(\w+)\s*\+\s*(\w+)\s*;", cv, "convert: mantissa size estimate")
    c["approxPerDigit"] = c["nbit"] if m.group(1) == "BIGNAT_NBIT" else csrc.cint(m.group(1))
    c["approxBias"] = csrc.cint(m.group(2))
    _need(r"exp_exp2_approx\s*=\s*\(int64_t\)\s*\(\s*floor\s*\(\s*log2\s*\(\s*base\s*\)\s*\*\s*exponent\s*\)\s*\)\s*;", cv, "convert: exponent size estimate")
    _need(r"if\s*\(\s*mant->n\s*==\s*0\s*&&\s*mant->first_digit\s*==\s*0\s*\)\s*return\s+negative\s*\?\s*-0\.0\s*:\s*0\.0\s*;", cv, "convert: zero short-circuit")
    m = _need(r"if\s*\(\s*exp2_approx\s*>\s*(-?\w+)\s*\)\s*return\s+negative\s*\?\s*-INFINITY\s*:\s*INFINITY\s*;\s*if\s*\(\s*exp2_approx\s*<\s*(-?\w+)\s*\)\s*return\s+negative\s*\?\s*-0\.0\s*:\s*0\.0\s*;", cv, "convert: short-circuit thresholds")
    c["hugeThresh"], c["tinyThresh"] = csrc.cint(m.group(1)), csrc.cint(m.group(2))
    _need(r"for\s*\(\s*;\s*exponent\s*>\s*3\s*;\s*exponent\s*-=\s*4\s*\)\s*bignat_muladd\s*\(\s*mant\s*,\s*base\s*\*\s*base\s*\*\s*base\s*\*\s*base\s*,\s*0\s*\)\s*;"
          r"\s*for\s*\(\s*;\s*exponent\s*>\s*1\s*;\s*exponent\s*-=\s*2\s*\)\s*bignat_muladd\s*\(\s*mant\s*,\s*base\s*\*\s*base\s*,\s*0\s*\)\s*;"
          r"\s*for\s*\(\s*;\s*exponent\s*>\s*0\s*;\s*exponent\s*-=\s*1\s*\)\s*bignat_muladd\s*\(\s*mant\s*,\s*base\s*,\s*0\s*\)\s*;", cv, "convert: positive exponent loops")
    m = _need(r"if\s*\(\s*exponent\s*<\s*0\s*\)\s*\{\s*int32_t\s+shamt\s*=\s*(\w+)\s*-\s*exponent\s*/\s*(\w+)\s*;\s*bignat_lshift_n\s*\(\s*mant\s*,\s*shamt\s*\)\s*;\s*exponent2\s*-=\s*shamt\s*\*\s*BIGNAT_NBIT\s*;"
              r"\s*for\s*\(\s*;\s*exponent\s*<\s*-3\s*;\s*exponent\s*\+=\s*4\s*\)\s*bignat_div\s*\(\s*mant\s*,\s*base\s*\*\s*base\s*\*\s*base\s*\*\s*base\s*\)\s*;"
              r"\s*for\s*\(\s*;\s*exponent\s*<\s*-1\s*;\s*exponent\s*\+=\s*2\s*\)\s*bignat_div\s*\(\s*mant\s*,\s*base\s*\*\s*base\s*\)\s*;"
              r"\s*for\s*\(\s*;\s*exponent\s*<\s*0\s*;\s*exponent\s*\+=\s*1\s*\)\s*bignat_div\s*\(\s*mant\s*,\s*base\s*\)\s*;\s*\}", cv, "convert: negative exponent scaling")
    c["shamtBase"], c["shamtDiv"] = csrc.cint(m.group(1)), csrc.cint(m.group(2))
    _need(r"return\s+negative\s*\?\s*-bignat_extract\s*\(\s*mant\s*,\s*exponent2\s*\)\s*:\s*bignat_extract\s*\(\s*mant\s*,\s*exponent2\s*\)\s*;", cv, "convert: result sign")
    # --- scanner limits
    sc = csrc.func_body(src, "janet_scan_number_base")
    m = _need(r"if\s*\(\s*len\s*>\s*INT32_MAX\s*/\s*(\w+)\s*\)\s*goto\s+error\s*;", sc, "scan_number: length limit")
    c["lenLimit"] = (2**31 - 1) // csrc.cint(m.group(1))
    m = _need(r"if\s*\(\s*ee\s*<\s*\(\s*INT32_MAX\s*/\s*(\w+)\s*\)\s*\)\s*\{\s*ee\s*=\s*exp_base\s*\*\s*ee\s*\+\s*digit\s*;", sc, "scan_number: exponent clamp")
    c["eeLimit"] = (2**31 - 1) // csrc.cint(m.group(1))
    # what happens to further exponent digits once the clamp is reached: nothing (digits dropped: eeSat = 0) or saturation
    m2 = re.match(r"\s*\}\s*(?:else\s*\{\s*ee\s*=\s*INT32_MAX\s*/\s*(\w+)\s*;\s*\}\s*)?str\+\+\s*;\s*seenadigit\s*=\s*1\s*;", sc[m.end():], re.S)
    if not m2:
        raise ExtractError("strtod.c: scan_number: statement after the exponent clamp not recognised")
    c["eeSat"] = (2**31 - 1) // csrc.cint(m2.group(1)) if m2.group(1) else 0
    _need(r"if\s*\(\s*eneg\s*\)\s*ex\s*-=\s*ee\s*;\s*else\s+ex\s*\+=\s*ee\s*;", sc, "scan_number: exponent sign")
    _need(r"exp_base\s*=\s*10\s*;\s*base\s*=\s*2\s*;\s*ex\s*\*=\s*4\s*;", sc, "scan_number: hex float p exponent")
    _need(r"base\s*=\s*10\s*\*\s*\(str\[0\]\s*-\s*'0'\)\s*\+\s*\(str\[1\]\s*-\s*'0'\)\s*;\s*if\s*\(\s*base\s*<\s*2\s*\|\|\s*base\s*>\s*36\s*\)\s*goto\s+error\s*;", sc, "scan_number: two digit radix")
    _need(r"int\s+digit\s*=\s*digit_lookup\[\*str\s*&\s*0x7F\]\s*;\s*if\s*\(\s*\*str\s*>\s*127\s*\|\|\s*digit\s*>=\s*base\s*\)\s*goto\s+error\s*;\s*if\s*\(\s*seenpoint\s*\)\s*ex--\s*;\s*bignat_muladd\s*\(\s*&mant\s*,\s*base\s*,\s*digit\s*\)\s*;", sc, "scan_number: digit step")
    sn = csrc.func_body(src, "janet_scan_number")
    _need(r"^\{\s*return\s+janet_scan_number_base\s*\(\s*str\s*,\s*len\s*,\s*0\s*,\s*out\s*\)\s*;\s*\}$", sn, "janet_scan_number = janet_scan_number_base(str, len, 0, out)")
    _need(r"if\s*\(\s*base\s*==\s*0\s*\)\s*\{\s*if\s*\(\s*str\s*\+\s*1\s*<\s*end\s*&&\s*str\[0\]\s*==\s*'0'\s*&&\s*str\[1\]\s*==\s*'x'\s*\)\s*\{\s*base\s*=\s*16\s*;\s*str\s*\+=\s*2\s*;\s*\}"
          r"\s*else\s+if\s*\(\s*str\s*\+\s*1\s*<\s*end\s*&&\s*str\[0\]\s*>=\s*'0'\s*&&\s*str\[0\]\s*<=\s*'9'\s*&&\s*str\[1\]\s*==\s*'r'\s*\)\s*\{\s*base\s*=\s*str\[0\]\s*-\s*'0'\s*;\s*str\s*\+=\s*2\s*;\s*\}"
          r"\s*else\s+if\s*\(\s*str\s*\+\s*2\s*<\s*end\s*&&\s*str\[0\]\s*>=\s*'0'\s*&&\s*str\[0\]\s*<=\s*'9'\s*&&\s*str\[1\]\s*>=\s*'0'\s*&&\s*str\[1\]\s*<=\s*'9'\s*&&\s*str\[2\]\s*==\s*'r'\s*\)",
          sc, "scan_number: radix prefixes 0x / Dr / DDr")
    _need(r"if\s*\(\s*base\s*==\s*0\s*\)\s*\{\s*base\s*=\s*10\s*;\s*\}", sc, "scan_number: default radix 10")
    _need(r"if\s*\(\s*\*str\s*==\s*'-'\s*\)\s*\{\s*neg\s*=\s*1\s*;\s*str\+\+\s*;\s*\}\s*else\s+if\s*\(\s*\*str\s*==\s*'\+'\s*\)\s*\{\s*str\+\+\s*;\s*\}", sc, "scan_number: sign")
    su = csrc.func_body(src, "scan_uint64")
    m = _need(r"if\s*\(\s*len\s*>\s*(\w+)\s*\)\s*return\s+0\s*;", su, "scan_uint64: length limit")
    c["intLenLimit"] = csrc.cint(m.group(1))
    _need(r"if\s*\(\s*accum\s*>\s*\(\s*UINT64_MAX\s*-\s*digit\s*\)\s*/\s*base\s*\)\s*return\s+0\s*;\s*accum\s*=\s*accum\s*\*\s*base\s*\+\s*digit\s*;", su, "scan_uint64: overflow guard")
    si = csrc.func_body(src, "janet_scan_int64")
    _need(r"if\s*\(\s*neg\s*&&\s*bi\s*<=\s*\(\(UINT64_MAX\s*/\s*2\)\s*\+\s*1\)\s*\)\s*\{\s*if\s*\(\s*bi\s*>\s*INT64_MAX\s*\)\s*\{\s*\*out\s*=\s*INT64_MIN\s*;\s*\}\s*else\s*\{\s*\*out\s*=\s*-\(\(int64_t\)\s*bi\)\s*;\s*\}\s*return\s+1\s*;\s*\}"
          r"\s*if\s*\(\s*!neg\s*&&\s*bi\s*<=\s*INT64_MAX\s*\)\s*\{\s*\*out\s*=\s*\(int64_t\)\s*bi\s*;\s*return\s+1\s*;\s*\}", si, "janet_scan_int64: range tests")
    sq = csrc.func_body(src, "janet_scan_uint64")
    _need(r"if\s*\(\s*!neg\s*\)\s*\{\s*\*out\s*=\s*bi\s*;\s*return\s+1\s*;\s*\}", sq, "janet_scan_uint64: sign test")
    c["u64Max"] = 2**64 - 1
    c["i64Max"] = 2**63 - 1
    # --- C types of the BigNat intermediates (widths used by the C-typed model Strtod/ModelW.lean, whose wrap-freedom
    #     is proved in Strtod/WrapFree.lean): declarations are read, not assumed
    def width(t, what):
        w = {"uint64_t": 64, "uint32_t": 32, "uint16_t": 16, "uint8_t": 8}.get(t)
        if w is None:
            raise ExtractError("strtod.c: %s has type %r, expected a fixed-width unsigned type" % (what, t))
        return w
    sb = _need(r"struct\s+BigNat\s*\{(.*?)\}\s*;", src, "struct BigNat")
    m1 = _need(r"(\w+)\s+first_digit\s*;", sb.group(1), "BigNat.first_digit")
    m2 = _need(r"(\w+)\s*\*\s*digits\s*;", sb.group(1), "BigNat.digits")
    if m1.group(1) != m2.group(1):
        raise ExtractError("strtod.c: first_digit and digits[] have different types")
    c["digitBits"] = width(m1.group(1), "BigNat digit")
    m = _need(r"static\s+void\s+bignat_muladd\s*\(\s*struct\s+BigNat\s*\*\s*mant\s*,\s*(\w+)\s+factor\s*,\s*(\w+)\s+term\s*\)", src, "bignat_muladd signature")
    md = _need(r"static\s+void\s+bignat_div\s*\(\s*struct\s+BigNat\s*\*\s*mant\s*,\s*(\w+)\s+divisor\s*\)", src, "bignat_div signature")
    if m.group(1) != m.group(2):
        raise ExtractError("strtod.c: factor / term parameter types differ")
    c["factorBits"] = width(m.group(1), "factor/term parameter")
    c["divisorBits"] = width(md.group(1), "divisor parameter")
    c["carryBits"] = width(_need(r"(\w+)\s+carry\s*=", mul, "bignat_muladd: carry declaration").group(1), "carry")
    mq = _need(r"(\w+)\s+quotient\s*,\s*remainder\s*;", div, "bignat_div: quotient, remainder declaration")
    c["quotBits"] = width(mq.group(1), "quotient/remainder")
    _need(r"quotient\s*=\s*\(%s\)\s*\(dividend" % mq.group(1), div, "bignat_div: cast of the quotient matches its type")
    c["dividendBits"] = width(_need(r"(\w+)\s+dividend\s*;", div, "bignat_div: dividend declaration").group(1), "dividend")
    # width of the products: the cast type if the operand is cast, otherwise the operand's own (digit / remainder) type
    mw = set(width(t, "cast in bignat_muladd") if t else c["digitBits"] for t in c.pop("_mul_casts"))
    dw = set(width(t, "cast in bignat_div") if t else c["quotBits"] for t in (md1.group(1), md2.group(1)))
    if len(mw) != 1 or len(dw) != 1:
        raise ExtractError("strtod.c: the two products in bignat_muladd / bignat_div are evaluated in different widths")
    c["mulBits"], c["divMulBits"] = mw.pop(), dw.pop()
    c["top53Bits"] = width(_need(r"(\w+)\s+top53\s*;", ex, "bignat_extract: top53 declaration").group(1), "top53")
    # bignat_extra: the signed int32_t arithmetic `newn = oldn + n`, `newcap = 2 * newn` (Strtod/Int32.lean proves both in range)
    sx = csrc.func_body(src, "bignat_extra")
    m = _need(r"^\{\s*int32_t\s+oldn\s*=\s*mant->n\s*;\s*int32_t\s+newn\s*=\s*oldn\s*\+\s*n\s*;"
              r"\s*if\s*\(\s*mant->cap\s*<\s*newn\s*\)\s*\{\s*int32_t\s+newcap\s*=\s*(\w+)\s*\*\s*newn\s*;"
              r"\s*uint32_t\s*\*\s*mem\s*=\s*janet_realloc\s*\(\s*mant->digits\s*,\s*\(size_t\)\s*newcap\s*\*\s*sizeof\s*\(uint32_t\)\s*\)\s*;",
              sx, "bignat_extra: newn = oldn + n; newcap = K * newn; realloc((size_t) newcap * sizeof(uint32_t))")
    c["capFactor"] = csrc.cint(m.group(1))
    _need(r"mant->cap\s*=\s*newcap\s*;\s*mant->digits\s*=\s*mem\s*;\s*\}\s*mant->n\s*=\s*newn\s*;\s*return\s+mant->digits\s*\+\s*oldn\s*;\s*\}\s*$",
          sx, "bignat_extra: tail")
    sa = csrc.func_body(src, "bignat_append")
    _need(r"bignat_extra\s*\(\s*mant\s*,\s*1\s*\)\s*\[\s*0\s*\]\s*=\s*dig\s*;", sa, "bignat_append")
    # --- printing
    dt = csrc.func_body(src, "janet_buffer_dtostr")
    m = _need(r'snprintf\s*\(\s*\(char\s*\*\)\s*buffer->data\s*\+\s*buffer->count\s*,\s*BUFSIZE\s*,\s*"%\.(\d+)g"\s*,\s*x\s*\)', dt, "janet_buffer_dtostr: format")
    c["printDigits"] = int(m.group(1))
    return tab, c, libm_log2_table()


def extract_pp(tree):
    """number_to_string_b (pp.c): the integer window test and the format used in each branch; print_jdn_one's number path"""
    import subprocess
    src = canonicalise(csrc.strip_comments(csrc.read(tree, "src/core/pp.c")), CANON_PP)
    body = csrc.func_body(src, "number_to_string_b")
    m = _need(r"const\s+char\s*\*fmt\s*=\s*\(\s*x\s*==\s*floor\s*\(\s*x\s*\)\s*&&\s*x\s*<=\s*JANET_INTMAX_DOUBLE\s*&&\s*x\s*>=\s*JANET_INTMIN_DOUBLE\s*\)\s*\?\s*\"%\.(\d+)f\"\s*:\s*\(\s*\"%\.\"\s*STR\s*\(\s*DBL_DIG\s*\)\s*\"g\"\s*\)\s*;",
              body, "number_to_string_b: format selection")
    fixed_prec = int(m.group(1))
    _need(r"if\s*\(\s*x\s*==\s*0\.0\s*\)\s*\{\s*count\s*=\s*1\s*;\s*buffer->data\[buffer->count\]\s*=\s*'0'\s*;\s*\}\s*else\s*\{\s*count\s*=\s*snprintf\s*\(\s*\(char\s*\*\)\s*buffer->data\s*\+\s*buffer->count\s*,\s*BUFSIZE\s*,\s*fmt\s*,\s*x\s*\)\s*;",
          body, "number_to_string_b: zero special case / snprintf")
    jdn = csrc.func_body(src, "print_jdn_one")
    _need(r"case\s+JANET_NUMBER\s*:.*?double\s+num\s*=\s*janet_unwrap_number\s*\(\s*x\s*\)\s*;\s*if\s*\(\s*isnan\s*\(\s*num\s*\)\s*\)\s*return\s+1\s*;\s*if\s*\(\s*isinf\s*\(\s*num\s*\)\s*\)\s*return\s+1\s*;\s*janet_buffer_dtostr\s*\(\s*S->buffer\s*,\s*num\s*\)\s*;\s*break\s*;",
          jdn, "print_jdn_one: numbers go through janet_buffer_dtostr")
    hdr = csrc.read(tree, "src/include/janet.h")
    mx = _need(r"#define\s+JANET_INTMAX_DOUBLE\s+([0-9.]+)", hdr, "JANET_INTMAX_DOUBLE")
    mn = _need(r"#define\s+JANET_INTMIN_DOUBLE\s+\(\s*-([0-9.]+)\s*\)", hdr, "JANET_INTMIN_DOUBLE")
    imax, imin = float(mx.group(1)), float(mn.group(1))
    if imax != int(imax) or imin != int(imin):
        raise ExtractError("JANET_INTMAX/INTMIN_DOUBLE are not integers")
    # DBL_DIG of the compiler in use
    r = subprocess.run(["gcc", "-E", "-dM", "-include", "float.h", "-x", "c", "/dev/null"], stdout=subprocess.PIPE)
    md = re.search(r"#define\s+__DBL_DIG__\s+(\d+)", r.stdout.decode())
    if not md:
        raise ExtractError("DBL_DIG not found")
    return dict(intMaxDouble=int(imax), intMinDoubleAbs=int(imin), fixedPrec=fixed_prec, dblDig=int(md.group(1)))


def render(tree):
    tab, c, logs = extract(tree)
    c.update(extract_pp(tree))
    out = [csrc.lean_header("src/core/strtod.c, src/core/pp.c, src/include/janet.h"), "namespace JanetModel.Gen.Strtod\n"]
    out.append("/-- `digit_lookup[128]` -/")
    out.append("abbrev digitLookup : Array Nat := #[" + ", ".join(str(v) for v in tab) + "]\n")
    for k in ("nbit", "bigBase", "window", "mantBits", "mantMax", "approxPerDigit", "approxBias", "shamtBase", "shamtDiv", "capFactor",
              "lenLimit", "eeLimit", "eeSat", "intLenLimit", "u64Max", "i64Max", "printDigits",
              "digitBits", "factorBits", "carryBits", "quotBits", "dividendBits", "top53Bits", "mulBits", "divMulBits", "divisorBits",
              "intMaxDouble", "intMinDoubleAbs", "fixedPrec", "dblDig"):
        out.append("abbrev %s : Nat := %d" % (k, c[k]))
    for k in ("hugeThresh", "tinyThresh"):
        out.append("abbrev %s : Int := %s" % (k, ("(%d)" % c[k]) if c[k] < 0 else str(c[k])))
    out.append("\n/-- `log2((double) b)` of the libm in use, b = 1..36, as (b, mantissa, exponent): value = mantissa * 2^exponent -/")
    out.append("abbrev log2Table : List (Nat × Nat × Int) := [" + ", ".join("(%d, %d, (%d))" % t for t in logs) + "]")
    out.append("\nend JanetModel.Gen.Strtod\n")
    return "\n".join(out)


if __name__ == "__main__":
    import sys
    print(render(sys.argv[1] if len(sys.argv) > 1 else "/repo"))
