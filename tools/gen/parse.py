"""Translator: parse.c + pp.c  ->  Gen/Parse.lean.

Transcribes the *tables and shapes* on which the C11 theorems hinge:
  symchars[8]                      symbol-character bitmap
  is_whitespace                    whitespace byte set
  checkescape                      escape letter -> byte table (parser side)
  escape1                          hex digit counts of \\x \\u \\U
  janet_escape_string_impl         byte -> escape letter table, printable range, hex digit alphabet (printer side)
  PFLAG_* / JANET_PARSER_*         flag constants
  janet_parser_consume             the CR/LF line/column rule (shape-checked, emitted as constants the model consumes)
  janet_parser_clone               the set of fields copied, against the fields of struct JanetParser (janet.h)
  janet_parser_flush / _error      fields reset
Every extractor raises ExtractError when the source no longer has the shape it recognises."""
import re
from . import csrc
from .csrc import ExtractError


def cchar(tok):
    """value of a C integer / character literal"""
    tok = tok.strip()
    if tok.startswith("'") and tok.endswith("'"):
        body = tok[1:-1]
        if body.startswith("\\"):
            simple = {"n": 10, "t": 9, "r": 13, "0": 0, "f": 12, "v": 11, "a": 7, "b": 8, "'": 39, '"': 34, "\\": 92, "e": 27, "?": 63}
            if body[1] in simple and len(body) == 2:
                return simple[body[1]]
            if body[1] == "x":
                return int(body[2:], 16)
            if body[1:].isdigit():
                return int(body[1:], 8)
            raise ExtractError("unknown char literal %s" % tok)
        if len(body) != 1:
            raise ExtractError("unknown char literal %s" % tok)
        return ord(body)
    try:
        return csrc.cint(tok)
    except ValueError:
        raise ExtractError("not a literal: %r" % tok)


def norm(s):
    return re.sub(r"\s+", "", s)


MEM_FUNCS = ["popstate", "delim_error", "write_codepoint", "escapeh", "escapeu", "escape1", "stringend", "stringchar", "tokenchar",
             "comment", "close_tuple", "close_array", "close_struct", "close_table", "longstring", "atsign", "root",
             "janet_parser_consume", "janet_parser_eof", "janet_parser_flush", "janet_parser_error", "janet_parser_produce",
             "janet_parser_produce_wrapped", "parser_state_delimiters"]

P = r"(?:p|parser)"
ID = r"[A-Za-z_]\w*"
MEM_PATTERNS = [
    # calls of stack primitives and of functions that use them
    (r"\bpush_buf\s*\(", "push_buf"), (r"\bpush_arg\s*\(", "push_arg"), (r"\b_?pushstate\s*\(", "pushstate"),
    (r"\bpopstate\s*\(", "popstate"), (r"\bstringend\s*\(", "stringend"), (r"\bwrite_codepoint\s*\(", "write_codepoint"),
    (r"\bdelim_error\s*\(", "delim_error"), (r"\bclose_(tuple|array|struct|table)\s*\(", "close_\\1"),
    (r"\bjanet_parser_(consume|eof|flush|error|produce_wrapped|produce|status)\s*\(", "\\1"),
    # loops over the argument stack: the bounds are part of the event
    (r"for\s*\(\s*(?:int32_t\s+)?(" + ID + r")\s*=\s*" + ID + r"->argn\s*-\s*1\s*;\s*\1\s*>=\s*0\s*;\s*\1\s*--\s*\)\s*\{?\s*[\w>.-]+\s*\[\s*\1\s*\]\s*=\s*"
     + P + r"->args\s*\[\s*--\s*" + P + r"->argcount\s*\]", "for(i=argn-1;i>=0;i--)args[--argcount]"),
    (r"for\s*\(\s*(?:size_t\s+)?(" + ID + r")\s*=\s*" + P + r"->argcount\s*-\s*" + ID + r"->argn\s*;\s*\1\s*<\s*" + P + r"->argcount\s*;\s*\1\s*\+=\s*2\s*\)",
     "for(i=argcount-argn;i<argcount;i+=2)"),
    (r"for\s*\(\s*(" + ID + r")\s*=\s*1\s*;\s*\1\s*<\s*" + P + r"->argcount\s*;\s*\1\s*\+\+\s*\)\s*\{?\s*" + P + r"->args\s*\[\s*\1\s*-\s*1\s*\]\s*=\s*"
     + P + r"->args\s*\[\s*\1\s*\]", "for(i=1;i<argcount;i++)args[i-1]=args[i]"),
    # counts
    (P + r"->states\s*\[\s*--\s*" + P + r"->statecount\s*\]", "states[--statecount]"),
    (P + r"->statecount\s*--|--\s*" + P + r"->statecount", "statecount--"),
    (P + r"->argcount\s*--|--\s*" + P + r"->argcount", "argcount--"),
    (P + r"->argcount\s*-=\s*" + ID + r"->argn", "argcount-=argn"),
    (P + r"->bufcount\s*=\s*0\b", "bufcount=0"), (P + r"->bufcount\s*=\s*" + ID + r"\s*;", "bufcount=saved"), (P + r"->argcount\s*=\s*0\b", "argcount=0"), (P + r"->statecount\s*=\s*1\b", "statecount=1"),
    (P + r"->(statecount|argcount|bufcount)\s*(?:[-+*/]?=(?!=)|\+\+)", "WRITE:\\1"),
    (P + r"->(states|args|buf)\s*=(?!=)", "WRITE:\\1"),
    # indexed reads / writes
    (P + r"->buf\s*\[\s*0\s*\]", "buf[0]"), (P + r"->args\s*\[\s*0\s*\]", "args[0]"), (P + r"->states\s*\[\s*0\s*\]", "states[0]"),
    (P + r"->args\s*\[\s*" + ID + r"\s*\+\s*1\s*\]", "args[i+1]"), (P + r"->args\s*\[\s*" + ID + r"\s*\]", "args[i]"),
    (P + r"->states\s*\[\s*" + P + r"->statecount\s*-\s*1\s*\]", "states[statecount-1]"),
    (P + r"->states\s*\+\s*" + P + r"->statecount\s*-\s*1\b", "states+statecount-1"),
    (P + r"->states\s*\+\s*" + ID + r"\b(?!\s*->)", "states+stack_index"),
    (P + r"->(states|args)\s*\[", "INDEX:\\1"),
]
_MEM_RX = [(re.compile(rx), name) for rx, name in MEM_PATTERNS]


def mem_ops(body, fn):
    """The memory events of a function body in source order (first matching pattern at each position wins);
    consecutive duplicates of pure reads are merged so that re-reading `p->buf[0]` in one expression is one event."""
    out, i = [], 0
    while i < len(body):
        best = None
        for rx, name in _MEM_RX:
            m = rx.match(body, i)
            if m:
                best = (m, m.expand(name))
                break
        if best:
            m, name = best
            if name.startswith(("WRITE:", "INDEX:")):
                raise ExtractError("%s: unrecognised access to a parser stack: %s" % (fn, norm(body[i:i + 60])))
            if not (out and out[-1] == name and name in ("buf[0]", "args[0]", "states[0]", "args[i]", "args[i+1]")):
                out.append(name)
            i = m.end()
        else:
            i += 1
    return out


def _stack_of(ev):
    """The single stack an event touches (None: a call / several stacks: ordered w.r.t. everything)."""
    if ev in ("push_buf", "bufcount=0", "buf[0]", "bufcount=saved"):
        return "buf"
    if ev in ("pushstate", "statecount--", "statecount=1", "states[0]", "states[statecount-1]", "states+statecount-1", "states+stack_index",
              "states[--statecount]"):
        return "states"
    if ev in ("push_arg", "argcount=0", "argcount--", "argcount-=argn", "args[0]", "args[i]", "args[i+1]", "args[--argcount]",
              "for(i=argn-1;i>=0;i--)args[--argcount]", "for(i=argcount-argn;i<argcount;i+=2)", "for(i=1;i<argcount;i++)args[i-1]=args[i]"):
        return "args"
    return None


def commute_normal_form(ops):
    """Events on different stacks are independent statements: reordering them is behaviour preserving.  Canonical representative of
    the trace: swap adjacent independent events into alphabetical order until stable."""
    ops = list(ops)
    changed = True
    while changed:
        changed = False
        for i in range(len(ops) - 1):
            a, b = _stack_of(ops[i]), _stack_of(ops[i + 1])
            if a and b and a != b and ops[i] > ops[i + 1]:
                ops[i], ops[i + 1] = ops[i + 1], ops[i]
                changed = True
    return ops


def all_functions(src):
    """(name, body) of every function definition at file level."""
    out = []
    for m in re.finditer(r"^(?:static\s+)?[A-Za-z_][\w \t\*]*?\b(\w+)\s*\([^;{}]*\)\s*\{", src, re.M):
        name = m.group(1)
        if name in ("if", "while", "for", "switch"):
            continue
        j = m.end() - 1
        try:
            out.append((name, src[j:csrc.match_brace(src, j)]))
        except ExtractError:
            pass
    return out


def canon_locals(body, decls):
    """Alpha-rename locals to canonical names: for every declaration pattern (one capture group = the declared identifier) each
    identifier it declares anywhere in `body` is replaced, as a whole word, by the canonical name.  Renaming a local is behaviour
    preserving; a clash with another identifier of the body raises."""
    for rx, canon in decls:
        names = set(re.findall(rx, body))
        for nm in names:
            if nm == canon:
                continue
            if canon not in names and re.search(r"(?<!\\)\b%s\b" % re.escape(canon), body):
                raise ExtractError("cannot canonicalise local %s -> %s: name already used" % (nm, canon))
            body = re.sub(r"(?<!\\)\b%s\b" % re.escape(nm), canon, body)      # not the letter of an escape sequence ('\\n')
    return body


def extract(tree):
    raw = csrc.read(tree, "src/core/parse.c")
    src = csrc.strip_comments(raw)
    c = {}
    # ---- symchars
    m = re.search(r"static\s+const\s+uint32_t\s+symchars\s*\[\s*8\s*\]\s*=\s*\{([^}]*)\}", src)
    if not m:
        raise ExtractError("symchars[8] table not found")
    words = [csrc.cint(w) for w in m.group(1).split(",") if w.strip()]
    if len(words) != 8:
        raise ExtractError("symchars: expected 8 words, got %d" % len(words))
    c["symchars"] = words
    body = csrc.func_body(src, "janet_is_symbol_char")
    if norm(body) != norm("{ return symchars[c >> 5] & ((uint32_t)1 << (c & 0x1F)); }"):
        raise ExtractError("janet_is_symbol_char: body changed: %s" % norm(body))
    # ---- whitespace
    body = csrc.func_body(src, "is_whitespace")
    ws = re.findall(r"c\s*==\s*('(?:\\.|[^'])+'|\w+)", body)
    if not ws or norm(body) != norm("{return " + "||".join("c==" + w for w in ws) + ";}"):
        raise ExtractError("is_whitespace: shape not recognised")
    c["whitespace"] = sorted(cchar(w) for w in ws)
    # ---- checkescape
    body = csrc.func_body(src, "checkescape")
    esc = {}
    pending = []
    pos = 0
    for m in re.finditer(r"(default\s*:|case\s+('(?:\\.|[^'])+'|\w+)\s*:)|return\s+([^;]+);", body):
        if m.group(1):
            pending.append("default" if m.group(1).startswith("default") else cchar(m.group(2)))
        else:
            val = m.group(3).strip()
            v = -1 if val == "-1" else cchar(val)
            for p in pending:
                esc[p] = v
            pending = []
    if esc.get("default") != -1:
        raise ExtractError("checkescape: default is not -1")
    del esc["default"]
    multi = sorted(k for k, v in esc.items() if k in (ord("x"), ord("u"), ord("U")))
    if multi != sorted([ord("x"), ord("u"), ord("U")]) or any(esc[k] != 1 for k in multi):
        raise ExtractError("checkescape: x/u/U cases changed")
    c["checkescape"] = sorted((k, v) for k, v in esc.items() if k not in multi)
    body = csrc.func_body(src, "escape1")
    m = re.search(r"if\s*\(c\s*==\s*'x'\)\s*\{\s*state->counter\s*=\s*(\d+)\s*;", body)
    m2 = re.search(r"else\s+if\s*\(c\s*==\s*'u'\s*\|\|\s*c\s*==\s*'U'\)\s*\{\s*state->counter\s*=\s*c\s*==\s*'u'\s*\?\s*(\d+)\s*:\s*(\d+)\s*;", body)
    if not m or not m2:
        raise ExtractError("escape1: digit counts not recognised")
    c["hexDigitsX"], c["hexDigitsU"], c["hexDigitsBigU"] = int(m.group(1)), int(m2.group(1)), int(m2.group(2))
    body = csrc.func_body(src, "escapeu")
    m = re.search(r"if\s*\(state->argn\s*>\s*(\w+)\)", body)
    if not m:
        raise ExtractError("escapeu: code point limit not recognised")
    c["maxCodepoint"] = csrc.cint(m.group(1))
    # ---- stringend: every read of the scratch buffer must be guarded by the current length (no stale bytes are looked at)
    # locals are free: alpha-rename them to the names used below (renaming a local is behaviour preserving)
    body = norm(canon_locals(csrc.func_body(src, "stringend"), [
        (r"uint8_t\s*\*\s*(\w+)\s*=\s*p->buf\s*;", "bufstart"), (r"int32_t\s+(\w+)\s*=\s*\(\s*int32_t\s*\)\s*p->bufcount\s*;", "buflen"),
        (r"JanetParseState\s+(\w+)\s*=\s*p->states\s*\[", "top"),
        (r"uint8_t\s*\*\s*(\w+)\s*=\s*\w+\s*,\s*\*", "r"), (r"uint8_t\s*\*\s*\w+\s*=\s*\w+\s*,\s*\*\s*(\w+)\s*=", "end"),
        (r"int32_t\s+(\w+)\s*=\s*\(\s*int32_t\s*\)\s*\w+\.column", "indent_col"), (r"\bint\s+(\w+)\s*=\s*1\s*;", "reindent"),
        (r"uint8_t\s*\*\s*(\w+)\s*=\s*\w+\s*;\s*\w+\s*=\s*\w+\s*;\s*while", "w"), (r"for\s*\(\s*int32_t\s+(\w+)\s*=\s*0\s*;", "j")]))
    g = {}
    for key, rx in (("stripLeadCRLFGuard", r"if\(buflen>(\d+)&&bufstart\[0\]=='\\r'&&bufstart\[1\]=='\\n'\)"),
                    ("stripLeadLFGuard", r"elseif\(buflen>(\d+)&&bufstart\[0\]=='\\n'\)"),
                    ("stripTrailCRLFGuard", r"if\(buflen>(\d+)&&bufstart\[buflen-2\]=='\\r'&&bufstart\[buflen-1\]=='\\n'\)"),
                    ("stripTrailLFGuard", r"elseif\(buflen>(\d+)&&bufstart\[buflen-1\]=='\\n'\)")):
        m = re.findall(rx, body)
        if len(m) != 1:
            raise ExtractError("stringend: guard %s not recognised" % key)
        g[key] = int(m[0])
    c.update(g)
    for frag, n in (("(r+1)<end&&*r=='\\r'&&*(r+1)=='\\n'", 2), ("(r<end)&&(*r!='\\n')&&(j<indent_col)", 2), ("while(reindent&&(r<end))", 1),
                    ("while(r<end)", 1), ("uint8_t*r=bufstart,*end=r+buflen;", 1), ("int32_tindent_col=(int32_t)top.column-1;", 1)):
        if body.count(frag) != n:
            raise ExtractError("stringend: loop bound / indent column `%s` expected %d time(s), found %d" % (frag, n, body.count(frag)))
    # the pointer accesses of the two re-indent loops, in source order (`Parse/StrIdx.lean` mirrors exactly these: checkI / forCheckI /
    # crlfAtI / rewriteI / skipI); no indexed access and no other pointer arithmetic on the cursors inside the loops
    a, z = body.find("if(state->flags&PFLAG_LONGSTRING){"), body.find("if(buflen>")
    if a < 0 or z < a:
        raise ExtractError("stringend: long-string block not found")
    region = body[a:z].replace("uint8_t*", "uint8_t ").replace(",*end=", ", end=")      # declarators are not dereferences
    if re.search(r"\b(r|w|end|bufstart)\[", region) or re.search(r"\b(r|w)(\+=|-=|--)|--(r|w)\b", region):
        raise ExtractError("stringend: indexed access / cursor arithmetic in the re-indent loops not recognised")
    c["stringendLoopOps"] = re.findall(r"\*w\+\+=\*r\+\+|\*r\+\+|\*\(r\+1\)|\*r\b|\*w\b|\bw=bufstart|\br=bufstart|buflen=\(int32_t\)\(w-bufstart\)", region)
    # ---- the three stacks: growth policy of DEF_PARSER_STACK, of the string branch of parser/insert, of clone
    m = re.search(r"#define\s+DEF_PARSER_STACK\(NAME,\s*T,\s*STACK,\s*STACKCOUNT,\s*STACKCAP\)((?:[^\n]*\\\n)*[^\n]*\n)", raw)
    if not m:
        raise ExtractError("DEF_PARSER_STACK not found")
    mac = norm(m.group(1).replace("\\\n", " "))
    # local names are free (back-references); the structure is fixed
    mm = re.fullmatch(r"staticvoidNAME\(JanetParser\*p,T(?P<x>\w+)\)\{size_t(?P<old>\w+)=p->STACKCOUNT;size_t(?P<new>\w+)=(?P=old)\+1;"
                      r"if\((?P=new)>p->STACKCAP\)\{T\*(?P<nx>\w+);"
                      r"size_t(?P<cap>\w+)=(\d+)\*(?P=new);(?P=nx)=janet_realloc\(p->STACK,sizeof\(T\)\*(?P=cap)\);if\(NULL==(?P=nx)\)\{JANET_OUT_OF_MEMORY;\}"
                      r"p->STACK=(?P=nx);p->STACKCAP=(?P=cap);\}p->STACK\[(?P=old)\]=(?P=x);p->STACKCOUNT=(?P=new);\}", mac)
    if not mm:
        raise ExtractError("DEF_PARSER_STACK: body not recognised: %s" % mac[:300])
    c["stackGrowFactor"] = int(mm.group(6))
    inst = re.findall(r"^DEF_PARSER_STACK\((\w+),\s*[\w ]+,\s*(\w+),\s*(\w+),\s*(\w+)\)", src, re.M)
    if sorted(inst) != sorted([("push_buf", "buf", "bufcount", "bufcap"), ("push_arg", "args", "argcount", "argcap"), ("_pushstate", "states", "statecount", "statecap")]):
        raise ExtractError("DEF_PARSER_STACK instances changed: %r" % inst)
    # no other writer of a capacity / allocation of a stack than: the macro, init (0), clone (= count), the string branch of parser/insert
    capw = re.findall(r"(?:p|parser|dest)->(bufcap|argcap|statecap)\s*=\s*([^;]+);", src)
    want = sorted([("argcap", "0"), ("bufcap", "0"), ("statecap", "0"), ("bufcap", "dest->bufcount"), ("statecap", "dest->statecount"), ("argcap", "dest->argcount"),
                   ("bufcap", "<local>")])
    if sorted((a, b.strip() if (b.strip() == "0" or "->" in b) else "<local>") for a, b in capw) != want:
        raise ExtractError("capacity assignments changed: %r" % capw)
    # ---- memory events of every function the physical machine (Parse/Phys.lean) mirrors, in source order
    c["memOps"] = [(fn, commute_normal_form(mem_ops(csrc.func_body(src, fn), fn))) for fn in MEM_FUNCS]
    # no function outside that list (and the ones pinned above / below: init, clone, cfun_parse_insert, parser_state_delimiters)
    # touches a count, a block or calls a stack primitive
    known = set(MEM_FUNCS) | {"janet_parser_init", "janet_parser_clone", "janet_parser_deinit", "pushstate"}
    for fn, body in all_functions(src):
        if fn in known or fn in ("cfun_parse_insert", "parser_state_frames", "janet_wrap_parse_state", "parsermark"):
            continue
        ops = [o for o in mem_ops(body, fn) if o not in ("consume", "eof", "flush", "error", "produce", "produce_wrapped", "status")]
        if ops:
            raise ExtractError("%s touches the parser stacks (%s) but is not modelled" % (fn, ",".join(ops)))
    # ---- ownership of the pending error message: every write to `->error` / `->flag` anywhere in parse.c, per function in source order,
    #      and the read in `parsermark`.  `error = (const char *) janet_string(..)` is the one site that stores a GC heap string; it must
    #      come with `flag |= JANET_PARSER_GENERATED_ERROR` (parsermark keeps the string alive iff that bit is set).
    EW = [
        (r"->error\s*=\s*\(\s*const\s+char\s*\*\s*\)\s*janet_string\s*\(", "error=heap"),
        (r"->error\s*=\s*\"(?:[^\"\\]|\\.)*\"\s*;", "error=static"),
        (r"->error\s*=\s*NULL\s*;", "error=NULL"),
        (r"->flag\s*\|=\s*JANET_PARSER_GENERATED_ERROR\s*;", "flag|=GENERATED_ERROR"),
        (r"->flag\s*\|=\s*JANET_PARSER_DEAD\s*;", "flag|=DEAD"),
        (r"->flag\s*&=\s*~\s*JANET_PARSER_GENERATED_ERROR\s*;", "flag&=~GENERATED_ERROR"),
        (r"->flag\s*=\s*0\s*;", "flag=0"),
        (r"->flag\s*=(?!=)\s*([^;]{0,40});", "flag=\\1"),
        (r"->flag\s*(\|=|&=|\^=|\+=|-=)\s*([^;]{0,40});", "flag\\1\\2"),
        (r"->error\s*=(?!=)\s*([^;]{0,40});", "error=\\1"),
    ]
    ew_rx = [(re.compile(rx), nm) for rx, nm in EW]
    err_writes = []
    for fn, body in all_functions(src):
        evs, i = [], 0
        while i < len(body):
            hit = None
            if body.startswith("->", i):
                for rx, nm in ew_rx:
                    m = rx.match(body, i)
                    if m:
                        hit = (m, norm(m.expand(nm)))
                        break
            if hit:
                evs.append(hit[1])
                i = hit[0].end()
            else:
                i += 1
        # a consumer that latches a static message does nothing else with the two fields: collapse repeats
        if evs:
            coll = []
            for e in evs:
                if not (coll and coll[-1] == e == "error=static"):
                    coll.append(e)
            # writes to the two different fields are independent statements: canonical order = the `error` writes, then the `flag` writes
            err_writes.append((fn, [e for e in coll if e.startswith("error")] + [e for e in coll if not e.startswith("error")]))
    c["errFlagWrites"] = err_writes
    c["staticErrors"] = sorted(set(re.findall(r"->error\s*=\s*(\"(?:[^\"\\]|\\.)*\")\s*;", src)))
    calls = re.findall(r"\bdelim_error\s*\(([^;{}]*)\)\s*;", src)
    msgs = []
    for a in calls:
        m = re.search(r",\s*(\"(?:[^\"\\]|\\.)*\")\s*$", a.strip())
        if not m:
            raise ExtractError("delim_error call whose message is not a string literal: delim_error(%s)" % norm(a))
        msgs.append(m.group(1))
    if not msgs:
        raise ExtractError("no delim_error call found")
    c["delimMessages"] = sorted(set(msgs))
    body = csrc.func_body(src, "parsermark")
    if not re.search(r"if\s*\(\s*parser->flag\s*&\s*JANET_PARSER_GENERATED_ERROR\s*\)\s*\{\s*janet_mark\s*\(\s*janet_wrap_string\s*\(\s*\(\s*const\s+uint8_t\s*\*\s*\)\s*"
                     r"parser->error\s*\)\s*\)\s*;\s*\}", body):
        raise ExtractError("parsermark: `if (flag & JANET_PARSER_GENERATED_ERROR) janet_mark(error string)` not recognised")
    body = csrc.func_body(src, "janet_parser_checkdead")
    if not re.fullmatch(r"\{if\(parser->flag\)janet_panic\(\"[^\"]*\"\);if\(parser->error\)janet_panic\(\"[^\"]*\"\);\}", norm(body)):
        raise ExtractError("janet_parser_checkdead: shape changed: %s" % norm(body)[:200])
    # ---- flags
    for name in ("PFLAG_CONTAINER", "PFLAG_BUFFER", "PFLAG_PARENS", "PFLAG_SQRBRACKETS", "PFLAG_CURLYBRACKETS", "PFLAG_STRING", "PFLAG_LONGSTRING",
                 "PFLAG_READERMAC", "PFLAG_ATSYM", "PFLAG_COMMENT", "PFLAG_TOKEN", "PFLAG_INSTRING", "PFLAG_END_CANDIDATE", "JANET_PARSER_DEAD",
                 "JANET_PARSER_GENERATED_ERROR"):
        m = re.search(r"#define\s+%s\s+(\w+)" % name, src)
        if not m:
            raise ExtractError("#define %s not found" % name)
        c[name] = csrc.cint(m.group(1))
    # ---- line / column rule
    body = csrc.func_body(src, "janet_parser_consume")
    want = (r"\{int(?P<c>\w+)=0;janet_parser_checkdead\(parser\);if\(c=='\\r'\)\{parser->line\+\+;parser->column=0;\}elseif\(c=='\\n'\)\{parser->column=0;"
            r"if\(parser->lookback!='\\r'\)parser->line\+\+;\}else\{parser->column\+\+;\}while\(!(?P=c)&&!parser->error\)\{JanetParseState\*(?P<s>\w+)=parser->states\+"
            r"parser->statecount-1;(?P=c)=(?P=s)->consumer\(parser,(?P=s),c\);\}parser->lookback=c;\}")
    c["consumeShapeOk"] = re.fullmatch(want, norm(body)) is not None
    if not c["consumeShapeOk"]:
        raise ExtractError("janet_parser_consume: line/column/lookback rule or consume loop changed shape: %s" % norm(body)[:400])
    # ---- clone / flush / error: fields touched
    hdr = csrc.strip_comments(csrc.read(tree, "src/include/janet.h"))
    m = re.search(r"struct\s+JanetParser\s*\{([^}]*)\}", hdr)
    if not m:
        raise ExtractError("struct JanetParser not found in janet.h")
    fields = re.findall(r"(\w+)\s*;", m.group(1))
    c["parserFields"] = fields
    body = csrc.func_body(src, "janet_parser_clone")
    copied = set(a for a, b in re.findall(r"dest->(\w+)\s*=\s*src->(\w+)\s*;", body) if a == b)
    for a, b in re.findall(r"dest->(\w+)\s*=\s*dest->(\w+)\s*;", body):   # capacities are set from the counts
        if b in copied:
            copied.add(a)
    for a, b, n in re.findall(r"memcpy\s*\(\s*dest->(\w+)\s*,\s*src->(\w+)\s*,\s*([^;]*)\)\s*;", body):
        if a == b:
            copied.add(a)
    c["cloneFields"] = sorted(copied)
    body = csrc.func_body(src, "janet_parser_flush")
    c["flushFields"] = sorted(set(re.findall(r"parser->(\w+)(?:\[0\]\.\w+)?\s*=\s*[01]\s*;", body)))
    c["flushResetsRootArgn"] = bool(re.search(r"parser->states\[0\]\.argn\s*=\s*0\s*;", body))
    m = re.search(r"JANET_CORE_FN\s*\(\s*cfun_parse_insert\s*,", src)
    if not m:
        raise ExtractError("cfun_parse_insert not found")
    i = src.index("{", src.index(")", m.end()))
    # the doc strings contain parentheses: take the first '{' that starts a line-level block after the macro head
    i = src.index(") {", m.end()) + 2
    body = norm(src[i:csrc.match_brace(src, i)])
    old_ins = "if(s->flags&PFLAG_CONTAINER){s->argn++;if(p->statecount==1){p->pending++;"
    new_ins = "if(s->flags&PFLAG_CONTAINER){s->argn++;if(s==p->states){p->pending++;"
    if old_ins in body:
        c["insertRootTestByFrame"] = False
    elif new_ins in body:
        c["insertRootTestByFrame"] = True
    else:
        raise ExtractError("cfun_parse_insert: root-frame test not recognised")
    for frag in ("if(s->consumer==tokenchar){janet_parser_consume(p,'');p->column--;s=p->states+p->statecount-1;}", "if(s->flags&PFLAG_COMMENT)s--;",
                 "elseif(s->flags&(PFLAG_STRING|PFLAG_LONGSTRING)){", "janet_panic(\"cannotinsertvalueintoparser\");"):
        if frag not in body:
            raise ExtractError("cfun_parse_insert: shape changed (%s)" % frag)
    mi = re.search(r"size_t(?P<n>\w+)=p->bufcount\+(?P<l>\w+);if\(p->bufcap<(?P=n)\)\{size_t(?P<c>\w+)=(?P<f>\d+)\*(?P=n);p->buf=janet_realloc\(p->buf,(?P=c)\);"
                   r"if\(p->buf==NULL\)\{JANET_OUT_OF_MEMORY;\}p->bufcap=(?P=c);\}safe_memcpy\(p->buf\+p->bufcount,\w+,(?P=l)\);p->bufcount=(?P=n);", body)
    if not mi:
        raise ExtractError("cfun_parse_insert: string branch (buffer growth) not recognised")
    c["insertGrowFactor"] = int(mi.group("f"))
    fr = re.search(r"struct\s+JanetParseState\s*\{([^}]*)\}", src)
    if not fr:
        raise ExtractError("struct JanetParseState not found")
    c["frameFields"] = re.findall(r"(\w+)\s*;", fr.group(1))
    # ---- printer side (pp.c)
    pp = csrc.strip_comments(csrc.read(tree, "src/core/pp.c"))
    body = csrc.func_body(pp, "janet_escape_string_impl")
    tab = []
    for m in re.finditer(r"case\s+('(?:\\.|[^'])+'|\w+)\s*:\s*janet_buffer_push_bytes\s*\(\s*buffer\s*,\s*\(const\s+uint8_t\s*\*\)\s*\"((?:\\.|[^\"])*)\"\s*,\s*2\s*\)\s*;\s*break\s*;", body):
        lit = m.group(2)
        if len(lit) < 2 or lit[0] != "\\":
            raise ExtractError("janet_escape_string_impl: escape literal %r not recognised" % lit)
        # C string literal of 2 chars: backslash + letter, written "\\\\n" or "\\\\\\"" etc.
        if lit[:2] != "\\\\":
            raise ExtractError("janet_escape_string_impl: escape literal %r does not start with a backslash" % lit)
        rest = lit[2:]
        letter = cchar("'" + rest + "'")
        tab.append((cchar(m.group(1)), letter))
    if len(tab) < 5:
        raise ExtractError("janet_escape_string_impl: escape cases not recognised")
    ncase = len(re.findall(r"\bcase\b", body))
    if ncase != len(tab):
        raise ExtractError("janet_escape_string_impl: %d case labels but %d recognised" % (ncase, len(tab)))
    c["ppEscape"] = sorted(tab)
    m = re.search(r"default\s*:\s*if\s*\(\s*c\s*<\s*(\d+)\s*\|\|\s*c\s*>\s*(\d+)\s*\)\s*\{\s*uint8_t\s+buf\[4\]\s*;\s*buf\[0\]\s*=\s*'\\\\'\s*;\s*buf\[1\]\s*=\s*'x'\s*;"
                  r"\s*buf\[2\]\s*=\s*janet_base64\[\(c\s*>>\s*4\)\s*&\s*0xF\]\s*;\s*buf\[3\]\s*=\s*janet_base64\[c\s*&\s*0xF\]\s*;\s*janet_buffer_push_bytes\s*\(\s*buffer\s*,\s*buf\s*,\s*4\s*\)\s*;"
                  r"\s*\}\s*else\s*\{\s*janet_buffer_push_u8\s*\(\s*buffer\s*,\s*c\s*\)\s*;", body)
    if not m:
        raise ExtractError("janet_escape_string_impl: default (\\xHH / verbatim) branch not recognised")
    c["ppPrintLo"], c["ppPrintHi"] = int(m.group(1)), int(m.group(2))
    if not re.match(r"\{\s*janet_buffer_push_u8\s*\(\s*buffer\s*,\s*'\"'\s*\)\s*;", body) or not re.search(r"janet_buffer_push_u8\s*\(\s*buffer\s*,\s*'\"'\s*\)\s*;\s*\}\s*$", body):
        raise ExtractError("janet_escape_string_impl: opening/closing quote not recognised")
    body = csrc.func_body(pp, "contains_bad_chars")
    old_shape = ("{int32_t len=janet_string_length(sym);if(len&&issym&&sym[0]>='0'&&sym[0]<='9')return 1;if(!janet_valid_utf8(sym,len))return 1;"
                 "for(int32_t i=0;i<len;i++){if(!janet_is_symbol_char(sym[i]))return 1;}return 0;}")
    new_shape = ("{int32_t len=janet_string_length(sym);if(issym){if(len==0||sym[0]==':')return 1;if(sym[0]>='0'&&sym[0]<='9')return 1;"
                 "if(!janet_cstrcmp(sym,\"nil\")||!janet_cstrcmp(sym,\"true\")||!janet_cstrcmp(sym,\"false\"))return 1;"
                 "if(sym[0]=='-'||sym[0]=='+'||sym[0]=='.'){\n#ifdef JANET_INT_TYPES\nJanet num;if(!janet_scan_numeric(sym,len,&num))return 1;\n#else\n"
                 "double num;if(!janet_scan_number(sym,len,&num))return 1;\n#endif\n}}if(!janet_valid_utf8(sym,len))return 1;"
                 "for(int32_t i=0;i<len;i++){if(!janet_is_symbol_char(sym[i]))return 1;}return 0;}")
    if norm(body) == norm(old_shape):
        c["ppRefusesMisreadSymbols"] = False
    elif norm(body) == norm(new_shape):
        c["ppRefusesMisreadSymbols"] = True
    else:
        raise ExtractError("contains_bad_chars: body not recognised: %s" % norm(body)[:500])
    body = csrc.func_body(pp, "print_jdn_one")
    if not re.search(r"case\s+JANET_SYMBOL\s*:\s*case\s+JANET_KEYWORD\s*:\s*if\s*\(\s*contains_bad_chars\s*\(\s*janet_unwrap_keyword\s*\(x\)\s*,\s*janet_type\s*\(x\)\s*==\s*JANET_SYMBOL\s*\)\s*\)\s*return\s+1\s*;", body):
        raise ExtractError("print_jdn_one: symbol/keyword refusal not recognised")
    if not re.search(r"if\s*\(\s*isnan\s*\((\w+)\)\s*\)\s*return\s+1\s*;\s*if\s*\(\s*isinf\s*\(\1\)\s*\)\s*return\s+1\s*;", body):
        raise ExtractError("print_jdn_one: nan/inf refusal not recognised")
    # ---- print_jdn_one: delimiters, separators, depth budget (the model PP/Jdn.lean hard-codes them; Props.C11.jdn_printer_shape pins them)
    jb = norm(canon_locals(body, [
        (r"JanetTuple\s+(\w+)\s*=\s*janet_unwrap_tuple", "t"), (r"\bint\s+(\w+)\s*=\s*janet_tuple_flag", "isb"),
        (r"JanetArray\s*\*\s*(\w+)\s*=\s*janet_unwrap_array", "a"), (r"JanetTable\s*\*\s*(\w+)\s*=\s*janet_unwrap_table", "tab"),
        (r"JanetStruct\s+(\w+)\s*=\s*janet_unwrap_struct", "st"), (r"\bint\s+(\w+)\s*=\s*1\s*;\s*for\b", "isFirst"),
        (r"const\s+JanetKV\s*\*\s*(\w+)\s*=", "kv"), (r"for\s*\(\s*int32_t\s+(\w+)\s*=\s*0\s*;", "i"),
        (r"\bdouble\s+(\w+)\s*=\s*janet_unwrap_number", "num")]).replace("' '", "'SP'"))

    def ch(tok):
        return 32 if tok == "SP" else cchar("'" + tok + "'")
    C = r"'(SP|\\.|[^'])'"
    m = re.search(r"caseJANET_TUPLE:\{JanetTuplet=janet_unwrap_tuple\(x\);intisb=janet_tuple_flag\(t\)&JANET_TUPLE_FLAG_BRACKETCTOR;"
                  r"janet_buffer_push_u8\(S->buffer,isb\?" + C + ":" + C + r"\);for\(int32_ti=0;i<janet_tuple_length\(t\);i\+\+\)\{"
                  r"if\(i\)janet_buffer_push_u8\(S->buffer," + C + r"\);if\(print_jdn_one\(S,t\[i\],depth-1\)\)return1;\}"
                  r"janet_buffer_push_u8\(S->buffer,isb\?" + C + ":" + C + r"\);\}break;", jb)
    if not m:
        raise ExtractError("print_jdn_one: tuple case not recognised")
    c["ppTupleBracket"] = (ch(m.group(1)), ch(m.group(4)))
    c["ppTupleParen"] = (ch(m.group(2)), ch(m.group(5)))
    seps = {ch(m.group(3))}
    m = re.search(r"caseJANET_ARRAY:\{janet_table_put\(&S->seen,x,janet_wrap_true\(\)\);JanetArray\*a=janet_unwrap_array\(x\);"
                  r"janet_buffer_push_cstring\(S->buffer,\"([^\"]*)\"\);for\(int32_ti=0;i<a->count;i\+\+\)\{"
                  r"if\(i\)janet_buffer_push_u8\(S->buffer," + C + r"\);if\(print_jdn_one\(S,a->data\[i\],depth-1\)\)return1;\}"
                  r"janet_buffer_push_u8\(S->buffer," + C + r"\);\}break;", jb)
    if not m:
        raise ExtractError("print_jdn_one: array case not recognised")
    c["ppArrayOpen"] = [ord(x) for x in m.group(1)]
    c["ppArrayClose"] = ch(m.group(3))
    seps.add(ch(m.group(2)))

    def dict_case(label, head, cap, opener_rx):
        mm = re.search(r"case" + label + r":\{" + head + opener_rx + r"intisFirst=1;for\(int32_ti=0;i<" + cap + r";i\+\+\)\{"
                       r"constJanetKV\*kv=\w+(?:->data)?\+i;if\(janet_checktype\(kv->key,JANET_NIL\)\)continue;"
                       r"if\(!isFirst\)janet_buffer_push_u8\(S->buffer," + C + r"\);isFirst=0;"
                       r"if\(print_jdn_one\(S,kv->key,depth-1\)\)return1;janet_buffer_push_u8\(S->buffer," + C + r"\);"
                       r"if\(print_jdn_one\(S,kv->value,depth-1\)\)return1;\}janet_buffer_push_u8\(S->buffer," + C + r"\);\}break;", jb)
        if not mm:
            raise ExtractError("print_jdn_one: %s case not recognised" % label)
        return mm
    m = dict_case("JANET_TABLE", r"janet_table_put\(&S->seen,x,janet_wrap_true\(\)\);JanetTable\*tab=janet_unwrap_table\(x\);", r"tab->capacity",
                  r"janet_buffer_push_cstring\(S->buffer,\"([^\"]*)\"\);")
    c["ppTableOpen"] = [ord(x) for x in m.group(1)]
    seps.add(ch(m.group(2)))
    kvsep = {ch(m.group(3))}
    closes = {ch(m.group(4))}
    m = dict_case("JANET_STRUCT", r"JanetStructst=janet_unwrap_struct\(x\);", r"janet_struct_capacity\(st\)", r"janet_buffer_push_u8\(S->buffer," + C + r"\);")
    c["ppStructOpen"] = [ch(m.group(1))]
    seps.add(ch(m.group(2)))
    kvsep.add(ch(m.group(3)))
    closes.add(ch(m.group(4)))
    if len(seps) != 1 or len(kvsep) != 1 or len(closes) != 1:
        raise ExtractError("print_jdn_one: separators differ between cases: %r %r %r" % (seps, kvsep, closes))
    c["ppItemSep"], c["ppKvSep"], c["ppDictClose"] = seps.pop(), kvsep.pop(), closes.pop()
    if not jb.startswith("{if(depth==0)return1;switch(janet_type(x)){"):
        raise ExtractError("print_jdn_one: `if (depth == 0) return 1;` guard not recognised")
    if jb.count("depth-1") != 6 or len(re.findall(r"print_jdn_one\(S,[^;]*?,depth(?!-1)", jb)):
        raise ExtractError("print_jdn_one: recursive calls do not all pass depth - 1")
    if not jb.endswith("default:return1;}return0;}"):
        raise ExtractError("print_jdn_one: default case (refuse) / return 0 not recognised")
    njdn = len(re.findall(r"intdepth=atoi\(precision\);if\(depth<1\)depth=JANET_RECURSION_GUARD;janet_jdn_\(b,depth,", norm(pp)))
    if njdn != 2:
        raise ExtractError("%%j: default depth JANET_RECURSION_GUARD not recognised (%d sites)" % njdn)
    m = re.search(r"#define\s+JANET_RECURSION_GUARD\s+(\d+)", hdr)
    if not m:
        raise ExtractError("JANET_RECURSION_GUARD not found in janet.h")
    c["jdnDefaultDepth"] = int(m.group(1))
    if not re.search(r"intres=print_jdn_one\(&S,x,depth\);janet_table_deinit\(&S\.seen\);if\(res\)\{janet_panic\(\"couldnotprinttojdnformat\"\);\}", norm(pp)):
        raise ExtractError("janet_jdn_: refusal does not panic")
    util = csrc.strip_comments(csrc.read(tree, "src/core/util.c"))
    m = re.search(r"const\s+char\s+janet_base64\s*\[\s*65\s*\]\s*=\s*((?:\"[^\"]*\"\s*)+);", util)
    if not m:
        raise ExtractError("janet_base64 not found")
    alpha = "".join(re.findall(r"\"([^\"]*)\"", m.group(1)))
    c["hexAlphabet"] = [ord(ch) for ch in alpha[:16]]
    body = csrc.func_body(src, "to_hex")
    if norm(body) != norm("{ if (c >= '0' && c <= '9') { return c - '0'; } else if (c >= 'A' && c <= 'F') { return 10 + c - 'A'; } else if (c >= 'a' && c <= 'f') "
                          "{ return 10 + c - 'a'; } else { return -1; } }"):
        raise ExtractError("to_hex: body changed")
    return c


def render(tree):
    c = extract(tree)
    L = [csrc.lean_header("src/core/parse.c, src/core/pp.c, src/core/util.c, src/include/janet.h")]
    L.append("namespace JanetModel.Gen.Parse\n")
    L.append("/-- `symchars[8]` (parse.c): bit c of the 256-bit map = c is a symbol character -/")
    L.append("abbrev symchars : List Nat := [%s]" % ", ".join("0x%08x" % w for w in c["symchars"]))
    L.append("/-- bytes accepted by `is_whitespace` -/")
    L.append("abbrev whitespace : List Nat := [%s]" % ", ".join(str(w) for w in c["whitespace"]))
    L.append("/-- `checkescape`: single-letter escapes (letter, byte); x/u/U are the multi-digit forms; anything else is an error -/")
    L.append("abbrev checkescape : List (Nat × Nat) := [%s]" % ", ".join("(%d, %d)" % kv for kv in c["checkescape"]))
    L.append("abbrev hexDigitsX : Nat := %d" % c["hexDigitsX"])
    L.append("abbrev hexDigitsU : Nat := %d" % c["hexDigitsU"])
    L.append("abbrev hexDigitsBigU : Nat := %d" % c["hexDigitsBigU"])
    L.append("abbrev maxCodepoint : Nat := 0x%x" % c["maxCodepoint"])
    for name in ("PFLAG_CONTAINER", "PFLAG_BUFFER", "PFLAG_PARENS", "PFLAG_SQRBRACKETS", "PFLAG_CURLYBRACKETS", "PFLAG_STRING", "PFLAG_LONGSTRING",
                 "PFLAG_READERMAC", "PFLAG_ATSYM", "PFLAG_COMMENT", "PFLAG_TOKEN", "PFLAG_INSTRING", "PFLAG_END_CANDIDATE", "JANET_PARSER_DEAD",
                 "JANET_PARSER_GENERATED_ERROR"):
        L.append("abbrev %s : Nat := 0x%x" % (name, c[name]))
    L.append("/-- `janet_escape_string_impl` (pp.c): (byte, escape letter) -/")
    L.append("abbrev ppEscape : List (Nat × Nat) := [%s]" % ", ".join("(%d, %d)" % kv for kv in c["ppEscape"]))
    L.append("/-- bytes outside [ppPrintLo, ppPrintHi] without a letter escape are printed as \\xHH -/")
    L.append("abbrev ppPrintLo : Nat := %d" % c["ppPrintLo"])
    L.append("abbrev ppPrintHi : Nat := %d" % c["ppPrintHi"])
    L.append("abbrev hexAlphabet : List Nat := [%s]" % ", ".join(str(x) for x in c["hexAlphabet"]))
    L.append("/-- fields of `struct JanetParser` (janet.h) and of `struct JanetParseState` -/")
    L.append("abbrev parserFields : List String := [%s]" % ", ".join('"%s"' % f for f in c["parserFields"]))
    L.append("abbrev frameFields : List String := [%s]" % ", ".join('"%s"' % f for f in c["frameFields"]))
    L.append("/-- fields that `janet_parser_clone` copies from src (directly, by memcpy, or capacity := copied count) -/")
    L.append("abbrev cloneFields : List String := [%s]" % ", ".join('"%s"' % f for f in c["cloneFields"]))
    L.append("abbrev flushFields : List String := [%s]" % ", ".join('"%s"' % f for f in c["flushFields"]))
    L.append("/-- does `janet_parser_flush` reset `states[0].argn`?  (the model's flush follows the source) -/")
    L.append("abbrev flushResetsRootArgn : Bool := %s" % ("true" if c["flushResetsRootArgn"] else "false"))
    L.append("/-- `stringend`: minimal lengths guarding the reads bufstart[0..1] / bufstart[buflen-2..buflen-1] of the EOL strip -/")
    for key in ("stripLeadCRLFGuard", "stripLeadLFGuard", "stripTrailCRLFGuard", "stripTrailLFGuard"):
        L.append("abbrev %s : Nat := %d" % (key, c[key]))
    L.append("/-- `parser/insert`: is the root frame recognised by the frame it inserts into (`s == p->states`) rather than by `statecount == 1`? -/")
    L.append("abbrev insertRootTestByFrame : Bool := %s" % ("true" if c["insertRootTestByFrame"] else "false"))
    L.append("/-- does `contains_bad_chars` refuse symbols that read back as nil/true/false, a number, a keyword or nothing? -/")
    L.append("abbrev ppRefusesMisreadSymbols : Bool := %s" % ("true" if c["ppRefusesMisreadSymbols"] else "false"))
    L.append("/-- `print_jdn_one` (pp.c): delimiters and separators of containers; `%j` default depth budget; refusal = panic -/")
    L.append("abbrev ppTupleParen : Nat × Nat := (%d, %d)" % c["ppTupleParen"])
    L.append("abbrev ppTupleBracket : Nat × Nat := (%d, %d)" % c["ppTupleBracket"])
    L.append("abbrev ppArrayOpen : List Nat := [%s]" % ", ".join(str(x) for x in c["ppArrayOpen"]))
    L.append("abbrev ppArrayClose : Nat := %d" % c["ppArrayClose"])
    L.append("abbrev ppTableOpen : List Nat := [%s]" % ", ".join(str(x) for x in c["ppTableOpen"]))
    L.append("abbrev ppStructOpen : List Nat := [%s]" % ", ".join(str(x) for x in c["ppStructOpen"]))
    L.append("abbrev ppDictClose : Nat := %d" % c["ppDictClose"])
    L.append("abbrev ppItemSep : Nat := %d" % c["ppItemSep"])
    L.append("abbrev ppKvSep : Nat := %d" % c["ppKvSep"])
    L.append("abbrev jdnDefaultDepth : Nat := %d" % c["jdnDefaultDepth"])
    L.append("/-- `DEF_PARSER_STACK`: `if (newcount > cap) newcap = stackGrowFactor * newcount`; string branch of `parser/insert`: `if (cap < newcount) newcap = insertGrowFactor * newcount` -/")
    L.append("abbrev stackGrowFactor : Nat := %d" % c["stackGrowFactor"])
    L.append("abbrev insertGrowFactor : Nat := %d" % c["insertGrowFactor"])
    L.append("/-- memory events (stack primitive calls, count updates, indexed accesses) of every parse.c function that `Parse/Phys.lean` mirrors, in source order -/")
    L.append("abbrev memOps : List (String × List String) := [\n  %s]" % ",\n  ".join(
        '("%s", [%s])' % (fn, ", ".join('"%s"' % o for o in ops)) for fn, ops in c["memOps"]))
    L.append("/-- `stringend`: the cursor dereferences / assignments of the two re-indent loops in source order -/")
    L.append("abbrev stringendLoopOps : List String := [%s]" % ", ".join('"%s"' % o for o in c["stringendLoopOps"]))
    L.append("/-- every write to `->error` / `->flag` in parse.c, per function, in source order (`error=heap`: the `janet_string` of `delim_error`; "
             "`error=static`: a string literal; consecutive literal sites of one function merged) -/")
    L.append("abbrev errFlagWrites : List (String × List String) := [\n  %s]" % ",\n  ".join(
        '("%s", [%s])' % (fn, ", ".join('"%s"' % o.replace('"', "'") for o in ops)) for fn, ops in c["errFlagWrites"]))
    L.append("/-- the string literals assigned to `->error` (static storage: never marked, never freed) -/")
    L.append("abbrev staticErrors : List String := [%s]" % ", ".join(c["staticErrors"]))
    L.append("/-- the message arguments of the `delim_error` calls (the generated heap string starts with one of them) -/")
    L.append("abbrev delimMessages : List String := [%s]" % ", ".join(c["delimMessages"]))
    L.append("\nend JanetModel.Gen.Parse")
    return "\n".join(L) + "\n"
