"""Translator: gc.c / gc.h / janet.h (+ the gcmark callbacks in ev.c, parse.c, peg.c, os.c)  ->  Gen/GC.lean.

Generated: the recursion guard D, the JanetMemoryType numbering, the weak-heap threshold used by janet_gcalloc,
the *mark-site table* (for every janet_mark_* function and every gcmark / ev callback: which fields are marked, in
order, and whether through janet_mark (depth-checked) or by a direct typed call / tail loop), and the shape facts of
janet_mark / janet_collect / janet_sweep the model relies on.  Props/C01 proves the generated table equal to the
field list the model's per-type constructors mirror, so a removed or added mark line breaks a proof obligation.
"""
import re
from . import csrc
from .csrc import ExtractError

MARK_FUNCS = ["janet_mark_string", "janet_mark_buffer", "janet_mark_abstract", "janet_mark_many", "janet_mark_keys", "janet_mark_values",
              "janet_mark_kvs", "janet_mark_array", "janet_mark_table", "janet_mark_struct", "janet_mark_tuple", "janet_mark_funcenv",
              "janet_mark_funcdef", "janet_mark_function", "janet_mark_fiber"]
CALLBACKS = [("src/core/ev.c", "janet_stream_mark"), ("src/core/ev.c", "janet_ev_mark"), ("src/core/ev.c", "janet_chanat_mark_fq"),
             ("src/core/ev.c", "janet_chanat_mark"), ("src/core/parse.c", "parsermark"), ("src/core/peg.c", "peg_mark"),
             ("src/core/os.c", "janet_proc_mark"), ("src/core/filewatch.c", "janet_filewatch_mark"),
             ("src/core/ffi.c", "signature_mark"), ("src/core/ffi.c", "struct_mark")]
EV_CALLBACKS = [("src/core/ev.c", "ev_callback_read"), ("src/core/ev.c", "ev_callback_write")]


def norm(s):
    return re.sub(r"\s+", "", s)


def sites(body):
    """ordered list of (callee, normalised argument text) for every marking call / tail-loop step in a function body"""
    out = []
    for m in re.finditer(r"\b(janet_mark(?:_\w+)?|janet_gc_mark|janet_gcroot|janet_env_maybe_detach)\s*\(|\b(\w+)\s*=\s*(\w+(?:->\w+|\(\w+\)))\s*;\s*(?:if\s*\(\s*\w+\s*\)\s*)?goto\s+recur\s*;"
                         r"|(->type->gcmark)\s*\(\s*\w|(\w+)->ev_callback\s*\(\s*\w+\s*,\s*JANET_ASYNC_EVENT_MARK\s*\)", body):
        if m.group(1):
            i, depth = m.end() - 1, 0
            while i < len(body):
                if body[i] == "(":
                    depth += 1
                elif body[i] == ")":
                    depth -= 1
                    if depth == 0:
                        break
                i += 1
            arg = norm(body[m.end():i])
            if m.group(1) != "janet_mark" and norm(body[max(0, m.start() - 40):m.start()]).endswith("depth--;"):
                arg += "@depth-1"      # typed call made one marking level lower (`if (depth) { depth--; f(x); depth++; }`)
            out.append((m.group(1), arg))
        elif m.group(2):
            out.append(("tail-loop", norm(m.group(3))))
        elif m.group(4):
            out.append(("gcmark-callback", "type"))
        else:
            out.append(("ev-callback", "JANET_ASYNC_EVENT_MARK"))
    return out


def extract(tree):
    gc = csrc.strip_comments(csrc.read(tree, "src/core/gc.c"))
    gch = csrc.strip_comments(csrc.read(tree, "src/core/gc.h"))
    jh = csrc.strip_comments(csrc.read(tree, "src/include/janet.h"))
    info = {}
    m = re.search(r"#define\s+JANET_RECURSION_GUARD\s+(\w+)", jh)
    if not m:
        raise ExtractError("JANET_RECURSION_GUARD not found")
    info["recursionGuard"] = csrc.cint(m.group(1))
    mem = csrc.enum_values(gch, "JANET_MEMORY_NONE")
    if len(mem) != 18:
        raise ExtractError("JanetMemoryType: expected 18 members, found %d" % len(mem))
    info["mem"] = mem
    # janet_mark: depth check / decrement / restore, spill with janet_gcroot
    jm = norm(csrc.func_body(gc, "janet_mark"))
    if not (jm.startswith("{if(depth){depth--;switch(janet_type(x)){") and jm.endswith("depth++;}else{janet_gcroot(x);}}")):
        raise ExtractError("janet_mark: depth-limited shape not recognised")
    cases = re.findall(r"case(JANET_\w+):", jm)
    info["markCases"] = cases
    # janet_collect: mark phase order and the drain loop
    jc = norm(csrc.func_body(gc, "janet_collect"))
    pat = (r"depth=JANET_RECURSION_GUARD;.*orig_rootcount=janet_vm\.root_count;(?:#ifdefJANET_EV)?janet_ev_mark\(\);(?:#endif)?"
           r"(?:if\(NULL!=janet_vm\.root_fiber\))?janet_mark_fiber\(janet_vm\.root_fiber\);for\(i=0;i<orig_rootcount;i\+\+\)janet_mark\(janet_vm\.roots\[i\]\);"
           r"while\(orig_rootcount<janet_vm\.root_count\)\{Janetx=janet_vm\.roots\[--janet_vm\.root_count\];janet_mark\(x\);\}"
           r"janet_vm\.gc_mark_phase=0;.*janet_sweep\(\);")
    if not re.search(pat, jc):
        raise ExtractError("janet_collect: mark order / drain loop / sweep call not recognised")
    # the root fiber is an optional root (janet_collect may be called from C outside any running fiber)
    info["rootFiberGuarded"] = "if(NULL!=janet_vm.root_fiber)janet_mark_fiber(janet_vm.root_fiber);" in jc
    if "if(janet_vm.gc_suspend)return;" not in jc:
        raise ExtractError("janet_collect: gc_suspend test not recognised")
    # janet_gcroot pushes at roots[root_count]
    gr = norm(csrc.func_body(gc, "janet_gcroot"))
    if "janet_vm.roots[janet_vm.root_count]=root;janet_vm.root_count=newcount;" not in gr:
        raise ExtractError("janet_gcroot: push not recognised")
    # ---- root-set protocol (session 3): janet_gcroot growth, janet_gc_idequals, janet_gcunroot, janet_gcunrootall
    m = re.fullmatch(r"\{size_tnewcount=janet_vm\.root_count\+1;if\(newcount>janet_vm\.root_capacity\)\{size_tnewcap=(\d+)\*newcount;"
                     r"janet_vm\.roots=janet_realloc\(janet_vm\.roots,sizeof\(Janet\)\*newcap\);if\(NULL==janet_vm\.roots\)\{JANET_OUT_OF_MEMORY;\}"
                     r"janet_vm\.root_capacity=newcap;\}janet_vm\.roots\[janet_vm\.root_count\]=root;janet_vm\.root_count=newcount;\}", gr)
    if not m:
        raise ExtractError("janet_gcroot: grow-then-push shape not recognised")
    info["rootGrowMul"] = int(m.group(1))
    jtypes = csrc.enum_values(jh, "JANET_NUMBER")
    if len(jtypes) != 16:
        raise ExtractError("JanetType: expected 16 members, found %d" % len(jtypes))
    info["jtypes"] = jtypes
    ie = norm(csrc.func_body(gc, "janet_gc_idequals"))
    m = re.fullmatch(r"\{if\(janet_type\(lhs\)!=janet_type\(rhs\)\)return0;switch\(janet_type\(lhs\)\)\{((?:case\w+:)+)return1;"
                     r"default:returnjanet_unwrap_pointer\(lhs\)==janet_unwrap_pointer\(rhs\);\}\}", ie)
    if not m:
        raise ExtractError("janet_gc_idequals: shape not recognised")
    info["idequalsAlways"] = sorted(jtypes[c] for c in re.findall(r"case(\w+):", m.group(1)))
    ur = norm(csrc.func_body(gc, "janet_gcunroot"))
    if ur != ("{Janet*vtop=janet_vm.roots+janet_vm.root_count;for(Janet*v=janet_vm.roots;v<vtop;v++){if(janet_gc_idequals(root,*v)){"
              "*v=janet_vm.roots[--janet_vm.root_count];return1;}}return0;}"):
        raise ExtractError("janet_gcunroot: ascending scan / swap-with-last / return shape not recognised")
    ua = norm(csrc.func_body(gc, "janet_gcunrootall"))
    head = "{Janet*vtop=janet_vm.roots+janet_vm.root_count;intret=0;"
    swap = "if(janet_gc_idequals(root,*v)){*v=janet_vm.roots[--janet_vm.root_count];vtop--;ret=1;}"
    if ua == head + "for(Janet*v=janet_vm.roots;v<vtop;v++){" + swap + "}returnret;}":
        info["unrootallRescans"] = False      # the value swapped into the slot is skipped by v++
    elif ua in (head + "Janet*v=janet_vm.roots;while(v<vtop){" + swap + "else{v++;}}returnret;}",
                head + "for(Janet*v=janet_vm.roots;v<vtop;){" + swap + "else{v++;}}returnret;}"):
        info["unrootallRescans"] = True
    else:
        raise ExtractError("janet_gcunrootall: loop shape not recognised")
    # ---- suspension and the collection decision
    if norm(csrc.func_body(gc, "janet_gclock")) != "{returnjanet_vm.gc_suspend++;}":
        raise ExtractError("janet_gclock: shape not recognised")
    if norm(csrc.func_body(gc, "janet_gcunlock")) != "{janet_vm.gc_suspend=handle;}":
        raise ExtractError("janet_gcunlock: shape not recognised")
    if norm(csrc.func_body(gc, "janet_gcpressure")) != "{janet_vm.next_collection+=s;}":
        raise ExtractError("janet_gcpressure: shape not recognised")
    m = re.match(r"\{uint32_ti;if\(janet_vm\.gc_suspend\)return;depth=JANET_RECURSION_GUARD;janet_vm\.gc_mark_phase=1;"
                 r"if\(janet_vm\.block_count\*(\d+)>janet_vm\.gc_interval\)\{janet_vm\.gc_interval=janet_vm\.block_count\*sizeof\(JanetGCObject\);\}"
                 r"orig_rootcount=janet_vm\.root_count;", jc)
    if not m:
        raise ExtractError("janet_collect: suspend early-out / interval heuristic prologue not recognised")
    info["intervalMul"] = int(m.group(1))
    if not re.search(r"janet_sweep\(\);janet_vm\.next_collection=0;janet_free_all_scratch\(\);\}$", jc):
        raise ExtractError("janet_collect: epilogue (next_collection reset, scratch release) not recognised")
    if "janet_vm.next_collection+=size;" not in norm(csrc.func_body(gc, "janet_gcalloc")) or "janet_vm.block_count++;" not in norm(csrc.func_body(gc, "janet_gcalloc")):
        raise ExtractError("janet_gcalloc: pressure / block_count accounting not recognised")
    # struct JanetGCObject { int32_t flags; union { JanetGCObject *next; volatile JanetAtomicInt refcount; } data; }  (LP64 layout)
    m = re.search(r"struct\s+JanetGCObject\s*\{\s*int32_t\s+flags\s*;\s*union\s*\{\s*JanetGCObject\s*\*\s*next\s*;\s*volatile\s+JanetAtomicInt\s+refcount\s*;[^}]*\}\s*data\s*;\s*\}", jh)
    if not m:
        raise ExtractError("struct JanetGCObject: layout not recognised")
    info["gcObjectSize"] = 16      # 4 (flags) + 4 (padding) + 8 (pointer-sized union); the harness prints sizeof and the driver compares
    vmc = csrc.strip_comments(csrc.read(tree, "src/core/vm.c"))
    m = re.search(r"#define\s+maybe_collect\(\)\s*do\s*\{\\\s*if\s*\(\s*janet_vm\.next_collection\s*(>=|>)\s*janet_vm\.gc_interval\s*\)\s*janet_collect\(\);\s*\}\s*while\s*\(0\)", vmc)
    if not m:
        raise ExtractError("vm.c maybe_collect: decision not recognised")
    info["maybeCollectGe"] = m.group(1) == ">="
    m2 = re.search(r"#define\s+maybe_collect\(\)\s*do\s*\{\\\s*if\s*\(\(janet_verif_gc_safepoint\s*&&\s*janet_verif_gc_safepoint\(\)\)\s*\|\|\s*\\\s*janet_vm\.next_collection\s*(>=|>)\s*janet_vm\.gc_interval\s*\)\s*janet_collect\(\);", vmc)
    if not m2 or (m2.group(1) == ">=") != info["maybeCollectGe"]:
        raise ExtractError("vm.c maybe_collect (JANET_VERIF variant): decision differs from the plain one")
    ji = norm(csrc.func_body(vmc, "janet_init"))
    m = re.search(r"janet_vm\.next_collection=0;janet_vm\.gc_interval=(\w+);janet_vm\.block_count=0;janet_vm\.gc_mark_phase=0;", ji)
    if not m or "janet_vm.roots=NULL;janet_vm.root_count=0;janet_vm.root_capacity=0;" not in ji:
        raise ExtractError("janet_init: initial GC state not recognised")
    info["initialGcInterval"] = csrc.cint(m.group(1))
    # every reader/writer of gc_suspend outside gc.c is a save / restore pair (janet_try_init / janet_restore)
    susp_sites = []
    import os as _os
    for rel in sorted(_os.listdir(_os.path.join(tree, "src/core"))):
        if not rel.endswith((".c", ".h")):
            continue
        t = csrc.strip_comments(csrc.read(tree, "src/core/" + rel))
        for mm in re.finditer(r"[^;{}]*\bgc_suspend\b[^;]*;", t):
            susp_sites.append((rel, norm(mm.group(0))))
    expect = [("gc.c", "if(janet_vm.gc_suspend)return;"), ("gc.c", "returnjanet_vm.gc_suspend++;"), ("gc.c", "janet_vm.gc_suspend=handle;"),
              ("state.h", "intgc_suspend;"), ("vm.c", "state->gc_handle=janet_vm.gc_suspend;"), ("vm.c", "janet_vm.gc_suspend=state->gc_handle;")]
    if sorted(susp_sites) != sorted(expect):
        raise ExtractError("gc_suspend is read or written at an unexpected site: %s" % sorted(set(susp_sites) ^ set(expect)))
    info["suspendSites"] = len(susp_sites)
    # gcalloc: which list
    ga = norm(csrc.func_body(gc, "janet_gcalloc"))
    m = re.search(r"if\(type<(JANET_MEMORY_\w+)\)\{mem->data\.next=janet_vm\.blocks;janet_vm\.blocks=mem;\}else\{mem->data\.next=janet_vm\.weak_blocks;janet_vm\.weak_blocks=mem;\}", ga)
    if not m:
        raise ExtractError("janet_gcalloc: list selection not recognised")
    info["weakThreshold"] = mem[m.group(1)]
    # sweep: three passes, conditions
    sw = norm(csrc.func_body(gc, "janet_sweep"))
    keep = "if(current->flags&(JANET_MEM_REACHABLE|JANET_MEM_DISABLED))"
    if sw.count(keep) != 3:
        raise ExtractError("janet_sweep: expected 3 keep tests, found %d" % sw.count(keep))
    for frag, what in (("intcheck_values=(type==JANET_MEMORY_TABLE_WEAKV)||(type==JANET_MEMORY_TABLE_WEAKKV);", "check_values"),
                       ("intcheck_keys=(type==JANET_MEMORY_TABLE_WEAKK)||(type==JANET_MEMORY_TABLE_WEAKKV);", "check_keys"),
                       ("if(check_keys&&!janet_check_liveref(kvs->key))drop=1;if(check_values&&!janet_check_liveref(kvs->value))drop=1;", "drop rule"),
                       ("if(drop){table->count--;table->deleted++;kvs->key=janet_wrap_nil();kvs->value=janet_wrap_false();}", "drop action"),
                       ("if(!janet_check_liveref(array->data[i])){array->data[i]=janet_wrap_nil();}", "weak array rule"),
                       ("current=janet_vm.weak_blocks;", "weak list"), ("current=janet_vm.blocks;", "normal list"),
                       ("janet_deinit_block(current);", "deinit")):
        if frag not in sw:
            raise ExtractError("janet_sweep: %s not recognised" % what)
    if not (sw.index("current=janet_vm.weak_blocks;") < sw.rindex("current=janet_vm.weak_blocks;") < sw.index("current=janet_vm.blocks;")):
        raise ExtractError("janet_sweep: pass order not recognised")
    # check_liveref covers every reference type
    cl = norm(csrc.func_body(gc, "janet_check_liveref"))
    live = sorted(re.findall(r"case(JANET_\w+):", cl))
    info["liverefCases"] = live
    # mark-site table
    table = []
    for f in MARK_FUNCS:
        for callee, arg in sites(csrc.func_body(gc, f)):
            table.append((f, callee, arg))
    for rel, f in CALLBACKS + EV_CALLBACKS:
        src = csrc.strip_comments(csrc.read(tree, rel))
        body = csrc.func_body(src, f)
        if (rel, f) in EV_CALLBACKS:
            m = re.search(r"case\s+JANET_ASYNC_EVENT_MARK\s*:", body)
            if not m:
                raise ExtractError("%s: no MARK case" % f)
            j = body.index("break;", m.end())
            body = body[m.end():j]
        rows = [(f, callee, arg) for callee, arg in sites(body)]
        if f in [x[1] for x in RING_WALKS]:
            # the loops over the queue all have the same body (asserted by ring_walk, which also regenerates their bounds):
            # list its marking calls once, with the index variable spelled `i`
            for v in set(re.findall(r"\bfor\s*\(\s*(?:\w+\s+)?(\w+)\s*=", body)):
                rows = [(a, b, c.replace("[%s]" % v, "[i]")) for a, b, c in rows]
            seen, uniq = set(), []
            for r in rows:
                if r not in seen:
                    seen.add(r)
                    uniq.append(r)
            rows = uniq
        table += rows
    info["markSites"] = table
    # nested funcdefs: either the plain loop, or (since a60a379) one marking level per nested funcdef while one is left
    fd = norm(csrc.func_body(gc, "janet_mark_funcdef"))
    if "for(i=0;i<def->defs_length;++i){if(depth){depth--;janet_mark_funcdef(def->defs[i]);depth++;}else{janet_mark_funcdef(def->defs[i]);}}" in fd:
        info["funcdefNestTakesLevel"] = True
    elif "for(i=0;i<def->defs_length;++i){janet_mark_funcdef(def->defs[i]);}" in fd:
        info["funcdefNestTakesLevel"] = False
    else:
        raise ExtractError("janet_mark_funcdef: loop over def->defs not recognised")
    # typed (not depth-checked) calls between the per-type mark functions: every cycle here is unbounded C recursion
    per_type = {"janet_mark_string", "janet_mark_buffer", "janet_mark_abstract", "janet_mark_array", "janet_mark_table", "janet_mark_struct",
                "janet_mark_tuple", "janet_mark_funcenv", "janet_mark_funcdef", "janet_mark_function", "janet_mark_fiber"}
    direct = []
    for f, callee, arg in table:
        if f in per_type and callee in per_type and (f, callee) not in direct:
            direct.append((f, callee))
    info["directCalls"] = direct
    # fiber statuses: which ones make the collector copy an on-stack closure environment out (janet_env_maybe_detach,
    # called from janet_mark_funcenv), and which ones janet_check_can_resume refuses.  Both predicates are *evaluated*
    # over the whole JanetFiberStatus enum, so any rewriting of the tests is reflected in the generated sets.
    status = csrc.enum_values(jh, "JANET_STATUS_DEAD")
    if len(status) != 16:
        raise ExtractError("JanetFiberStatus: expected 16 members, found %d" % len(status))
    info["status"] = status
    fib = csrc.strip_comments(csrc.read(tree, "src/core/fiber.c"))
    md = csrc.func_body(fib, "janet_env_maybe_detach")
    m = re.search(r"JanetFiberStatus\s+(\w+)\s*=\s*janet_fiber_status\s*\(\s*env->as\.fiber\s*\)\s*;\s*int\s+(\w+)\s*=([^;]*);\s*if\s*\(\s*(\w+)\s*\)\s*\{\s*janet_env_detach\s*\(\s*env\s*\)\s*;\s*\}", md)
    if not m or m.group(2) != m.group(4) or not re.search(r"if\s*\(\s*env->offset\s*>\s*0\s*\)", md):
        raise ExtractError("janet_env_maybe_detach: status test not recognised")
    info["detachStatuses"] = _eval_pred(m.group(3), m.group(1), status, "janet_env_maybe_detach")
    vm = csrc.strip_comments(csrc.read(tree, "src/core/vm.c"))
    cr = csrc.func_body(vm, "janet_check_can_resume")
    m = re.search(r"if\s*\(((?:[^()]|\([^()]*\))*)\)\s*\{\s*const\s+uint8_t\s*\*\s*str\s*=\s*janet_formatc\s*\(\s*\"cannot resume fiber with status", cr)
    if not m or "JanetFiberStatus old_status = janet_fiber_status(fiber);" not in re.sub(r"\s+", " ", cr):
        raise ExtractError("janet_check_can_resume: status test not recognised")
    info["cannotResume"] = _eval_pred(m.group(1), "old_status", status, "janet_check_can_resume")
    return info


def _eval_pred(expr, var, status, where):
    """evaluate a C boolean expression over `var` for every JanetFiberStatus value"""
    e = re.sub(r"\s+", " ", expr).strip().replace("||", " or ").replace("&&", " and ")
    e = re.sub(r"!(?!=)", " not ", e)
    if re.search(r"[^\w\s()<>=!]", e.replace(" or ", " ").replace(" and ", " ").replace(" not ", " ")):
        raise ExtractError("%s: status predicate has an unexpected shape: %s" % (where, expr.strip()))
    out = []
    for name, v in status.items():
        env = dict(status)
        env[var] = v
        try:
            if eval(e, {"__builtins__": {}}, env):
                out.append(v)
        except Exception as ex:
            raise ExtractError("%s: cannot evaluate status predicate (%s)" % (where, ex))
    return sorted(out)


# ---------------------------------------------------------------------------------------------------------------------
# ring walks of the mark phase: the loops that visit a JanetQueue (janet_vm.spawn, a channel's pending queues and items)
RING_WALKS = [("src/core/ev.c", "janet_ev_mark", "ringWalkEvMark"), ("src/core/ev.c", "janet_chanat_mark_fq", "ringWalkChanFq"),
              ("src/core/ev.c", "janet_chanat_mark", "ringWalkChanItems")]
_QFIELD = {"head": "head", "tail": "tail", "capacity": "cap"}


def _paren_end(src, i):
    """src[i] == '(' -> index of the matching ')'"""
    depth = 0
    while i < len(src):
        if src[i] == "(":
            depth += 1
        elif src[i] == ")":
            depth -= 1
            if depth == 0:
                return i
        i += 1
    raise ExtractError("unbalanced parentheses")


def _stmt_end(src, i):
    """end (exclusive) of the statement that starts at src[i:] : a braced block, or up to the next `;` (nested for/if followed)"""
    while src[i] in " \t\r\n":
        i += 1
    if src[i] == "{":
        return csrc.match_brace(src, i)
    m = re.match(r"(for|if|while)\s*\(", src[i:])
    if m:
        j = _paren_end(src, i + m.end() - 1) + 1
        e = _stmt_end(src, j)
        m2 = re.match(r"\s*else\b", src[e:])
        if m.group(1) == "if" and m2:
            return _stmt_end(src, e + m2.end())
        return e
    return src.index(";", i) + 1


def _split_cmp(text):
    """`a OP b` -> (a, OP, b) for the first top-level <, <=, >, >=, != (the `>` of `->` is not an operator)"""
    i, depth = 0, 0
    while i < len(text):
        c = text[i]
        if c in "([":
            depth += 1
        elif c in ")]":
            depth -= 1
        elif depth == 0:
            if text.startswith("->", i):
                i += 2
                continue
            for op in ("<=", ">=", "!=", "<", ">"):
                if text.startswith(op, i):
                    return text[:i].strip(), op, text[i + len(op):].strip()
        i += 1
    return None


class _RingCtx:
    def __init__(self, fname):
        self.fname, self.queue = fname, None
        self.marks = []       # per ring loop: the marking calls of its body (index variable renamed to i)

    def same_marks(self):
        """every loop of the walk passes the same fields of the element to the collector"""
        if any(m != self.marks[0] for m in self.marks[1:]):
            raise ExtractError("%s: the loops over the queue do not mark the same fields: %s" % (self.fname, self.marks))
        return self.marks[0]

    def term(self, t):
        t = norm(t)
        while t.startswith("(") and t.endswith(")") and _paren_end(t, 0) == len(t) - 1:
            t = t[1:-1]
        t = re.sub(r"^\((?:int32_t|uint32_t|size_t|int)\)", "", t)
        if t == "0":
            return "zero"
        m = re.fullmatch(r"([\w.\->]*?)(?:->|\.)(head|tail|capacity)", t)
        if not m:
            raise ExtractError("%s: ring walk uses a term that is not 0 / head / tail / capacity of the queue: `%s`" % (self.fname, t))
        if self.queue is None:
            self.queue = m.group(1)
        elif self.queue != m.group(1):
            raise ExtractError("%s: ring walk mixes two queues (`%s`, `%s`)" % (self.fname, self.queue, m.group(1)))
        return _QFIELD[m.group(2)]

    def cmp(self, lhs, op, rhs):
        """normalised comparison (lhs, op in lt/le/ne, rhs)"""
        ops = {"<": "lt", "<=": "le", "!=": "ne"}
        if op in (">", ">="):
            lhs, rhs, op = rhs, lhs, {">": "<", ">=": "<="}[op]
        if op not in ops:
            raise ExtractError("%s: ring walk comparison `%s` not recognised" % (self.fname, op))
        return lhs, ops[op], rhs


def _ring_loops(ctx, src, aliases):
    """for-loops over a queue index in `src` (a statement list), in order -> [(init, cmp, bound, step)]; loops that mention no
    queue field (e.g. the timer-heap loop of janet_ev_mark) are skipped"""
    loops = []
    i = 0
    while True:
        m = re.compile(r"\bfor\s*\(").search(src, i)
        if not m:
            break
        e = _paren_end(src, m.end() - 1)
        head = src[m.end():e]
        body_end = _stmt_end(src, e + 1)
        body = src[e + 1:body_end]
        i = body_end
        parts = head.split(";")
        if len(parts) != 3:
            raise ExtractError("%s: for-loop header not recognised: `%s`" % (ctx.fname, norm(head)))
        for a, full in aliases.items():
            parts = [re.sub(r"\b%s\b" % re.escape(a), full, x) for x in parts]
        if not re.search(r"(?:->|\.)(head|tail|capacity)\b", head) and not any(a in head for a in aliases):
            continue
        mi = re.fullmatch(r"\s*(?:(?:u?int32_t|size_t|int)\s+)?(\w+)\s*=\s*(.+?)\s*", parts[0], re.S)
        if not mi:
            raise ExtractError("%s: ring loop initialiser not recognised: `%s`" % (ctx.fname, norm(parts[0])))
        v = mi.group(1)
        init = ctx.term(mi.group(2))
        mc = _split_cmp(parts[1])
        if not mc:
            raise ExtractError("%s: ring loop condition not recognised: `%s`" % (ctx.fname, norm(parts[1])))
        lhs, op, rhs = ctx.cmp(*mc)
        if lhs != v:
            raise ExtractError("%s: ring loop condition does not test the index on the left: `%s`" % (ctx.fname, norm(parts[1])))
        bound = ctx.term(rhs)
        st = norm(parts[2])
        if st in (v + "++", "++" + v, v + "+=1", "%s=%s+1" % (v, v)):
            step = "inc"
        else:
            ms = re.fullmatch(r"%s=\(?\(?%s\+1(<|!=|==|>=)(.+?)\)?\?(.+?):(.+?)\)?" % (v, v), st)
            step = None
            if ms:
                capt = ctx.term(ms.group(2))
                a, b = ms.group(3).strip("()"), ms.group(4).strip("()")
                if capt == "cap" and ((ms.group(1) in ("<", "!=") and a == v + "+1" and b == "0") or
                                      (ms.group(1) in ("==", ">=") and a == "0" and b == v + "+1")):
                    step = "wrapInc"
            if step is None:
                raise ExtractError("%s: ring loop step not recognised: `%s`" % (ctx.fname, st))
        nb = norm(body)
        if re.search(r"\b(break|continue|goto|return)\b", body) or re.search(r"(?<![\w\]])%s(\+\+|--|[-+*/]?=[^=])" % v, nb) or ("++" + v) in nb or ("--" + v) in nb:
            raise ExtractError("%s: ring loop body alters the index or leaves the loop early" % ctx.fname)
        marks = [(c, a.replace("[%s]" % v, "[i]")) for c, a in sites(body)]
        if not marks or any("[i]" not in a for c, a in marks):
            raise ExtractError("%s: ring loop body does not mark the element at the index (`%s`)" % (ctx.fname, marks))
        ctx.marks.append(marks)
        loops.append((init, op, bound, step))
    return loops


def ring_walk(fname, body):
    """(kind, cond, then-loops, else-loops): the structure of the loops by which `fname` visits its JanetQueue"""
    ctx = _RingCtx(fname)
    inner = body.strip()[1:-1]
    # local aliases `JanetQueue *items = &chan->items;` are expanded so that every term names the queue itself
    aliases = {}
    for m in re.finditer(r"\bJanetQueue\s*\*\s*(\w+)\s*=\s*&\s*([\w.\->]+)\s*;", inner):
        aliases[m.group(1)] = m.group(2)
    aliases = {a: (f + "@") for a, f in aliases.items()}       # `items->head` -> `chan->items@->head`
    m = None
    for m0 in re.finditer(r"\bif\s*\(", inner):
        e = _paren_end(inner, m0.end() - 1)
        c = inner[m0.end():e]
        for a, full in aliases.items():
            c = re.sub(r"\b%s\b" % re.escape(a), full, c)
        if re.search(r"(?:->|\.)(head|tail|capacity)\b", c):
            m = (m0, e, c)
            break
    fix = lambda t: t.replace("@->", ".").replace("@.", ".")
    if m is None:
        loops = _ring_loops(ctx, fix(inner), {a: fix(f + "->").rstrip(".") for a, f in aliases.items()})
        if not loops:
            raise ExtractError("%s: no loop over the queue found" % fname)
        ctx.same_marks()
        return ("seq", None, loops, [])
    m0, e, c = m
    mc = _split_cmp(fix(c))
    if not mc:
        raise ExtractError("%s: ring walk branch condition not recognised: `%s`" % (fname, norm(c)))
    lhs, op, rhs = ctx.cmp(*mc)
    cond = (ctx.term(lhs), op, ctx.term(rhs))
    t_end = _stmt_end(inner, e + 1)
    then_src = inner[e + 1:t_end]
    me = re.match(r"\s*else\b", inner[t_end:])
    else_src = ""
    rest_start = t_end
    if me:
        x_end = _stmt_end(inner, t_end + me.end())
        else_src = inner[t_end + me.end():x_end]
        rest_start = x_end
    al = {a: fix(f + "->").rstrip(".") for a, f in aliases.items()}
    before = _ring_loops(ctx, fix(inner[:m0.start()]), al)
    after = _ring_loops(ctx, fix(inner[rest_start:]), al)
    if before or after:
        raise ExtractError("%s: loops over the queue outside the head/tail branch" % fname)
    t, e2 = _ring_loops(ctx, fix(then_src), al), _ring_loops(ctx, fix(else_src), al)
    if not t or not e2:
        raise ExtractError("%s: a branch of the head/tail test has no loop over the queue" % fname)
    ctx.same_marks()
    return ("ite", cond, t, e2)


def ring_walks(tree):
    out = []
    for rel, f, lean in RING_WALKS:
        src = csrc.strip_comments(csrc.read(tree, rel))
        out.append((f, lean, ring_walk(f, csrc.func_body(src, f))))
    return out


def render_ring_walks(walks):
    L = []
    L.append("/-- the loops by which the mark phase visits a JanetQueue (ring buffer: head, tail, capacity), as written in the source:")
    L.append("`for (i = init; i cmp bound; step)` with terms 0 / q.head / q.tail / q.capacity, `step` either `i++` or")
    L.append("`i = i + 1 < capacity ? i + 1 : 0`, optionally under one `if (lhs cmp rhs) … else …`.  Interpreted by GC/RingMark.lean. -/")
    L.append("inductive QTerm where | head | tail | cap | zero deriving DecidableEq, Repr")
    L.append("inductive QCmp where | lt | le | ne deriving DecidableEq, Repr")
    L.append("inductive QStep where | inc | wrapInc deriving DecidableEq, Repr")
    L.append("structure ForLoop where\n  init : QTerm\n  cmp : QCmp\n  bound : QTerm\n  step : QStep\n  deriving DecidableEq, Repr")
    L.append("inductive RingWalk where\n  | seq (loops : List ForLoop)\n  | ite (lhs : QTerm) (cmp : QCmp) (rhs : QTerm) (thenLoops elseLoops : List ForLoop)\n  deriving DecidableEq, Repr")
    def loops(ls):
        return "[" + ", ".join("⟨.%s, .%s, .%s, .%s⟩" % l for l in ls) + "]"
    for f, lean, (kind, cond, a, b) in walks:
        L.append("/-- %s -/" % f)
        if kind == "seq":
            L.append("abbrev %s : RingWalk := .seq %s" % (lean, loops(a)))
        else:
            L.append("abbrev %s : RingWalk := .ite .%s .%s .%s %s %s" % ((lean,) + cond + (loops(a), loops(b))))
    L.append("abbrev ringWalks : List (String × RingWalk) := [" + ", ".join('("%s", %s)' % (f, lean) for f, lean, _ in walks) + "]\n")
    return "\n".join(L)


# ---------------------------------------------------------------------------------------------------------------------
# the sweep's side effect on the symbol cache
def symcache_facts(tree):
    """janet_sweep -> janet_deinit_block(case JANET_MEMORY_SYMBOL) -> janet_symbol_deinit, and what the latter / the lookup
    write into a vacated bucket.  The shapes of symcache.c are recognised by C03's translator (tools/gen/value.py, imported
    read-only); GC/SymSweep.lean composes C03's cache model with `collect`."""
    from . import value as gen_value
    c, _ = gen_value.extract(tree)
    sc = c["_sym"]
    gc = csrc.strip_comments(csrc.read(tree, "src/core/gc.c"))
    db = norm(csrc.func_body(gc, "janet_deinit_block"))
    m = re.search(r"caseJANET_MEMORY_SYMBOL:janet_symbol_deinit\(\(\(JanetStringHead\*\)mem\)->data\);break;", db)
    if not m:
        raise ExtractError("janet_deinit_block: `case JANET_MEMORY_SYMBOL: janet_symbol_deinit(((JanetStringHead *) mem)->data); break;` not recognised")
    if db.count("janet_symbol_deinit") != 1:
        raise ExtractError("janet_deinit_block: more than one call of janet_symbol_deinit")
    sw = norm(csrc.func_body(gc, "janet_sweep"))
    # both freeing passes: deinit, unlink, free - in that order, once each
    n = len(re.findall(r"janet_deinit_block\(current\);if\(NULL!=previous\)\{previous->data\.next=next;\}else\{janet_vm\.(?:weak_)?blocks=next;\}janet_free\(current\);", sw))
    if n != 2 or sw.count("janet_deinit_block(") != 2:
        raise ExtractError("janet_sweep: the two freeing passes (deinit / unlink / free) not recognised")
    return {"symMoveVacatedDeleted": sc["symMoveVacatedDeleted"], "symDeinitWritesDeleted": sc["symDeinitWritesDeleted"],
            "symCacheInitCap": sc["symCacheInitCap"], "sweepDeinitsFreedSymbols": True}


# ---------------------------------------------------------------------------------------------------------------------
# the one gcmark callback whose mark is conditional on STATE: parsermark marks parser->error only when the flag bit
# JANET_PARSER_GENERATED_ERROR is set.  Every write of `->error` / `->flag` in parse.c is regenerated, per function.
def parser_error_sites(tree):
    src = csrc.strip_comments(csrc.read(tree, "src/core/parse.c"))
    for rel in ("src/core/run.c",):
        other = csrc.strip_comments(csrc.read(tree, rel))
        if re.search(r"(?:->|\.)\s*(?:error|flag)\s*(?:\|=|&=|=)(?!=)", other):
            raise ExtractError("%s writes the parser's error / flag fields" % rel)
    sites = []
    for m in re.finditer(r"^((?:static\s+)?[A-Za-z_][\w \t\*]*?)\b(\w+)\s*\(([^;{}()]*)\)\s*\{", src, re.M):
        quals, name = m.group(1), m.group(2)
        if name in ("if", "while", "for", "switch"):
            continue
        body = src[m.end() - 1:csrc.match_brace(src, m.end() - 1)]
        acts = []
        for a in re.finditer(r"(\w+)\s*->\s*(error|flag)\s*(\|=|&=|=)(?!=)\s*([^;]+);", body):
            field, op, rhs = a.group(2), a.group(3), norm(a.group(4))
            if field == "error":
                if op != "=":
                    raise ExtractError("parse.c %s: `->error %s` not recognised" % (name, op))
                if rhs.startswith('"'):
                    acts.append("errStatic")
                elif rhs == "NULL":
                    acts.append("errNull")
                elif re.fullmatch(r"\(constchar\*\)janet_(?:string|cstring|formatc)\(.*\)", rhs):
                    acts.append("errHeap")
                elif re.fullmatch(r"\w+->error", rhs):
                    acts.append("errCopy")
                else:
                    raise ExtractError("parse.c %s: value stored into ->error not recognised: `%s`" % (name, rhs))
            else:
                key = (op, rhs)
                table = {("|=", "JANET_PARSER_GENERATED_ERROR"): "setGen", ("&=", "~JANET_PARSER_GENERATED_ERROR"): "clearGen",
                         ("|=", "JANET_PARSER_DEAD"): "setDead", ("=", "0"): "flagZero", ("=", "JANET_PARSER_DEAD"): "flagOnlyDead",
                         ("=", "JANET_PARSER_GENERATED_ERROR"): "flagOnlyGen"}
                if key in table:
                    acts.append(table[key])
                elif op == "=" and re.fullmatch(r"\w+->flag", rhs):
                    acts.append("flagCopy")
                else:
                    raise ExtractError("parse.c %s: write of ->flag not recognised: `%s %s`" % (name, op, rhs))
        if acts:
            sites.append((name, "static" in quals.split(), acts))
    if not sites:
        raise ExtractError("parse.c: no write of ->error / ->flag found")
    pm = norm(csrc.func_body(src, "parsermark"))
    if pm.count("parser->error") != 1 or "if(parser->flag&JANET_PARSER_GENERATED_ERROR){janet_mark(janet_wrap_string((constuint8_t*)parser->error));}" not in pm:
        raise ExtractError("parsermark: `if (parser->flag & JANET_PARSER_GENERATED_ERROR) janet_mark(<error as string>)` not recognised")
    pc = norm(csrc.func_body(src, "janet_parser_consume"))
    mloop = re.search(r"while\(([^{]*)\)\{JanetParseState\*state=parser->states\+parser->statecount-1;consumed=state->consumer\(parser,state,c\);\}", pc)
    if not mloop or "!parser->error" not in mloop.group(1).split("&&") or pc.count("->consumer(") != 1:
        raise ExtractError("janet_parser_consume: the consumer loop `while (… && !parser->error)` not recognised")
    if src.count("->consumer(") != 1:
        raise ExtractError("parse.c: a consumer callback is invoked outside the loop of janet_parser_consume")
    pe = norm(csrc.func_body(src, "janet_parser_error"))
    if not re.search(r"if\(status==JANET_PARSE_ERROR\)\{.*parser->error=NULL;.*\}returnNULL;", pe):
        raise ExtractError("janet_parser_error: guard `status == JANET_PARSE_ERROR` not recognised")
    ps = norm(csrc.func_body(src, "janet_parser_status"))
    if not ps.startswith("{if(parser->error)returnJANET_PARSE_ERROR;"):
        raise ExtractError("janet_parser_status: `if (parser->error) return JANET_PARSE_ERROR;` first not recognised")
    return sites


def render_parser_sites(sites):
    L = ["/-- every write of `->error` / `->flag` in parse.c, per function, in source order (parsermark marks `error` as a heap",
         "string iff the flag bit JANET_PARSER_GENERATED_ERROR is set - asserted by the translator, as are: consumer callbacks are",
         "invoked only by the loop of janet_parser_consume, which stops at the first error; janet_parser_error acts only when",
         "`error != NULL`).  (function, is `static`, writes) -/",
         "inductive PAct where | errStatic | errNull | errHeap | errCopy | setGen | clearGen | setDead | flagZero | flagOnlyDead | flagOnlyGen | flagCopy",
         "  deriving DecidableEq, Repr",
         "def parserSites : List (String × Bool × List PAct) := ["]
    L.append(",\n".join('  ("%s", %s, [%s])' % (n, "true" if st else "false", ", ".join("." + a for a in acts)) for n, st, acts in sites))
    L.append("]\n")
    return "\n".join(L)


def render(tree):
    info = extract(tree)
    mem = info["mem"]
    out = [csrc.lean_header("src/core/gc.c, gc.h, janet.h, ev.c, parse.c, peg.c, os.c"), "namespace JanetModel.Gen.GC\n"]
    out.append("/-- JANET_RECURSION_GUARD: initial value of the mark phase's depth counter -/")
    out.append("abbrev recursionGuard : Nat := %d\n" % info["recursionGuard"])
    out.append("/-- janet_collect marks the root fiber only when there is one (an optional entry of the model's root list) -/")
    out.append("abbrev rootFiberGuarded : Bool := %s\n" % ("true" if info["rootFiberGuarded"] else "false"))
    out.append("/-- enum JanetMemoryType (gc.h) -/")
    names = {"JANET_MEMORY_NONE": "memNone", "JANET_MEMORY_STRING": "memString", "JANET_MEMORY_SYMBOL": "memSymbol", "JANET_MEMORY_ARRAY": "memArray",
             "JANET_MEMORY_TUPLE": "memTuple", "JANET_MEMORY_TABLE": "memTable", "JANET_MEMORY_STRUCT": "memStruct", "JANET_MEMORY_FIBER": "memFiber",
             "JANET_MEMORY_BUFFER": "memBuffer", "JANET_MEMORY_FUNCTION": "memFunction", "JANET_MEMORY_ABSTRACT": "memAbstract",
             "JANET_MEMORY_FUNCENV": "memFuncEnv", "JANET_MEMORY_FUNCDEF": "memFuncDef", "JANET_MEMORY_THREADED_ABSTRACT": "memThreadedAbstract",
             "JANET_MEMORY_TABLE_WEAKK": "memTableWeakK", "JANET_MEMORY_TABLE_WEAKV": "memTableWeakV", "JANET_MEMORY_TABLE_WEAKKV": "memTableWeakKV",
             "JANET_MEMORY_ARRAY_WEAK": "memArrayWeak"}
    for k, v in mem.items():
        if k not in names:
            raise ExtractError("unknown JanetMemoryType member %s" % k)
        out.append("abbrev %s : Nat := %d" % (names[k], v))
    if set(names) != set(mem):
        raise ExtractError("JanetMemoryType members changed: %s" % sorted(set(names) ^ set(mem)))
    out.append("\n/-- janet_gcalloc puts `type < weakThreshold` on janet_vm.blocks, the rest on janet_vm.weak_blocks -/")
    out.append("abbrev weakThreshold : Nat := %d\n" % info["weakThreshold"])
    out.append("/-- value types janet_mark dispatches on / janet_check_liveref tests -/")
    out.append("def markCases : List String := [" + ", ".join('"%s"' % c for c in info["markCases"]) + "]")
    out.append("def liverefCases : List String := [" + ", ".join('"%s"' % c for c in info["liverefCases"]) + "]\n")
    out.append("/-- every marking call in gc.c's janet_mark_* functions and in the gcmark / event callbacks, in source order:")
    out.append("(function, callee, argument).  callee `janet_mark` = through a value (depth-checked); `janet_mark_<type>` = direct typed")
    out.append("call; `tail-loop` = `x = x->field; goto recur` -/")
    out.append("def markSites : List (String × String × String) := [")
    out.append(",\n".join('  ("%s", "%s", "%s")' % (a, b, c.replace("\\", "\\\\").replace('"', '\\"')) for a, b, c in info["markSites"]))
    out.append("]\n")
    out.append("/-- direct (typed, not depth-checked) calls between the per-type mark functions -/")
    out.append("def directCalls : List (String × String) := [" + ", ".join('("%s", "%s")' % d for d in info["directCalls"]) + "]\n")
    out.append("/-- enum JanetFiberStatus (janet.h) -/")
    for k, v in info["status"].items():
        out.append("abbrev %s : Nat := %d" % ("status" + k[len("JANET_STATUS_"):].capitalize(), v))
    out.append("def statusNames : List String := [" + ", ".join('"%s"' % k for k in info["status"]) + "]")
    out.append("\n/-- statuses of the owning fiber for which janet_env_maybe_detach (run by the mark phase on every reachable on-stack")
    out.append("closure environment) copies the environment off the stack: the status test evaluated over the whole enum -/")
    out.append("def detachStatuses : List Nat := [" + ", ".join(str(v) for v in info["detachStatuses"]) + "]")
    out.append("/-- statuses janet_check_can_resume refuses (same evaluation) -/")
    out.append("def cannotResumeStatuses : List Nat := [" + ", ".join(str(v) for v in info["cannotResume"]) + "]\n")
    out.append("/-- janet_mark_funcdef: is a nested funcdef entered one marking level lower while a level is left (never deferred)? -/")
    out.append("abbrev funcdefNestTakesLevel : Bool := %s\n" % ("true" if info["funcdefNestTakesLevel"] else "false"))
    out.append("/-- enum JanetType (janet.h) -/")
    for k, v in info["jtypes"].items():
        out.append("abbrev %s : Nat := %d" % ("ty" + k[len("JANET_"):].capitalize(), v))
    out.append("\n/-- janet_gcroot: `newcap = rootGrowMul * newcount` when `newcount > root_capacity` -/")
    out.append("abbrev rootGrowMul : Nat := %d" % info["rootGrowMul"])
    out.append("/-- janet_gc_idequals: value types for which it answers 1 whatever the payload; every other type compares pointers -/")
    out.append("abbrev idequalsAlwaysTypes : List Nat := [" + ", ".join(str(v) for v in info["idequalsAlways"]) + "]")
    out.append("/-- janet_gcunrootall: does the loop look again at the slot it has just refilled with the last root? -/")
    out.append("abbrev unrootallRescans : Bool := %s" % ("true" if info["unrootallRescans"] else "false"))
    out.append("/-- janet_collect: `if (block_count * intervalMul > gc_interval) gc_interval = block_count * sizeof(JanetGCObject)` -/")
    out.append("abbrev intervalMul : Nat := %d" % info["intervalMul"])
    out.append("abbrev gcObjectSize : Nat := %d" % info["gcObjectSize"])
    out.append("/-- maybe_collect (vm.c): collect when `next_collection >= gc_interval` (true) or `>` (false) -/")
    out.append("abbrev maybeCollectGe : Bool := %s" % ("true" if info["maybeCollectGe"] else "false"))
    out.append("/-- janet_init: initial gc_interval -/")
    out.append("abbrev initialGcInterval : Nat := %d\n" % info["initialGcInterval"])
    walks = ring_walks(tree)
    out.append(render_ring_walks(walks))
    psites = parser_error_sites(tree)
    out.append(render_parser_sites(psites))
    sf = symcache_facts(tree)
    out.append("/-- symcache.c as the sweep uses it: what janet_symcache_findmem / janet_symbol_deinit store into a vacated bucket")
    out.append("(true = the tombstone JANET_SYMCACHE_DELETED, false = NULL), initial capacity, and: every block freed by either pass")
    out.append("of janet_sweep goes through janet_deinit_block, whose JANET_MEMORY_SYMBOL case calls janet_symbol_deinit on the block's bytes -/")
    out.append("abbrev symMoveVacatedDeleted : Bool := %s" % ("true" if sf["symMoveVacatedDeleted"] else "false"))
    out.append("abbrev symDeinitWritesDeleted : Bool := %s" % ("true" if sf["symDeinitWritesDeleted"] else "false"))
    out.append("abbrev symCacheInitCap : Nat := %d" % sf["symCacheInitCap"])
    out.append("abbrev sweepDeinitsFreedSymbols : Bool := %s\n" % ("true" if sf["sweepDeinitsFreedSymbols"] else "false"))
    out.append("end JanetModel.Gen.GC\n")
    return "\n".join(out), {"parserSites": len(psites), "symcache": sf, "ringWalks": {f: [kind, list(cond) if cond else None, [list(x) for x in a], [list(x) for x in b]] for f, _, (kind, cond, a, b) in walks},
                            "recursionGuard": info["recursionGuard"], "markSites": len(info["markSites"]), "memoryTypes": len(mem),
                            "unrootallRescans": info["unrootallRescans"], "idequalsAlways": info["idequalsAlways"],
                            "rootGrowMul": info["rootGrowMul"], "intervalMul": info["intervalMul"], "suspendSites": info["suspendSites"],
                            "maybeCollectGe": info["maybeCollectGe"], "initialGcInterval": info["initialGcInterval"]}
