"""Translator: asm.c  ->  Gen/Asm.lean (operand range check of `doarg`, operand layout of every instruction type in
`read_instruction`, mnemonic table `janet_ops[]`)."""
import re
from . import csrc, bytecode
from .csrc import ExtractError


def extract(tree):
    src = csrc.strip_comments(csrc.read(tree, "src/core/asm.c"))
    d = csrc.func_body(src, "doarg")
    m = re.search(r"int32_t\s+max\s*=\s*\(\s*1\s*<<\s*\(\(nbytes\s*<<\s*3\)\s*-\s*hassign\)\)\s*-\s*1\s*;", d)
    if not m:
        raise ExtractError("doarg: `max` formula not recognised")
    m = re.search(r"int32_t\s+min\s*=\s*hassign\s*\?\s*-\s*max\s*(?:-\s*(\d+)\s*)?:\s*0\s*;", d)
    if not m:
        raise ExtractError("doarg: `min` formula not recognised")
    slack = int(m.group(1) or 0)
    if not re.search(r"if\s*\(\s*arg\s*<\s*min\s*\)\s*janet_asm_errorv", d) or not re.search(r"if\s*\(\s*arg\s*>\s*max\s*\)\s*janet_asm_errorv", d):
        raise ExtractError("doarg: range tests not recognised")
    if not re.search(r"return\s*\(\(uint32_t\)\s*arg\)\s*<<\s*\(nth\s*<<\s*3\)\s*;", d):
        raise ExtractError("doarg: result expression not recognised")
    ri = csrc.func_body(src, "read_instruction")
    # split into case groups
    layouts = {}
    pos = [(mm.start(), mm.group(1)) for mm in re.finditer(r"case\s+(JINT_\w+)\s*:", ri)]
    groups, cur = [], []
    for i, (p, name) in enumerate(pos):
        cur.append(name)
        end = pos[i + 1][0] if i + 1 < len(pos) else len(ri)
        body = ri[p:end]
        body = body[body.index(":") + 1:]
        if body.strip():
            groups.append((cur, body))
            cur = []
    for names, body in groups:
        calls = re.findall(r"doarg\s*\(\s*\w+\s*,\s*(JANET_OAT_\w+)\s*,\s*(\d+)\s*,\s*(\d+)\s*,\s*([^,]+?)\s*,\s*argt\[(\d+)\]\s*\)", body)
        for ty in names:
            fields = []
            for oat, nth, nbytes, sign, argi in calls:
                sign = sign.strip()
                if sign in ("0", "1"):
                    s = sign == "1"
                else:
                    mm = re.match(r"type\s*==\s*(JINT_\w+)$", sign)
                    if not mm:
                        raise ExtractError("read_instruction: sign expression %r not recognised" % sign)
                    s = mm.group(1) == ty
                nth = int(nth)
                if oat == "JANET_OAT_ENVIRONMENT" and nth == 0:
                    if not re.search(r"instr\s*\|=\s*env\s*<<\s*16\s*;", body):
                        raise ExtractError("read_instruction: environment operand placement not recognised")
                    nth = 2
                fields.append((int(argi), oat[len("JANET_OAT_"):].lower(), nth, int(nbytes), s))
            fields.sort()
            if [f[0] for f in fields] != list(range(1, len(fields) + 1)):
                raise ExtractError("read_instruction: operands of %s are not argt[1..n]" % ty)
            layouts[ty] = [f[1:] for f in fields]
    mt = re.search(r"janet_ops\s*\[\s*\]\s*=\s*\{", src)
    if not mt:
        raise ExtractError("janet_ops[] not found")
    i = src.index("{", mt.start())
    body = src[i + 1:csrc.match_brace(src, i) - 1]
    mnem = dict((b, a) for a, b in re.findall(r'\{\s*"([^"]+)"\s*,\s*(JOP_\w+)\s*\}', body))
    return slack, layouts, mnem


def extract_decode(tree):
    """janet_asm_decode_instruction: per instruction type, the operand fields the disassembler extracts:
    `oparg(n, mask)` = unsigned field at byte n of popcount(mask)/8 bytes; `(int32_t)instr >> k` = signed field from byte k/8 to the top."""
    src = csrc.strip_comments(csrc.read(tree, "src/core/asm.c"))
    body = csrc.func_body(src, "janet_asm_decode_instruction")
    if not re.search(r"#define\s+oparg\s*\(\s*shift\s*,\s*mask\s*\)\s*\(\(instr\s*>>\s*\(\(shift\)\s*<<\s*3\)\)\s*&\s*\(mask\)\)", csrc.read(tree, "src/core/asm.c")):
        raise ExtractError("janet_asm_decode_instruction: oparg macro not recognised")
    if not re.search(r"if\s*\(\s*instr\s*&\s*0x80\s*\)\s*\{\s*janet_tuple_flag\s*\(\s*ret\s*\)\s*\|=\s*JANET_TUPLE_FLAG_BRACKETCTOR", body):
        raise ExtractError("janet_asm_decode_instruction: breakpoint bit handling not recognised")
    pos = [(mm.start(), mm.group(1)) for mm in re.finditer(r"case\s+(JINT_\w+)\s*:", body)]
    out, cur = {}, []
    for i, (p, name) in enumerate(pos):
        cur.append(name)
        end = pos[i + 1][0] if i + 1 < len(pos) else len(body)
        seg = body[p:end]
        seg = seg[seg.index(":") + 1:]
        if not seg.strip():
            continue
        m = re.search(r"ret\s*=\s*tup(\d)\s*\((.*?)\)\s*;\s*break\s*;", seg, flags=re.S)
        if not m:
            raise ExtractError("janet_asm_decode_instruction: case %s not recognised" % cur)
        n = int(m.group(1))
        args = m.group(2)
        fields = []
        for a in re.finditer(r"janet_wrap_integer\s*\(\s*(?:oparg\s*\(\s*(\d)\s*,\s*(0x[0-9A-Fa-f]+)\s*\)|\(int32_t\)\s*instr\s*>>\s*(\d+))\s*\)", args):
            if a.group(1):
                mask = int(a.group(2), 16)
                nb = {0xFF: 1, 0xFFFF: 2, 0xFFFFFF: 3}.get(mask)
                if nb is None:
                    raise ExtractError("janet_asm_decode_instruction: mask %#x" % mask)
                fields.append((int(a.group(1)), nb, False))
            else:
                k = int(a.group(3))
                if k % 8 or not 8 <= k <= 24:
                    raise ExtractError("janet_asm_decode_instruction: shift %d" % k)
                fields.append((k // 8, 4 - k // 8, True))
        if len(fields) != n - 1:
            raise ExtractError("janet_asm_decode_instruction: %s: %d operands recognised, tuple has %d" % (cur, len(fields), n - 1))
        for t in cur:
            out[t] = fields
        cur = []
    return out


def render(tree):
    slack, layouts, mnem = extract(tree)
    ops, types, jint = bytecode.extract(tree)
    for t in jint:
        if t not in layouts:
            raise ExtractError("read_instruction has no case for %s" % t)
    for name, _ in ops:
        if name not in mnem:
            raise ExtractError("janet_ops[] has no mnemonic for %s" % name)
    def ln(t):
        n = bytecode.lean_name(t)
        return "none_" if n == "0" else n
    o = [csrc.lean_header("src/core/asm.c"), "import JanetModel.Gen.Bytecode\n", "namespace JanetModel.Gen.Asm\nopen JanetModel.Gen.Bytecode\n"]
    o.append("/-- `doarg`: `min = hassign ? -max - doargMinSlack : 0` -/\nabbrev doargMinSlack : Int := %d\n" % slack)
    o.append("/-- one operand of an instruction word: byte position, width, signedness (`doarg(a, kind, nth, nbytes, hassign, …)`) -/")
    o.append("structure Field where\n  nth : Nat\n  nbytes : Nat\n  signed : Bool\n  deriving DecidableEq, Repr\n")
    o.append("/-- operand layout per instruction type (`read_instruction`) -/\ndef fieldsOf : IType → List Field")
    for t in sorted(jint, key=jint.get):
        o.append("  | .%s => [%s]" % (ln(t), ", ".join("⟨%d, %d, %s⟩" % (nth, nb, "true" if s else "false") for (_, nth, nb, s) in layouts[t])))
    dec = extract_decode(tree)
    for t in jint:
        if t not in dec:
            raise ExtractError("janet_asm_decode_instruction has no case for %s" % t)
    o.append("\n/-- operand fields as the disassembler extracts them (`janet_asm_decode_instruction`) -/\ndef decodeFieldsOf : IType → List Field")
    for t in sorted(jint, key=jint.get):
        o.append("  | .%s => [%s]" % (ln(t), ", ".join("⟨%d, %d, %s⟩" % (nth, nb, "true" if sg else "false") for (nth, nb, sg) in dec[t])))
    o.append("\ndef IType.all : List IType := [%s]\n" % ", ".join("." + ln(t) for t in sorted(jint, key=jint.get)))
    o.append("\nend JanetModel.Gen.Asm\n")
    return "\n".join(o)
