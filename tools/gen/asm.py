"""Translator: asm.c  ->  Gen/Asm.lean (operand range check of `doarg`, operand layout of every instruction type in
`read_instruction`, mnemonic table `janet_ops[]`)."""
import re
from . import csrc, bytecode
from .csrc import ExtractError


def extract(tree):
    src = csrc.strip_comments(csrc.read(tree, "src/core/asm.c"))
    d = csrc.func_body(src, "doarg")
    m = re.search(r"int32_t\s+max\s*=\s*\(\s*1\s*<<\s*\(\(nbytes\s*<<\s*3\)\s*-\s*hassign\)\)\s*-\s*1\s*;", d)
    if not m:
        raise ExtractError("doarg: `max` formula not recognised")
    m = re.search(r"int32_t\s+min\s*=\s*hassign\s*\?\s*-\s*max\s*(?:-\s*(\d+)\s*)?:\s*0\s*;", d)
    if not m:
        raise ExtractError("doarg: `min` formula not recognised")
    slack = int(m.group(1) or 0)
    if not re.search(r"if\s*\(\s*arg\s*<\s*min\s*\)\s*janet_asm_errorv", d) or not re.search(r"if\s*\(\s*arg\s*>\s*max\s*\)\s*janet_asm_errorv", d):
        raise ExtractError("doarg: range tests not recognised")
    if not re.search(r"return\s*\(\(uint32_t\)\s*arg\)\s*<<\s*\(nth\s*<<\s*3\)\s*;", d):
        raise ExtractError("doarg: result expression not recognised")
    ri = csrc.func_body(src, "read_instruction")
    # split into case groups
    layouts = {}
    pos = [(mm.start(), mm.group(1)) for mm in re.finditer(r"case\s+(JINT_\w+)\s*:", ri)]
    groups, cur = [], []
    for i, (p, name) in enumerate(pos):
        cur.append(name)
        end = pos[i + 1][0] if i + 1 < len(pos) else len(ri)
        body = ri[p:end]
        body = body[body.index(":") + 1:]
        if body.strip():
            groups.append((cur, body))
            cur = []
    for names, body in groups:
        calls = re.findall(r"doarg\s*\(\s*\w+\s*,\s*(JANET_OAT_\w+)\s*,\s*(\d+)\s*,\s*(\d+)\s*,\s*([^,]+?)\s*,\s*argt\[(\d+)\]\s*\)", body)
        for ty in names:
            fields = []
            for oat, nth, nbytes, sign, argi in calls:
                sign = sign.strip()
                if sign in ("0", "1"):
                    s = sign == "1"
                else:
                    mm = re.match(r"type\s*==\s*(JINT_\w+)$", sign)
                    if not mm:
                        raise ExtractError("read_instruction: sign expression %r not recognised" % sign)
                    s = mm.group(1) == ty
                nth = int(nth)
                if oat == "JANET_OAT_ENVIRONMENT" and nth == 0:
                    if not re.search(r"instr\s*\|=\s*env\s*<<\s*16\s*;", body):
                        raise ExtractError("read_instruction: environment operand placement not recognised")
                    nth = 2
                fields.append((int(argi), oat[len("JANET_OAT_"):].lower(), nth, int(nbytes), s))
            fields.sort()
            if [f[0] for f in fields] != list(range(1, len(fields) + 1)):
                raise ExtractError("read_instruction: operands of %s are not argt[1..n]" % ty)
            layouts[ty] = [f[1:] for f in fields]
    mt = re.search(r"janet_ops\s*\[\s*\]\s*=\s*\{", src)
    if not mt:
        raise ExtractError("janet_ops[] not found")
    i = src.index("{", mt.start())
    body = src[i + 1:csrc.match_brace(src, i) - 1]
    mnem = dict((b, a) for a, b in re.findall(r'\{\s*"([^"]+)"\s*,\s*(JOP_\w+)\s*\}', body))
    return slack, layouts, mnem


def render(tree):
    slack, layouts, mnem = extract(tree)
    ops, types, jint = bytecode.extract(tree)
    for t in jint:
        if t not in layouts:
            raise ExtractError("read_instruction has no case for %s" % t)
    for name, _ in ops:
        if name not in mnem:
            raise ExtractError("janet_ops[] has no mnemonic for %s" % name)
    def ln(t):
        n = bytecode.lean_name(t)
        return "none_" if n == "0" else n
    o = [csrc.lean_header("src/core/asm.c"), "import JanetModel.Gen.Bytecode\n", "namespace JanetModel.Gen.Asm\nopen JanetModel.Gen.Bytecode\n"]
    o.append("/-- `doarg`: `min = hassign ? -max - doargMinSlack : 0` -/\nabbrev doargMinSlack : Int := %d\n" % slack)
    o.append("/-- one operand of an instruction word: byte position, width, signedness (`doarg(a, kind, nth, nbytes, hassign, …)`) -/")
    o.append("structure Field where\n  nth : Nat\n  nbytes : Nat\n  signed : Bool\n  deriving DecidableEq, Repr\n")
    o.append("/-- operand layout per instruction type (`read_instruction`) -/\ndef fieldsOf : IType → List Field")
    for t in sorted(jint, key=jint.get):
        o.append("  | .%s => [%s]" % (ln(t), ", ".join("⟨%d, %d, %s⟩" % (nth, nb, "true" if s else "false") for (_, nth, nb, s) in layouts[t])))
    o.append("\ndef IType.all : List IType := [%s]\n" % ", ".join("." + ln(t) for t in sorted(jint, key=jint.get)))
    o.append("\nend JanetModel.Gen.Asm\n")
    return "\n".join(o)
