"""Translator: value.c / util.c / struct.c / janet.h  ->  Gen/Value.lean

Constants of the hash functions, the JanetType order used by janet_compare, janet_tablen's shifts, and *shape checks*
of the comparison code the Lean model (Value/Model.lean) mirrors by hand.  If the shape is no longer recognised the
extractor raises ExtractError (reported by the check as a broken tie)."""
import re
from . import csrc
from .csrc import ExtractError


def _need(m, what):
    if not m:
        raise ExtractError(what + " not recognised")
    return m


def extract(tree):
    c = {}
    util = csrc.strip_comments(csrc.read(tree, "src/core/util.c"))
    value = csrc.strip_comments(csrc.read(tree, "src/core/value.c"))
    struct = csrc.strip_comments(csrc.read(tree, "src/core/struct.c"))
    hdr = csrc.strip_comments(csrc.read(tree, "src/include/janet.h"))
    conf = csrc.strip_comments(csrc.read(tree, "src/conf/janetconf.h"))
    utilh = csrc.strip_comments(csrc.read(tree, "src/core/util.h"))

    if re.search(r"^\s*#\s*define\s+JANET_PRF\b", conf, re.M):
        raise ExtractError("JANET_PRF is defined: string hash is halfsiphash, not the modelled djb2+mix")
    # ---- janet_hash_mix
    b = csrc.func_body(util, "janet_hash_mix")
    m = _need(re.search(r"uint32_t\s+mix1\s*=\s*\(\s*more\s*\+\s*(\w+)\s*\+\s*\(input\s*<<\s*(\d+)\)\s*\+\s*\(input\s*>>\s*(\d+)\)\s*\)\s*;\s*"
                        r"return\s+input\s*\^\s*\(\s*(\w+)\s*\+\s*\(mix1\s*<<\s*(\d+)\)\s*\+\s*\(mix1\s*>>\s*(\d+)\)\s*\)\s*;", b), "janet_hash_mix body")
    c["mixK1"], c["mixShl1"], c["mixShr1"], c["mixK2"], c["mixShl2"], c["mixShr2"] = [csrc.cint(g) for g in m.groups()]
    # ---- janet_string_calchash (non-PRF branch is the first definition)
    b = csrc.func_body(util, "janet_string_calchash")
    m = _need(re.search(r"if\s*\(\s*NULL\s*==\s*str\s*\|\|\s*len\s*==\s*0\s*\)\s*return\s+(\d+)\s*;.*?uint32_t\s+hash\s*=\s*(\d+)\s*;\s*while\s*\(\s*str\s*<\s*end\s*\)\s*"
                        r"hash\s*=\s*\(hash\s*<<\s*(\d+)\)\s*\+\s*hash\s*\+\s*\*str\+\+\s*;\s*hash\s*=\s*janet_hash_mix\s*\(\s*hash\s*,\s*\(uint32_t\)\s*len\s*\)\s*;", b, re.S),
              "janet_string_calchash body")
    c["strEmpty"], c["strSeed"], c["strShl"] = [csrc.cint(g) for g in m.groups()]
    # ---- array / kv hash
    b = csrc.func_body(util, "janet_array_calchash")
    m = _need(re.search(r"uint32_t\s+hash\s*=\s*(\d+)\s*;\s*while\s*\(\s*array\s*<\s*end\s*\)\s*\{\s*hash\s*=\s*janet_hash_mix\s*\(\s*hash\s*,\s*janet_hash\s*\(\s*\*array\+\+\s*\)\s*\)\s*;\s*\}", b),
              "janet_array_calchash body")
    c["arraySeed"] = csrc.cint(m.group(1))
    b = csrc.func_body(util, "janet_kv_calchash")
    m = _need(re.search(r"uint32_t\s+hash\s*=\s*(\d+)\s*;\s*while\s*\(\s*kvs\s*<\s*end\s*\)\s*\{\s*hash\s*=\s*janet_hash_mix\s*\(\s*hash\s*,\s*janet_hash\s*\(\s*kvs->key\s*\)\s*\)\s*;\s*"
                        r"hash\s*=\s*janet_hash_mix\s*\(\s*hash\s*,\s*janet_hash\s*\(\s*kvs->value\s*\)\s*\)\s*;\s*kvs\+\+\s*;\s*\}", b), "janet_kv_calchash body")
    c["kvSeed"] = csrc.cint(m.group(1))
    # ---- janet_tablen
    b = csrc.func_body(util, "janet_tablen")
    _need(re.search(r"if\s*\(\s*n\s*<\s*0\s*\)\s*return\s+0\s*;", b), "janet_tablen negative guard")
    shifts = [int(x) for x in re.findall(r"n\s*\|=\s*n\s*>>\s*(\d+)\s*;", b)]
    if not shifts or not re.search(r"return\s+n\s*\+\s*1\s*;", b):
        raise ExtractError("janet_tablen body not recognised")
    c["tablenShifts"] = shifts
    m = _need(re.search(r"#\s*define\s+janet_maphash\s*\(\s*cap\s*,\s*hash\s*\)\s*\(\s*\(uint32_t\)\s*\(hash\)\s*&\s*\(cap\s*-\s*1\)\s*\)", utilh), "janet_maphash macro")
    # ---- janet_hash
    b = csrc.func_body(value, "janet_hash")
    _need(re.search(r"case\s+JANET_NIL\s*:\s*hash\s*=\s*0\s*;", b), "janet_hash nil case")
    _need(re.search(r"case\s+JANET_BOOLEAN\s*:\s*hash\s*=\s*janet_unwrap_boolean\s*\(x\)\s*;", b), "janet_hash boolean case")
    _need(re.search(r"case\s+JANET_STRING\s*:\s*case\s+JANET_SYMBOL\s*:\s*case\s+JANET_KEYWORD\s*:\s*hash\s*=\s*janet_string_hash\s*\(", b), "janet_hash string case")
    _need(re.search(
        r"case\s+JANET_TUPLE\s*:\s*hash\s*=\s*janet_tuple_hash\s*\(janet_unwrap_tuple\(x\)\)\s*;\s*hash\s*\+=\s*\(janet_tuple_flag\(janet_unwrap_tuple\(x\)\)\s*&\s*JANET_TUPLE_FLAG_BRACKETCTOR\)\s*\?\s*1\s*:\s*0\s*;", b),
        "janet_hash tuple case (stored hash + 1 for bracketed tuples)")
    _need(re.search(r"case\s+JANET_STRUCT\s*:\s*hash\s*=\s*janet_struct_hash\s*\(janet_unwrap_struct\(x\)\)\s*;", b), "janet_hash struct case")
    m = re.search(r"as\.d\s*=\s*janet_unwrap_number\s*\(x\)\s*;\s*(as\.d\s*\+=\s*0\.0\s*;)\s*uint32_t\s+lo\s*=\s*\(uint32_t\)\s*\(as\.u\s*&\s*0xFFFFFFFF\)\s*;\s*"
                  r"uint32_t\s+hi\s*=\s*\(uint32_t\)\s*\(as\.u\s*>>\s*32\)\s*;\s*uint32_t\s+hilo\s*=\s*\(hi\s*\^\s*lo\)\s*\*\s*(\w+)\s*;\s*"
                  r"hash\s*=\s*\(int32_t\)\s*\(\(hilo\s*<<\s*(\d+)\)\s*\|\s*\(hilo\s*>>\s*(\d+)\)\)\s*;", b)
    _need(m, "janet_hash number case (with `as.d += 0.0` normalisation of -0)")
    c["numMul"], c["numShl"], c["numShr"] = csrc.cint(m.group(2)), int(m.group(3)), int(m.group(4))
    m = _need(re.search(r"uint64_t\s+i\s*=\s*murmur64\s*\(\s*janet_u64\s*\(x\)\s*\)\s*;\s*hash\s*=\s*\(int32_t\)\s*\(i\s*>>\s*(\d+)\)\s*;", b), "janet_hash pointer case")
    c["ptrShr"] = int(m.group(1))
    b = csrc.func_body(value, "murmur64")
    m = _need(re.search(r"h\s*\^=\s*h\s*>>\s*(\d+)\s*;\s*h\s*\*=\s*(\w+)\s*;\s*h\s*\^=\s*h\s*>>\s*(\d+)\s*;\s*h\s*\*=\s*(\w+)\s*;\s*h\s*\^=\s*h\s*>>\s*(\d+)\s*;\s*return\s+h\s*;", b), "murmur64 body")
    c["murShr1"], c["murMul1"], c["murShr2"], c["murMul2"], c["murShr3"] = int(m.group(1)), csrc.cint(m.group(2)), int(m.group(3)), csrc.cint(m.group(4)), int(m.group(5))
    # ---- struct end: proto hash mixing
    b = csrc.func_body(struct, "janet_struct_end")
    m = re.search(r"janet_struct_hash\s*\(st\)\s*=\s*janet_kv_calchash\s*\(\s*st\s*,\s*janet_struct_capacity\s*\(st\)\s*\)\s*;\s*"
                  r"if\s*\(\s*janet_struct_proto\s*\(st\)\s*\)\s*\{\s*janet_struct_hash\s*\(st\)\s*\+=\s*(\w+)\s*\*\s*janet_struct_hash\s*\(\s*janet_struct_proto\s*\(st\)\s*\)\s*;\s*\}", b)
    _need(m, "janet_struct_end hash computation (kv hash + protoMul * proto hash)")
    c["protoMul"] = csrc.cint(m.group(1))
    b = csrc.func_body(struct, "janet_struct_begin")
    _need(re.search(r"int32_t\s+capacity\s*=\s*janet_tablen\s*\(\s*2\s*\*\s*count\s*\)\s*;", b), "janet_struct_begin capacity")
    # ---- janet_struct_put_ext / janet_table_put: the early-return guards in front of the probe (which puts are ignored),
    #      and what the duplicate-key branch (`status == 0`) writes
    c["_guards"] = put_guards(struct, csrc.strip_comments(csrc.read(tree, "src/core/table.c")))
    # ---- type order
    ty = csrc.enum_values(hdr, "JANET_NUMBER")
    want = ["JANET_NUMBER", "JANET_NIL", "JANET_BOOLEAN", "JANET_FIBER", "JANET_STRING", "JANET_SYMBOL", "JANET_KEYWORD", "JANET_ARRAY", "JANET_TUPLE",
            "JANET_TABLE", "JANET_STRUCT", "JANET_BUFFER", "JANET_FUNCTION", "JANET_CFUNCTION", "JANET_ABSTRACT", "JANET_POINTER"]
    for w in want:
        if w not in ty:
            raise ExtractError("JanetType member %s missing" % w)
    # ---- shape of compare's cross-type rule
    b = csrc.func_body(value, "janet_compare")
    _need(re.search(r"if\s*\(\s*tx\s*!=\s*ty\s*\)\s*return\s+tx\s*<\s*ty\s*\?\s*-1\s*:\s*1\s*;", b), "janet_compare cross-type rule")
    # ---- symcache.c: the two constants written into vacated slots, thresholds
    sym = csrc.strip_comments(csrc.read(tree, "src/core/symcache.c"))
    b = csrc.func_body(sym, "janet_symcache_findmem")
    _need(re.search(r"index\s*=\s*\(uint32_t\)\s*hash\s*&\s*\(janet_vm\.cache_capacity\s*-\s*1\)\s*;", b), "findmem home index")
    _need(re.search(r"if\s*\(\s*NULL\s*==\s*test\s*\)\s*\{\s*if\s*\(\s*NULL\s*==\s*firstEmpty\s*\)\s*firstEmpty\s*=\s*janet_vm\.cache\s*\+\s*i\s*;\s*goto\s+notfound\s*;", b), "findmem empty-slot branch")
    _need(re.search(r"if\s*\(\s*JANET_SYMCACHE_DELETED\s*==\s*test\s*\)\s*\{\s*if\s*\(\s*firstEmpty\s*==\s*NULL\s*\)\s*firstEmpty\s*=\s*janet_vm\.cache\s*\+\s*i\s*;\s*continue\s*;", b), "findmem tombstone branch")
    m = _need(re.search(r"if\s*\(\s*firstEmpty\s*!=\s*NULL\s*\)\s*\{\s*\*firstEmpty\s*=\s*test\s*;\s*janet_vm\.cache\[i\]\s*=\s*(\w+)\s*;\s*return\s+firstEmpty\s*;\s*\}\s*return\s+janet_vm\.cache\s*\+\s*i\s*;", b),
              "findmem move-into-first-tombstone branch")
    sc = {}
    if m.group(1) not in ("JANET_SYMCACHE_DELETED", "NULL"):
        raise ExtractError("findmem: vacated slot set to %s" % m.group(1))
    sc["symMoveVacatedDeleted"] = m.group(1) == "JANET_SYMCACHE_DELETED"
    b = csrc.func_body(sym, "janet_symbol_deinit")
    # structure, not statement order: under `if (status)` the function decrements cache_count, increments cache_deleted and
    # stores ONE constant into *bucket (the model's `deinit` has a single unconditional write)
    m = _need(re.search(r"if\s*\(\s*status\s*\)\s*\{", b), "janet_symbol_deinit: `if (status) {`")
    blk = b[m.end() - 1:csrc.match_brace(b, m.end() - 1)]
    writes = re.findall(r"\*\s*bucket\s*=\s*([^;]+);", blk)
    stmts = [re.sub(r"\s+", "", x) for x in blk.strip()[1:-1].split(";") if x.strip()]
    want_stmts = {"janet_vm.cache_count--", "janet_vm.cache_deleted++"}
    if len(writes) != 1 or set(stmts) - {"*bucket=" + re.sub(r"\s+", "", writes[0])} != want_stmts or len(stmts) != 3:
        raise ExtractError("janet_symbol_deinit body not recognised (expected exactly: cache_count--, cache_deleted++, one store to *bucket; found %r)" % stmts)
    w = writes[0].strip()
    if w not in ("JANET_SYMCACHE_DELETED", "NULL"):
        raise ExtractError("janet_symbol_deinit: slot set to %s" % w)
    sc["symDeinitWritesDeleted"] = w == "JANET_SYMCACHE_DELETED"
    b = csrc.func_body(sym, "janet_symcache_put")
    _need(re.search(r"if\s*\(\s*\(janet_vm\.cache_count\s*\+\s*janet_vm\.cache_deleted\)\s*\*\s*2\s*>\s*janet_vm\.cache_capacity\s*\)\s*\{\s*int\s+status\s*;\s*"
                    r"janet_cache_resize\s*\(\s*janet_tablen\s*\(\s*\(\s*2\s*\*\s*janet_vm\.cache_count\s*\+\s*1\s*\)\s*\)\s*\)\s*;\s*bucket\s*=\s*janet_symcache_find\s*\(\s*x\s*,\s*&status\s*\)\s*;\s*\}\s*"
                    r"janet_vm\.cache_count\+\+\s*;\s*\*bucket\s*=\s*x\s*;", b), "janet_symcache_put body")
    b = csrc.func_body(sym, "janet_symcache_init")
    m = _need(re.search(r"janet_vm\.cache_capacity\s*=\s*(\d+)\s*;", b), "janet_symcache_init capacity")
    sc["symCacheInitCap"] = int(m.group(1))
    sc.update(gensym_facts(sym, csrc.strip_comments(csrc.read(tree, "src/core/state.h"))))
    c["_sym"] = sc
    return c, {k: ty[k] for k in want}


def _loops(body):
    """every loop of a function body as (kind, condition text, text of the loop body incl. condition): do/while, while, for.
    Located by structure (keyword + balanced parentheses / braces), not by layout."""
    out = []
    for m in re.finditer(r"\b(do|while|for)\b", body):
        kind, i = m.group(1), m.end()
        if kind == "do":
            j = body.find("{", i)
            if j < 0 or body[i:j].strip():
                continue
            e = csrc.match_brace(body, j)
            mw = re.match(r"\s*while\s*\(", body[e:])
            if not mw:
                continue
            k = e + mw.end() - 1
            ce = _match_paren(body, k)
            out.append(("do", body[k + 1:ce - 1], body[j:ce]))
        else:
            mp = re.match(r"\s*\(", body[i:])
            if not mp:
                continue
            k = i + mp.end() - 1
            ce = _match_paren(body, k)
            rest = body[ce:]
            if kind == "while" and re.match(r"\s*;", rest):
                continue                      # the tail of a do/while
            mb = re.match(r"\s*\{", rest)
            if mb:
                be = csrc.match_brace(body, ce + mb.end() - 1)
            else:
                be = body.find(";", ce) + 1
            out.append((kind, body[k + 1:ce - 1], body[k:be]))
    return out


def _match_paren(src, i):
    assert src[i] == "("
    depth = 0
    while i < len(src):
        if src[i] == "(":
            depth += 1
        elif src[i] == ")":
            depth -= 1
            if depth == 0:
                return i + 1
        i += 1
    raise ExtractError("unbalanced parenthesis")


def gensym_facts(sym, stateh):
    """janet_symbol_gen / inc_gensym / the counter's initialisation (symcache.c), as data for Value/SymGen.lean:
       * gensymProbeLoop: the probe `janet_symcache_findmem(janet_vm.gensym_counter, …, &status)` sits in a loop that
         repeats while `status` (found) and advances the counter with inc_gensym() on every repetition, and the bucket of the
         failed probe goes to janet_symcache_put  (structure, not text: do/while, while or for are all accepted);
       * gensymSteps: the special digit transitions of inc_gensym in source order (from, to, carry?) - every other digit is
         incremented and the loop stops; gensymDigits: the positions it walks (sizeof-2 down to 1);
       * gensymInit: the initial counter bytes (memset '0', [0] = '_'), name length sizeof-1."""
    f = {}
    m = _need(re.search(r"uint8_t\s+gensym_counter\s*\[\s*(\d+)\s*\]\s*;", stateh), "state.h gensym_counter declaration")
    size = int(m.group(1))
    b = csrc.func_body(sym, "janet_symcache_init")
    m = _need(re.search(r"memset\s*\(\s*&?\s*janet_vm\.gensym_counter\s*,\s*'(.)'\s*,\s*sizeof\s*\(\s*janet_vm\.gensym_counter\s*\)\s*\)\s*;\s*"
                        r"janet_vm\.gensym_counter\s*\[\s*0\s*\]\s*=\s*'(.)'\s*;", b), "janet_symcache_init: gensym counter initialisation")
    f["gensymInit"] = [ord(m.group(2))] + [ord(m.group(1))] * (size - 2)
    # ---- inc_gensym
    b = csrc.func_body(sym, "inc_gensym")
    ctr = r"janet_vm\.gensym_counter"
    m = _need(re.search(r"for\s*\(\s*int\s+(\w+)\s*=\s*sizeof\s*\(\s*" + ctr + r"\s*\)\s*-\s*2\s*;\s*\1\s*;\s*\1--\s*\)\s*\{", b), "inc_gensym loop header (sizeof-2 down to 1)")
    iv = m.group(1)
    loop = b[m.end() - 1:csrc.match_brace(b, m.end() - 1)]
    cell = ctr + r"\s*\[\s*" + iv + r"\s*\]"
    steps, pos = [], 1
    while True:
        mm = re.match(r"\s*(?:else\s+)?if\s*\(\s*" + cell + r"\s*==\s*'(.)'\s*\)\s*\{\s*" + cell + r"\s*=\s*'(.)'\s*;\s*(break\s*;)?\s*\}", loop[pos:])
        if not mm:
            break
        steps.append((ord(mm.group(1)), ord(mm.group(2)), mm.group(3) is None))
        pos += mm.end()
    _need(re.fullmatch(r"\s*else\s*\{\s*" + cell + r"\s*\+\+\s*;\s*break\s*;\s*\}\s*\}\s*", loop[pos:]), "inc_gensym: final `else { counter[i]++; break; }`")
    if not steps:
        raise ExtractError("inc_gensym: no digit transitions recognised")
    f["gensymSteps"] = steps
    f["gensymNameLen"] = size - 1
    # ---- janet_symbol_gen: structure of the probe loop
    b = csrc.func_body(sym, "janet_symbol_gen")
    probe = r"janet_symcache_findmem\s*\(\s*" + ctr
    if len(re.findall(probe, b)) == 0:
        raise ExtractError("janet_symbol_gen: probe of the gensym counter not found")
    ok = False
    for kind, cond, text in _loops(b):
        inner = text
        by_cond = re.search(r"\bstatus\b", cond) and not re.search(r"!\s*status\b", cond)
        # `for (;;) { probe; if (!status) break; inc_gensym(); }` / `while (1) { … }`: the exit test is a break on a failed probe
        by_break = re.sub(r"\s+", "", cond) in ("", ";;", "1") and re.search(r"if\s*\(\s*(!\s*status|status\s*==\s*0|0\s*==\s*status)\s*\)\s*\{?\s*break\s*;", inner)
        if re.search(probe, inner) and (by_cond or by_break) and re.search(r"\binc_gensym\s*\(\s*\)", inner):
            # every probe of the counter must be inside this loop, except a first probe in front of a `while (status) { inc; probe }`
            outside = len(re.findall(probe, b.replace(text, "", 1)))
            if outside == 0 or (kind == "while" and outside == 1):
                ok = True
    f["gensymProbeLoop"] = ok
    _need(re.search(r"janet_symcache_put\s*\(\s*\(const\s+uint8_t\s*\*\)\s*\w+\s*,\s*bucket\s*\)\s*;", b), "janet_symbol_gen: janet_symcache_put(sym, bucket)")
    _need(re.search(r"memcpy\s*\(\s*\w+\s*,\s*" + ctr + r"\s*,\s*sizeof\s*\(\s*" + ctr + r"\s*\)\s*\)\s*;", b), "janet_symbol_gen: the new symbol's bytes are the counter")
    return f


GUARD_TAGS = [
    ("nilKeyOrValue", r"janet_checktype\(key,JANET_NIL\)\|\|janet_checktype\(value,JANET_NIL\)"),
    ("nilKey", r"janet_checktype\(key,JANET_NIL\)"),
    ("nanKey", r"janet_checktype\(key,JANET_NUMBER\)&&isnan\(janet_unwrap_number\(key\)\)"),
    ("full", r"janet_struct_hash\(st\)==janet_struct_length\(st\)"),
]


def _guard_list(prefix, fname):
    """the `if (<cond>) return;` statements of `prefix` (the part of a function body in front of its main work), in order,
    each classified; an unknown condition, or any other statement than declarations, is a shape change"""
    out = []
    rest = prefix
    for m in re.finditer(r"if\s*\((.*?)\)\s*return\s*;", prefix, re.S):
        cond = re.sub(r"\s+", "", m.group(1))
        tag = next((t for t, rx in GUARD_TAGS if re.fullmatch(rx, cond)), None)
        if tag is None:
            raise ExtractError("%s: early-return guard `%s` not recognised" % (fname, m.group(1).strip()))
        out.append(tag)
        rest = rest.replace(m.group(0), "", 1)
    # what is left must be declarations / initialisations only
    for stmt in [x.strip().lstrip("{").strip() for x in rest.split(";") if x.strip().lstrip("{").strip()]:
        if not re.match(r"(int32_t|int|JanetKV\s*\*|uint32_t)\s", stmt):
            raise ExtractError("%s: statement `%s` in front of the probe not recognised" % (fname, stmt[:80]))
    return out


def put_guards(struct_src, table_src):
    g = {}
    b = csrc.func_body(struct_src, "janet_struct_put_ext")
    i = b.find("for (dist = 0")
    if i < 0:
        raise ExtractError("janet_struct_put_ext: probe loop `for (dist = 0, …` not found")
    g["structPutGuards"] = _guard_list(b[:i], "janet_struct_put_ext")
    # the loop: empty slot -> store + count++ ; status 1 -> swap and carry on with dist/hash of the evicted pair ; status 0 -> replace value only
    loop = b[i:]
    _need(re.search(r"if\s*\(\s*janet_checktype\s*\(\s*kv->key\s*,\s*JANET_NIL\s*\)\s*\)\s*\{\s*kv->key\s*=\s*key\s*;\s*kv->value\s*=\s*value\s*;\s*"
                    r"janet_struct_hash\s*\(st\)\+\+\s*;\s*return\s*;\s*\}", loop), "janet_struct_put_ext empty-slot branch")
    _need(re.search(r"if\s*\(\s*dist\s*<\s*otherdist\s*\)\s*status\s*=\s*-1\s*;\s*else\s+if\s*\(\s*otherdist\s*<\s*dist\s*\)\s*status\s*=\s*1\s*;\s*"
                    r"else\s+if\s*\(\s*hash\s*<\s*otherhash\s*\)\s*status\s*=\s*-1\s*;\s*else\s+if\s*\(\s*otherhash\s*<\s*hash\s*\)\s*status\s*=\s*1\s*;\s*"
                    r"else\s+status\s*=\s*janet_compare\s*\(\s*key\s*,\s*kv->key\s*\)\s*;", loop), "janet_struct_put_ext priority (dist, hash, janet_compare)")
    _need(re.search(r"if\s*\(\s*status\s*==\s*1\s*\)\s*\{\s*JanetKV\s+temp\s*=\s*\*kv\s*;\s*kv->key\s*=\s*key\s*;\s*kv->value\s*=\s*value\s*;\s*key\s*=\s*temp\.key\s*;\s*"
                    r"value\s*=\s*temp\.value\s*;\s*dist\s*=\s*otherdist\s*;\s*hash\s*=\s*otherhash\s*;\s*\}", loop), "janet_struct_put_ext swap branch (carries dist and hash of the evicted pair)")
    m = _need(re.search(r"else\s+if\s*\(\s*status\s*==\s*0\s*\)\s*\{\s*if\s*\(\s*replace\s*\)\s*\{(.*?)\}\s*return\s*;\s*\}", loop, re.S), "janet_struct_put_ext duplicate-key branch")
    writes = [re.sub(r"\s+", "", x) for x in m.group(1).split(";") if x.strip()]
    fields = []
    for w in writes:
        mm = re.fullmatch(r"kv->(key|value)=(key|value)", w)
        if not mm or mm.group(1) != mm.group(2):
            raise ExtractError("janet_struct_put_ext duplicate-key branch: statement `%s` not recognised" % w)
        fields.append(mm.group(1))
    g["structDupWrites"] = fields
    _need(re.search(r"void\s+janet_struct_put\s*\(\s*JanetKV\s*\*st\s*,\s*Janet\s+key\s*,\s*Janet\s+value\s*\)\s*\{\s*janet_struct_put_ext\s*\(\s*st\s*,\s*key\s*,\s*value\s*,\s*1\s*\)\s*;", struct_src),
          "janet_struct_put = janet_struct_put_ext(…, 1)")
    b = csrc.func_body(table_src, "janet_table_put")
    i = b.find("if (janet_checktype(value, JANET_NIL)) {")
    if i < 0:
        raise ExtractError("janet_table_put: nil-value (remove) branch not found")
    g["tablePutGuards"] = _guard_list(b[:i], "janet_table_put")
    return g


def abstract_hooks(tree):
    """every `JanetAbstractType` initialiser of src/core whose compare or hash slot is not NULL: [(file, name, compare, hash)]"""
    import os
    out = []
    d = os.path.join(tree, "src/core")
    for fn in sorted(os.listdir(d)):
        if not fn.endswith(".c"):
            continue
        src = csrc.strip_comments(csrc.read(tree, "src/core/" + fn))
        for m in re.finditer(r"const\s+JanetAbstractType\s+(\w+)\s*=\s*\{", src):
            i = src.index("{", m.start())
            body = src[i + 1:csrc.match_brace(src, i) - 1]
            items, depth, cur = [], 0, ""
            for ch in body:
                if ch in "({":
                    depth += 1
                elif ch in ")}":
                    depth -= 1
                if ch == "," and depth == 0:
                    items.append(cur.strip())
                    cur = ""
                else:
                    cur += ch
            if cur.strip():
                items.append(cur.strip())
            # name gc gcmark get put marshal unmarshal tostring compare hash next call length bytes; JANET_ATEND_* fills the rest with NULL
            cmpf = items[8] if len(items) > 8 and not items[8].startswith("JANET_ATEND") else "NULL"
            hashf = items[9] if len(items) > 9 and not items[9].startswith("JANET_ATEND") else "NULL"
            if any(it.startswith("JANET_ATEND") for it in items[:9]):
                k = next(j for j, it in enumerate(items) if it.startswith("JANET_ATEND"))
                if k <= 8:
                    cmpf = "NULL"
                if k <= 9:
                    hashf = "NULL"
            if cmpf != "NULL" or hashf != "NULL":
                out.append((fn, items[0].strip('"'), cmpf, hashf))
    return out


def render(tree):
    c, ty = extract(tree)
    out = [csrc.lean_header("src/core/value.c, util.c, struct.c, include/janet.h"), "namespace JanetModel.Gen.Value\n"]
    out.append("/-- constants read off janet_hash_mix, janet_string_calchash, janet_array_calchash, janet_kv_calchash (util.c),")
    out.append("    janet_hash, murmur64 (value.c), janet_struct_end (struct.c) -/")
    sc = c.pop("_sym")
    guards = c.pop("_guards")
    for k, v in c.items():
        if k == "tablenShifts":
            out.append("abbrev tablenShifts : List Nat := [%s]" % ", ".join(str(x) for x in v))
        else:
            out.append("abbrev %s : Nat := %d" % (k, v))
    out.append("\n/-- JanetType enum order (janet.h); janet_compare orders values of different types by it -/")
    for k, v in ty.items():
        out.append("abbrev ty%s : Nat := %d" % (k[6:].capitalize(), v))
    out.append("\n/-- symcache.c: what janet_symcache_findmem writes into the slot it vacates when it moves a live symbol into an earlier")
    out.append("    tombstone, what janet_symbol_deinit writes (true = JANET_SYMCACHE_DELETED, false = NULL), initial capacity -/")
    out.append("abbrev symMoveVacatedDeleted : Bool := %s" % ("true" if sc["symMoveVacatedDeleted"] else "false"))
    out.append("abbrev symDeinitWritesDeleted : Bool := %s" % ("true" if sc["symDeinitWritesDeleted"] else "false"))
    out.append("abbrev symCacheInitCap : Nat := %d" % sc["symCacheInitCap"])
    out.append("\n/-- symcache.c janet_symbol_gen / inc_gensym: the probe of the counter is repeated (with inc_gensym) until it misses;")
    out.append("    the special digit transitions of inc_gensym (from, to, carry into the next position?) in source order, any other")
    out.append("    digit is incremented; initial counter (the symbol name: sizeof(gensym_counter) - 1 bytes) -/")
    out.append("abbrev gensymProbeLoop : Bool := %s" % ("true" if sc["gensymProbeLoop"] else "false"))
    out.append("abbrev gensymSteps : List (Nat × Nat × Bool) := [%s]" % ", ".join("(%d, %d, %s)" % (a, b2, "true" if cy else "false") for a, b2, cy in sc["gensymSteps"]))
    out.append("abbrev gensymInit : List Nat := [%s]" % ", ".join(str(x) for x in sc["gensymInit"][:sc["gensymNameLen"]]))
    out.append("\n/-- struct.c janet_struct_put_ext / table.c janet_table_put: the early-return guards in front of the probe, in source order")
    out.append("    (which puts are ignored: nil key or value, NaN key, struct already full), and the fields the duplicate-key branch")
    out.append("    (`status == 0`, under `replace`) writes -/")
    for k in ("structPutGuards", "structDupWrites", "tablePutGuards"):
        out.append("abbrev %s : List String := [%s]" % (k, ", ".join('"%s"' % x for x in guards[k])))
    out.append("\nend JanetModel.Gen.Value\n")
    return "\n".join(out)
